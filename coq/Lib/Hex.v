(* Hex strings <-> byte lists (bytes are primitive ints 0..255), for compact case files. *)
From Coq Require Import Uint63 List String Ascii NArith ZArith.
Import ListNotations.
Open Scope uint63_scope.

Definition hexval (c : ascii) : int :=
  match c with
  | "0"%char => 0 | "1"%char => 1 | "2"%char => 2 | "3"%char => 3 | "4"%char => 4
  | "5"%char => 5 | "6"%char => 6 | "7"%char => 7 | "8"%char => 8 | "9"%char => 9
  | "a"%char => 10 | "b"%char => 11 | "c"%char => 12 | "d"%char => 13 | "e"%char => 14 | "f"%char => 15
  | _ => 0
  end.

Fixpoint hex (s : string) : list int :=
  match s with
  | String a (String b t) => ((hexval a << 4) lor hexval b) :: hex t
  | _ => nil
  end.

Definition N_of_int (i : int) : N := Z.to_N (to_Z i).
Definition bytesN (l : list int) : list N := map N_of_int l.
