(* Executable SHA-256 over primitive 63-bit integers (bytes are ints 0..255).
   Used ONLY to run byte-level models (Merkle, shreds, commitments) against the
   implementation; every theorem about hashing is parametric in the hash
   function and never relies on this file being "really" SHA-256.  It is
   validated on every run against the implementation's hashes (C15 cases) and
   against the standard test vectors below. *)
From Coq Require Import Uint63 List NArith ZArith.
Import ListNotations.
Open Scope uint63_scope.

Definition byte := int.
Definition bytes := list int.

Definition mask32 : int := 4294967295.
Definition add32 (a b : int) : int := (a + b) land mask32.
Definition rotr (x n : int) : int := ((x >> n) lor (x << (32 - n))) land mask32.
Definition not32 (x : int) : int := x lxor mask32.
Definition ch (x y z : int) := (x land y) lxor ((not32 x) land z).
Definition maj (x y z : int) := (x land y) lxor (x land z) lxor (y land z).
Definition bsig0 x := (rotr x 2) lxor (rotr x 13) lxor (rotr x 22).
Definition bsig1 x := (rotr x 6) lxor (rotr x 11) lxor (rotr x 25).
Definition ssig0 x := (rotr x 7) lxor (rotr x 18) lxor (x >> 3).
Definition ssig1 x := (rotr x 17) lxor (rotr x 19) lxor (x >> 10).

Definition K : list int := [
 0x428a2f98; 0x71374491; 0xb5c0fbcf; 0xe9b5dba5; 0x3956c25b; 0x59f111f1; 0x923f82a4; 0xab1c5ed5;
 0xd807aa98; 0x12835b01; 0x243185be; 0x550c7dc3; 0x72be5d74; 0x80deb1fe; 0x9bdc06a7; 0xc19bf174;
 0xe49b69c1; 0xefbe4786; 0x0fc19dc6; 0x240ca1cc; 0x2de92c6f; 0x4a7484aa; 0x5cb0a9dc; 0x76f988da;
 0x983e5152; 0xa831c66d; 0xb00327c8; 0xbf597fc7; 0xc6e00bf3; 0xd5a79147; 0x06ca6351; 0x14292967;
 0x27b70a85; 0x2e1b2138; 0x4d2c6dfc; 0x53380d13; 0x650a7354; 0x766a0abb; 0x81c2c92e; 0x92722c85;
 0xa2bfe8a1; 0xa81a664b; 0xc24b8b70; 0xc76c51a3; 0xd192e819; 0xd6990624; 0xf40e3585; 0x106aa070;
 0x19a4c116; 0x1e376c08; 0x2748774c; 0x34b0bcb5; 0x391c0cb3; 0x4ed8aa4a; 0x5b9cca4f; 0x682e6ff3;
 0x748f82ee; 0x78a5636f; 0x84c87814; 0x8cc70208; 0x90befffa; 0xa4506ceb; 0xbef9a3f7; 0xc67178f2 ].

Definition H0 : list int := [
 0x6a09e667; 0xbb67ae85; 0x3c6ef372; 0xa54ff53a; 0x510e527f; 0x9b05688c; 0x1f83d9ab; 0x5be0cd19 ].

(* message schedule: from 16 words produce 64 *)
Fixpoint sched_ext (n : nat) (w : list int) (acc : list int) : list int :=
  match n with
  | O => rev acc
  | S n' =>
    match w with
    | w0 :: w1 :: w2 :: w3 :: w4 :: w5 :: w6 :: w7 :: w8 :: w9 :: w10 :: w11 :: w12 :: w13 :: w14 :: w15 :: nil =>
      let nw := add32 (add32 (ssig1 w14) w9) (add32 (ssig0 w1) w0) in
      sched_ext n' [w1; w2; w3; w4; w5; w6; w7; w8; w9; w10; w11; w12; w13; w14; w15; nw] (nw :: acc)
    | _ => rev acc
    end
  end.

Definition schedule (w16 : list int) : list int := w16 ++ sched_ext 48 w16 [].

Record st8 := mk8 { sa : int; sb : int; sc : int; sd : int; se : int; sf : int; sg : int; sh : int }.

Definition round (s : st8) (kw : int * int) : st8 :=
  let (k, w) := kw in
  let t1 := add32 (add32 (add32 (sh s) (bsig1 (se s))) (add32 (ch (se s) (sf s) (sg s)) k)) w in
  let t2 := add32 (bsig0 (sa s)) (maj (sa s) (sb s) (sc s)) in
  mk8 (add32 t1 t2) (sa s) (sb s) (sc s) (add32 (sd s) t1) (se s) (sf s) (sg s).

Definition compress (h : st8) (block16 : list int) : st8 :=
  let r := fold_left round (combine K (schedule block16)) h in
  mk8 (add32 (sa h) (sa r)) (add32 (sb h) (sb r)) (add32 (sc h) (sc r)) (add32 (sd h) (sd r))
      (add32 (se h) (se r)) (add32 (sf h) (sf r)) (add32 (sg h) (sg r)) (add32 (sh h) (sh r)).

(* big-endian words from bytes *)
Fixpoint words_of_bytes (l : list int) : list int :=
  match l with
  | a :: b :: c :: d :: t => ((a << 24) lor (b << 16) lor (c << 8) lor d) :: words_of_bytes t
  | _ => nil
  end.

Fixpoint blocks16 (fuel : nat) (w : list int) : list (list int) :=
  match fuel with
  | O => nil
  | S f => match w with
           | nil => nil
           | _ => firstn 16 w :: blocks16 f (skipn 16 w)
           end
  end.

Fixpoint zeros (n : nat) : list int := match n with O => nil | S n' => 0 :: zeros n' end.

Definition be_bytes8 (n : int) : list int :=
  [ (n >> 56) land 255; (n >> 48) land 255; (n >> 40) land 255; (n >> 32) land 255;
    (n >> 24) land 255; (n >> 16) land 255; (n >> 8) land 255; n land 255 ].

Definition pad (m : list int) : list int :=
  let len := length m in
  let r := Nat.modulo (len + 1)%nat 64%nat in
  let z := if Nat.leb r 56%nat then (56 - r)%nat else (120 - r)%nat in
  m ++ [128] ++ zeros z ++ be_bytes8 (of_Z (Z.of_nat len) * 8).

Definition word_bytes (w : int) : list int :=
  [ (w >> 24) land 255; (w >> 16) land 255; (w >> 8) land 255; w land 255 ].

Definition sha256 (m : list int) : list int :=
  let w := words_of_bytes (pad m) in
  let bl := blocks16 (S (length w)) w in
  let r := fold_left compress bl (mk8 0x6a09e667 0xbb67ae85 0x3c6ef372 0xa54ff53a 0x510e527f 0x9b05688c 0x1f83d9ab 0x5be0cd19) in
  word_bytes (sa r) ++ word_bytes (sb r) ++ word_bytes (sc r) ++ word_bytes (sd r) ++
  word_bytes (se r) ++ word_bytes (sf r) ++ word_bytes (sg r) ++ word_bytes (sh r).

Fixpoint bytes_eqb (a b : list int) : bool :=
  match a, b with
  | nil, nil => true
  | x :: a', y :: b' => (x =? y) && bytes_eqb a' b'
  | _, _ => false
  end.

(* standard test vectors *)
Example sha256_abc :
  sha256 [97; 98; 99] =
  [0xba;0x78;0x16;0xbf;0x8f;0x01;0xcf;0xea;0x41;0x41;0x40;0xde;0x5d;0xae;0x22;0x23;
   0xb0;0x03;0x61;0xa3;0x96;0x17;0x7a;0x9c;0xb4;0x10;0xff;0x61;0xf2;0x00;0x15;0xad].
Proof. vm_compute. reflexivity. Qed.

Example sha256_empty :
  sha256 [] =
  [0xe3;0xb0;0xc4;0x42;0x98;0xfc;0x1c;0x14;0x9a;0xfb;0xf4;0xc8;0x99;0x6f;0xb9;0x24;
   0x27;0xae;0x41;0xe4;0x64;0x9b;0x93;0x4c;0xa4;0x95;0x99;0x1b;0x78;0x52;0xb8;0x55].
Proof. vm_compute. reflexivity. Qed.
