(* Executable ChaCha12 keystream over primitive 63-bit integers, as used by rand 0.10's StdRng
   (chacha20 0.10 ChaCha12Rng: DJB/"legacy" layout, 64-bit block counter starting at 0, stream id 0,
   key = the 32 seed bytes read as 8 little-endian words).  The generator hands out the keystream as a
   flat sequence of 32-bit words (block 0 words 0..15, block 1 words 0..15, ...): next_u32 takes one
   word, next_u64 takes two consecutive words (low word first) - rand_core BlockRng.

   Used ONLY to run the routing models (C16) against the implementation; no theorem depends on this
   file being "really" ChaCha: routing theorems are stated for an arbitrary stream function.  It is
   validated on every C16 run against the words the real StdRng produces (stream cases) and through
   every relay / tree comparison. *)
From Coq Require Import Uint63 List NArith ZArith.
Import ListNotations.
Open Scope uint63_scope.

Definition cmask32 : int := 4294967295.
Definition cadd32 (a b : int) : int := (a + b) land cmask32.
Definition rotl32 (x n : int) : int := ((x << n) lor (x >> (32 - n))) land cmask32.

Record st16 := mk16 { x0 : int; x1 : int; x2 : int; x3 : int; x4 : int; x5 : int; x6 : int; x7 : int;
                      x8 : int; x9 : int; x10 : int; x11 : int; x12 : int; x13 : int; x14 : int; x15 : int }.

(* quarter round on four words *)
Definition qr (a b c d : int) : int * int * int * int :=
  let a := cadd32 a b in let d := rotl32 (d lxor a) 16 in
  let c := cadd32 c d in let b := rotl32 (b lxor c) 12 in
  let a := cadd32 a b in let d := rotl32 (d lxor a) 8 in
  let c := cadd32 c d in let b := rotl32 (b lxor c) 7 in
  (a, b, c, d).

Definition double_round (s : st16) : st16 :=
  (* column rounds *)
  let '(a0, a4, a8, a12) := qr (x0 s) (x4 s) (x8 s) (x12 s) in
  let '(a1, a5, a9, a13) := qr (x1 s) (x5 s) (x9 s) (x13 s) in
  let '(a2, a6, a10, a14) := qr (x2 s) (x6 s) (x10 s) (x14 s) in
  let '(a3, a7, a11, a15) := qr (x3 s) (x7 s) (x11 s) (x15 s) in
  (* diagonal rounds *)
  let '(b0, b5, b10, b15) := qr a0 a5 a10 a15 in
  let '(b1, b6, b11, b12) := qr a1 a6 a11 a12 in
  let '(b2, b7, b8, b13) := qr a2 a7 a8 a13 in
  let '(b3, b4, b9, b14) := qr a3 a4 a9 a14 in
  mk16 b0 b1 b2 b3 b4 b5 b6 b7 b8 b9 b10 b11 b12 b13 b14 b15.

Fixpoint iter_dr (n : nat) (s : st16) : st16 :=
  match n with O => s | S n' => iter_dr n' (double_round s) end.

Definition chacha_block (double_rounds : nat) (s : st16) : list int :=
  let r := iter_dr double_rounds s in
  [cadd32 (x0 r) (x0 s); cadd32 (x1 r) (x1 s); cadd32 (x2 r) (x2 s); cadd32 (x3 r) (x3 s);
   cadd32 (x4 r) (x4 s); cadd32 (x5 r) (x5 s); cadd32 (x6 r) (x6 s); cadd32 (x7 r) (x7 s);
   cadd32 (x8 r) (x8 s); cadd32 (x9 r) (x9 s); cadd32 (x10 r) (x10 s); cadd32 (x11 r) (x11 s);
   cadd32 (x12 r) (x12 s); cadd32 (x13 r) (x13 s); cadd32 (x14 r) (x14 s); cadd32 (x15 r) (x15 s)].

(* little-endian word from four bytes *)
Definition le32 (b0 b1 b2 b3 : int) : int := b0 lor (b1 << 8) lor (b2 << 16) lor (b3 << 24).

Fixpoint key_words (bytes : list int) (n : nat) : list int :=
  match n with
  | O => []
  | S n' => match bytes with
            | b0 :: b1 :: b2 :: b3 :: r => le32 b0 b1 b2 b3 :: key_words r n'
            | _ => 0 :: key_words [] n'
            end
  end.

Definition init_state (seed : list int) (ctr : int) : st16 :=
  match key_words seed 8 with
  | [k0; k1; k2; k3; k4; k5; k6; k7] =>
    mk16 0x61707865 0x3320646e 0x79622d32 0x6b206574 k0 k1 k2 k3 k4 k5 k6 k7
         (ctr land cmask32) ((ctr >> 32) land cmask32) 0 0
  | _ => mk16 0 0 0 0 0 0 0 0 0 0 0 0 0 0 0 0
  end.

(* keystream words of blocks ctr, ctr+1, ..., ctr+nblocks-1 (the counter stays far below 2^63 here) *)
Fixpoint chacha_blocks (double_rounds : nat) (seed : list int) (ctr : int) (nblocks : nat) : list int :=
  match nblocks with
  | O => []
  | S n' => chacha_block double_rounds (init_state seed ctr) ++ chacha_blocks double_rounds seed (ctr + 1) n'
  end.

(* StdRng = ChaCha12: six double rounds.  Result as N words (< 2^32). *)
Definition stdrng_words (seed : list N) (nblocks : nat) : list N :=
  map (fun w => Z.to_N (Uint63.to_Z w)) (chacha_blocks 6 (map (fun b => Uint63.of_Z (Z.of_N b)) seed) 0 nblocks).

(* ChaCha20 (ten double rounds) block function check: RFC 7539 section 2.3.2 uses the IETF layout, which
   differs only in how words 12..15 are filled; test the permutation itself on that state. *)
Example chacha20_rfc7539_block :
  let s := mk16 0x61707865 0x3320646e 0x79622d32 0x6b206574
                0x03020100 0x07060504 0x0b0a0908 0x0f0e0d0c 0x13121110 0x17161514 0x1b1a1918 0x1f1e1d1c
                0x00000001 0x09000000 0x4a000000 0x00000000 in
  firstn 4 (chacha_block 10 s) = [0xe4e7f110; 0x15593bd1; 0x1fdd0f50; 0xc47120a3].
Proof. vm_compute. reflexivity. Qed.
