(* C17 - Committee sampling always yields a well-formed, stake-respecting committee.
   Theorems over the executable model of src/disseminator/rotor/sampling_strategy.rs (Model/Sampling.v),
   for EVERY validator set, committee size and random stream (a stream is the list of words the RNG
   returns, so "every stream" covers every RNG and every seed).  `construct cv` / `sample_quorum` cover all
   nine strategies; `cv = Current` is the code as it is now (`construct_current` additionally computes the
   fixed-seed shuffle order of PartitionSampler::new), `cv = Pinned` the tree this work started from
   (f64 seat counts, thread-RNG shuffle passed as `order`, no small-set case in TurbineSampler), kept so
   that the `.._pinned_.._refuted` theorems remain statements about a faithful model of that tree.

   Proved for the current code: committee size exactly k for every strategy (FA2 included, no premise), membership, zero-weight
   validators never drawn, the floor(f*k) guarantee of both FA1 samplers and of FA2's pre-allocation for ALL
   stake distributions (exact integer arithmetic, no float premise), decay cap, constructibility of Uniform /
   StakeWeighted / Decay / AllSame / FA1-with-stake-weighted-fallback (k >= 1) / TurbineSampler on one or two
   validators, termination of every constructor, purity of every strategy (PartitionSampler and
   FA1-with-partition included) in (validator set, random source) - also for an instance that is reused
   through both traits: the decaying sampler's counters (incremented by single draws, copied by Clone) are an
   explicit state of the model (`sample_single`, `sample_quorum_from`, `reset_counts`), sample_quorum leaves
   them all at zero, hence every committee drawn right after a completed sample_quorum or after reset() is the
   committee of a fresh instance, whatever happened before (the first quorum after unreset single draws
   starts from their counters - that is the documented contract of the crate, and what the model does).
   Still refuted for the current code (known findings): constructibility of PartitionSampler (empty bin), of
   FA1-with-partition (Rotor::new_fa1) and of FA2 (sum f <= 1.0 assertion).
   PARTIAL (validated by the oracle / correspondence only, because it needs reasoning about binary64):
   - the decay cap is proved from the premise `rejects_at` (count / max_samples >= 1 > random f64 once
     count >= cap), a fact about binary64 division;
   - zero-stake validators among FA2's pre-allocated / medium seats and TurbineSampler's derived weights
     (n >= 3), constructibility of TurbineSampler for n >= 3;
   - that the modelled rand / compiler-builtins routines (Lemire, Canon, Bernoulli, slice shuffle on ChaCha12,
     f64 conversions, powi) are the ones the binary runs: tied by the draw-by-draw correspondence check
     (committees and bins). *)
From Coq Require Import List NArith Bool Floats.
From AG Require Import Gen.Params Model.Sampling Proofs.SamplingProofs.
Import ListNotations.
Open Scope N_scope.

(* every strategy of the current code returns exactly the configured number of validators, unconditionally
   (FA2: pre-allocated seats sum to at most k by exact arithmetic, medium seats are clamped) *)
Theorem C17_committee_has_configured_size : forall st stakes order sm s q r,
  construct Current st stakes order = COk sm ->
  sample_quorum sm s = Ok q r -> lenN q = quorum_size st.
Proof. exact quorum_len_current. Qed.

(* either version, with the condition FA2 needs spelled out *)
Theorem C17_committee_has_configured_size_if_fa2_counts_ok : forall cv st stakes order sm s q r,
  construct cv st stakes order = COk sm -> fa2_counts_ok sm ->
  sample_quorum sm s = Ok q r -> lenN q = quorum_size st.
Proof. exact quorum_len. Qed.

(* in the pinned tree (f64 seats, unclamped medium nodes) the condition failed: five near-equal stakes
   around 2^53 and k = 25: 29 seats *)
Theorem C17_fa2_committee_size_pinned_refuted :
  exists stakes k sm s q r,
    positive_set stakes /\ construct Pinned (StFA2 k) stakes [] = COk sm /\ sample_quorum sm s = Ok q r /\ k < lenN q.
Proof. exact fa2_committee_size_pinned_refuted. Qed.

(* each a member of the set *)
Theorem C17_members_belong_to_the_validator_set : forall cv st stakes order sm s q r,
  construct cv st stakes order = COk sm -> valid_order stakes order -> lenN stakes < W64 ->
  sample_quorum sm s = Ok q r -> Forall (fun v => v < lenN stakes) q.
Proof. exact members_in_range. Qed.
(* the constructors of the current code are `construct Current` on a valid order of their own making *)
Theorem C17_current_constructors : forall st stakes sm,
  construct_current st stakes = COk sm ->
  exists order, valid_order stakes order /\ construct Current st stakes order = COk sm.
Proof. exact construct_current_as_construct. Qed.

(* a zero-weight validator is never drawn (stake-driven strategies; FA1: the non-pre-allocated part) *)
Theorem C17_zero_weight_never_drawn : forall cv st stakes order sm s q r,
  stake_drawn st = true ->
  construct cv st stakes order = COk sm -> sample_quorum sm s = Ok q r ->
  exists drawn, q = prealloc cv st stakes ++ drawn /\ Forall (fun v => 0 < nthN stakes v 0) drawn.
Proof. exact zero_weight_never_drawn. Qed.

Theorem C17_turbine_zero_weight_never_drawn : forall cv fanout k stakes order sm s q r,
  construct cv (StTurbine fanout k) stakes order = COk sm -> sample_quorum sm s = Ok q r ->
  exists ws, turbine_weights cv stakes fanout = Some ws /\ Forall (fun v => 0 < nthN ws v 0) q.
Proof. exact turbine_zero_weight_never_drawn. Qed.

(* Fait Accompli: a validator with stake fraction f receives at least floor(f*k) of the k seats, for every
   draw, every stake distribution and every k - both FA1 samplers and FA2 (exact_floor s total k = s*k/total) *)
Theorem C17_fa_floor_guarantee : forall st stakes order sm s q r v,
  is_fa st = true ->
  construct Current st stakes order = COk sm -> sample_quorum sm s = Ok q r -> v < lenN stakes ->
  exact_floor (nthN stakes v 0) (sumN stakes) (quorum_size st) <= count_occ_N q v.
Proof. exact fa_floor_guarantee. Qed.

(* either version: at least the seats the code pre-allocates *)
Theorem C17_fa_preallocated_seats : forall cv st stakes order sm s q r v,
  is_fa st = true ->
  construct cv st stakes order = COk sm -> sample_quorum sm s = Ok q r -> v < lenN stakes ->
  seats cv (nthN stakes v 0) (sumN stakes) (quorum_size st) <= count_occ_N q v.
Proof. exact fa_preallocated_seats. Qed.

(* pinned tree: binary64 seats; 49 equal stakes, k = 49: nobody was guaranteed a seat *)
Theorem C17_fa_floor_guarantee_pinned_refuted :
  exists stakes k sm s q r v,
    construct Pinned (StFA1Stake k) stakes [] = COk sm /\ sample_quorum sm s = Ok q r /\ v < lenN stakes /\
    count_occ_N q v < exact_floor (nthN stakes v 0) (sumN stakes) k.
Proof. exact fa_floor_guarantee_pinned_refuted. Qed.

(* without-replacement decay: no validator exceeds its seat cap *)
Theorem C17_decay_cap : forall cv mnum mden k stakes order sm cap s q r v,
  construct cv (StDecay mnum mden k) stakes order = COk sm ->
  rejects_at (decay_max mnum mden) cap ->
  sample_quorum sm s = Ok q r -> count_occ_N q v <= cap.
Proof. exact decay_sampler_cap. Qed.

(* constructible for every validator set with positive stakes: these strategies ... *)
Theorem C17_constructible : forall cv st stakes order,
  positive_set stakes ->
  match st with
  | StUniform _ | StStake _ | StDecay _ _ _ => True
  | StAllSame v _ => v < lenN stakes
  | _ => False
  end ->
  exists sm, construct cv st stakes order = COk sm.
Proof. exact constructible. Qed.
(* ... FA1 with the stake-weighted fallback, now that its arithmetic is exact (any k >= 1) ... *)
Theorem C17_fa1_stake_constructible : forall stakes k order,
  positive_set stakes -> 1 <= k ->
  exists sm, construct Current (StFA1Stake k) stakes order = COk sm.
Proof. exact fa1_stake_constructible. Qed.
(* ... TurbineSampler on one or two validators ... *)
Theorem C17_turbine_small_constructible : forall stakes fanout k order,
  positive_set stakes -> lenN stakes <= 2 ->
  exists sm, construct Current (StTurbine fanout k) stakes order = COk sm.
Proof. exact turbine_small_constructible. Qed.
(* ... and no constructor loops forever *)
Theorem C17_constructors_terminate : forall cv st stakes order, construct cv st stakes order <> CHang.
Proof. exact construct_never_hangs. Qed.

(* still failing constructors (known findings) *)
Theorem C17_partition_constructible_refuted :
  exists stakes bins, positive_set stakes /\ construct_current (StPartition bins) stakes = CPanic.
Proof. exact partition_constructible_refuted. Qed.
Theorem C17_fa1_partition_constructible_refuted :
  exists stakes, positive_set stakes /\ construct_current (StFA1Part TOTAL_SHREDS) stakes = CPanic.
Proof. exact fa1_partition_constructible_refuted. Qed.
Theorem C17_fa2_constructible_refuted :
  exists stakes k, positive_set stakes /\ construct_current (StFA2 k) stakes = CPanic.
Proof. exact fa2_constructible_refuted. Qed.
(* failing constructors of the pinned tree that have been repaired *)
Theorem C17_fa1_stake_constructible_pinned_refuted :
  exists stakes, positive_set stakes /\ construct Pinned (StFA1Stake TOTAL_SHREDS) stakes [] = CPanic.
Proof. exact fa1_stake_constructible_pinned_refuted. Qed.
Theorem C17_turbine_constructible_pinned_refuted :
  construct Pinned (StTurbine TURBINE_DEFAULT_FANOUT 1) [1] [] = CPanic /\
  construct Pinned (StTurbine TURBINE_DEFAULT_FANOUT 1) [1; 1] [] = CPanic.
Proof. exact turbine_constructible_pinned_refuted. Qed.

(* a function of the validator set and the supplied random source only: the sampler the current code
   constructs is `construct_current st stakes` (no other input; for the partition-based strategies the order
   is rand's shuffle on StdRng::from_seed([0; 32])), and `sample_quorum` is a function of sampler and stream *)
Theorem C17_pure_in_validators_and_rng : forall st stakes sm1 sm2 s,
  construct_current st stakes = COk sm1 -> construct_current st stakes = COk sm2 ->
  sample_quorum sm1 s = sample_quorum sm2 s.
Proof. exact pure_in_validators_and_rng. Qed.
(* one instance reused through both traits (single draws, quorums, reset, from any counter state):
   sample_quorum leaves every counter of the decaying sampler at zero, so the committee drawn right after a
   completed sample_quorum - or after reset() - is the committee a FRESH instance draws from the same words *)
Theorem C17_counters_zero_after_quorum : forall sm counts s q c r,
  sample_quorum_from sm counts s = Ok (q, c) r ->
  match sm with SmDecay _ _ _ => c = fresh_counts sm | _ => c = counts end.
Proof. exact counters_zero_after_quorum. Qed.
Theorem C17_quorum_after_quorum_is_fresh : forall sm counts s1 q1 c1 r1 s2,
  sample_quorum_from sm counts s1 = Ok (q1, c1) r1 ->
  quorum_out (sample_quorum_from sm c1 s2) = sample_quorum sm s2.
Proof. exact quorum_after_quorum_is_fresh. Qed.
Theorem C17_quorum_after_reset_is_fresh : forall sm counts s,
  quorum_out (sample_quorum_from sm (reset_counts sm counts) s) = sample_quorum sm s.
Proof. exact quorum_after_reset_is_fresh. Qed.

(* the strategies without bins never read the order (either version) ... *)
Theorem C17_pure_in_validators_and_rng_order_free : forall cv st stakes o1 o2,
  order_free st = true -> construct cv st stakes o1 = construct cv st stakes o2.
Proof. exact pure_in_validators_and_rng_order_free. Qed.
(* ... and in the pinned tree the thread-RNG order made PartitionSampler impure *)
Theorem C17_partition_pure_in_rng_pinned_refuted :
  exists stakes bins o1 o2 sm1 sm2 s,
    construct Pinned (StPartition bins) stakes o1 = COk sm1 /\ construct Pinned (StPartition bins) stakes o2 = COk sm2 /\
    (exists q1 q2 r1 r2, sample_quorum sm1 s = Ok q1 r1 /\ sample_quorum sm2 s = Ok q2 r2 /\ q1 <> q2).
Proof. exact partition_pure_in_rng_pinned_refuted. Qed.

Example C17_nonvacuous :
  (match construct_current (StFA1Stake 49) (ones 49) with
   | COk sm => match sample_quorum sm [] with
               | Ok q _ => forallb (fun v => count_occ_N q v =? 1) (map fst (indexed 0 (ones 49)))
               | _ => false
               end
   | _ => false
   end
   && match construct_current (StFA1Stake 8) [5; 1; 1; 1] with
      | COk sm => match sample_quorum sm (xs32_words 16 7) with
                  | Ok q _ => (lenN q =? 8) && (5 <=? count_occ_N q 0)
                  | _ => false
                  end
      | _ => false
      end
   && match construct_current (StFA2 3) [9007199254740993; 9007199254740993; 9007199254740993] with
      | COk sm => match sample_quorum sm (xs32_words 6 1) with Ok q _ => lenN q =? 3 | _ => false end
      | _ => false
      end) = true.
Proof. exact sampling_nonvacuous. Qed.

Print Assumptions C17_committee_has_configured_size.
Print Assumptions C17_committee_has_configured_size_if_fa2_counts_ok.
Print Assumptions C17_fa2_committee_size_pinned_refuted.
Print Assumptions C17_members_belong_to_the_validator_set.
Print Assumptions C17_current_constructors.
Print Assumptions C17_zero_weight_never_drawn.
Print Assumptions C17_turbine_zero_weight_never_drawn.
Print Assumptions C17_fa_floor_guarantee.
Print Assumptions C17_fa_preallocated_seats.
Print Assumptions C17_fa_floor_guarantee_pinned_refuted.
Print Assumptions C17_decay_cap.
Print Assumptions C17_constructible.
Print Assumptions C17_fa1_stake_constructible.
Print Assumptions C17_turbine_small_constructible.
Print Assumptions C17_constructors_terminate.
Print Assumptions C17_partition_constructible_refuted.
Print Assumptions C17_fa1_partition_constructible_refuted.
Print Assumptions C17_fa2_constructible_refuted.
Print Assumptions C17_fa1_stake_constructible_pinned_refuted.
Print Assumptions C17_turbine_constructible_pinned_refuted.
Print Assumptions C17_pure_in_validators_and_rng.
Print Assumptions C17_counters_zero_after_quorum.
Print Assumptions C17_quorum_after_quorum_is_fresh.
Print Assumptions C17_quorum_after_reset_is_fresh.
Print Assumptions C17_pure_in_validators_and_rng_order_free.
Print Assumptions C17_partition_pure_in_rng_pinned_refuted.
Print Assumptions C17_nonvacuous.
