(* C17 - Committee sampling always yields a well-formed, stake-respecting committee.
   Theorems over the executable model of src/disseminator/rotor/sampling_strategy.rs (Model/Sampling.v),
   for EVERY validator set, committee size and random stream (a stream is the list of words the RNG
   returns, so "every stream" covers every RNG and every seed).  `construct` / `sample_quorum` cover all
   nine strategies of the crate; `order` is the order into which PartitionSampler::new's thread-RNG
   shuffle put the validators.

   Covered by proof:  committee size, membership, zero-weight validators never drawn, pre-allocated
   Fait Accompli seats, decay cap, constructibility where it holds, termination of the constructors,
   purity in (validator set, random source) where it holds.
   Refuted for the faithful model (defects of the code, witnesses replayed on the implementation by
   the check): floor(f*k) seats (binary64 rounding), FA2's committee size, constructibility of PartitionSampler,
   FA1-with-partition (Rotor::new_fa1), FA1 with stake-weighted fallback (u64 overflow), FA2 and
   TurbineSampler, purity of the partition-based samplers.
   PARTIAL (validated by the oracle / correspondence only, because it needs reasoning about binary64):
   - FA2 returns exactly k validators: proved under `fa2_counts_ok` (pre-allocated + medium seats <= k),
     which FA2's constructor assertion is meant to ensure but does not (C17_fa2_committee_size_refuted);
     where it holds is decided per case by the oracle;
   - the decay cap is proved from the premise `rejects_at` (count / max_samples >= 1 > random f64 once
     count >= cap), a fact about binary64 division;
   - zero-stake validators among FA2's pre-allocated / medium seats and TurbineSampler's derived weights;
   - that the modelled rand / compiler-builtins routines (Lemire, Canon, Bernoulli, f64 conversions, powi)
     are the ones the binary runs: tied by the draw-by-draw correspondence check. *)
From Coq Require Import List NArith Bool Floats.
From AG Require Import Gen.Params Model.Sampling Proofs.SamplingProofs.
Import ListNotations.
Open Scope N_scope.

(* every strategy returns exactly the configured number of validators *)
Theorem C17_committee_has_configured_size : forall st stakes order sm s q r,
  construct st stakes order = COk sm -> fa2_counts_ok sm ->
  sample_quorum sm s = Ok q r -> lenN q = quorum_size st.
Proof. exact quorum_len. Qed.

(* ... the proviso cannot be dropped: FA2 with five near-equal stakes around 2^53 and k = 25 returns 29 *)
Theorem C17_fa2_committee_size_refuted :
  exists stakes k sm s q r,
    positive_set stakes /\ construct (StFA2 k) stakes [] = COk sm /\ sample_quorum sm s = Ok q r /\ k < lenN q.
Proof. exact fa2_committee_size_refuted. Qed.

(* each a member of the set *)
Theorem C17_members_belong_to_the_validator_set : forall st stakes order sm s q r,
  construct st stakes order = COk sm -> valid_order stakes order -> lenN stakes < W64 ->
  sample_quorum sm s = Ok q r -> Forall (fun v => v < lenN stakes) q.
Proof. exact members_in_range. Qed.

(* a zero-weight validator is never drawn (stake-driven strategies; FA1: the non-pre-allocated part) *)
Theorem C17_zero_weight_never_drawn : forall st stakes order sm s q r,
  stake_drawn st = true ->
  construct st stakes order = COk sm -> sample_quorum sm s = Ok q r ->
  exists drawn, q = prealloc st stakes ++ drawn /\ Forall (fun v => 0 < nthN stakes v 0) drawn.
Proof. exact zero_weight_never_drawn. Qed.

Theorem C17_turbine_zero_weight_never_drawn : forall fanout k stakes order sm s q r,
  construct (StTurbine fanout k) stakes order = COk sm -> sample_quorum sm s = Ok q r ->
  exists ws, turbine_weights stakes fanout = Some ws /\ Forall (fun v => 0 < nthN ws v 0) q.
Proof. exact turbine_zero_weight_never_drawn. Qed.

(* Fait Accompli: at least the pre-allocated seats the code computes, for every draw *)
Theorem C17_fa_preallocated_seats : forall st stakes order sm s q r v,
  is_fa st = true ->
  construct st stakes order = COk sm -> sample_quorum sm s = Ok q r -> v < lenN stakes ->
  fa_seats (nthN stakes v 0) (sumN stakes) (quorum_size st) <= count_occ_N q v.
Proof. exact fa_preallocated_seats. Qed.

(* ... which is the floor(f*k) of the property wherever the binary64 computation is exact ... *)
Theorem C17_fa_floor_guarantee_where_float_exact : forall st stakes order sm s q r v,
  is_fa st = true ->
  construct st stakes order = COk sm -> sample_quorum sm s = Ok q r -> v < lenN stakes ->
  fa_seats (nthN stakes v 0) (sumN stakes) (quorum_size st) = exact_floor (nthN stakes v 0) (sumN stakes) (quorum_size st) ->
  exact_floor (nthN stakes v 0) (sumN stakes) (quorum_size st) <= count_occ_N q v.
Proof. exact fa_floor_guarantee_where_float_exact. Qed.

(* ... and not in general: 49 equal stakes, k = 49 *)
Theorem C17_fa_floor_guarantee_refuted :
  exists stakes k sm s q r v,
    construct (StFA1Stake k) stakes [] = COk sm /\ sample_quorum sm s = Ok q r /\ v < lenN stakes /\
    count_occ_N q v < exact_floor (nthN stakes v 0) (sumN stakes) k.
Proof. exact fa_floor_guarantee_refuted. Qed.

(* without-replacement decay: no validator exceeds its seat cap *)
Theorem C17_decay_cap : forall mnum mden k stakes order sm cap s q r v,
  construct (StDecay mnum mden k) stakes order = COk sm ->
  rejects_at (decay_max mnum mden) cap ->
  sample_quorum sm s = Ok q r -> count_occ_N q v <= cap.
Proof. exact decay_sampler_cap. Qed.

(* constructible for every validator set with positive stakes: holds for these strategies ... *)
Theorem C17_constructible : forall st stakes order,
  positive_set stakes ->
  match st with
  | StUniform _ | StStake _ | StDecay _ _ _ => True
  | StAllSame v _ => v < lenN stakes
  | _ => False
  end ->
  exists sm, construct st stakes order = COk sm.
Proof. exact constructible. Qed.

(* ... no constructor loops forever ... *)
Theorem C17_constructors_terminate : forall st stakes order, construct st stakes order <> CHang.
Proof. exact construct_never_hangs. Qed.

(* ... and fails for the others *)
Theorem C17_partition_constructible_refuted :
  exists stakes bins, positive_set stakes /\ construct (StPartition bins) stakes (map fst (indexed 0 stakes)) = CPanic.
Proof. exact partition_constructible_refuted. Qed.
Theorem C17_fa1_partition_constructible_refuted :
  exists stakes, positive_set stakes /\ construct (StFA1Part TOTAL_SHREDS) stakes (map fst (indexed 0 stakes)) = CPanic.
Proof. exact fa1_partition_constructible_refuted. Qed.
Theorem C17_fa1_stake_constructible_refuted :
  exists stakes, positive_set stakes /\ construct (StFA1Stake TOTAL_SHREDS) stakes [] = CPanic.
Proof. exact fa1_stake_constructible_refuted. Qed.
Theorem C17_fa2_constructible_refuted :
  exists stakes k, positive_set stakes /\ construct (StFA2 k) stakes [] = CPanic.
Proof. exact fa2_constructible_refuted. Qed.
Theorem C17_turbine_constructible_refuted :
  construct (StTurbine TURBINE_DEFAULT_FANOUT 1) [1] [] = CPanic /\
  construct (StTurbine TURBINE_DEFAULT_FANOUT 1) [1; 1] [] = CPanic.
Proof. exact turbine_constructible_refuted. Qed.

(* a function of the validator set and the supplied random source only: `sample_quorum` is a function of
   the constructed sampler and the stream; the constructed sampler depends on nothing else ... *)
Theorem C17_pure_in_validators_and_rng : forall st stakes o1 o2,
  order_free st = true -> construct st stakes o1 = construct st stakes o2.
Proof. exact pure_in_validators_and_rng. Qed.
(* ... except for the thread-RNG shuffle of PartitionSampler::new *)
Theorem C17_partition_pure_in_rng_refuted :
  exists stakes bins o1 o2 sm1 sm2 s,
    construct (StPartition bins) stakes o1 = COk sm1 /\ construct (StPartition bins) stakes o2 = COk sm2 /\
    (exists q1 q2 r1 r2, sample_quorum sm1 s = Ok q1 r1 /\ sample_quorum sm2 s = Ok q2 r2 /\ q1 <> q2).
Proof. exact partition_pure_in_rng_refuted. Qed.

Example C17_nonvacuous :
  match construct (StFA1Stake 8) [5; 1; 1; 1] [] with
  | COk sm => match sample_quorum sm (xs32_words 16 7) with
              | Ok q _ => (lenN q =? 8) && (5 <=? count_occ_N q 0)
              | _ => false
              end
  | _ => false
  end = true.
Proof. vm_compute. reflexivity. Qed.

Print Assumptions C17_committee_has_configured_size.
Print Assumptions C17_fa2_committee_size_refuted.
Print Assumptions C17_members_belong_to_the_validator_set.
Print Assumptions C17_zero_weight_never_drawn.
Print Assumptions C17_turbine_zero_weight_never_drawn.
Print Assumptions C17_fa_preallocated_seats.
Print Assumptions C17_fa_floor_guarantee_where_float_exact.
Print Assumptions C17_fa_floor_guarantee_refuted.
Print Assumptions C17_decay_cap.
Print Assumptions C17_constructible.
Print Assumptions C17_constructors_terminate.
Print Assumptions C17_partition_constructible_refuted.
Print Assumptions C17_fa1_partition_constructible_refuted.
Print Assumptions C17_fa1_stake_constructible_refuted.
Print Assumptions C17_fa2_constructible_refuted.
Print Assumptions C17_turbine_constructible_refuted.
Print Assumptions C17_pure_in_validators_and_rng.
Print Assumptions C17_partition_pure_in_rng_refuted.
Print Assumptions C17_nonvacuous.
