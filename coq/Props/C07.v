(* C07 - Parent-ready is announced exactly for certified, skip-connected parents.

   PROVED for the model of ParentReadyTracker (Model/Pool.v, the pt_ functions), for EVERY sequence of the
   operations the pool issues to it, run from the initial tracker (Model/TrackerSpec.v: pt_run over
   notar(-fallback) marks, skip marks, finalization events with their implicitly finalized blocks /
   implicitly skipped slots, pruning, waiter registrations - any order, any repetitions, no bounds), under
   the single hypothesis that the pruning root never moves backwards (roots_mono; PoolImpl prunes to
   FinalityTracker::first_unpruned).  The specification is the decidable predicate ready_spec_m over the
   accumulated marks (marks_of: all blocks ever marked notar-fallback incl. genesis, all slots ever
   marked skipped - also the marks the tracker ignores below its root -, the current root):
     ready_spec_m m s p  =  s is a window start, slot(p) < s, p is marked, every slot strictly between is marked skipped.
   - no panic: no mark / finalization / prune operation of such a run panics (the assert in add_to_ready
     never fires, the fuel of the propagation loop always suffices); the only panic is a second waiter
     registered for a slot that still has none ready                 (C07_marks_never_panic, C07_run_without_waits_never_panics)
   - (1) soundness: every pair in a ready list satisfies the specification, with genuinely marked
     skips (no "below the root" escape is needed)                                       (C07_ready_sound)
   - (2) completeness for retained state: an unpruned parent satisfying the specification is in the
     ready list of every window start, at every point of the run, whichever mark arrived last
     (C07_ready_complete_retained); together: ready list restricted to unpruned parents = filter spec
     (C07_ready_list_is_filter_spec), lists are duplicate-free (C07_ready_no_duplicates)
   - (3) every announced pair is justified, and announced at most once over the whole run
     (C07_announced_once_and_justified); an announcement is made in the step in which the pair becomes
     justified, is then in the query and was not before (C07_announcement_is_new_and_queryable); marks never
     remove a ready parent, and for a certificate mark the newly ready pairs are exactly the announced
     ones (C07_query_agrees_with_announcements; a finalization announces only the highest window, by design)
   - (4) waiters: a registered waiter never coexists with a ready parent; over a run the number of wake-ups
     for s plus a still-registered waiter never exceeds the number of wait calls for s (never woken
     twice) (C07_waiter_invariant); a wake-up happens exactly in the step that makes the first parent
     ready, carries that first parent, once (C07_waiter_woken_exactly_by_first_parent); an immediate
     answer is given iff a parent is ready and is the minimal one (C07_wait_answer)
   - (5) pruning neither loses nor creates a pair of a retained window and emits nothing
     (C07_prune_neutral, C07_prune_step)
   - the two restrictions are necessary: with a root that moves backwards the model (like the
     implementation's assert) panics (C07_root_regression_refuted); a parent whose mark arrives after
     its slot was pruned is not reported although the accumulated marks satisfy the specification
     (C07_pruned_parent_not_reported).
   - pool link (Proofs/PoolTrackerLink.v): in EVERY pool state reachable by pool_step from pool_init (votes,
     certificates, blocks, standstill, waits, in any order) the tracker component is pt_run of some
     operation list with roots_mono = true (FinalityTracker::first_unpruned never decreases and every
     prune uses it), so (1), (2), no-duplicates and the waiter invariant hold of the pool's
     parents_ready query w.r.t. the marks the pool issued (C07_pool_feeds_tracker_monotone,
     C07_pool_tracker_exact), and no tracker call of the pool panics (C07_pool_tracker_marks_never_panic).
   - certificate-to-mark link (Proofs/PoolMarks.v, PoolOracleSpec.v; vocabulary Model/PoolTrace.v), for EVERY pool
     reachable by pool_step from pool_init, ghost trace read off the observable step results (certificates of the
     ECertCreated events = H, registrations that returned = B, waiter registrations):
     C07_pool_ready_marks: the pool's tracker IS pt_run (tops_of trace) - a notar-fallback mark for b iff a Notar or
     NotarFallback certificate for b is in H (a FastFinal certificate marks b only through the finalization event), a
     skip mark for s iff a Skip certificate for s is in H, TFinalize events = exactly the events the finality tracker
     returned for the marks of Props/C08.v (6) (the one dropped event is the empty one of a block below the
     watermark), every prune at the watermark (roots_mono, root = first_unpruned), a wait per registration; and the
     announcements / wake-ups of that run ARE the EParentReady / EWaiterWoken events the pool has emitted
     (ev_prs / ev_wk of all events, in order): the pool forwards them unchanged;
     C07_pool_parent_ready_events_level (no premise) and C07_pool_parent_ready_certificate_level_explicit_genesis (under the
     consistency premise ft_consistent C (cert_hist H B) of Props/C08.v): (s, p) is in parents_ready(s) only if
     ReadySpec H B s p - s starts a window, slot(p) < s, p is genesis / Notar- or NotarFallback-certified / finalized
     (FastFinal, Final + Notar, or ancestor of such a block through registered links), every slot strictly between is
     Skip-certified or implicitly skipped by a finalization - and, for p not below the watermark, if; every
     EParentReady event ever emitted satisfies it and no pair is emitted twice; every wake-up carries such a parent
     (_explicit_genesis: the same with 'no certificate / registration names a slot-0 block other than genesis' as
     a decidable premise, independent of the clauses of ft_consistent);
     C07_certificate_level_spec_is_executable (ready_specb) and C07_oracle_ready_spec_is_ReadySpec /
     C07_oracle_ready_spec_eq_ready_specb: the oracle's ready_spec (Oracle/PoolRun.v) is this specification.
   REMAINS ORACLE-ONLY: the consistency premise itself (C01's subject), the per-step timing statements at pool level
   (they are theorems about every tracker run with a monotone root, C07_announcement_is_new_and_queryable /
   C07_waiter_woken_exactly_by_first_parent, and the pool's tracker is such a run by C07_pool_ready_marks, but they are
   not restated over pool steps), and the model / implementation correspondence. *)
From Coq Require Import List NArith Bool Permutation.
From AG Require Import Gen.Params Model.Pool Model.PoolSpec Model.TrackerSpec Model.FinalitySpec Model.PoolTrace
                       Oracle.PoolRun Proofs.TrackerProofs Proofs.ParentReadyProofs Proofs.PoolTrackerLink Proofs.PoolMarks
                       Proofs.PoolOracleSpec.
Import ListNotations.
Open Scope N_scope.

Theorem C07_pair_ready_once_and_queryable : forall t s id t' w,
  pr_add_to_ready t s id = Some (t', w) ->
  existsb (bid_eqb id) (pt_parents_ready t s) = false /\
  pt_parents_ready t' s = pt_parents_ready t s ++ [id] /\
  (forall s', s' <> s -> pt_parents_ready t' s' = pt_parents_ready t s').
Proof. exact add_to_ready_once. Qed.

Theorem C07_waiter_woken_by_first_parent : forall t s id t' w,
  pr_add_to_ready t s id = Some (t', w) ->
  w = if pr_waiting (pt_get t s) && match pr_ready (pt_get t s) with None => true | Some _ => false end
      then [EWaiterWoken s id] else [].
Proof. exact add_to_ready_wakes. Qed.

Theorem C07_prune_neutral : forall t r s,
  pt_parents_ready (pt_prune t r) s = if r <=? s then pt_parents_ready t s else [].
Proof. exact pt_prune_spec. Qed.

(* ---- no panic ---- *)
Theorem C07_marks_never_panic : forall ops op t ann wk,
  roots_mono (ops ++ [op]) = true -> pt_run ops = Some (t, ann, wk) -> pt_step t op = None ->
  exists s, op = TWait s /\ pr_waiting (pt_get t s) = true /\ pt_parents_ready t s = [].
Proof. exact run_step_total. Qed.

Theorem C07_run_without_waits_never_panics : forall ops,
  roots_mono ops = true -> (forall s, ~ In (TWait s) ops) -> pt_run ops <> None.
Proof. exact run_never_panics. Qed.

(* ---- (1) soundness, (2) completeness ---- *)
Theorem C07_ready_sound : forall ops t ann wk,
  roots_mono ops = true -> pt_run ops = Some (t, ann, wk) ->
  forall s p, In p (pt_parents_ready t s) -> ready_spec_m (marks_of ops) s p = true.
Proof. exact ready_sound. Qed.

Theorem C07_ready_complete_retained : forall ops t ann wk,
  roots_mono ops = true -> pt_run ops = Some (t, ann, wk) ->
  forall s p, retained (marks_of ops) (fst p) = true -> ready_spec_m (marks_of ops) s p = true ->
              In p (pt_parents_ready t s).
Proof. exact ready_complete. Qed.

Theorem C07_ready_no_duplicates : forall ops t ann wk,
  roots_mono ops = true -> pt_run ops = Some (t, ann, wk) -> forall s, NoDup (pt_parents_ready t s).
Proof. exact ready_nodup. Qed.

Theorem C07_ready_list_is_filter_spec : forall ops t ann wk,
  roots_mono ops = true -> pt_run ops = Some (t, ann, wk) ->
  forall s, let m := marks_of ops in
  Permutation (filter (fun p => retained m (fst p)) (pt_parents_ready t s))
              (filter (fun p => retained m (fst p) && ready_spec_m m s p) (nodup bid_dec (mk_nf m))).
Proof. exact ready_list_is_filter. Qed.

Theorem C07_tracker_root_is_last_prune : forall ops t ann wk,
  roots_mono ops = true -> pt_run ops = Some (t, ann, wk) -> pt_root t = mk_root (marks_of ops).
Proof. exact tracker_root. Qed.

(* ---- (3) announcements ---- *)
Theorem C07_announced_once_and_justified : forall ops t ann wk,
  roots_mono ops = true -> pt_run ops = Some (t, ann, wk) ->
  NoDup ann /\ forall s p, In (s, p) ann -> ready_spec_m (marks_of ops) s p = true.
Proof. exact announced_once. Qed.

Theorem C07_announcement_is_new_and_queryable : forall ops op t ann wk t' a w,
  roots_mono (ops ++ [op]) = true -> pt_run ops = Some (t, ann, wk) -> pt_step t op = Some (t', a, w) ->
  NoDup a /\
  forall s p, In (s, p) a ->
    ~ In p (pt_parents_ready t s) /\ In p (pt_parents_ready t' s) /\
    ready_spec_m (marks_of ops) s p = false /\ ready_spec_m (marks_of (ops ++ [op])) s p = true.
Proof. exact step_announcements. Qed.

Theorem C07_query_agrees_with_announcements : forall ops op t ann wk t' a w,
  roots_mono (ops ++ [op]) = true -> pt_run ops = Some (t, ann, wk) -> pt_step t op = Some (t', a, w) ->
  is_markish op ->
  forall s, exists l, pt_parents_ready t' s = pt_parents_ready t s ++ l /\
                      match op with TFinalize _ => True | _ => forall p, In p l <-> In (s, p) a end.
Proof. exact step_query_agrees. Qed.

(* ---- (4) waiters ---- *)
Theorem C07_waiter_invariant : forall ops t ann wk,
  roots_mono ops = true -> pt_run ops = Some (t, ann, wk) ->
  (forall s, pr_waiting (pt_get t s) = true -> pt_parents_ready t s = []) /\
  (forall x, (woken_count x wk + b2n (pr_waiting (pt_get t x)) <= wait_count x ops)%nat).
Proof. exact waiter_invariant. Qed.

Theorem C07_waiter_woken_exactly_by_first_parent : forall ops op t ann wk t' a w,
  roots_mono (ops ++ [op]) = true -> pt_run ops = Some (t, ann, wk) -> pt_step t op = Some (t', a, w) ->
  (forall x p, In (EWaiterWoken x p) w ->
     pr_waiting (pt_get t x) = true /\ pr_waiting (pt_get t' x) = false /\ woken_count x w = 1%nat /\
     pt_parents_ready t x = [] /\ hd_error (pt_parents_ready t' x) = Some p) /\
  (is_markish op -> forall x, pr_waiting (pt_get t x) = true -> pt_parents_ready t' x <> [] ->
     exists p, In (EWaiterWoken x p) w) /\
  (is_markish op -> forall x, pr_waiting (pt_get t x) = true -> pt_parents_ready t' x = [] ->
     pr_waiting (pt_get t' x) = true /\ woken_count x w = 0%nat).
Proof. exact step_waiters. Qed.

Theorem C07_wait_answer : forall ops t ann wk s,
  roots_mono ops = true -> pt_run ops = Some (t, ann, wk) ->
  match pt_wait t s with
  | None => pr_waiting (pt_get t s) = true /\ pt_parents_ready t s = []
  | Some (t', Some p) => In p (pt_parents_ready t s) /\ p = hd (0, 0) (bid_sort (pt_parents_ready t s)) /\
                         forall x, Permutation (pt_parents_ready t' x) (pt_parents_ready t x)
  | Some (t', None) => pt_parents_ready t s = [] /\ pr_waiting (pt_get t s) = false /\ pr_waiting (pt_get t' s) = true /\
                       forall x, Permutation (pt_parents_ready t' x) (pt_parents_ready t x)
  end.
Proof. exact wait_answer. Qed.

(* ---- (5) pruning ---- *)
Theorem C07_prune_step : forall t r,
  pt_step t (TPrune r) = Some (pt_prune t r, [], []) /\
  forall s, pt_parents_ready (pt_prune t r) s = if r <=? s then pt_parents_ready t s else [].
Proof. exact step_prune. Qed.

(* ---- the pool issues exactly such runs ---- *)
Theorem C07_pool_feeds_tracker_monotone : forall e ops,
  exists tops, roots_mono tops = true /\
               (exists ann wk, pt_run tops = Some (p_prt (pool_run_ops e ops), ann, wk)) /\
               mk_root (marks_of tops) <= ft_first (p_ft (pool_run_ops e ops)).
Proof. exact pool_feeds_tracker. Qed.

Theorem C07_pool_tracker_exact : forall e ops,
  let p := pool_run_ops e ops in
  exists tops, roots_mono tops = true /\ pt_root (p_prt p) = mk_root (marks_of tops) /\
    (forall s b, In b (pt_parents_ready (p_prt p) s) -> ready_spec_m (marks_of tops) s b = true) /\
    (forall s b, retained (marks_of tops) (fst b) = true -> ready_spec_m (marks_of tops) s b = true ->
                 In b (pt_parents_ready (p_prt p) s)) /\
    (forall s, NoDup (pt_parents_ready (p_prt p) s)) /\
    (forall s, pr_waiting (pt_get (p_prt p) s) = true -> pt_parents_ready (p_prt p) s = []).
Proof. exact pool_tracker_exact. Qed.

Theorem C07_pool_tracker_marks_never_panic : forall e ops op,
  let p := pool_run_ops e ops in
  (forall r, op = TPrune r -> ft_first (p_ft p) <= r) -> (forall s, op <> TWait s) ->
  pt_step (p_prt p) op <> None.
Proof. exact pool_tracker_marks_never_panic. Qed.

(* ---- the certificate-to-mark link: WHICH operations the pool issues to its parent-ready tracker ---- *)
(* every pool reachable from pool_init by any pool_step sequence; g_trace / g_events = ghost trace and emitted events
   (Model/PoolTrace.v); tops_of runs the finality tracker along the trace: notar-fallback mark per Notar /
   NotarFallback certificate, skip mark per Skip certificate, after every finality-tracker operation the
   finalization event it returned and a prune at the watermark, a wait per waiter registration *)
Theorem C07_pool_ready_marks : forall e ops,
  let g := ghost_run e ops in
  let H := held_certs (g_trace g) in
  exists fevs tops,
    trace_run ft_init (g_trace g) = Some (p_ft (g_pool g), fevs, tops) /\ tops = tops_of (g_trace g) /\
    ft_run ft_init (fops_of (g_trace g)) = Some (p_ft (g_pool g), fevs) /\
    pt_run tops = Some (p_prt (g_pool g), ev_prs (g_events g), ev_wk (g_events g)) /\
    roots_mono tops = true /\ mk_root (marks_of tops) = first_unpruned (g_pool g) /\
    (forall b, In (TNotarFb b) tops <-> has_nf_cert H b = true) /\
    (forall s, In (TSkip s) tops <-> has_skip_cert H s = true) /\
    (forall s, In (TWait s) tops <-> In (IWait s) (g_trace g)) /\
    (forall ev, In (TFinalize ev) tops -> In ev fevs) /\
    (forall ev, In ev fevs -> ev = fe_empty \/ In (TFinalize ev) tops) /\
    (forall b, In b (mk_nf (marks_of tops)) <-> b = (0, 0) \/ has_nf_cert H b = true \/ In b (all_final_events fevs)) /\
    (forall s, In s (mk_skip (marks_of tops)) <-> has_skip_cert H s = true \/ In s (all_skip_events fevs)).
Proof. exact pool_ready_marks. Qed.

(* no premise: the query, the ParentReady events and the wake-ups of the pool against the certificates held and the
   finalization events its finality tracker returned *)
Theorem C07_pool_parent_ready_events_level : forall e ops,
  let g := ghost_run e ops in let p := g_pool g in
  let H := held_certs (g_trace g) in
  exists fevs, ft_run ft_init (fops_of (g_trace g)) = Some (p_ft p, fevs) /\
    let nf b := b = (0, 0) \/ has_nf_cert H b = true \/ In b (all_final_events fevs) in
    let sk x := has_skip_cert H x = true \/ In x (all_skip_events fevs) in
    let spec s b := is_window_start s = true /\ fst b < s /\ nf b /\ forall x, fst b < x < s -> sk x in
    (forall s b, In b (pt_parents_ready (p_prt p) s) -> spec s b) /\
    (forall s b, first_unpruned p <= fst b -> spec s b -> In b (pt_parents_ready (p_prt p) s)) /\
    (forall s, NoDup (pt_parents_ready (p_prt p) s)) /\
    NoDup (ev_prs (g_events g)) /\
    (forall s b, In (s, b) (ev_prs (g_events g)) -> spec s b) /\
    (forall s b, In (EWaiterWoken s b) (g_events g) -> spec s b) /\
    (forall s, pr_waiting (pt_get (p_prt p) s) = true -> pt_parents_ready (p_prt p) s = []).
Proof. exact pool_parent_ready_events_level. Qed.

(* C07 at certificate level, under the consistency of the certificates held (H) and links registered (B), *)
(* the same with the genesis fact as an explicit decidable premise about H and B (no certificate and no registration
   names a block of slot 0 other than genesis) instead of deriving it from the form of ft_consistent: this variant does
   not depend on which clauses ft_consistent has *)
Theorem C07_pool_parent_ready_certificate_level_explicit_genesis : forall e ops (C : slot -> option hash),
  let g := ghost_run e ops in let p := g_pool g in
  let H := held_certs (g_trace g) in let B := reg_links (g_trace g) in
  ft_consistent C (cert_hist H B) = true -> slot0_genesis_only H B = true ->
  (forall s b, In b (pt_parents_ready (p_prt p) s) -> ReadySpec H B s b) /\
  (forall s b, first_unpruned p <= fst b -> ReadySpec H B s b -> In b (pt_parents_ready (p_prt p) s)) /\
  (forall s, NoDup (pt_parents_ready (p_prt p) s)) /\
  NoDup (ev_prs (g_events g)) /\
  (forall s b, In (s, b) (ev_prs (g_events g)) -> ReadySpec H B s b) /\
  (forall s b, In (EWaiterWoken s b) (g_events g) -> ReadySpec H B s b) /\
  (forall s, pr_waiting (pt_get (p_prt p) s) = true -> pt_parents_ready (p_prt p) s = []).
Proof. exact pool_parent_ready_certificate_level_explicit_genesis. Qed.

Theorem C07_registered_links_point_backwards : forall e ops b par,
  In (b, par) (reg_links (g_trace (ghost_run e ops))) -> fst par < fst b.
Proof. exact reachable_links_lt. Qed.

Theorem C07_certificate_level_spec_is_executable : forall H B s p,
  (forall b par, In (b, par) B -> fst par < fst b) -> (ready_specb H B s p = true <-> ReadySpec H B s p).
Proof. exact ready_specb_iff. Qed.

(* the oracle's executable parent-ready specification (Oracle/PoolRun.v ready_spec) IS the certificate-level one *)
Theorem C07_oracle_ready_spec_is_ReadySpec : forall cs blocks,
  (forall b par, In (b, par) blocks -> fst par < fst b) ->
  forall s b, ready_spec cs blocks s b = true <-> ReadySpec cs blocks s b.
Proof. exact oracle_ready_spec_iff. Qed.

Theorem C07_oracle_ready_spec_eq_ready_specb : forall cs blocks,
  (forall b par, In (b, par) blocks -> fst par < fst b) ->
  forall s b, ready_spec cs blocks s b = ready_specb cs blocks s b.
Proof. exact oracle_ready_spec_eq. Qed.

Example C07_pool_link_nonvacuous :
  let g := ghost_run lk_epoch lk_ops in
  let H := held_certs (g_trace g) in let B := reg_links (g_trace g) in
  ft_consistent lk_chain (cert_hist H B) = true /\ slot0_genesis_only H B = true /\
  p_panicked (g_pool g) = false /\
  map (fun c => (c_slot c, c_kind c)) H =
    [(1, CNotarFb 7); (1, CNotar 7); (1, CFastFinal 7); (3, CFinal); (2, CSkip); (3, CNotar 3); (5, CFastFinal 5);
     (6, CSkip); (7, CSkip)] /\
  B = [((5, 5), (3, 3)); ((3, 3), (1, 7))] /\
  first_unpruned (g_pool g) = 5 /\ finalized_slot (g_pool g) = 5 /\
  pt_parents_ready (p_prt (g_pool g)) 8 = [(5, 5)] /\
  ev_prs (g_events g) = [(4, (3, 3)); (8, (5, 5))] /\ ev_wk (g_events g) = [EWaiterWoken 8 (5, 5)] /\
  ready_specb H B 8 (5, 5) = true /\ ready_specb H B 8 (3, 3) = false.
Proof. exact lk_example. Qed.

(* ---- the hypotheses are satisfiable, the restrictions necessary ---- *)
(* wit_pruned_ops (Proofs/ParentReadyProofs.v) = [TWait 4; TNotarFb (1,7); TSkip 3; TSkip 2; TSkip 1;
   TFinalize {final (5,9); implicitly final [(4,8)]; implicitly skipped [6;7]}; TPrune 5; TSkip 5; TWait 8;
   TNotarFb (2,3); TSkip 4] *)
Example C07_nonvacuous :
  roots_mono wit_pruned_ops = true /\
  match pt_run wit_pruned_ops with
  | Some (t, ann, wk) =>
    ann = [(4, (1, 7)); (4, (0, 0)); (8, (5, 9))] /\ wk = [EWaiterWoken 4 (1, 7)] /\
    pt_parents_ready t 8 = [(5, 9)] /\ pt_root t = 5
  | None => False
  end.
Proof. vm_compute. repeat split; reflexivity. Qed.

(* block (4,8) is marked and skip-connected to window start 8 in the accumulated marks, but its slot was
   pruned before ... the tracker does not report it: completeness holds for unpruned parents only *)
Theorem C07_pruned_parent_not_reported : exists ops t ann wk p,
  roots_mono ops = true /\ pt_run ops = Some (t, ann, wk) /\
  ready_spec_m (marks_of ops) 8 p = true /\ retained (marks_of ops) (fst p) = false /\
  ~ In p (pt_parents_ready t 8).
Proof. exact pruned_parent_witness. Qed.

(* a root that moves backwards (never issued by the pool) makes a mark operation panic *)
Theorem C07_root_regression_refuted : exists ops,
  (forall s, ~ In (TWait s) ops) /\ roots_mono ops = false /\ pt_run ops = None.
Proof. exact root_regression_witness. Qed.

Print Assumptions C07_pair_ready_once_and_queryable.
Print Assumptions C07_waiter_woken_by_first_parent.
Print Assumptions C07_prune_neutral.
Print Assumptions C07_marks_never_panic.
Print Assumptions C07_run_without_waits_never_panics.
Print Assumptions C07_ready_sound.
Print Assumptions C07_ready_complete_retained.
Print Assumptions C07_ready_no_duplicates.
Print Assumptions C07_ready_list_is_filter_spec.
Print Assumptions C07_tracker_root_is_last_prune.
Print Assumptions C07_announced_once_and_justified.
Print Assumptions C07_announcement_is_new_and_queryable.
Print Assumptions C07_query_agrees_with_announcements.
Print Assumptions C07_waiter_invariant.
Print Assumptions C07_waiter_woken_exactly_by_first_parent.
Print Assumptions C07_wait_answer.
Print Assumptions C07_prune_step.
Print Assumptions C07_pool_feeds_tracker_monotone.
Print Assumptions C07_pool_tracker_exact.
Print Assumptions C07_pool_tracker_marks_never_panic.
Print Assumptions C07_nonvacuous.
Print Assumptions C07_pruned_parent_not_reported.
Print Assumptions C07_root_regression_refuted.
Print Assumptions C07_pool_ready_marks.
Print Assumptions C07_pool_parent_ready_events_level.
Print Assumptions C07_registered_links_point_backwards.
Print Assumptions C07_certificate_level_spec_is_executable.
Print Assumptions C07_pool_link_nonvacuous.
Print Assumptions C07_oracle_ready_spec_is_ReadySpec.
Print Assumptions C07_oracle_ready_spec_eq_ready_specb.
Print Assumptions C07_pool_parent_ready_certificate_level_explicit_genesis.
