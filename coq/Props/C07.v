(* C07 - Parent-ready is announced exactly for certified, skip-connected parents.
   PARTIAL: proved for the model - each (s, b) pair becomes ready at most once (the implementation
   panics on a repeat, the model excludes it), an announced pair is in the query result, a
   registered waiter is woken by the first ready parent, pruning neither loses nor re-creates a
   pair at or above the new root.  The equivalence "ready <-> certified and skip-connected"
   (soundness and completeness w.r.t. the certificate-level specification, for every arrival order)
   is decided by the oracle c07_step_ok on implementation traces (Oracle/PoolRun.v) and by the
   model/implementation correspondence; it is not yet a theorem. *)
From Coq Require Import List NArith Bool.
From AG Require Import Gen.Params Model.Pool Model.PoolSpec Proofs.TrackerProofs.
Import ListNotations.
Open Scope N_scope.

Theorem C07_pair_ready_once_and_queryable : forall t s id t' w,
  pr_add_to_ready t s id = Some (t', w) ->
  existsb (bid_eqb id) (pt_parents_ready t s) = false /\
  pt_parents_ready t' s = pt_parents_ready t s ++ [id] /\
  (forall s', s' <> s -> pt_parents_ready t' s' = pt_parents_ready t s').
Proof. exact add_to_ready_once. Qed.

Theorem C07_waiter_woken_by_first_parent : forall t s id t' w,
  pr_add_to_ready t s id = Some (t', w) ->
  w = if pr_waiting (pt_get t s) && match pr_ready (pt_get t s) with None => true | Some _ => false end
      then [EWaiterWoken s id] else [].
Proof. exact add_to_ready_wakes. Qed.

Theorem C07_prune_neutral : forall t r s,
  pt_parents_ready (pt_prune t r) s = if r <=? s then pt_parents_ready t s else [].
Proof. exact pt_prune_spec. Qed.

Print Assumptions C07_pair_ready_once_and_queryable.
Print Assumptions C07_waiter_woken_by_first_parent.
Print Assumptions C07_prune_neutral.
