(* C19 - Wire format: messages round-trip exactly and fit one datagram.
   Theorems over the executable codec model Model/Wire.v (wincode 0.6 under NetworkMessageConfig, the
   hand-written impls for BLS signatures, the signer bitmask and the bounded indices, every message type).
   `wire V ch` is the codec a socket of channel ch applies (consensus messages, shreds, repair requests,
   repair responses, transactions); V says which 96-byte strings blst accepts as an individual / aggregate
   signature (arbitrary: the theorems hold for every V).  `decode` = alpenglow::network::deserialize
   (exact length), `encode` = wincode::serialize.  `wf` = the values the encoders are meant for (64-bit
   integers, 32-byte hashes, valid BLS points, indices below their bounds, vectors within the decoder's
   preallocation limit, bitmask of ceil(num_bits/64) <= MAX_SIGNER_WORDS words).
   Partial: "never a panic" is decided by the correspondence (every real call under catch_unwind, the
   model is total); blst / ed25519 byte strings are opaque (their own canonicity is checked per case by the
   harness: re-encoding of every accepted byte string is compared byte for byte). *)
From Coq Require Import String Ascii List NArith Bool.
From Coq Require Import Init.Byte Strings.Byte.
From AG Require Import Gen.Params Model.Wire Proofs.WireProofs.
Import ListNotations.
Open Scope N_scope.

(* every well-formed message of every variant decodes to itself *)
Theorem C19_roundtrip : forall V ch (m : msg_of ch),
  wf (wire V ch) m -> decode (wire V ch) (encode (wire V ch) m) = Some m.
Proof. intros V ch. exact (decode_encode (wire V ch) (wire_ok V ch)). Qed.

(* trailing bytes are rejected: after any accepted datagram, and in particular after any encoding *)
Theorem C19_trailing_bytes_rejected : forall V ch b (m : msg_of ch) x,
  decode (wire V ch) b = Some m -> x <> [] -> decode (wire V ch) (b ++ x) = None.
Proof. intros V ch. exact (decode_trailing (wire V ch) (wire_ok V ch)). Qed.

(* no proper prefix of an accepted datagram is accepted *)
Theorem C19_truncation_rejected : forall V ch b (m : msg_of ch) x,
  decode (wire V ch) (b ++ x) = Some m -> x <> [] -> decode (wire V ch) b = None.
Proof. intros V ch. exact (decode_truncated (wire V ch) (wire_ok V ch)). Qed.

(* whatever an arbitrary byte string decodes to is well formed ... *)
Theorem C19_decoded_is_well_formed : forall V ch b (m : msg_of ch),
  decode (wire V ch) b = Some m -> wf (wire V ch) m.
Proof. intros V ch. exact (decode_wf (wire V ch) (wire_ok V ch)). Qed.

(* ... which for the bounded fields means: out-of-range indices, over-long bitmasks and vectors never get through *)
Theorem C19_out_of_range_rejected_shred : forall s, wf c_shred s ->
  sh_slot s < 2 ^ 64 /\ sh_slice s < MAX_SLICES_PER_BLOCK /\ sh_index s < TOTAL_SHREDS /\
  N.of_nat (length (sh_data s)) <= MTU_BYTES /\ length (sh_sig s) = 64%nat /\
  N.of_nat (length (sh_proof s)) * 32 <= MTU_BYTES /\ Forall (fun h => length h = 32%nat) (sh_proof s).
Proof. exact shred_wf_fields. Qed.
Theorem C19_out_of_range_rejected_repair : forall t, wf c_reqtype t ->
  match t with
  | RLastSliceRoot s h => s < 2 ^ 64 /\ length h = 32%nat
  | RSliceRoot s h i => s < 2 ^ 64 /\ length h = 32%nat /\ i < MAX_SLICES_PER_BLOCK
  | RShred s h i j => s < 2 ^ 64 /\ length h = 32%nat /\ i < MAX_SLICES_PER_BLOCK /\ j < TOTAL_SHREDS
  end.
Proof. exact reqtype_wf_fields. Qed.
Theorem C19_out_of_range_rejected_bitmask : forall V a, wf (c_aggsig V) a ->
  asig_ok V (ag_sig a) = true /\ length (ag_sig a) = 96%nat /\
  N.of_nat (length (ag_words a)) = words_for (ag_bits a) /\ N.of_nat (length (ag_words a)) <= MAX_SIGNER_WORDS /\
  ag_bits a <= MAX_SIGNERS /\ Forall (fun w => w < 2 ^ 64) (ag_words a).
Proof. exact aggsig_wf_fields. Qed.

(* re-encoding anything that decoded gives a fixed point of decode-then-encode *)
Theorem C19_reencode_stable : forall V ch b (m : msg_of ch),
  decode (wire V ch) b = Some m ->
  decode (wire V ch) (encode (wire V ch) m) = Some m /\
  (forall m', decode (wire V ch) (encode (wire V ch) m) = Some m' -> encode (wire V ch) m' = encode (wire V ch) m).
Proof. intros V ch. exact (decode_stable (wire V ch) (wire_ok V ch)). Qed.

(* distinct well-formed messages have distinct encodings *)
Theorem C19_encode_injective : forall V ch (m m' : msg_of ch),
  wf (wire V ch) m -> wf (wire V ch) m' -> encode (wire V ch) m = encode (wire V ch) m' -> m = m'.
Proof. intros V ch. exact (encode_injective (wire V ch) (wire_ok V ch)). Qed.

(* shreds, repair messages, transactions and votes have exactly one accepted encoding *)
Theorem C19_canonical_shred : forall b s, decode c_shred b = Some s -> b = encode c_shred s.
Proof. exact (decode_canonical c_shred shred_canon). Qed.
Theorem C19_canonical_request : forall b r, decode c_request b = Some r -> b = encode c_request r.
Proof. exact (decode_canonical c_request request_canon). Qed.
Theorem C19_canonical_response : forall b r, decode c_response b = Some r -> b = encode c_response r.
Proof. exact (decode_canonical c_response response_canon). Qed.
Theorem C19_canonical_transaction : forall b t, decode c_tx b = Some t -> b = encode c_tx t.
Proof. exact (decode_canonical c_tx tx_canon). Qed.
Theorem C19_canonical_vote : forall V b v,
  decode (c_consensus V) b = Some (WVote v) -> b = encode (c_consensus V) (WVote v).
Proof. exact consensus_vote_canonical. Qed.
(* certificates do not: extra bitmask words and dead bits are accepted (so only stability holds for them) *)
Theorem C19_cert_decoding_not_injective :
  exists b1 b2 m, b1 <> b2 /\ decode (c_consensus all_valid) b1 = Some m /\ decode (c_consensus all_valid) b2 = Some m
                  /\ encode (c_consensus all_valid) m = b1.
Proof. exact cert_decoding_not_injective. Qed.

(* every message a correct node emits fits one datagram (and is well formed, hence round-trips) *)
Theorem C19_fits_datagram : forall V ch (m : msg_of ch), emittable V ch m ->
  N.of_nat (length (encode (wire V ch) m)) <= wire_max ch /\ wire_max ch <= MTU_BYTES.
Proof. exact fits_datagram. Qed.
(* certificates as the constructors build them: any of the five types, any signer sets, any validator count up to the
   supported maximum, any BLS point blst accepts - well formed, round-trips, fits *)
Theorem C19_built_certificates_roundtrip_and_fit : forall V n c,
  n <= MAX_SIGNERS -> cert_scalars_ok c -> Forall (agg_built V n) (cert_aggs c) ->
  decode (c_consensus V) (encode (c_consensus V) (WCert c)) = Some (WCert c) /\
  N.of_nat (length (encode (c_consensus V) (WCert c))) <= consensus_max /\ consensus_max <= MTU_BYTES.
Proof. exact built_cert_roundtrips_and_fits. Qed.
(* shreds for every slice payload size the shredders accept *)
Theorem C19_shreds_for_every_payload_size : forall p s,
  p <= MAX_DATA_PER_SLICE -> wf c_shred s ->
  N.of_nat (length (sh_data s)) = shard_size p -> N.of_nat (length (sh_proof s)) <= SLICE_PROOF_MAX ->
  decode c_shred (encode c_shred s) = Some s /\
  N.of_nat (length (encode c_shred s)) <= shred_max /\ shred_max <= MTU_BYTES.
Proof. exact shred_for_every_payload. Qed.
(* the signer bitmask a certificate constructor builds for n <= MAX_SIGNERS validators is well formed *)
Theorem C19_constructor_bitmask_well_formed : forall n signers, n <= MAX_SIGNERS -> wf c_bitmask (bitmask_of n signers).
Proof. exact bitmask_of_wf. Qed.
(* every shard the Reed-Solomon coder cuts from a slice payload of at most MAX_DATA_PER_SLICE bytes fits a shred *)
Theorem C19_shard_size_bounds : forall p, p <= MAX_DATA_PER_SLICE -> 2 <= shard_size p <= MAX_DATA_PER_SHRED.
Proof. exact shard_size_bounds. Qed.

(* signed vote payloads: the byte string determines kind, slot and block hash (C09 relies on it) *)
Theorem C19_vote_payload_injective : forall p p', wf c_vote_payload p -> wf c_vote_payload p' ->
  encode c_vote_payload p = encode c_vote_payload p' -> p = p'.
Proof. exact vote_payload_injective. Qed.
Theorem C19_vote_payload_canonical : forall b p, decode c_vote_payload b = Some p -> b = encode c_vote_payload p.
Proof. exact (decode_canonical c_vote_payload vote_payload_canon). Qed.

Example C19_nonvacuous :
  decode c_response (encode c_response demo_response) = Some demo_response /\
  N.of_nat (length (encode c_response demo_response)) = response_max /\
  response_bounds demo_response = true /\
  decode c_response (encode c_response demo_response ++ [x00]) = None.
Proof. vm_compute. repeat split; reflexivity. Qed.

Print Assumptions C19_roundtrip.
Print Assumptions C19_trailing_bytes_rejected.
Print Assumptions C19_truncation_rejected.
Print Assumptions C19_decoded_is_well_formed.
Print Assumptions C19_out_of_range_rejected_shred.
Print Assumptions C19_out_of_range_rejected_repair.
Print Assumptions C19_out_of_range_rejected_bitmask.
Print Assumptions C19_reencode_stable.
Print Assumptions C19_encode_injective.
Print Assumptions C19_canonical_shred.
Print Assumptions C19_canonical_request.
Print Assumptions C19_canonical_response.
Print Assumptions C19_canonical_transaction.
Print Assumptions C19_canonical_vote.
Print Assumptions C19_cert_decoding_not_injective.
Print Assumptions C19_fits_datagram.
Print Assumptions C19_built_certificates_roundtrip_and_fit.
Print Assumptions C19_shreds_for_every_payload_size.
Print Assumptions C19_constructor_bitmask_well_formed.
Print Assumptions C19_shard_size_bounds.
Print Assumptions C19_vote_payload_injective.
Print Assumptions C19_vote_payload_canonical.
Print Assumptions C19_nonvacuous.
