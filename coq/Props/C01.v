(* C01 - Finalization agreement: correct nodes never finalize conflicting blocks.
   Only property theorems (closed by lemmas of Proofs/SafetyProofs.v, SafetyLink.v, SafetyExamples.v)
   and Print Assumptions.

   WHAT IS PROVED.  Layer 1 (protocol level, Model/Safety.v): for EVERY validator set and stake
   vector (total > 0), EVERY Byzantine set holding strictly less than 20 % of the stake (exact
   integer comparison, the pool's is_weakest_quorum), EVERY block tree whose parents lie in earlier
   slots, and EVERY history of votes (a list, newest first) in which each vote of a correct validator
   satisfied the rules R0-R6 when it was cast - Byzantine validators cast anything, crashed validators
   cast less, nothing is assumed about delivery -
     T1  two finalized blocks of one slot are equal;
     T2  a slot with a finalized block has no skip certificate, and no other block of that slot has a
         notarization / notar-fallback / fast-finalization certificate;
     T3  every block certified in the slot of a finalized block or later is that block or a descendant
         of it; hence all blocks finalized directly or through a finalized descendant lie on one chain
         and there is one such block per slot.
   Certificates are stake statements over the votes really cast (ideal signatures).  The proofs are by
   quorum intersection (T1, T2), by descent inside a leader window (paper Lemmas 28-31) and - because
   this implementation also announces ParentReady for ancestors of finalized blocks and over
   implicitly skipped slots - by induction over TIME for the cross-window step (a timeless statement
   of R6 with those marks would be circular and false).
   Layer 2 (node level): every trace of the executable Votor model decides only votes that pass the
   node-level rule check (C01_votor_obeys_rules), and a vote that passes it satisfies the abstract
   rule whenever the events handed to the node are justified by the votes cast so far
   (C01_node_rule_sound); the stake conditions under which the pool model raises SafeToNotar /
   SafeToSkip and creates notarization certificates are such justifications
   (C01_pool_s2n_justified, C01_pool_s2s_justified, C01_pool_notar_cert_justified, composing C06).

   PARTIAL.  Not a theorem: (a) that the pool model announces ParentReady(s, p) only for marked
   parents over marked-skipped slots (C07: oracle only) and hands blocks with their true parent
   (C13); (b) the global composition "every correct node is a Pool+Votor pair, every delivered vote
   was cast" as one inductive statement over multi-node executions (DESIGN layer 3) - layers 1 and 2
   are connected by C01_node_rule_sound under the explicit premise ev_justified; (c) certificates
   received from the network are covered through C09's ideal-signature model only.  The multi-node
   agreement oracle runs in the C02 harness, not here; bin/check C01 ties the Votor model to the
   real Votor step by step and judges the real Votor's broadcasts with the same rule check. *)
From Coq Require Import List NArith Bool.
From AG Require Import Gen.Params Model.Pool Model.PoolSpec Model.Votor Model.Safety Model.NodeRules
                       Proofs.SlotStateProofs Proofs.SafeToProofs Proofs.SafetyProofs Proofs.SafetyLink Proofs.SafetyExamples.
Import ListNotations.
Open Scope N_scope.

(* ---------------- layer 1: protocol-level safety ---------------- *)
Theorem C01_T1_one_finalized_block_per_slot : forall W hist s h1 h2,
  world_ok W -> hist_ok W hist ->
  finalized W hist (s, h1) = true -> finalized W hist (s, h2) = true -> h1 = h2.
Proof. exact safety_T1. Qed.

Theorem C01_T2_finalized_slot_not_skip_certified : forall W hist b,
  world_ok W -> hist_ok W hist -> finalized W hist b = true -> skip_cert W hist (fst b) = false.
Proof. exact safety_T2. Qed.

Theorem C01_T2_no_other_block_certified_in_finalized_slot : forall W hist b h',
  world_ok W -> hist_ok W hist -> finalized W hist b = true -> h' <> snd b -> nf_cert W hist (fst b, h') = false.
Proof. exact safety_T2_other. Qed.

Theorem C01_T3_later_certified_blocks_descend_from_finalized : forall W hist b c,
  world_ok W -> hist_ok W hist ->
  finalized W hist b = true -> nf_cert W hist c = true -> fst b <= fst c -> anc_eq W b c.
Proof. exact safety_T3. Qed.

Theorem C01_finalized_blocks_on_one_chain : forall W hist f1 f2 x1 x2,
  world_ok W -> hist_ok W hist ->
  finalized W hist f1 = true -> finalized W hist f2 = true ->
  anc_eq W x1 f1 -> anc_eq W x2 f2 ->
  anc_eq W x1 x2 \/ anc_eq W x2 x1.
Proof. exact safety_one_chain. Qed.

Theorem C01_one_block_per_slot_including_implicit : forall W hist f1 f2 x1 x2,
  world_ok W -> hist_ok W hist ->
  finalized W hist f1 = true -> finalized W hist f2 = true ->
  anc_eq W x1 f1 -> anc_eq W x2 f2 -> fst x1 = fst x2 -> x1 = x2.
Proof. exact safety_one_block_per_slot. Qed.

(* the statements hold at every moment: what was cast up to any earlier moment is again such a history *)
Theorem C01_holds_at_every_moment : forall W newer older, hist_ok W (newer ++ older) -> hist_ok W older.
Proof. exact hist_ok_prefix_closed. Qed.

(* "certificate" = some set of distinct validators, all of whom cast a matching vote, has the stake *)
Theorem C01_certificate_iff_signer_set : forall W H b,
  nf_cert W H b = true <->
  exists S : vidx -> bool,
    (forall u, S u = true -> cast H (fst b) (KNotar (snd b)) u = true \/ cast H (fst b) (KNotarFb (snd b)) u = true) /\
    is_quorum (wep W) (stk W S) = true.
Proof. exact cert_iff_exists_signers. Qed.

(* a correct validator never casts a finalization vote for the genesis slot although Votor would, given
   a notarization certificate for the genesis block: no such certificate can exist *)
Theorem C01_no_final_vote_for_genesis_slot : forall W H u,
  world_ok W -> hist_ok W H -> correct W u = true -> cast H 0 KFinal u = false.
Proof. exact no_final_genesis. Qed.

(* ---------------- layer 2: the node model obeys the rules ---------------- *)
Theorem C01_votor_obeys_rules : forall own ins,
  trace_ok own [] ev_empty (votor_trace own votor_init ins) = true.
Proof. exact votor_obeys_rules. Qed.

Theorem C01_node_rule_sound : forall W o u older ev x,
  own_view o u older -> ev_justified W o u ev -> v_signer x = u ->
  vote_okb older ev x = true -> rule_at W o x.
Proof. exact node_rule_sound. Qed.

Theorem C01_pool_s2n_justified : forall W H e s ss,
  stakes e = w_stakes W -> ss_reach e ss -> (forall v k, stored ss v k -> cast H s k v = true) ->
  forall h, s2n_stake_cond e ss h -> s2n_stake W H (s, h) = true.
Proof. exact pool_s2n_justified. Qed.

Theorem C01_pool_s2s_justified : forall W H e s ss,
  stakes e = w_stakes W -> ss_reach e ss -> (forall v k, stored ss v k -> cast H s k v = true) ->
  is_weak_quorum e (st_nos (ss_t ss) - st_top (ss_t ss)) = true -> s2s_stake W H s.
Proof. exact pool_s2s_justified. Qed.

Theorem C01_pool_notar_cert_justified : forall W H e s ss,
  stakes e = w_stakes W -> ss_reach e ss -> (forall v k, stored ss v k -> cast H s k v = true) ->
  forall h, is_quorum e (aget 0 h (st_notar (ss_t ss))) = true -> notar_cert W H (s, h) = true.
Proof. exact pool_notar_cert_justified. Qed.

(* ---------------- the hypotheses are satisfiable; each clause is needed ---------------- *)
Example C01_nonvacuous :
  world_ok exW /\ hist_ok exW ex_hist /\
  ff_cert exW ex_hist (1, 11) = true /\
  (final_cert exW ex_hist 1 && notar_cert exW ex_hist (1, 11)) = true /\
  finalized exW ex_hist (1, 11) = true /\
  skip_cert exW ex_hist 2 = true /\ skip_cert exW ex_hist 3 = true /\
  nf_cert exW ex_hist (4, 41) = true /\ anc_eq exW (1, 11) (4, 41).
Proof. exact safety_nonvacuous. Qed.

Theorem C01_R1_needed :
  exists W hist b, world_ok W /\ hist_ok_with rule_at_no_r1 W hist /\
                   finalized W hist b = true /\ skip_cert W hist (fst b) = true.
Proof. exact R1_needed. Qed.
Theorem C01_R2_bad_window_needed :
  exists W hist b, world_ok W /\ hist_ok_with rule_at_no_bad W hist /\
                   finalized W hist b = true /\ skip_cert W hist (fst b) = true.
Proof. exact R2_bad_window_needed. Qed.
Theorem C01_R4_needed :
  exists W hist b h', world_ok W /\ hist_ok_with rule_at_no_r4 W hist /\
                      finalized W hist b = true /\ h' <> snd b /\ nf_cert W hist (fst b, h') = true.
Proof. exact R4_needed. Qed.
Theorem C01_R5_needed :
  exists W hist b, world_ok W /\ hist_ok_with rule_at_no_r5 W hist /\
                   finalized W hist b = true /\ skip_cert W hist (fst b) = true.
Proof. exact R5_needed. Qed.
Theorem C01_R6_needed :
  exists W hist b c, world_ok W /\ hist_ok_with rule_at_no_r6 W hist /\
                     finalized W hist b = true /\ finalized W hist c = true /\ fst b <= fst c /\ ~ anc_eq W b c.
Proof. exact R6_needed. Qed.

(* scope of T2: the slot of an IMPLICITLY finalized ancestor can carry a skip certificate (protocol as
   specified); the third clause of the property holds for directly finalized slots *)
Theorem C01_T2_for_implicit_finalization_refuted :
  exists W hist f x, world_ok W /\ hist_ok W hist /\ finalized W hist f = true /\
                     anc_eq W x f /\ x <> f /\ skip_cert W hist (fst x) = true.
Proof. exact implicit_finalization_may_be_skip_certified. Qed.

(* the bound is tight: with Byzantine stake of exactly 20 % a rule-abiding history has a finalized and
   skip-certified slot *)
Theorem C01_byzantine_bound_tight :
  exists W hist b,
    0 < wtotal W /\ 5 * stk W (byz W) = wtotal W /\ (forall b p, w_parent W b = Some p -> fst p < fst b) /\
    hist_ok W hist /\ finalized W hist b = true /\ skip_cert W hist (fst b) = true.
Proof. exact byzantine_bound_tight. Qed.

(* the rule check used as oracle accepts a legitimate sequence and rejects each kind of violation *)
Example C01_oracle_accepts :
  rules_ok [mkVote 1 (KNotar 11) 0; mkVote 1 KFinal 0; mkVote 2 KSkip 0; mkVote 4 (KNotar 41) 0; mkVote 4 KFinal 0] ev1 = true.
Proof. exact rules_ok_accepts. Qed.
Example C01_oracle_rejects_second_initial_vote : rules_ok [mkVote 1 (KNotar 11) 0; mkVote 1 KSkip 0] ev1 = false.
Proof. exact rules_ok_rejects_second_initial_vote. Qed.
Example C01_oracle_rejects_final_in_bad_slot :
  rules_ok [mkVote 1 (KNotar 11) 0; mkVote 1 KSkipFb 0; mkVote 1 KFinal 0] ev1 = false.
Proof. exact rules_ok_rejects_final_in_bad_slot. Qed.
Example C01_oracle_rejects_fallback_after_final :
  rules_ok [mkVote 1 (KNotar 11) 0; mkVote 1 KFinal 0; mkVote 1 (KNotarFb 12) 0] ev1 = false.
Proof. exact rules_ok_rejects_fallback_after_final. Qed.
Example C01_oracle_rejects_foreign_parent : rules_ok [mkVote 1 (KNotar 11) 0; mkVote 2 (KNotar 21) 0] ev1 = false.
Proof. exact rules_ok_rejects_foreign_parent. Qed.
Example C01_oracle_rejects_unannounced_parent :
  rules_ok [mkVote 4 (KNotar 41) 0] (mkEv [(8, (1, 11))] [] [] [] [((4, 41), (1, 11))]) = false.
Proof. exact rules_ok_rejects_unannounced_parent. Qed.

Print Assumptions C01_T1_one_finalized_block_per_slot.
Print Assumptions C01_T2_finalized_slot_not_skip_certified.
Print Assumptions C01_T2_no_other_block_certified_in_finalized_slot.
Print Assumptions C01_T3_later_certified_blocks_descend_from_finalized.
Print Assumptions C01_finalized_blocks_on_one_chain.
Print Assumptions C01_one_block_per_slot_including_implicit.
Print Assumptions C01_no_final_vote_for_genesis_slot.
Print Assumptions C01_votor_obeys_rules.
Print Assumptions C01_node_rule_sound.
Print Assumptions C01_pool_s2n_justified.
Print Assumptions C01_pool_s2s_justified.
Print Assumptions C01_nonvacuous.
Print Assumptions C01_R2_bad_window_needed.
Print Assumptions C01_R6_needed.
