(* C01 - Finalization agreement: correct nodes never finalize conflicting blocks.
   Only property theorems (closed by lemmas of Proofs/SafetyProofs.v, SafetyLink.v, SafetyExamples.v)
   and Print Assumptions.

   WHAT IS PROVED.  Layer 1 (protocol level, Model/Safety.v): for EVERY validator set and stake
   vector (total > 0), EVERY Byzantine set holding strictly less than 20 % of the stake (exact
   integer comparison, the pool's is_weakest_quorum), EVERY block tree whose parents lie in earlier
   slots, and EVERY history of votes (a list, newest first) in which each vote of a correct validator
   satisfied the rules R0-R6 when it was cast - Byzantine validators cast anything, crashed validators
   cast less, nothing is assumed about delivery -
     T1  two finalized blocks of one slot are equal;
     T2  a slot with a finalized block has no skip certificate, and no other block of that slot has a
         notarization / notar-fallback / fast-finalization certificate;
     T3  every block certified in the slot of a finalized block or later is that block or a descendant
         of it; hence all blocks finalized directly or through a finalized descendant lie on one chain
         and there is one such block per slot.
   Certificates are stake statements over the votes really cast (ideal signatures).  The proofs are by
   quorum intersection (T1, T2), by descent inside a leader window (paper Lemmas 28-31) and - because
   this implementation also announces ParentReady for ancestors of finalized blocks and over
   implicitly skipped slots - by induction over TIME for the cross-window step (a timeless statement
   of R6 with those marks would be circular and false).
   Layer 2 (node level): every trace of the executable Votor model decides only votes that pass the
   node-level rule check (C01_votor_obeys_rules), and a vote that passes it satisfies the abstract
   rule whenever the events handed to the node are justified by the votes cast so far
   (C01_node_rule_sound).
   Layer 3 (GLOBAL COMPOSITION, Model/System.v): a SYSTEM = one node model (Pool composed with Votor
   as src/consensus.rs wires them) per correct validator + the global history of all votes cast.  The
   scheduler / adversary chooses every step: a Byzantine validator casts ANY vote (equivocation
   included); a correct node receives any vote that was really cast (by anybody, any number of times, in
   any order, or never), any certificate backed by really cast votes (signers cast the matching votes,
   threshold stake, each validator once - ideal signatures), any block with its true parent, any
   time-out / shred / standstill / waiter input at any time; every vote a node's Votor decides enters
   the history.  Crashes = never scheduled again.  PROVED, for every world with < 20 % Byzantine stake
   and EVERY label sequence:
     C01_system_history_rule_abiding   the global history satisfies hist_ok - the premise ev_justified
                                       of C01_node_rule_sound is discharged (C01_system_evidence_justified):
                                       every event a reachable pool hands to Votor is justified by the
                                       votes cast so far (C01_pool_events_justified: ParentReady only for
                                       marked parents over marked-skipped slots, composing C07's tracker
                                       = marks theorem with "every mark the pool issues comes from a
                                       justified certificate or finalization event"; SafeToNotar /
                                       SafeToSkip by C06's conditions on stored votes, which were cast;
                                       certificates created only at thresholds over stored votes);
     C01_system_agreement              no two correct nodes' finality trackers hold different blocks as
                                       finalized (directly or implicitly) for one slot;
     C01_system_one_chain              all blocks finalized by correct nodes are ancestor-related;
     C01_system_no_finalized_and_skip_certified / _no_other_block_certified / _certified_descends /
     C01_system_no_finalized_and_implicitly_skipped
                                       T2 / T3 on what nodes hold: no skip certificate, no certificate
                                       for another block, in a directly finalized slot; later certified
                                       blocks descend from it; no slot finalized at one node and
                                       implicitly skipped at another;
     C01_node_reports_finalized_only_if_justified / C01_node_holds_only_backed_certificates
                                       the link lemmas: a status "finalized" in a node's tracker is a
                                       finalization of the abstract view; every certificate a node
                                       holds (created or received) is backed by really cast votes.
     C01_system_broadcast_votes_in_history
                                       every vote a correct node broadcasts (standstill re-broadcasts
                                       included) is in the history: the delivery rule "any vote of the
                                       history" covers everything correct nodes send.
   The statements are about what the node MODELS hold; panicked pools included (a panic freezes a
   justified state).

   NO PANIC (C01_system_no_pool_panic, C01_pool_operation_never_panics): in EVERY system run in which
   wait_for_parent_ready is never called for a slot that already has a pending waiter (waits_ok, a
   decidable condition on the run: the block producer's contract, and needed:
   C01_second_waiter_panics_refuted) the pool of every correct node stays alive.  None of the finality
   tracker's "consensus safety violation" assertions, its fuel, "two parents for one block", the
   parent-ready tracker's duplicate assert, an empty certificate, add_block's parent-slot assert,
   'parent not known', recover_from_standstill (C18) can fire: T1-T3 and the justified tracker statuses
   exclude them.

   FINDINGS.  (1) C01_notarized_block_off_the_finalized_chain_refuted (a genuine defect of the tree this
   composition was first proved against, repaired by "fix: allow a notarized block other than the
   implicitly finalized one in a slot"): a safe, rule-abiding run with 19 % Byzantine stake (an
   equivocating leader) in which slot 1 has a notarization certificate for (1, 12) and a notar-fallback
   certificate for (1, 11), the chain continues through (1, 11), and (4, 41) is fast-finalized: the live
   tracker of a correct node holds Notarized(12) while (1, 11) is finalized through its descendant, and
   FinalityTracker::handle_implicitly_finalized's assert_eq!(hash, &block_hash, "consensus safety
   violation") on the Notarized status fired - replayed on the real PoolImpl of that tree: the pool task
   of every correct node holding that notarization certificate died.  A notarized block need not lie on
   the finalized chain; only Finalized(other) / ImplicitlySkipped-vs-finalized are violations.  The
   asserting walk is kept as Model/System.v ft_*_asserting; with the repaired tracker the same node
   survives (C01_repaired_tracker_survives).  (2) C01_rule_R4_without_genesis_refuted: rule R4 as first
   stated ("the parent of a notar-fallback vote is certified") is violated by the repaired
   Pool::add_block, which treats the genesis block as a certified parent; R4 now reads "certified or
   genesis" and T1-T3 are proved for this weaker rule.

   PARTIAL.  Not a theorem: (a) the tie between the blockstore and the block tree (blocks are announced
   with their true parent: C13) and between signature validation and "a delivered vote was cast / a
   delivered certificate is backed" (C09) - both are the ideal model of Model/System.v; (b) tokio task
   interleavings inside one node (one input at a time); (c) Votor's own panics are the subject of C10
   (NodeProofs.node_votor_never_panics).  The multi-node agreement oracle runs in the C02 harness;
   bin/check C01 ties the Votor model to the real Votor step by step and judges the real Votor's
   broadcasts with the same rule check. *)
From Coq Require Import List NArith Bool.
From AG Require Import Gen.Params Model.Pool Model.PoolSpec Model.Votor Model.Node Model.Safety Model.NodeRules Model.System
                       Proofs.SlotStateProofs Proofs.SafeToProofs Proofs.SafetyProofs Proofs.SafetyLink Proofs.SafetyExamples
                       Proofs.SafeToPool Proofs.StandstillProofs Proofs.SysSlot Proofs.SysFinality Proofs.SysReady Proofs.SysPool Proofs.SystemProofs Proofs.SysNoPanic Proofs.SystemExamples.
Import ListNotations.
Open Scope N_scope.

(* ---------------- layer 1: protocol-level safety ---------------- *)
Theorem C01_T1_one_finalized_block_per_slot : forall W hist s h1 h2,
  world_ok W -> hist_ok W hist ->
  finalized W hist (s, h1) = true -> finalized W hist (s, h2) = true -> h1 = h2.
Proof. exact safety_T1. Qed.

Theorem C01_T2_finalized_slot_not_skip_certified : forall W hist b,
  world_ok W -> hist_ok W hist -> finalized W hist b = true -> skip_cert W hist (fst b) = false.
Proof. exact safety_T2. Qed.

Theorem C01_T2_no_other_block_certified_in_finalized_slot : forall W hist b h',
  world_ok W -> hist_ok W hist -> finalized W hist b = true -> h' <> snd b -> nf_cert W hist (fst b, h') = false.
Proof. exact safety_T2_other. Qed.

Theorem C01_T3_later_certified_blocks_descend_from_finalized : forall W hist b c,
  world_ok W -> hist_ok W hist ->
  finalized W hist b = true -> nf_cert W hist c = true -> fst b <= fst c -> anc_eq W b c.
Proof. exact safety_T3. Qed.

Theorem C01_finalized_blocks_on_one_chain : forall W hist f1 f2 x1 x2,
  world_ok W -> hist_ok W hist ->
  finalized W hist f1 = true -> finalized W hist f2 = true ->
  anc_eq W x1 f1 -> anc_eq W x2 f2 ->
  anc_eq W x1 x2 \/ anc_eq W x2 x1.
Proof. exact safety_one_chain. Qed.

Theorem C01_one_block_per_slot_including_implicit : forall W hist f1 f2 x1 x2,
  world_ok W -> hist_ok W hist ->
  finalized W hist f1 = true -> finalized W hist f2 = true ->
  anc_eq W x1 f1 -> anc_eq W x2 f2 -> fst x1 = fst x2 -> x1 = x2.
Proof. exact safety_one_block_per_slot. Qed.

(* the statements hold at every moment: what was cast up to any earlier moment is again such a history *)
Theorem C01_holds_at_every_moment : forall W newer older, hist_ok W (newer ++ older) -> hist_ok W older.
Proof. exact hist_ok_prefix_closed. Qed.

(* "certificate" = some set of distinct validators, all of whom cast a matching vote, has the stake *)
Theorem C01_certificate_iff_signer_set : forall W H b,
  nf_cert W H b = true <->
  exists S : vidx -> bool,
    (forall u, S u = true -> cast H (fst b) (KNotar (snd b)) u = true \/ cast H (fst b) (KNotarFb (snd b)) u = true) /\
    is_quorum (wep W) (stk W S) = true.
Proof. exact cert_iff_exists_signers. Qed.

(* a correct validator never casts a finalization vote for the genesis slot although Votor would, given
   a notarization certificate for the genesis block: no such certificate can exist *)
Theorem C01_no_final_vote_for_genesis_slot : forall W H u,
  world_ok W -> hist_ok W H -> correct W u = true -> cast H 0 KFinal u = false.
Proof. exact no_final_genesis. Qed.

(* ---------------- layer 2: the node model obeys the rules ---------------- *)
Theorem C01_votor_obeys_rules : forall own ins,
  trace_ok own [] ev_empty (votor_trace own votor_init ins) = true.
Proof. exact votor_obeys_rules. Qed.

Theorem C01_node_rule_sound : forall W o u older ev x,
  own_view o u older -> ev_justified W o u ev -> v_signer x = u ->
  vote_okb older ev x = true -> rule_at W o x.
Proof. exact node_rule_sound. Qed.

Theorem C01_pool_s2n_justified : forall W H e s ss,
  stakes e = w_stakes W -> ss_reach e ss -> (forall v k, stored ss v k -> cast H s k v = true) ->
  forall h, s2n_stake_cond e ss h -> s2n_stake W H (s, h) = true.
Proof. exact pool_s2n_justified. Qed.

Theorem C01_pool_s2s_justified : forall W H e s ss,
  stakes e = w_stakes W -> ss_reach e ss -> (forall v k, stored ss v k -> cast H s k v = true) ->
  is_weak_quorum e (st_nos (ss_t ss) - st_top (ss_t ss)) = true -> s2s_stake W H s.
Proof. exact pool_s2s_justified. Qed.

Theorem C01_pool_notar_cert_justified : forall W H e s ss,
  stakes e = w_stakes W -> ss_reach e ss -> (forall v k, stored ss v k -> cast H s k v = true) ->
  forall h, is_quorum e (aget 0 h (st_notar (ss_t ss))) = true -> notar_cert W H (s, h) = true.
Proof. exact pool_notar_cert_justified. Qed.

(* ---------------- layer 3: the global composition ---------------- *)
(* every pool operation with a justified argument keeps the pool justified, and every event it hands to
   Votor is justified by the votes cast so far (the certificate-to-mark link included) *)
Theorem C01_pool_events_justified : forall W, world_ok W -> forall e, stakes e = w_stakes W ->
  forall H p op p' res o,
  PJ W e H p -> op_ok W H op -> pool_step e p op = (p', res, o) ->
  PJ W e H p' /\ Forall (ev_just W H (own e)) (po_events o).
Proof. exact pool_step_just. Qed.

Theorem C01_initial_pool_justified : forall W e H, PJ W e H pool_init.
Proof. exact PJ_init. Qed.

Theorem C01_system_history_rule_abiding : forall W, world_ok W -> forall ls S,
  sys_exec W ls = Some S -> hist_ok W (s_hist S).
Proof. exact sys_hist_ok. Qed.

Theorem C01_system_evidence_justified : forall W, world_ok W -> forall ls S u,
  sys_exec W ls = Some S -> correct W u = true ->
  exists older ev, Inv (nd_votor (s_node S u)) older ev no_ex /\ own_view (s_hist S) u older /\
                   ev_justified W (s_hist S) u ev.
Proof. exact sys_evidence_justified. Qed.

Theorem C01_node_reports_finalized_only_if_justified : forall W, world_ok W -> forall ls S,
  sys_exec W ls = Some S -> forall u b, correct W u = true -> node_finalized (s_node S u) b = true ->
  exists f, finalized W (s_hist S) f = true /\ anc_eq W b f.
Proof. exact node_finalized_sound. Qed.

Theorem C01_node_holds_only_backed_certificates : forall W, world_ok W -> forall ls S,
  sys_exec W ls = Some S -> forall u s c, correct W u = true ->
  In c (certs_of_slot (p_ss (nd_pool (s_node S u)) s)) ->
  c_slot c = s /\ cert_backed W (s_hist S) c = true /\ cert_just W (s_hist S) c = true.
Proof. exact node_held_cert_sound. Qed.

Theorem C01_system_agreement : forall W, world_ok W -> forall ls S,
  sys_exec W ls = Some S -> forall u1 u2 s h1 h2,
  correct W u1 = true -> correct W u2 = true ->
  node_finalized (s_node S u1) (s, h1) = true -> node_finalized (s_node S u2) (s, h2) = true -> h1 = h2.
Proof. exact sys_agreement. Qed.

Theorem C01_system_one_chain : forall W, world_ok W -> forall ls S,
  sys_exec W ls = Some S -> forall u1 u2 x1 x2,
  correct W u1 = true -> correct W u2 = true ->
  node_finalized (s_node S u1) x1 = true -> node_finalized (s_node S u2) x2 = true ->
  anc_eq W x1 x2 \/ anc_eq W x2 x1.
Proof. exact sys_one_chain. Qed.

Theorem C01_system_no_finalized_and_skip_certified : forall W, world_ok W -> forall ls S,
  sys_exec W ls = Some S -> forall u1 u2 b,
  correct W u1 = true -> correct W u2 = true ->
  node_direct_finalized (s_node S u1) b = true -> node_skip_certified (s_node S u2) (fst b) = false.
Proof. exact sys_no_finalized_and_skip_certified. Qed.

Theorem C01_system_no_other_block_certified : forall W, world_ok W -> forall ls S,
  sys_exec W ls = Some S -> forall u1 u2 b h',
  correct W u1 = true -> correct W u2 = true ->
  node_direct_finalized (s_node S u1) b = true -> node_certified (s_node S u2) (fst b, h') = true -> h' = snd b.
Proof. exact sys_no_other_block_certified. Qed.

Theorem C01_system_certified_descends : forall W, world_ok W -> forall ls S,
  sys_exec W ls = Some S -> forall u1 u2 b c,
  correct W u1 = true -> correct W u2 = true ->
  node_direct_finalized (s_node S u1) b = true -> node_certified (s_node S u2) c = true -> fst b <= fst c ->
  anc_eq W b c.
Proof. exact sys_certified_descends. Qed.

Theorem C01_system_no_finalized_and_implicitly_skipped : forall W, world_ok W -> forall ls S,
  sys_exec W ls = Some S -> forall u1 u2 b,
  correct W u1 = true -> correct W u2 = true ->
  node_finalized (s_node S u1) b = true -> node_impl_skipped (s_node S u2) (fst b) = false.
Proof. exact sys_no_finalized_and_implicitly_skipped. Qed.

(* adequacy of the delivery rule: every vote a correct node hands to broadcast in a step (decided votes and the
   re-broadcasts of a standstill bundle) is in the global history after the step *)
Theorem C01_system_broadcast_votes_in_history : forall W, world_ok W -> forall ls S u i v,
  sys_exec W ls = Some S -> correct W u = true -> input_okb W (s_hist S) i = true ->
  let e := node_epoch W u in
  In (VBVote v) (no_out (snd (node_step e (s_node S u) i))) ->
  In v (rev (node_decided e (s_node S u) i) ++ s_hist S).
Proof. exact sys_broadcast_votes_in_history. Qed.

(* no pool panic *)
Theorem C01_pool_operation_never_panics : forall W, world_ok W -> forall e, stakes e = w_stakes W ->
  forall H, hist_ok W H ->
  forall p op, p_panicked p = false -> PJ W e H p -> link_inv p None -> wait_inv p -> StandstillProofs.INV p ->
  op_ok W H op -> op_safe p op = true ->
  p_panicked (fst (fst (pool_step e p op))) = false.
Proof. exact pool_step_total. Qed.

Theorem C01_system_no_pool_panic : forall W, world_ok W -> forall ls S,
  sys_exec W ls = Some S -> waits_ok W ls = true ->
  forall u, correct W u = true -> p_panicked (nd_pool (s_node S u)) = false.
Proof. exact sys_no_pool_panic. Qed.

Theorem C01_system_no_pool_panic_without_waiters : forall W, world_ok W -> forall ls S,
  sys_exec W ls = Some S -> forallb no_wait_label ls = true ->
  forall u, correct W u = true -> p_panicked (nd_pool (s_node S u)) = false.
Proof. exact sys_no_pool_panic_without_waiters. Qed.

(* the hypothesis of the no-panic theorem is satisfiable (the run of C01_system_nonvacuous), and needed *)
Example C01_no_pool_panic_nonvacuous : waits_ok sxW sx_run = true.
Proof. exact sx_run_waits_ok. Qed.

Theorem C01_second_waiter_panics_refuted :
  exists W ls S u, world_ok W /\ sys_exec W ls = Some S /\ correct W u = true /\ waits_ok W ls = false /\
                   p_panicked (nd_pool (s_node S u)) = true.
Proof. exact second_waiter_panics. Qed.

(* FINDING: a notarized block off the finalized chain at a live correct node in a safe run; the tracker's walk
   with the assertion on a Notarized status (Model/System.v ft_mark_fast_finalized_asserting) panics on it *)
Theorem C01_notarized_block_off_the_finalized_chain_refuted :
  exists W ls S u,
    world_ok W /\ forallb plain_label ls = true /\ sys_exec W ls = Some S /\ correct W u = true /\
    p_panicked (nd_pool (s_node S u)) = false /\
    alookup 1 (ft_status (p_ft (nd_pool (s_node S u)))) = Some (FNotarized 12) /\
    node_certified (s_node S u) (1, 11) = true /\
    ff_cert W (s_hist S) (4, 41) = true /\ finalized W (s_hist S) (4, 41) = true /\ anc_eq W (1, 11) (4, 41) /\
    ft_mark_fast_finalized_asserting (p_ft (nd_pool (s_node S u))) (4, 41) = None.
Proof. exact notarized_block_off_the_finalized_chain. Qed.

Theorem C01_repaired_tracker_survives :
  exists S, sys_exec pxW (px_run ++ [LNode 0 (NVote (nv 4 41 1))]) = Some S /\
    waits_ok pxW (px_run ++ [LNode 0 (NVote (nv 4 41 1))]) = true /\
    p_panicked (nd_pool (s_node S 0)) = false /\ node_direct_finalized (s_node S 0) (4, 41) = true.
Proof. exact repaired_tracker_survives. Qed.

(* the system's hypotheses are satisfiable and the statuses the theorems speak about occur: a run with an
   equivocating Byzantine validator in which two correct nodes fast-finalize block (1, 11) *)
Example C01_system_nonvacuous :
  world_ok sxW /\
  exists S, sys_exec sxW sx_run = Some S /\
    node_direct_finalized (s_node S 0) (1, 11) = true /\ node_finalized (s_node S 1) (1, 11) = true /\
    node_certified (s_node S 0) (1, 11) = true /\
    cast (s_hist S) 1 (KNotar 11) 5 = true /\ cast (s_hist S) 1 (KNotar 12) 5 = true /\ cast (s_hist S) 1 KSkip 5 = true /\
    cast (s_hist S) 1 KFinal 0 = true /\ cast (s_hist S) 1 KFinal 1 = true.
Proof. exact sys_nonvacuous. Qed.

(* FINDING: the composition is false for R4 without the genesis clause *)
Theorem C01_rule_R4_without_genesis_refuted :
  exists W ls S newer x older,
    world_ok W /\ sys_exec W ls = Some S /\ s_hist S = newer ++ x :: older /\
    correct W (v_signer x) = true /\ ~ strict_r4 W older x.
Proof. exact strict_r4_refuted. Qed.

(* ---------------- the hypotheses are satisfiable; each clause is needed ---------------- *)
Example C01_nonvacuous :
  world_ok exW /\ hist_ok exW ex_hist /\
  ff_cert exW ex_hist (1, 11) = true /\
  (final_cert exW ex_hist 1 && notar_cert exW ex_hist (1, 11)) = true /\
  finalized exW ex_hist (1, 11) = true /\
  skip_cert exW ex_hist 2 = true /\ skip_cert exW ex_hist 3 = true /\
  nf_cert exW ex_hist (4, 41) = true /\ anc_eq exW (1, 11) (4, 41).
Proof. exact safety_nonvacuous. Qed.

Theorem C01_R1_needed :
  exists W hist b, world_ok W /\ hist_ok_with rule_at_no_r1 W hist /\
                   finalized W hist b = true /\ skip_cert W hist (fst b) = true.
Proof. exact R1_needed. Qed.
Theorem C01_R2_bad_window_needed :
  exists W hist b, world_ok W /\ hist_ok_with rule_at_no_bad W hist /\
                   finalized W hist b = true /\ skip_cert W hist (fst b) = true.
Proof. exact R2_bad_window_needed. Qed.
Theorem C01_R4_needed :
  exists W hist b h', world_ok W /\ hist_ok_with rule_at_no_r4 W hist /\
                      finalized W hist b = true /\ h' <> snd b /\ nf_cert W hist (fst b, h') = true.
Proof. exact R4_needed. Qed.
Theorem C01_R5_needed :
  exists W hist b, world_ok W /\ hist_ok_with rule_at_no_r5 W hist /\
                   finalized W hist b = true /\ skip_cert W hist (fst b) = true.
Proof. exact R5_needed. Qed.
Theorem C01_R6_needed :
  exists W hist b c, world_ok W /\ hist_ok_with rule_at_no_r6 W hist /\
                     finalized W hist b = true /\ finalized W hist c = true /\ fst b <= fst c /\ ~ anc_eq W b c.
Proof. exact R6_needed. Qed.

(* scope of T2: the slot of an IMPLICITLY finalized ancestor can carry a skip certificate (protocol as
   specified); the third clause of the property holds for directly finalized slots *)
Theorem C01_T2_for_implicit_finalization_refuted :
  exists W hist f x, world_ok W /\ hist_ok W hist /\ finalized W hist f = true /\
                     anc_eq W x f /\ x <> f /\ skip_cert W hist (fst x) = true.
Proof. exact implicit_finalization_may_be_skip_certified. Qed.

(* the bound is tight: with Byzantine stake of exactly 20 % a rule-abiding history has a finalized and
   skip-certified slot *)
Theorem C01_byzantine_bound_tight :
  exists W hist b,
    0 < wtotal W /\ 5 * stk W (byz W) = wtotal W /\ (forall b p, w_parent W b = Some p -> fst p < fst b) /\
    hist_ok W hist /\ finalized W hist b = true /\ skip_cert W hist (fst b) = true.
Proof. exact byzantine_bound_tight. Qed.

(* the rule check used as oracle accepts a legitimate sequence and rejects each kind of violation *)
Example C01_oracle_accepts :
  rules_ok [mkVote 1 (KNotar 11) 0; mkVote 1 KFinal 0; mkVote 2 KSkip 0; mkVote 4 (KNotar 41) 0; mkVote 4 KFinal 0] ev1 = true.
Proof. exact rules_ok_accepts. Qed.
Example C01_oracle_rejects_second_initial_vote : rules_ok [mkVote 1 (KNotar 11) 0; mkVote 1 KSkip 0] ev1 = false.
Proof. exact rules_ok_rejects_second_initial_vote. Qed.
Example C01_oracle_rejects_final_in_bad_slot :
  rules_ok [mkVote 1 (KNotar 11) 0; mkVote 1 KSkipFb 0; mkVote 1 KFinal 0] ev1 = false.
Proof. exact rules_ok_rejects_final_in_bad_slot. Qed.
Example C01_oracle_rejects_fallback_after_final :
  rules_ok [mkVote 1 (KNotar 11) 0; mkVote 1 KFinal 0; mkVote 1 (KNotarFb 12) 0] ev1 = false.
Proof. exact rules_ok_rejects_fallback_after_final. Qed.
Example C01_oracle_rejects_foreign_parent : rules_ok [mkVote 1 (KNotar 11) 0; mkVote 2 (KNotar 21) 0] ev1 = false.
Proof. exact rules_ok_rejects_foreign_parent. Qed.
Example C01_oracle_rejects_unannounced_parent :
  rules_ok [mkVote 4 (KNotar 41) 0] (mkEv [(8, (1, 11))] [] [] [] [((4, 41), (1, 11))]) = false.
Proof. exact rules_ok_rejects_unannounced_parent. Qed.

Print Assumptions C01_T1_one_finalized_block_per_slot.
Print Assumptions C01_T2_finalized_slot_not_skip_certified.
Print Assumptions C01_T2_no_other_block_certified_in_finalized_slot.
Print Assumptions C01_T3_later_certified_blocks_descend_from_finalized.
Print Assumptions C01_finalized_blocks_on_one_chain.
Print Assumptions C01_one_block_per_slot_including_implicit.
Print Assumptions C01_no_final_vote_for_genesis_slot.
Print Assumptions C01_votor_obeys_rules.
Print Assumptions C01_node_rule_sound.
Print Assumptions C01_pool_s2n_justified.
Print Assumptions C01_pool_s2s_justified.
Print Assumptions C01_nonvacuous.
Print Assumptions C01_R2_bad_window_needed.
Print Assumptions C01_R6_needed.
Print Assumptions C01_pool_events_justified.
Print Assumptions C01_system_history_rule_abiding.
Print Assumptions C01_system_evidence_justified.
Print Assumptions C01_node_reports_finalized_only_if_justified.
Print Assumptions C01_node_holds_only_backed_certificates.
Print Assumptions C01_system_agreement.
Print Assumptions C01_system_one_chain.
Print Assumptions C01_system_no_finalized_and_skip_certified.
Print Assumptions C01_system_no_other_block_certified.
Print Assumptions C01_system_certified_descends.
Print Assumptions C01_system_no_finalized_and_implicitly_skipped.
Print Assumptions C01_system_nonvacuous.
Print Assumptions C01_rule_R4_without_genesis_refuted.
Print Assumptions C01_pool_operation_never_panics.
Print Assumptions C01_system_no_pool_panic.
Print Assumptions C01_system_no_pool_panic_without_waiters.
Print Assumptions C01_second_waiter_panics_refuted.
Print Assumptions C01_repaired_tracker_survives.
Print Assumptions C01_no_pool_panic_nonvacuous.
Print Assumptions C01_notarized_block_off_the_finalized_chain_refuted.
Print Assumptions C01_system_broadcast_votes_in_history.
