(* C03 - Certificates a node emits are valid, justified by accepted votes, and timely (soundness: the first
   theorems; timeliness / completeness: C03_certificate_held_once_threshold_reached, over all reachable pools).
   Only property theorems (closed by lemmas of Proofs/SlotStateProofs.v) and Print Assumptions. *)
From Coq Require Import List NArith Bool.
From AG Require Import Gen.Params Model.Pool Model.PoolSpec Proofs.SlotStateProofs Proofs.PoolProgressProofs.
Import ListNotations.
Open Scope N_scope.

(* In every slot state the pool can reach (any admitted votes from any signers, any received
   certificates, block registrations, in any order, any stake distribution with positive total),
   every certificate created when a further vote is admitted:
     - lists as signers exactly the validators whose matching votes are stored (each once, first
       half / second half by vote kind) and declares their combined stake, and
     - meets its threshold (60 %, 80 % for fast-finalization) when the receiver recounts the
       distinct signers' stake;
   and the certificate constructor never panics (the option is Some). *)
Theorem C03_created_certs_valid : forall e ss vt,
  0 < total_stake e -> ss_reach e ss -> admitted ss vt ->
  Forall (cert_good e (fst (ss_add_vote e ss vt)) (v_slot vt)) (o_certs (snd (ss_add_vote e ss vt))).
Proof. exact reach_created_certs_good. Qed.

(* running totals are exactly the stake of the validators holding a stored vote (each counted once),
   hence a certificate exists as soon as, and only when, the stored votes reach the threshold:
   the creation conditions of the model compare these totals with the thresholds *)
Theorem C03_totals_are_stored_stake : forall e ss, ss_reach e ss -> totals_ok e ss /\ halves_disjoint ss.
Proof. exact reach_invariants. Qed.

(* finding on the pinned tree (fixed): counting before storing left the crossing voter out *)
Theorem C03_pinned_count_before_store_refuted :
  exists c, In (Some c) (o_certs (snd (ss_add_vote_gen false pinned_witness_epoch pinned_witness_state (mkVote 1 (KNotar 7) 2))))
            /\ cert_threshold_ok pinned_witness_epoch c = false.
Proof. exact pinned_count_before_store_refuted. Qed.

(* non-vacuity: the same witness on the current tree yields three good certificates *)
Example C03_nonvacuous :
  let e := pinned_witness_epoch in
  let ss := fst (ss_add_vote e (fst (ss_add_vote e ss_empty (mkVote 1 (KNotar 7) 0))) (mkVote 1 (KNotar 7) 1)) in
  map (fun oc => match oc with Some c => (c_s1 c, cert_threshold_ok e c) | None => ([], false) end)
      (o_certs (snd (ss_add_vote e ss (mkVote 1 (KNotar 7) 2)))) = [([0; 1; 2], true); ([0; 1; 2], true)].
Proof. vm_compute. reflexivity. Qed.

(* TIMELINESS, for every pool reachable by any operation sequence: as soon as the stored votes of a class reach
   the threshold the certificate of that class is held (whichever vote arrived last) - 60 % for notarization,
   notar-fallback (notar + notar-fallback votes), skip (skip + skip-fallback) and finalization, 80 % for
   fast-finalization *)
Theorem C03_certificate_held_once_threshold_reached : forall e p s,
  0 < total_stake e -> pool_reachable e p -> p_panicked p = false ->
  let ss := p_ss p s in
  (forall h, is_quorum e (stake_sum e (notar_voters e ss h)) = true -> ce_notar (ss_c ss) <> None) /\
  (forall h, is_strong_quorum e (stake_sum e (notar_voters e ss h)) = true -> ce_ff (ss_c ss) <> None) /\
  (forall h, is_quorum e (stake_sum e (nf_voters e ss h) + stake_sum e (notar_voters e ss h)) = true -> is_notar_fallback ss h = true) /\
  (is_quorum e (stake_sum e (skip_voters e ss) + stake_sum e (sf_voters e ss)) = true -> ce_skip (ss_c ss) <> None) /\
  (is_quorum e (stake_sum e (fin_voters e ss)) = true -> ce_fin (ss_c ss) <> None).
Proof. exact threshold_then_cert. Qed.

Print Assumptions C03_created_certs_valid.
Print Assumptions C03_totals_are_stored_stake.
Print Assumptions C03_pinned_count_before_store_refuted.
Print Assumptions C03_nonvacuous.
Print Assumptions C03_certificate_held_once_threshold_reached.
