(* C03 - Certificates a node emits are valid, justified by accepted votes, and timely.
   Only property theorems (closed by lemmas of Proofs/SlotStateProofs.v) and Print Assumptions. *)
From Coq Require Import List NArith Bool.
From AG Require Import Gen.Params Model.Pool Model.PoolSpec Proofs.SlotStateProofs.
Import ListNotations.
Open Scope N_scope.

(* In every slot state the pool can reach (any admitted votes from any signers, any received
   certificates, block registrations, in any order, any stake distribution with positive total),
   every certificate created when a further vote is admitted:
     - lists as signers exactly the validators whose matching votes are stored (each once, first
       half / second half by vote kind) and declares their combined stake, and
     - meets its threshold (60 %, 80 % for fast-finalization) when the receiver recounts the
       distinct signers' stake;
   and the certificate constructor never panics (the option is Some). *)
Theorem C03_created_certs_valid : forall e ss vt,
  0 < total_stake e -> ss_reach e ss -> admitted ss vt ->
  Forall (cert_good e (fst (ss_add_vote e ss vt)) (v_slot vt)) (o_certs (snd (ss_add_vote e ss vt))).
Proof. exact reach_created_certs_good. Qed.

(* running totals are exactly the stake of the validators holding a stored vote (each counted once),
   hence a certificate exists as soon as, and only when, the stored votes reach the threshold:
   the creation conditions of the model compare these totals with the thresholds *)
Theorem C03_totals_are_stored_stake : forall e ss, ss_reach e ss -> totals_ok e ss /\ halves_disjoint ss.
Proof. exact reach_invariants. Qed.

(* finding on the pinned tree (fixed): counting before storing left the crossing voter out *)
Theorem C03_pinned_count_before_store_refuted :
  exists c, In (Some c) (o_certs (snd (ss_add_vote_gen false pinned_witness_epoch pinned_witness_state (mkVote 1 (KNotar 7) 2))))
            /\ cert_threshold_ok pinned_witness_epoch c = false.
Proof. exact pinned_count_before_store_refuted. Qed.

(* non-vacuity: the same witness on the current tree yields three good certificates *)
Example C03_nonvacuous :
  let e := pinned_witness_epoch in
  let ss := fst (ss_add_vote e (fst (ss_add_vote e ss_empty (mkVote 1 (KNotar 7) 0))) (mkVote 1 (KNotar 7) 1)) in
  map (fun oc => match oc with Some c => (c_s1 c, cert_threshold_ok e c) | None => ([], false) end)
      (o_certs (snd (ss_add_vote e ss (mkVote 1 (KNotar 7) 2)))) = [([0; 1; 2], true); ([0; 1; 2], true)].
Proof. vm_compute. reflexivity. Qed.

Print Assumptions C03_created_certs_valid.
Print Assumptions C03_totals_are_stored_stake.
Print Assumptions C03_pinned_count_before_store_refuted.
Print Assumptions C03_nonvacuous.
