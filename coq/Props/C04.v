(* C04 - Vote admission: one countable vote per validator, slashing flagged order-free.
   Only property theorems (closed by lemmas of Proofs/SlotStateProofs.v) and Print Assumptions. *)
From Coq Require Import List NArith Bool.
From AG Require Import Gen.Params Model.Pool Model.PoolSpec Proofs.SlotStateProofs.
Import ListNotations.
Open Scope N_scope.

(* a vote that conflicts with a stored vote of the same validator is reported as a slashable
   offence - [conflicts] is symmetric, so this holds whichever of the two arrived first *)
Theorem C04_conflict_flagged : forall ss s v k k' o,
  stored ss v k -> conflicts k k' = Some o -> exists o', check_slashable ss (mkVote s k' v) = Some o'.
Proof. exact conflict_flagged. Qed.
Theorem C04_conflicts_symmetric : forall k k', conflicts k k' = conflicts k' k.
Proof. intros k k'. destruct k, k'; cbn; try reflexivity. rewrite N.eqb_sym. reflexivity. Qed.
(* the reported offence is one of the stored conflicts *)
Theorem C04_flagged_only_conflicts : forall ss s v k' o,
  check_slashable ss (mkVote s k' v) = Some o -> exists k, stored ss v k /\ conflicts k k' = Some o.
Proof. exact flagged_only_conflicts. Qed.
(* exact or equivalent repeats are refused as duplicates *)
Theorem C04_repeat_ignored : forall ss s v k k',
  stored ss v k -> equivalent k k' = true -> should_ignore ss (mkVote s k' v) = true.
Proof. exact repeat_ignored. Qed.
(* nothing a correct validator can legitimately cast is refused *)
Theorem C04_legitimate_admitted : forall ss s v k',
  (forall k, stored ss v k -> conflicts k k' = None /\ equivalent k k' = false) -> admitted ss (mkVote s k' v).
Proof. exact legitimate_admitted. Qed.
(* admitted votes are stored and never displace stored ones *)
Theorem C04_admitted_stored : forall e ss vt, stored (fst (ss_add_vote e ss vt)) (v_signer vt) (v_kind vt).
Proof. intros. apply add_vote_stored. Qed.
Theorem C04_admitted_keeps : forall e ss vt v k,
  admitted ss vt -> stored ss v k -> stored (fst (ss_add_vote e ss vt)) v k.
Proof. intros. apply add_vote_keeps; assumption. Qed.
(* each validator's stake is counted at most once per vote class: the running totals equal the stake of
   the (distinct) validators holding a stored vote of that class, in every reachable slot state *)
Theorem C04_stake_counted_once : forall e ss, ss_reach e ss -> totals_ok e ss.
Proof. intros e ss H. exact (proj1 (reach_invariants e ss H)). Qed.

(* non-vacuity: the honest combinations of the property are admitted step by step on a concrete state *)
Example C04_nonvacuous :
  let e := mkEpoch [1; 1; 1; 1; 1] 0 in
  let step ss vt := match check_slashable ss vt, should_ignore ss vt with
                    | None, false => fst (ss_add_vote e ss vt) | _, _ => ss_empty end in
  let ss := fold_left step [mkVote 2 (KNotar 1) 1; mkVote 2 (KNotarFb 2) 1; mkVote 2 KSkipFb 1] ss_empty in
  (check_slashable ss (mkVote 2 KFinal 1), check_slashable ss (mkVote 2 (KNotar 2) 1), should_ignore ss (mkVote 2 (KNotarFb 1) 1))
  = (Some OSkipAndFinalize, Some ONotarDifferentHash, true).
Proof. vm_compute. reflexivity. Qed.

Print Assumptions C04_conflict_flagged.
Print Assumptions C04_conflicts_symmetric.
Print Assumptions C04_flagged_only_conflicts.
Print Assumptions C04_repeat_ignored.
Print Assumptions C04_legitimate_admitted.
Print Assumptions C04_admitted_stored.
Print Assumptions C04_admitted_keeps.
Print Assumptions C04_stake_counted_once.
Print Assumptions C04_nonvacuous.
