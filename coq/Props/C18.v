(* C18 - Standstill recovery re-broadcasts a bundle sufficient to catch up, at any time.

   PROVED for the model (Model/Pool.v), for EVERY pool reachable from pool_init by ANY sequence of pool
   operations (votes of any signers, received certificates, block registrations, standstill triggers, waiter
   registrations; any stakes, any order) that has not panicked [pool_reachable e p, p_panicked p = false]:

   SAFE, PURE  C18_recovery_total: triggering recovery never panics (whatever has or has not been finalized,
               after every prefix of every history), leaves the pool unchanged, asks for no repair and emits
               exactly one Standstill event for slot finalized+1 whose contents are [bundle_certs p] /
               [bundle_votes e p]; C18_recovery_never_panics; C18_recovery_safe_at_genesis and the pinned tree's
               panic on a fresh pool (C18_pinned_recovery_at_genesis_refuted) are kept.
   VALIDITY    C18_bundle_proves_finalized_slot: unless only genesis is finalized, the bundle starts with a
               fast-finalization certificate of the highest finalized slot, or with a finalization and a
               notarization certificate of that slot.
               C18_bundle_certs_held / C18_bundle_certs_complete: every certificate of the bundle is held by
               the pool in the state of its own slot, none is older than the finalized slot, and every
               certificate held for a later slot is in the bundle.
               C18_bundle_certs_valid: every certificate of the bundle meets its threshold when a receiver
               recounts the stake of its signers (ValidatedCert::try_new's threshold check), provided the
               certificates the pool RECEIVED did (Pool::add_cert takes a ValidatedCert) and the total stake is
               positive; created certificates do by the slot-state invariants (C03).
               C18_bundle_votes_own / C18_bundle_votes_complete: the votes of the bundle are exactly the node's
               own stored votes for slots above the finalized slot.
   SUFFICIENCY C18_bundle_sufficient: a pool that starts EMPTY (any epoch description: the receiver is another
               validator) and receives the certificates of the bundle - each at least once, in ANY order, with
               any repetitions - provided all of them lie inside the window a fresh pool accepts
               (slot < 2 * SLOTS_PER_EPOCH, decidable predicate in_window): does not panic, ends with finalized
               slot EQUAL to the sender's, holds for every slot from the finalized slot on exactly the
               certificates of the bundle for that slot (the sender's own certificate objects), and nothing else.
               C18_bundle_ready_parents: every block that the certificates of the bundle alone make a ready
               parent of a window start (a notarization / notar-fallback / fast-finalization certificate of the
               bundle for the block, a skip certificate of the bundle for every slot in between) is a ready
               parent of that window at the receiver; C18_bundle_ready_parents_at_sender: the same holds at
               the sender when the block's certificate is a notarization / notar-fallback certificate (a
               certificate held for an unpruned slot has set its tracker mark, in every reachable pool), so
               sender and receiver agree on these parents.  What the receiver cannot learn from the bundle are
               ready parents that the sender derived from parent links (implicitly finalized / skipped slots)
               or from certificates of slots below its finalized slot: the bundle carries no block registrations.
   FINDING     C18_bundle_refused_beyond_window: as soon as the sender's highest finalized slot is
               2 * SLOTS_PER_EPOCH (36000) or more, a fresh pool refuses EVERY element of the bundle as
               SlotOutOfBounds (Pool::add_cert: slot >= finalized_slot + 2 * SLOTS_PER_EPOCH, with
               finalized_slot = 0), in whatever order and however often it is delivered, and stays exactly the
               empty pool: the sufficiency clause of the property is false there
               (C18_sufficiency_beyond_window_refuted: concrete two-certificate history).

   FORWARDING  C18_votor_forwards_bundle: the Votor model hands every Standstill event on as the broadcast of
               exactly its certificates and votes, in every (non-panicked) Votor state, pruned or not; the
               correspondence of that model with the real Votor is the C05 / votor:pool-standstill check.

   NOT PROVED here (oracle c18_step_ok / harness only): EQUALITY of the ready-parent lists of sender and
   receiver (the oracle compares them on generated, consistent histories; proved is the inclusion above, the
   receiver's lists are sound by the C07 theorems); what the bundle's VOTES add at the receiver; signature
   validity of the bundle elements (ValidatedCert / ValidatedVote::try_new on the real objects, harness);
   bundles whose certificates reach beyond slot 2 * SLOTS_PER_EPOCH while the finalized slot is below it (there
   the outcome depends on the delivery order). *)
From Coq Require Import List NArith Bool.
From AG Require Import Gen.Params Model.Pool Model.PoolSpec Model.Votor Proofs.TrackerProofs Proofs.VotorProofs
  Proofs.PoolProgressProofs Proofs.StandstillProofs Proofs.StandstillReady.
Import ListNotations.
Open Scope N_scope.

Theorem C18_recovery_safe_at_genesis : forall e p,
  finalized_slot p = 0 -> snd (fst (pool_standstill e p)) <> RPanic.
Proof. exact standstill_safe_at_genesis. Qed.

Theorem C18_pinned_recovery_at_genesis_refuted : forall e, snd (fst (pool_standstill_gen false e pool_init)) = RPanic.
Proof. exact standstill_pinned_refuted. Qed.

Theorem C18_bundle_contents : forall e p p' r o,
  pool_standstill e p = (p', r, o) -> r <> RPanic ->
  p' = p /\ po_repair o = [] /\
  let s := finalized_slot p in
  let later := filter (fun kv => s <? fst kv) (slots_sorted (p_slots p)) in
  po_events o = [EStandstill (s + 1)
                   (get_final_certs p s ++ flat_map (fun kv => certs_of_slot (snd kv)) later)
                   (flat_map (fun kv => own_votes_of_slot e (fst kv) (snd kv)) later)].
Proof. exact standstill_bundle_contents. Qed.

(* ---------- safe in every state, no state change ---------- *)
Theorem C18_recovery_total : forall e p,
  pool_reachable e p -> p_panicked p = false ->
  pool_step e p OpStandstill =
  (p, RVerdict VNone, mkPO [EStandstill (finalized_slot p + 1) (bundle_certs p) (bundle_votes e p)] []).
Proof. exact reachable_standstill_total. Qed.

Theorem C18_recovery_never_panics : forall e p,
  pool_reachable e p -> p_panicked p = false -> snd (fst (pool_step e p OpStandstill)) <> RPanic.
Proof. exact reachable_standstill_never_panics. Qed.

(* ---------- validity ---------- *)
Theorem C18_bundle_proves_finalized_slot : forall e p,
  pool_reachable e p -> finalized_slot p <> 0 ->
  exists l,
    ((exists c h, l = [c] /\ c_kind c = CFastFinal h /\ c_slot c = finalized_slot p) \/
     (exists cf cn h, l = [cf; cn] /\ c_kind cf = CFinal /\ c_slot cf = finalized_slot p /\
                      c_kind cn = CNotar h /\ c_slot cn = finalized_slot p)) /\
    forall c, In c l -> In c (bundle_certs p).
Proof. exact reachable_bundle_final_certs. Qed.

Theorem C18_bundle_certs_held : forall e p c,
  pool_reachable e p -> In c (bundle_certs p) ->
  In c (certs_of_slot (p_ss p (c_slot c))) /\ finalized_slot p <= c_slot c.
Proof. exact reachable_bundle_certs_held. Qed.

Theorem C18_bundle_certs_complete : forall e p s c,
  pool_reachable e p -> finalized_slot p < s -> In c (certs_of_slot (p_ss p s)) -> In c (bundle_certs p).
Proof. exact reachable_bundle_certs_complete. Qed.

Theorem C18_bundle_certs_valid : forall e ops c,
  0 < total_stake e -> forallb (op_cert_ok e) ops = true ->
  let p := pool_run e pool_init ops in
  p_panicked p = false -> In c (bundle_certs p) -> cert_threshold_ok e c = true.
Proof. exact bundle_certs_valid. Qed.

Theorem C18_bundle_votes_own : forall e p v,
  pool_reachable e p -> In v (bundle_votes e p) ->
  v_signer v = own e /\ finalized_slot p < v_slot v /\ stored (p_ss p (v_slot v)) (own e) (v_kind v).
Proof. exact reachable_bundle_votes_own. Qed.

Theorem C18_bundle_votes_complete : forall e p s k,
  pool_reachable e p -> finalized_slot p < s -> stored (p_ss p s) (own e) k -> In (mkVote s k (own e)) (bundle_votes e p).
Proof. exact reachable_bundle_votes_complete. Qed.

(* ---------- sufficiency ---------- *)
Theorem C18_bundle_sufficient : forall e e' p l,
  pool_reachable e p -> incl l (bundle_certs p) -> incl (bundle_certs p) l -> in_window l = true ->
  let q := feed e' pool_init l in
  p_panicked q = false /\
  finalized_slot q = finalized_slot p /\
  (forall s c, finalized_slot p <= s -> (In c (certs_of_slot (p_ss q s)) <-> In c (bundle_certs p) /\ c_slot c = s)) /\
  (forall s c, In c (certs_of_slot (p_ss q s)) -> In c (bundle_certs p)).
Proof. exact reachable_bundle_sufficient. Qed.

(* ready parents: a block certified by a notarization / notar-fallback / fast-finalization certificate of the
   bundle, with a skip certificate of the bundle for every slot up to a window start, is a ready parent of that
   window at the receiver *)
Theorem C18_bundle_ready_parents : forall e e' p l,
  pool_reachable e p -> incl l (bundle_certs p) -> incl (bundle_certs p) l -> in_window l = true ->
  let q := feed e' pool_init l in
  forall sb h w, sb < w -> is_window_start w = true ->
    (exists c, In c (bundle_certs p) /\ c_slot c = sb /\
               (c_kind c = CNotar h \/ c_kind c = CNotarFb h \/ c_kind c = CFastFinal h)) ->
    (forall k, sb < k < w -> exists c, In c (bundle_certs p) /\ c_slot c = k /\ c_kind c = CSkip) ->
    In (sb, h) (pt_parents_ready (p_prt q) w).
Proof. exact reachable_bundle_ready_parents. Qed.

(* ... and, when the certificate for the block is a notarization / notar-fallback certificate, at the sender too:
   on these parents sender and receiver agree *)
Theorem C18_bundle_ready_parents_at_sender : forall e p,
  pool_reachable e p -> p_panicked p = false ->
  forall sb h w, sb < w -> is_window_start w = true ->
    (exists c, In c (bundle_certs p) /\ c_slot c = sb /\ (c_kind c = CNotar h \/ c_kind c = CNotarFb h)) ->
    (forall k, sb < k < w -> exists c, In c (bundle_certs p) /\ c_slot c = k /\ c_kind c = CSkip) ->
    In (sb, h) (pt_parents_ready (p_prt p) w).
Proof. exact reachable_bundle_ready_parents_sender. Qed.

(* the voting component hands the bundle on unchanged, whatever its own (pruning) state *)
Theorem C18_votor_forwards_bundle : forall own t s cs vs,
  vt_panicked t = false ->
  votor_step own t (VPool (EStandstill s cs vs)) = (t, map VBCert cs ++ map VBVote vs, false).
Proof. exact standstill_forwarded. Qed.

(* ---------- finding: the acceptance window of a fresh pool ---------- *)
Theorem C18_bundle_refused_beyond_window : forall e e' p l,
  pool_reachable e p -> 2 * SLOTS_PER_EPOCH <= finalized_slot p -> incl l (bundle_certs p) ->
  feed e' pool_init l = pool_init.
Proof. exact reachable_bundle_refused_beyond_window. Qed.

Theorem C18_sufficiency_beyond_window_refuted :
  let p := pool_run far_epoch pool_init far_ops in
  p_panicked p = false /\ finalized_slot p = 40000 /\
  bundle_certs p = [mkCert 40000 (CFastFinal 9) [0] [] 1] /\
  forallb (op_cert_ok far_epoch) far_ops = true /\
  snd (fst (pool_step far_epoch pool_init (OpCert (mkCert 40000 (CFastFinal 9) [0] [] 1)))) = RVerdict VOutOfBounds /\
  finalized_slot (feed far_epoch pool_init (bundle_certs p)) = 0.
Proof. exact bundle_sufficiency_refuted. Qed.

(* ---------- non-vacuity: a reachable sender with a non-trivial bundle satisfying every hypothesis ---------- *)
Definition ex_e := mkEpoch [1; 1; 1; 1; 1] 0.
Definition ex_e' := mkEpoch [1; 1; 1; 1; 1] 3.
Definition ex_ops : list pool_op :=
  [OpVote (mkVote 1 (KNotar 11) 1); OpVote (mkVote 1 (KNotar 11) 2); OpVote (mkVote 1 (KNotar 11) 0);
   OpVote (mkVote 1 KFinal 1); OpVote (mkVote 1 KFinal 2); OpVote (mkVote 1 KFinal 0);
   OpVote (mkVote 2 KSkip 0); OpVote (mkVote 2 KSkip 3); OpVote (mkVote 2 KSkip 4);
   OpVote (mkVote 3 (KNotar 33) 0); OpVote (mkVote 3 (KNotar 33) 3); OpVote (mkVote 3 (KNotar 33) 4);
   OpCert (mkCert 5 (CNotarFb 55) [1; 2] [3] 3)].
Definition ex_p := pool_run ex_e pool_init ex_ops.

Example C18_nonvacuous :
  p_panicked ex_p = false /\ finalized_slot ex_p = 1 /\
  (0 <? total_stake ex_e) = true /\ forallb (op_cert_ok ex_e) ex_ops = true /\
  length (bundle_certs ex_p) = 6%nat /\
  bundle_votes ex_e ex_p = [mkVote 2 KSkip 0; mkVote 3 (KNotar 33) 0] /\
  in_window (rev (bundle_certs ex_p)) = true /\
  (let q := feed ex_e' pool_init (rev (bundle_certs ex_p)) in
   p_panicked q = false /\ finalized_slot q = 1 /\
   pt_parents_ready (p_prt q) 4 = [(3, 33)] /\ pt_parents_ready (p_prt ex_p) 4 = [(3, 33)]).
Proof. vm_compute. repeat split; reflexivity. Qed.

Print Assumptions C18_recovery_safe_at_genesis.
Print Assumptions C18_pinned_recovery_at_genesis_refuted.
Print Assumptions C18_bundle_contents.
Print Assumptions C18_recovery_total.
Print Assumptions C18_recovery_never_panics.
Print Assumptions C18_bundle_proves_finalized_slot.
Print Assumptions C18_bundle_certs_held.
Print Assumptions C18_bundle_certs_complete.
Print Assumptions C18_bundle_certs_valid.
Print Assumptions C18_bundle_votes_own.
Print Assumptions C18_bundle_votes_complete.
Print Assumptions C18_bundle_sufficient.
Print Assumptions C18_bundle_ready_parents.
Print Assumptions C18_bundle_ready_parents_at_sender.
Print Assumptions C18_votor_forwards_bundle.
Print Assumptions C18_bundle_refused_beyond_window.
Print Assumptions C18_sufficiency_beyond_window_refuted.
Print Assumptions C18_nonvacuous.
