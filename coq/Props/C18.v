(* C18 - Standstill recovery re-broadcasts a bundle sufficient to catch up, at any time.
   PARTIAL: proved for the model - recovery is safe while only genesis is finalized (the pinned tree
   panicked there), and the bundle consists of exactly the final certificates of the highest finalized
   slot, every held certificate of later slots and the own votes of later slots, without touching the
   state.  Validity of every bundle element at a receiver and sufficiency (a fresh node reaching the
   same finalized slot and ready parents) are decided by the oracle c18_step_ok, by validating every
   element with the real ValidatedCert/ValidatedVote::try_new and by replaying the bundle into a second
   real pool (harness), after every kind of history and at random prefixes.  That Votor forwards the
   bundle regardless of its pruning state is part of the Votor model (C05 check). *)
From Coq Require Import List NArith Bool.
From AG Require Import Gen.Params Model.Pool Model.PoolSpec Proofs.TrackerProofs.
Import ListNotations.
Open Scope N_scope.

Theorem C18_recovery_safe_at_genesis : forall e p,
  finalized_slot p = 0 -> snd (fst (pool_standstill e p)) <> RPanic.
Proof. exact standstill_safe_at_genesis. Qed.

Theorem C18_pinned_recovery_at_genesis_refuted : forall e, snd (fst (pool_standstill_gen false e pool_init)) = RPanic.
Proof. exact standstill_pinned_refuted. Qed.

Theorem C18_bundle_contents : forall e p p' r o,
  pool_standstill e p = (p', r, o) -> r <> RPanic ->
  p' = p /\ po_repair o = [] /\
  let s := finalized_slot p in
  let later := filter (fun kv => s <? fst kv) (slots_sorted (p_slots p)) in
  po_events o = [EStandstill (s + 1)
                   (get_final_certs p s ++ flat_map (fun kv => certs_of_slot (snd kv)) later)
                   (flat_map (fun kv => own_votes_of_slot e (fst kv) (snd kv)) later)].
Proof. exact standstill_bundle_contents. Qed.

Print Assumptions C18_recovery_safe_at_genesis.
Print Assumptions C18_pinned_recovery_at_genesis_refuted.
Print Assumptions C18_bundle_contents.
