(* C02 - Progress: correct leaders' blocks are finalized once the network is timely.

   PARTIAL.  What is proved here (kernel-checked, for ALL validator counts, stake distributions, states and
   input orders - by invariants / induction, no bounds) is the LOGIC that makes progress happen, over the
   executable models of the pool (Model/Pool.v), of Votor (Model/Votor.v) and of their composition exactly as
   src/consensus.rs wires them (Model/Node.v):

   P1  pool completeness.  In every pool state reachable by ANY sequence of operations (votes of any signers,
       received certificates, block registrations, recoveries, in any order) and for every slot, stored stake
       at a threshold implies the certificate of that class is held (C02_threshold_then_cert); accepted votes
       and held certificates stay until the slot falls below the watermark, and neither the watermark nor the
       finalized slot ever moves back (C02_votes_stay_until_pruned); every certificate entering the pool is
       reported to Votor (C02_cert_reported).
   P2  Votor.  An invariant of all event sequences (C02_votor_invariant: Votor never panics on events the pool
       can emit and keeps its state well-formed) and, in every well-formed state: block + acceptable parent =>
       notarization vote, in both arrival orders for a window's first slot (C02_block_then_notar,
       C02_parent_ready_then_notar); notarization certificate for the own vote, window not bad => finalization
       vote (C02_notar_cert_then_final); every reported certificate is handed to broadcast
       (C02_cert_rebroadcast); an expired timer => skip votes for every unvoted slot of the window, after which
       the whole window has its initial votes (C02_timeout_then_skip, C02_crashed_leader_timeout_then_skip);
       SafeToNotar / SafeToSkip => the fallback vote and the skip votes (C02_safe_to_notar_then_fallback,
       C02_safe_to_skip_then_fallback); ParentReady arms the window's timers (C02_timeouts_scheduled).  In the
       composed node the pool only emits events Votor accepts, so Votor never panics for ANY input sequence
       (C02_pool_events_accepted, C02_node_votor_never_panics).
   P3  the ParentReady chain (a certified block followed by skip-certified slots up to the next window start
       becomes a ready parent of that window, in every arrival order): see C02_parent_ready_chain below.
   P4  one synchronous round over the composed node (C02_one_round_certificates): if the notarization votes for
       block h of slot s of a set V of validators holding >= 60 % (resp. >= 80 %) of the stake are all delivered
       to node q - any order, interleaved with any other inputs that are not conflicting votes of V - then q's
       pool holds the notarization certificate (resp. also the fast-finalization certificate), unless the slot
       was already decided and pruned; a fast-finalization certificate entering the pool for an undecided slot
       makes it the finalized slot (C02_fast_final_cert_finalizes).  With P2 (every correct node that has
       ParentReady and the block before its timer casts notar) this is the paper's one-round argument.

   What is NOT proved, only validated on the implementation by the oracle c02_run (Oracle/C02.v) over
   simulated multi-node runs of the real PoolImpl + Votor, and by the per-node model/implementation
   correspondence on every step of those runs:
     - the global liveness statement itself (after stabilisation every correct node's finalized slot keeps
       advancing, faulty leaders' windows are skipped, correct leaders' blocks are finalized everywhere, in
       one round by a fast-finalization certificate with >= 80 % responsive stake): composing P1-P4 into it
       needs the real-time inequalities between DELTA_BLOCK / DELTA_TIMEOUT and the network delay bound and a
       global (all nodes, message soup) induction that is not done here;
     - recovery from arbitrary pre-stabilisation states (standstill re-broadcast, repair);
     - the block producer (leader side) is played by the harness. *)
From Coq Require Import List NArith Bool.
From AG Require Import Gen.Params Model.Pool Model.PoolSpec Model.Votor Model.Node
  Proofs.SlotStateProofs Proofs.VotorProgressProofs Proofs.PoolProgressProofs Proofs.ReadyChainProofs Proofs.NodeProofs.
Import ListNotations.
Open Scope N_scope.

(* ---------------- P1 ---------------- *)
Theorem C02_threshold_then_cert : forall e p s,
  0 < total_stake e -> pool_reachable e p -> p_panicked p = false ->
  let ss := p_ss p s in
  (forall h, is_quorum e (stake_sum e (notar_voters e ss h)) = true -> ce_notar (ss_c ss) <> None) /\
  (forall h, is_strong_quorum e (stake_sum e (notar_voters e ss h)) = true -> ce_ff (ss_c ss) <> None) /\
  (forall h, is_quorum e (stake_sum e (nf_voters e ss h) + stake_sum e (notar_voters e ss h)) = true -> is_notar_fallback ss h = true) /\
  (is_quorum e (stake_sum e (skip_voters e ss) + stake_sum e (sf_voters e ss)) = true -> ce_skip (ss_c ss) <> None) /\
  (is_quorum e (stake_sum e (fin_voters e ss)) = true -> ce_fin (ss_c ss) <> None).
Proof. exact threshold_then_cert. Qed.

Theorem C02_votes_stay_until_pruned : forall e ops p s,
  0 < total_stake e -> pool_inv e p -> p_panicked (pool_run e p ops) = false ->
  let p' := pool_run e p ops in
  first_unpruned p <= first_unpruned p' /\ finalized_slot p <= finalized_slot p' /\
  (s < first_unpruned p' \/
   ((forall v k, stored (p_ss p s) v k -> stored (p_ss p' s) v k) /\ (forall k, has_class (p_ss p s) k -> has_class (p_ss p' s) k))).
Proof. exact stored_until_pruned. Qed.

Theorem C02_cert_reported : forall e p c p' o,
  add_valid_cert e p c = Some (p', o) ->
  pool_ext p p' /\
  (has_class (p_ss p' (c_slot c)) (class_of (c_kind c)) \/ (fresh (p_ss p' (c_slot c)) /\ c_slot c < first_unpruned p')) /\
  In (ECertCreated c) (po_events o).
Proof. exact add_valid_cert_ext. Qed.

(* ---------------- P2 ---------------- *)
Theorem C02_votor_invariant : forall own t i,
  votor_wf t -> vin_ok i -> vt_panicked t = false ->
  votor_wf (fst (fst (votor_step own t i))) /\ snd (votor_step own t i) = false /\
  vt_panicked (fst (fst (votor_step own t i))) = false.
Proof. exact votor_step_wf. Qed.

Theorem C02_votor_reachable_wf : forall own t, votor_reach own t -> votor_wf t /\ vt_panicked t = false.
Proof. exact votor_reach_wf. Qed.

Theorem C02_block_then_notar : forall own t s h parent,
  votor_wf t -> vt_panicked t = false -> v_old t s = false -> v_voted t s = false -> parent_ok t s parent ->
  exists t' o, votor_step own t (VBlock s h parent) = (t', o, false) /\
    In (VBVote (mkVote s (KNotar h) own)) o /\ v_voted t' s = true /\ votor_wf t'.
Proof. exact block_then_notar. Qed.

Theorem C02_parent_ready_then_notar : forall own t s p h x,
  votor_wf t -> vt_panicked t = false -> is_window_start s = true ->
  v_first_unpruned t <= s -> v_retired t s = false ->
  vget t s = Some x -> vs_pending x = Some (h, p) -> vs_voted x = false ->
  exists t' o, votor_step own t (VPool (EParentReady s p)) = (t', o, false) /\
    In (VBVote (mkVote s (KNotar h) own)) o /\ In (VSetTimeouts s) o /\ v_voted t' s = true /\ votor_wf t'.
Proof. exact parent_ready_then_notar. Qed.

Theorem C02_notar_cert_then_final : forall own t c h x,
  votor_wf t -> vt_panicked t = false -> c_kind c = CNotar h -> v_first_unpruned t <= c_slot c ->
  vget t (c_slot c) = Some x -> vs_voted_notar x = Some h -> vs_bad x = false ->
  exists t', votor_step own t (VPool (ECertCreated c)) =
             (t', [VBVote (mkVote (c_slot c) KFinal own); VBCert c], false) /\ v_retired t' (c_slot c) = true.
Proof. exact notar_cert_then_final. Qed.

Theorem C02_cert_rebroadcast : forall own t c,
  votor_wf t -> vt_panicked t = false -> v_first_unpruned t <= c_slot c ->
  exists t' o, votor_step own t (VPool (ECertCreated c)) = (t', o ++ [VBCert c], false).
Proof. exact cert_rebroadcast. Qed.

Theorem C02_timeout_then_skip : forall own t s,
  votor_wf t -> vt_panicked t = false -> v_old t s = false -> v_voted t s = false ->
  exists t' o, votor_step own t (VTimeout s) = (t', o, false) /\
    (forall s', In s' (window_slots s) -> v_voted t s' = false -> In (VBVote (mkVote s' KSkip own)) o) /\
    (forall s', In s' (window_slots s) -> v_voted t' s' = true) /\ votor_wf t'.
Proof. exact timeout_then_skip. Qed.

Theorem C02_crashed_leader_timeout_then_skip : forall own t s,
  votor_wf t -> vt_panicked t = false -> v_old t s = false -> v_voted t s = false -> v_shred t s = false ->
  exists t' o, votor_step own t (VTimeoutCrashed s) = (t', o, false) /\
    (forall s', In s' (window_slots s) -> v_voted t s' = false -> In (VBVote (mkVote s' KSkip own)) o) /\
    (forall s', In s' (window_slots s) -> v_voted t' s' = true) /\ votor_wf t'.
Proof. exact crashed_leader_timeout_then_skip. Qed.

Theorem C02_safe_to_notar_then_fallback : forall own t s h,
  votor_wf t -> vt_panicked t = false -> v_first_unpruned t <= s -> v_retired t s = false ->
  exists t' o, votor_step own t (VPool (ESafeToNotar (s, h))) = (t', VBVote (mkVote s (KNotarFb h) own) :: o, false) /\
    (forall s', In s' (window_slots s) -> v_voted t s' = false -> In (VBVote (mkVote s' KSkip own)) o) /\ votor_wf t'.
Proof. exact safe_to_notar_then_fallback. Qed.

Theorem C02_safe_to_skip_then_fallback : forall own t s,
  votor_wf t -> vt_panicked t = false -> v_first_unpruned t <= s -> v_retired t s = false ->
  exists t' o, votor_step own t (VPool (ESafeToSkip s)) = (t', VBVote (mkVote s KSkipFb own) :: o, false) /\
    (forall s', In s' (window_slots s) -> v_voted t s' = false -> In (VBVote (mkVote s' KSkip own)) o) /\ votor_wf t'.
Proof. exact safe_to_skip_then_fallback. Qed.

Theorem C02_timeouts_scheduled : forall own t s p,
  votor_wf t -> vt_panicked t = false -> is_window_start s = true -> v_first_unpruned t <= s -> v_retired t s = false ->
  exists t' o, votor_step own t (VPool (EParentReady s p)) = (t', o ++ [VSetTimeouts s], false).
Proof. exact timeouts_scheduled. Qed.

(* in the composed node: every event any pool operation emits is one Votor accepts, hence for EVERY input
   sequence Votor inside the node never panics and stays well-formed (so the lemmas above apply to every
   node state reachable from the initial one) *)
Theorem C02_pool_events_accepted : forall e p op, evs_ok (po_events (snd (pool_step e p op))).
Proof. exact pool_step_events_ok. Qed.

Theorem C02_node_votor_never_panics : forall e ins,
  votor_wf (nd_votor (fst (node_run e node_init ins))) /\ vt_panicked (nd_votor (fst (node_run e node_init ins))) = false.
Proof. exact node_votor_never_panics. Qed.

(* ---------------- P3 ---------------- *)
Theorem C02_parent_ready_chain : parent_ready_chain_statement.
Proof. exact parent_ready_chain. Qed.

(* ---------------- P4 ---------------- *)
Theorem C02_node_pool_component : forall e ins nd,
  nd_pool (fst (node_run e nd ins)) = pool_run e (nd_pool nd) (map nin_op ins).
Proof. exact node_run_pool. Qed.

Theorem C02_quorum_of_votes_delivered : forall e V s h ops p,
  0 < total_stake e -> pool_inv e p ->
  NoDup V -> (forall v, In v V -> v < nvals e) ->
  (forall v, In v V -> clean_for (p_ss p s) v h) -> Forall (harmless V s h) ops ->
  (forall v, In v V -> In (OpVote (mkVote s (KNotar h) v)) ops) ->
  s < finalized_slot p + 2 * SLOTS_PER_EPOCH ->
  let p' := pool_run e p ops in
  p_panicked p' = false -> first_unpruned p' <= s ->
  (is_quorum e (stake_sum e V) = true -> ce_notar (ss_c (p_ss p' s)) <> None) /\
  (is_strong_quorum e (stake_sum e V) = true -> ce_ff (ss_c (p_ss p' s)) <> None).
Proof. exact quorum_of_votes_delivered. Qed.

Theorem C02_one_round_certificates : forall e V s h ins nd,
  0 < total_stake e -> pool_inv e (nd_pool nd) ->
  NoDup V -> (forall v, In v V -> v < nvals e) ->
  (forall v, In v V -> clean_for (p_ss (nd_pool nd) s) v h) ->
  Forall (fun i => harmless V s h (nin_op i)) ins ->
  (forall v, In v V -> In (NVote (mkVote s (KNotar h) v)) ins) ->
  s < finalized_slot (nd_pool nd) + 2 * SLOTS_PER_EPOCH ->
  let p' := nd_pool (fst (node_run e nd ins)) in
  p_panicked p' = false -> first_unpruned p' <= s ->
  (is_quorum e (stake_sum e V) = true -> ce_notar (ss_c (p_ss p' s)) <> None) /\
  (is_strong_quorum e (stake_sum e V) = true -> ce_ff (ss_c (p_ss p' s)) <> None).
Proof. exact one_round_certificates. Qed.

Theorem C02_node_pool_invariant : forall e ins,
  0 < total_stake e ->
  let p' := nd_pool (fst (node_run e node_init ins)) in
  p_panicked p' = false -> pool_inv e p'.
Proof. exact node_pool_inv. Qed.

Theorem C02_fast_final_cert_finalizes : forall e p c h p' o,
  add_valid_cert e p c = Some (p', o) -> c_kind c = CFastFinal h -> first_unpruned p <= c_slot c ->
  (forall h', alookup (c_slot c) (ft_status (p_ft p)) <> Some (FFinalized h')) ->
  (forall h', alookup (c_slot c) (ft_status (p_ft p)) <> Some (FImplFinalized h')) ->
  c_slot c <= finalized_slot p'.
Proof. exact fast_final_cert_finalizes. Qed.

(* ---------------- refuted for the PINNED tree: fallback completeness for children of the genesis block ---------------- *)
(* DEFECT of the pinned tree (found on the implementation by the oracle: runs stuck for good, signature
   c02:genesis-child-never-certified:...; repaired by "fix: treat the genesis block as a certified parent for
   safe-to-notar"): the genesis block never counted as a certified parent in Pool::add_block, so SafeToNotar was
   never raised for a block built directly on genesis - split votes on such a block (slot 1, or the first block
   after a fully skipped prefix) could never be resolved by notar-fallback votes. *)
Theorem C02_pinned_genesis_child_safe_to_notar_refuted :
  let e := mkEpoch [1; 1; 1; 1; 1] 4 in
  let p0 := fst (fst (pool_add_block_gen false e pool_init (1, 11) (0, 0))) in
  let ops := [OpVote (mkVote 1 (KNotar 11) 0); OpVote (mkVote 1 (KNotar 11) 1);
              OpVote (mkVote 1 KSkip 4); OpVote (mkVote 1 KSkip 3)] in
  let p := fst (pool_run_events e p0 ops) in
  let evs := snd (pool_run_events e p0 ops) in
  is_weak_quorum e (stake_sum e (notar_voters e (p_ss p 1) 11)) = true /\
  memN 4 (vo_skip (ss_v (p_ss p 1))) = true /\
  alookup 11 (pa_status (ss_n (p_ss p 1))) = Some false /\
  existsb (fun ev => match ev with ESafeToNotar _ => true | _ => false end) evs = false /\
  p_waiting p = [((0, 0), (1, 11))] /\ p_panicked p = false.
Proof. exact pinned_genesis_child_safe_to_notar_refuted. Qed.

Theorem C02_genesis_child_safe_to_notar_now :
  let e := mkEpoch [1; 1; 1; 1; 1] 4 in
  let ops := [OpBlock (1, 11) (0, 0); OpVote (mkVote 1 (KNotar 11) 0); OpVote (mkVote 1 (KNotar 11) 1);
              OpVote (mkVote 1 KSkip 4); OpVote (mkVote 1 KSkip 3)] in
  let evs := snd (pool_run_events e pool_init ops) in
  existsb (fun ev => match ev with ESafeToNotar b => bid_eqb b (1, 11) | _ => false end) evs = true.
Proof. exact genesis_child_safe_to_notar_now. Qed.

(* ---------------- non-vacuity: one synchronous round on a concrete node ---------------- *)
(* five equal validators, node 4: window 0, block (1, 11) on genesis arrives, then the notarization votes of
   validators 0..3 (80 %): the node votes notar, its pool creates notar-fallback, notar and fast-final
   certificates, finalizes slot 1, and Votor broadcasts the certificates and its finalization vote *)
Example C02_nonvacuous :
  let e := mkEpoch [1; 1; 1; 1; 1] 4 in
  let ins := [NFirstShred 1; NBlock 1 11 (0, 0); NPoolBlock (1, 11) (0, 0);
              NVote (mkVote 1 (KNotar 11) 0); NVote (mkVote 1 (KNotar 11) 1); NVote (mkVote 1 (KNotar 11) 2);
              NVote (mkVote 1 (KNotar 11) 3)] in
  let '(nd, outs) := node_run e node_init ins in
  (finalized_slot (nd_pool nd),
   match ce_ff (ss_c (p_ss (nd_pool nd) 1)) with Some c => c_s1 c | None => [] end,
   flat_map (fun o => flat_map (fun x => match x with VBVote v => [(v_slot v, v_kind v)] | _ => [] end) (no_out o)) outs,
   length (flat_map (fun o => filter (fun x => match x with VBCert _ => true | _ => false end) (no_out o)) outs))
  = (1, [0; 1; 2; 3], [(1, KNotar 11); (1, KFinal)], 3%nat).
Proof. vm_compute. reflexivity. Qed.

Print Assumptions C02_threshold_then_cert.
Print Assumptions C02_votes_stay_until_pruned.
Print Assumptions C02_cert_reported.
Print Assumptions C02_votor_invariant.
Print Assumptions C02_votor_reachable_wf.
Print Assumptions C02_block_then_notar.
Print Assumptions C02_parent_ready_then_notar.
Print Assumptions C02_notar_cert_then_final.
Print Assumptions C02_cert_rebroadcast.
Print Assumptions C02_timeout_then_skip.
Print Assumptions C02_crashed_leader_timeout_then_skip.
Print Assumptions C02_safe_to_notar_then_fallback.
Print Assumptions C02_safe_to_skip_then_fallback.
Print Assumptions C02_timeouts_scheduled.
Print Assumptions C02_pool_events_accepted.
Print Assumptions C02_node_votor_never_panics.
Print Assumptions C02_parent_ready_chain.
Print Assumptions C02_node_pool_component.
Print Assumptions C02_quorum_of_votes_delivered.
Print Assumptions C02_one_round_certificates.
Print Assumptions C02_node_pool_invariant.
Print Assumptions C02_fast_final_cert_finalizes.
Print Assumptions C02_pinned_genesis_child_safe_to_notar_refuted.
Print Assumptions C02_genesis_child_safe_to_notar_now.
Print Assumptions C02_nonvacuous.
