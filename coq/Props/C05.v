(* C05 - A correct node's own votes obey the voting rules under every event order.
   Proved for the Votor model - the guard under which each kind of vote is cast (finalize, notarize,
   skip) for every state and event, verbatim forwarding of standstill bundles, and the TRACE-level
   statement for every input sequence from the initial state (C05_every_trace_obeys_the_rules, proved
   with an 8-clause per-slot invariant through all handlers and pruning): at most one initial vote
   (notar XOR skip) per slot, final(s) only for the block it notarized in s, with that block's notar
   certificate seen and no skip / fallback vote in s, nothing but a repeated final vote after
   final(s), notar only on a ParentReady parent (window start) or on the block it notarized in the
   previous slot, fallback votes only in response to the pool's SafeToNotar / SafeToSkip events
   (Model/NodeRules.v: vote_okb / trace_ok is the executable statement).  PARTIAL in this respect
   only: that own votes are never a slashable combination w.r.t. the pool's conflict relation is
   decided by replaying the own votes of the implementation through the proved vote-admission model
   (C04) in the oracle c05_step_ok, and by the model/implementation correspondence.  The clause
   "fallback votes only after the condition held at that node" concerns the composition with the pool
   and is decided by C06. *)
From Coq Require Import List NArith Bool.
From AG Require Import Gen.Params Model.Pool Model.PoolSpec Model.Votor Model.NodeRules Proofs.VotorProofs Proofs.SafetyLink.
Import ListNotations.
Open Scope N_scope.

Theorem C05_final_vote_guard : forall own t s h t' o,
  v_try_final own t s h = Some (t', o) -> o <> [] ->
  o = [VBVote (mkVote s KFinal own)] /\
  (exists x, vget t s = Some x /\ vs_notarized x = Some h /\ vs_voted_notar x = Some h /\ vs_bad x = false) /\
  v_retired t' s = true.
Proof. exact final_vote_guard. Qed.

Theorem C05_notar_vote_guard : forall own t s h parent t' o,
  v_try_notar own t s h parent = Some (t', o, true) ->
  v_voted t s = false /\ v_first_unpruned t <= s /\
  (if s =? window_first s
   then exists x, vget t s = Some x /\ existsb (bid_eqb parent) (vs_parents x) = true
   else fst parent = s - 1 /\ exists x, vget t (fst parent) = Some x /\ vs_voted_notar x = Some (snd parent)) /\
  (exists rest, o = VBVote (mkVote s (KNotar h) own) :: rest /\ (rest = [] \/ rest = [VBVote (mkVote s KFinal own)])).
Proof. exact notar_vote_guard. Qed.

Theorem C05_skip_window_votes : forall own t s t' o,
  v_try_skip_window own t s = Some (t', o) ->
  Forall (fun x => exists s', x = VBVote (mkVote s' KSkip own) /\
                              In s' (seqN (window_first s) (N.to_nat SLOTS_PER_WINDOW))) o.
Proof. exact skip_window_votes. Qed.

Theorem C05_standstill_forwarded : forall own t s cs vs,
  vt_panicked t = false ->
  votor_step own t (VPool (EStandstill s cs vs)) = (t, map VBCert cs ++ map VBVote vs, false).
Proof. exact standstill_forwarded. Qed.

Theorem C05_every_trace_obeys_the_rules : forall own ins,
  trace_ok own [] ev_empty (votor_trace own votor_init ins) = true.
Proof. exact votor_obeys_rules. Qed.

Print Assumptions C05_final_vote_guard.
Print Assumptions C05_notar_vote_guard.
Print Assumptions C05_skip_window_votes.
Print Assumptions C05_standstill_forwarded.
Print Assumptions C05_every_trace_obeys_the_rules.
