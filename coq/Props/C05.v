(* C05 - A correct node's own votes obey the voting rules under every event order.
   PROVED at model level, for every input sequence from the initial state (no bounds):
   - the guard under which each kind of vote is cast (finalize, notarize, skip) for every state and
     event, and verbatim forwarding of standstill bundles (C05_*_guard, C05_skip_window_votes,
     C05_standstill_forwarded);
   - the TRACE-level rules (C05_every_trace_obeys_the_rules, an 8-clause per-slot invariant through all
     handlers and pruning): at most one initial vote (notar XOR skip) per slot, final(s) only for the
     block it notarized in s, with that block's notar certificate seen and no skip / fallback vote in s,
     nothing but a repeated final vote after final(s), notar only on a ParentReady parent (window start)
     or on the block it notarized in the previous slot, fallback votes only in response to the pool's
     SafeToNotar / SafeToSkip events (Model/NodeRules.v: vote_okb / trace_ok is the executable statement);
   - OWN VOTES ARE NEVER A SLASHABLE COMBINATION (this file, second half; Proofs/OwnVotesProofs.v,
     Proofs/OwnVotesNode.v; vocabulary in Model/OwnVotesSpec.v):
       * every own vote of a trace is signed with the node's own index (C05_own_votes_signed_by_self);
       * R1-R3 exclude every pair of the pool's conflict relation PoolSpec.conflicts
         (C05_rules_exclude_conflicts: any list passing the executable rule check is conflict-free), hence no
         two own votes of any Votor trace - earlier/later in either order - conflict
         (C05_own_votes_never_conflict, executable form C05_own_votes_conflict_free with its meaning
         C05_conflict_free_meaning).  No pair allowed by R1-R3 is a conflict; the converse fails as expected:
         the rules also forbid harmless repeats (C05_rules_stricter_than_conflicts);
       * replaying the own votes of any trace, in order, through the pool's vote-admission model
         (check_slashable / should_ignore / ss_add_vote - what the oracle c05_step_ok does with the
         IMPLEMENTATION's votes) never yields a slashable verdict, and every refusal is a duplicate of an
         earlier own vote of the same slot in the sense of PoolSpec.equivalent (C05_replay_never_slashable;
         C05_oracle_replay_accepts is the statement about the oracle's own function replay_own).
         FINDING about the statement, not about the code: "the only refusals are EXACT repeats" is false of
         Votor on its own (C05_refusals_exact_repeats_only_refuted): handed SafeToSkip for a slot it has not
         voted in, Votor broadcasts skip-fallback BEFORE the skip votes of the window and the skip vote of
         that slot is then refused as an equivalent repeat; the pool never hands that event before the own
         vote (C06), and repeats are harmless;
       * every own vote is cast for a slot that is not pruned in the state it is cast in, and not retired
         there - except the repetition of the finalization vote already cast for that slot
         (C05_votes_cast_for_live_slots).  The one exception to "repetition": the genesis slot is retired from
         the start, and Votor handed a notarization certificate for the genesis block casts final(0)
         (C05_genesis_final_vote_witness; needs a quorum signing notar for slot 0);
       * composed node (Model/Node.v, Pool wired to Votor as in consensus.rs): the votes a node decides are
         exactly the own votes of a Votor trace (C05_node_decisions_are_a_votor_trace); the votes forwarded
         from standstill bundles were decided and broadcast by the node in an earlier step
         (C05_standstill_rebroadcasts_earlier_votes), so no two votes a node ever broadcasts conflict
         (C05_node_broadcasts_never_conflict) - under the decidable premise loopback_okb: own-signed votes
         reach the node's pool only after the node broadcast them (signatures are unforgeable, C09).  The
         premise is satisfiable on runs with non-empty bundles (C05_node_nonvacuous) and necessary
         (C05_loopback_premise_needed).
   NOT PROVED HERE (remains with the oracle / other properties): the correspondence between the models and
   the implementation (decided by the C05 / C04 / C18 correspondence checks and the oracle c05_step_ok on
   the implementation's broadcast log); the clause "fallback votes only after the condition held at that
   node" is about the pool and is the subject of C06. *)
From Coq Require Import List NArith Bool.
From AG Require Import Gen.Params Model.Pool Model.PoolSpec Model.Votor Model.NodeRules Model.Node Model.OwnVotesSpec
                       Proofs.VotorProofs Proofs.SafetyLink Proofs.OwnVotesProofs Proofs.OwnVotesNode Oracle.VotorRun.
Import ListNotations.
Open Scope N_scope.

Theorem C05_final_vote_guard : forall own t s h t' o,
  v_try_final own t s h = Some (t', o) -> o <> [] ->
  o = [VBVote (mkVote s KFinal own)] /\
  (exists x, vget t s = Some x /\ vs_notarized x = Some h /\ vs_voted_notar x = Some h /\ vs_bad x = false) /\
  v_retired t' s = true.
Proof. exact final_vote_guard. Qed.

Theorem C05_notar_vote_guard : forall own t s h parent t' o,
  v_try_notar own t s h parent = Some (t', o, true) ->
  v_voted t s = false /\ v_first_unpruned t <= s /\
  (if s =? window_first s
   then exists x, vget t s = Some x /\ existsb (bid_eqb parent) (vs_parents x) = true
   else fst parent = s - 1 /\ exists x, vget t (fst parent) = Some x /\ vs_voted_notar x = Some (snd parent)) /\
  (exists rest, o = VBVote (mkVote s (KNotar h) own) :: rest /\ (rest = [] \/ rest = [VBVote (mkVote s KFinal own)])).
Proof. exact notar_vote_guard. Qed.

Theorem C05_skip_window_votes : forall own t s t' o,
  v_try_skip_window own t s = Some (t', o) ->
  Forall (fun x => exists s', x = VBVote (mkVote s' KSkip own) /\
                              In s' (seqN (window_first s) (N.to_nat SLOTS_PER_WINDOW))) o.
Proof. exact skip_window_votes. Qed.

Theorem C05_standstill_forwarded : forall own t s cs vs,
  vt_panicked t = false ->
  votor_step own t (VPool (EStandstill s cs vs)) = (t, map VBCert cs ++ map VBVote vs, false).
Proof. exact standstill_forwarded. Qed.

Theorem C05_every_trace_obeys_the_rules : forall own ins,
  trace_ok own [] ev_empty (votor_trace own votor_init ins) = true.
Proof. exact votor_obeys_rules. Qed.

Print Assumptions C05_final_vote_guard.
Print Assumptions C05_notar_vote_guard.
Print Assumptions C05_skip_window_votes.
Print Assumptions C05_standstill_forwarded.
Print Assumptions C05_every_trace_obeys_the_rules.

(* ====================== own votes are never a slashable combination ====================== *)
Theorem C05_own_votes_signed_by_self : forall own ins v,
  In v (own_votes (votor_trace own votor_init ins)) -> v_signer v = own.
Proof. exact own_votes_signed_by_self. Qed.

(* R1-R3 exclude every conflict: a vote list passing the executable rule check (against any evidence) is
   pairwise free of the pool's conflict relation *)
Theorem C05_rules_exclude_conflicts : forall ev vs, rules_ok vs ev = true -> conflict_free vs = true.
Proof. exact rules_ok_conflict_free. Qed.

Theorem C05_conflict_free_meaning : forall vs,
  conflict_free vs = true <-> (forall v w, In v vs -> In w vs -> slashable_pair v w = false).
Proof. exact conflict_free_spec. Qed.

(* no two own votes of any trace conflict: never notar(b) and notar(b') with b <> b', never notar and skip,
   never final together with skip / skip-fallback / notar-fallback in one slot - in either order *)
Theorem C05_own_votes_never_conflict : forall own ins v w,
  In v (own_votes (votor_trace own votor_init ins)) -> In w (own_votes (votor_trace own votor_init ins)) ->
  v_slot v = v_slot w -> conflicts (v_kind v) (v_kind w) = None.
Proof. exact own_votes_never_conflict. Qed.

Theorem C05_own_votes_conflict_free : forall own ins,
  conflict_free (own_votes (votor_trace own votor_init ins)) = true.
Proof. exact own_votes_conflict_free. Qed.

(* the rules are strictly stronger: an exact repeat of the notarization vote is no offence but R1 forbids it *)
Theorem C05_rules_stricter_than_conflicts : forall ev,
  conflicts (KNotar 5) (KNotar 5) = None /\
  vote_okb [mkVote 1 (KNotar 5) 0] ev (mkVote 1 (KNotar 5) 0) = false.
Proof. exact rules_stricter_than_conflicts. Qed.

(* replay through the vote-admission model of the pool (C04): one verdict per vote, never slashable, and a
   refusal only for an exact / equivalent repeat of an earlier own vote of that slot *)
Theorem C05_replay_never_slashable : forall e own ins,
  let vs := own_votes (votor_trace own votor_init ins) in
  length (replay_verdicts e [] vs) = length vs /\
  forall j vd, nth_error (replay_verdicts e [] vs) j = Some vd -> vd = VOk \/ (vd = VDuplicate /\ repeats_earlier vs j).
Proof. exact votor_replay_never_slashable. Qed.

(* ... in terms of the function the oracle c05_step_ok evaluates on the implementation's votes *)
Theorem C05_oracle_replay_accepts : forall e own ins,
  replay_own e [] (own_votes (votor_trace own votor_init ins)) = true.
Proof. exact votor_replay_own_accepts. Qed.

(* "only EXACT repeats are refused" does not hold for Votor on its own (see the header) *)
Theorem C05_refusals_exact_repeats_only_refuted :
  exists own ins j x,
    let vs := own_votes (votor_trace own votor_init ins) in
    nth_error (replay_verdicts (mkEpoch [1; 1; 1; 1] own) [] vs) j = Some VDuplicate /\
    nth_error vs j = Some x /\ ~ In x (firstn j vs).
Proof. exact exact_repeats_only_refuted. Qed.

(* every own vote, in the state [t] it is cast in (after any input prefix [pre]): signed by the node, slot not
   below the first unpruned slot, and not retired - unless it is the finalization vote cast before (or the
   finalization vote of the genesis slot) *)
Theorem C05_votes_cast_for_live_slots : forall own pre i v,
  let t := votor_after own votor_init pre in
  In v (decision_votes i (snd (fst (votor_step own t i)))) ->
  v_signer v = own /\
  v_first_unpruned t <= v_slot v /\
  (v_retired t (v_slot v) = true ->
   v_kind v = KFinal /\ (v_slot v = 0 \/ In v (own_votes (votor_trace own votor_init pre)))).
Proof. exact own_votes_cast_ok. Qed.

Theorem C05_genesis_final_vote_witness :
  snd (fst (votor_step 0 votor_init (VPool (ECertCreated (mkCert 0 (CNotar 0) [] [] 0))))) =
    [VBVote (mkVote 0 KFinal 0); VBCert (mkCert 0 (CNotar 0) [] [] 0)] /\
  v_retired votor_init 0 = true.
Proof. exact genesis_final_vote_witness. Qed.

(* ---------- the composed node ---------- *)
Theorem C05_node_decisions_are_a_votor_trace : forall e ins nd,
  node_decided (node_trace e nd ins) = own_votes (votor_trace (own e) (nd_votor nd) (node_votor_ins e nd ins)).
Proof. exact node_decided_votor_trace. Qed.

(* votes forwarded verbatim from a standstill bundle are re-broadcasts of votes decided in earlier steps *)
Theorem C05_standstill_rebroadcasts_earlier_votes : forall e ins,
  loopback_okb (own e) [] (node_trace e node_init ins) = true ->
  rebroadcasts_old [] (node_trace e node_init ins).
Proof. exact node_standstill_rebroadcasts. Qed.

Theorem C05_node_broadcasts_never_conflict : forall e ins v w,
  loopback_okb (own e) [] (node_trace e node_init ins) = true ->
  In v (node_broadcast (node_trace e node_init ins)) -> In w (node_broadcast (node_trace e node_init ins)) ->
  v_signer v = own e /\ (v_slot v = v_slot w -> conflicts (v_kind v) (v_kind w) = None).
Proof. exact node_broadcast_never_conflict. Qed.

Theorem C05_node_oracle_replay_accepts : forall e ins,
  replay_own e [] (node_decided (node_trace e node_init ins)) = true.
Proof. exact node_broadcast_replay_accepts. Qed.

Theorem C05_loopback_premise_needed :
  let tr := node_trace (mkEpoch [1; 1; 1; 1] 0) node_init [NVote (mkVote 1 KSkip 0); NStandstill; NBlock 1 11 (0, 0)] in
  loopback_okb 0 [] tr = false /\
  node_broadcast tr = [mkVote 1 KSkip 0; mkVote 1 (KNotar 11) 0] /\
  conflict_free (node_broadcast tr) = false.
Proof. exact loopback_premise_needed. Qed.

(* ---------- non-vacuity ---------- *)
(* a trace with every vote kind, a repeated finalization vote (second certificate event), an equivalent
   repeat (skip-fallback after skip) and a standstill bundle that is not counted as a decision; a
   slashable pair is recognised as such *)
Example C05_nonvacuous :
  let ins := [VBlock 1 11 (0, 0); VPool (ECertCreated (mkCert 1 (CNotar 11) [0; 1; 2] [] 3));
              VPool (ECertCreated (mkCert 1 (CNotar 11) [0; 1; 2] [] 3)); VTimeout 2;
              VPool (ESafeToSkip 2); VPool (ESafeToNotar (3, 33)); VPool (EStandstill 1 [] [mkVote 9 KSkip 7])] in
  let vs := own_votes (votor_trace 0 votor_init ins) in
  vs = [mkVote 1 (KNotar 11) 0; mkVote 1 KFinal 0; mkVote 1 KFinal 0; mkVote 2 KSkip 0; mkVote 3 KSkip 0;
        mkVote 2 KSkipFb 0; mkVote 3 (KNotarFb 33) 0] /\
  replay_verdicts (mkEpoch [1; 1; 1; 1] 0) [] vs = [VOk; VOk; VDuplicate; VOk; VOk; VDuplicate; VOk] /\
  conflict_free vs = true /\
  conflict_free [mkVote 1 (KNotar 11) 0; mkVote 1 KSkip 0] = false.
Proof. vm_compute. repeat split; reflexivity. Qed.

(* the loopback premise holds on a node run whose two standstill bundles are not empty *)
Example C05_node_nonvacuous :
  let e := mkEpoch [1; 1; 1; 1] 0 in
  let tr := node_trace e node_init
              [NBlock 1 11 (0, 0); NVote (mkVote 1 (KNotar 11) 0); NVote (mkVote 1 (KNotar 11) 1); NStandstill;
               NTimeout 2; NVote (mkVote 2 KSkip 0); NStandstill] in
  loopback_okb (own e) [] tr = true /\
  node_decided tr = [mkVote 1 (KNotar 11) 0; mkVote 2 KSkip 0; mkVote 3 KSkip 0] /\
  flat_map nstep_rebroadcast tr = [mkVote 1 (KNotar 11) 0; mkVote 1 (KNotar 11) 0; mkVote 2 KSkip 0].
Proof. vm_compute. repeat split; reflexivity. Qed.

Print Assumptions C05_own_votes_signed_by_self.
Print Assumptions C05_rules_exclude_conflicts.
Print Assumptions C05_conflict_free_meaning.
Print Assumptions C05_own_votes_never_conflict.
Print Assumptions C05_own_votes_conflict_free.
Print Assumptions C05_rules_stricter_than_conflicts.
Print Assumptions C05_replay_never_slashable.
Print Assumptions C05_oracle_replay_accepts.
Print Assumptions C05_refusals_exact_repeats_only_refuted.
Print Assumptions C05_votes_cast_for_live_slots.
Print Assumptions C05_genesis_final_vote_witness.
Print Assumptions C05_node_decisions_are_a_votor_trace.
Print Assumptions C05_standstill_rebroadcasts_earlier_votes.
Print Assumptions C05_node_broadcasts_never_conflict.
Print Assumptions C05_node_oracle_replay_accepts.
Print Assumptions C05_loopback_premise_needed.
Print Assumptions C05_nonvacuous.
Print Assumptions C05_node_nonvacuous.
