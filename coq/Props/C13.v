(* C13 - Blockstore rebuilds exactly the disseminated block, once, and flags bad ones.
   PARTIAL: proved for the blockstore model - a reconstructed block is exactly "all slices 0..last,
   hash = their roots in order, first slice with parent, at most one parent switch and not to itself,
   all transactions decode, parent in an earlier slot"; a completed block is never announced again or
   replaced; after the leader was flagged nothing is accepted or announced from dissemination and
   InvalidBlock is not repeated; conflicting commitments for one slice are equivocation in both orders.
   That every delivery order / duplication / subset of an honest block's shreds leads to exactly one
   FirstShred and one Block (and never InvalidBlock), and that every malformed / equivocating shape is
   flagged once in every arrival order, is decided by the oracle c13_step_ok on the real blockstore's
   outputs (Oracle/C13.v) and by the model/implementation correspondence; the leader's fast path is
   compared against the same model.  What a set of shreds decodes to is C11's subject. *)
From Coq Require Import List NArith Bool.
From AG Require Import Gen.Params Model.Pool Model.Blockstore Proofs.BlockstoreProofs.
Import ListNotations.
Open Scope N_scope.

Theorem C13_reconstructed_block_spec : forall slot d d' h p,
  try_reconstruct_block true slot d = (d', RBComplete h p) ->
  bd_completed d = None /\
  exists last first p0,
    bd_last d = Some last /\ N.of_nat (length (bd_slices d)) = last + 1 /\
    alookup 0 (bd_slices d) = Some first /\ rs_parent first = Some p0 /\
    h = map (fun x => rs_root (snd x)) (slices_sorted (bd_slices d)) /\
    walk_slices (slices_sorted (bd_slices d)) p0 false = Some p /\ fst p < slot /\
    bd_completed d' = Some (h, p).
Proof. exact reconstructed_block_spec. Qed.

Theorem C13_completed_block_announced_once : forall chk ct slot d s d' r x,
  bd_completed d = Some x -> bd_add_shred chk ct slot d s = (d', r) ->
  bd_completed d' = Some x /\ (forall h p, r <> AOk (Some (BBlock h p))).
Proof. exact completed_block_announced_once. Qed.

Theorem C13_flagged_leader_blocks_dissemination : forall chk ct slot sd s,
  sd_panicked sd = false -> sd_misbehaved sd = true ->
  bs_step chk ct slot sd (BDissem s) = (sd, BRErr EInvalidShred, []).
Proof. exact flagged_refuses_dissemination. Qed.

Theorem C13_invalid_block_once : forall sd sd' evs, flag_misbehaviour sd = (sd', evs) ->
  sd_misbehaved sd' = true /\ (evs = [BInvalidBlock] /\ sd_misbehaved sd = false \/ evs = [] /\ sd_misbehaved sd = true).
Proof. exact flag_once. Qed.

Theorem C13_conflicting_slices_are_equivocation : forall chk ct slot d s c,
  alookup (b_slice s) (bd_cache d) = Some c -> commit_eqb c (commitment_of s) = false ->
  bd_add_shred chk ct slot d s = (d, AErr EEquivocation).
Proof. exact conflicting_commitment_is_equivocation. Qed.

Print Assumptions C13_reconstructed_block_spec.
Print Assumptions C13_completed_block_announced_once.
Print Assumptions C13_flagged_leader_blocks_dissemination.
Print Assumptions C13_invalid_block_once.
Print Assumptions C13_conflicting_slices_are_equivocation.
