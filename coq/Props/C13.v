(* C13 - Blockstore rebuilds exactly the disseminated block, once, and flags bad ones.

   PROVED for the blockstore model (Model/Blockstore.v; vocabulary in Model/BlockstoreSpec.v):
   (a) honest blocks, every delivery order / duplication / subset / interleaving.  For every HONEST BLOCK
       [hb] (hb_ok: >= 1 slices; each slice has an even non-zero shred size and decodes with decodable
       transactions; the first slice carries a parent; the parent walk - at most one switch, not to itself -
       succeeds with a parent in an earlier slot) and EVERY list [l] of honest shreds of it
       (forallb (honest_shred hb) l: any slice < k, any index < TOTAL_SHREDS, any order, repeats allowed),
       folded through bs_step true ct slot _ (BDissem _) from sd_empty (bs_dissem_run):
       - C13_dissem_run_is_spec: the complete output stream (return value and events of every delivery) is the
         function expected_outs of the delivered list: Duplicate iff the (slice, index) was delivered before or
         the slice already has DATA_SHREDS distinct indices; FirstShred for the first shred; Block (with return
         Ok(hash, parent)) for the delivery that makes every slice reach DATA_SHREDS distinct indices; Ok(None)
         otherwise;
       - C13_dissem_honest_safe: never a panic, never InvalidBlock, the leader is never flagged, every return
         is Ok or Err(Duplicate);
       - C13_dissem_first_shred_once: FirstShred exactly once, at the first delivered shred;
       - C13_dissem_block_once: the Block events of the run are exactly [Block (slice roots in order) parent]
         if every slice has >= DATA_SHREDS distinct delivered indices and [] otherwise, and the stored block
         (bd_completed) is that one / None accordingly  (=> at most once, completeness, right hash + parent);
       - C13_dissem_no_block_before_ready: outputs of a prefix are a prefix of the outputs, and a prefix that
         does not yet hold DATA_SHREDS distinct indices of every slice has produced no Block;
       - C13_dissem_shreds_available: every delivered shred, every shred of a slice that reached DATA_SHREDS,
         and after completion EVERY (slice, index < TOTAL_SHREDS) is stored as the leader's shred.
   (a') THE UNSIGNED TAG (current tree: "fix: do not blame the leader for a shred whose type contradicts its
       index"; bs_step = bs_step_gen true).  A shred whose data / coding tag contradicts its index
       (shred_tag_ok s = false) is refused up front:
       - C13_tag_flip_is_harmless: in every non-panicked slot state, for dissemination and repair alike, the
         step returns InvalidShred, emits nothing and leaves the state - the leader's flag included - unchanged;
       - C13_dissem_run_filter_tag: for ANY delivery list the run has the state and the events of the run over
         the tag-consistent shreds, and its outputs are those with one (InvalidShred, no event) per refused shred
         woven in (weave_refusals);
       - C13_dissem_flipped_run_is_spec / C13_dissem_flipped_safe: (a) extended to every list of honest shreds
         with ARBITRARY tag-inconsistent shreds slipped in (honest_or_flipped; any number, anywhere): the complete
         output stream is expected_outs of the honest shreds with the refusals woven in; the leader is never
         flagged, nothing panics, no InvalidBlock, and the Block is announced exactly once, exactly when the
         tag-consistent shreds make every slice ready (so the honest block is still reconstructed from the
         remaining shreds), and stored;
       - C13_pinned_tag_flip_flags_correct_leader_refuted: the pinned tree (bs_step_gen false) flagged the correct
         leader for one flipped tag among the honest shreds of a block, and never announced the block.
   (b) ARBITRARY shred sequences (no honesty assumption; any shreds, any order), same run:
       - C13_dissem_never_panics: the blockstore never panics and never returns the panic outcome;
       - C13_dissem_invalid_once: InvalidBlock is announced at most once, exactly when the leader gets flagged;
       - C13_dissem_silent_after_flag: once flagged, every further dissemination shred is refused
         (InvalidShred) without any event and without touching the state: no Block from dissemination
         afterwards, InvalidBlock not repeated;
       - C13_dissem_only_valid_blocks: every Block ever announced is well-formed w.r.t. the decoding table
         (valid_block: roots of slices 0..n-1, all decodable with decodable transactions, first slice with
         parent, legal parent handover ending in the announced parent, parent in an earlier slot) - malformed
         blocks are never announced, whatever the shreds and their order;
       - C13_dissem_equivocation_flagged: two delivered shreds of one slice with different commitments (slice
         root or last-slice flag), each with a tag consistent with its index (a tag-inconsistent shred is
         refused unseen and is evidence of nothing, (a')) - at any positions, in either order, among any other
         shreds - get the leader flagged and InvalidBlock announced exactly once (covers a block with a
         conflicting validly signed slice);
       - C13_dissem_last_marker_conflict_flagged: likewise for a last-slice marker contradicted by a shred of a
         later slice or by a last-slice marker on another slice;
       - C13_dissem_revealed_equivocation_flagged: both with the decidable hypothesis
         reveals_conflict l' || reveals_last_conflict l' = true for l' = filter shred_tag_ok l.
   (c) the leader's own fast path (add_own_slice for the slices of an honest block, in order; bs_ops_run over
       own_ops hb):
       - C13_own_path_spec: no panic, not flagged, FirstShred then Block(hash, parent) and nothing else, the
         stored block is (slice roots in order, the leader's parent), every (slice, index) holds the leader's shred;
       - C13_own_path_equals_follower: the stored block and every stored shred equal those of a follower that
         reconstructed the block from ANY sufficient delivery of honest shreds.
   (d) single steps (as before): a reconstructed block is exactly "all slices 0..last, hash = their roots in
       order, first slice with parent, at most one parent switch and not to itself, all transactions decode,
       parent in an earlier slot"; a completed block is never announced again or replaced; after the leader was
       flagged nothing is accepted or announced from dissemination and InvalidBlock is not repeated;
       conflicting commitments for one slice are equivocation in both orders.

   ORACLE-ONLY (decided by c13_step_ok on the real blockstore's outputs, Oracle/C13.v, and the
   model/implementation correspondence): that malformed CONTENT (undecodable data, first slice without
   parent, a parent switched more than once or to itself, parent not in an earlier slot) is flagged in every
   arrival order once enough shreds reveal it ("at most once", "nothing afterwards" and "a malformed block is
   never announced" are proved, (b));
   own slices added in another order than 0..k-1 or mixed with dissemination shreds; the repair path.
   What a set of shreds decodes to (content table) is C11's subject; hash = double-Merkle root is checked by
   the harness with the real DoubleMerkleTree. *)
From Coq Require Import List NArith Bool.
From AG Require Import Gen.Params Model.Pool Model.Blockstore Model.BlockstoreSpec Proofs.BlockstoreProofs Proofs.BlockstoreOrderProofs
  Proofs.BlockstoreFlagProofs Proofs.BlockstoreOwnProofs Proofs.BlockstoreTagProofs.
Import ListNotations.
Open Scope N_scope.

Theorem C13_reconstructed_block_spec : forall slot d d' h p,
  try_reconstruct_block true slot d = (d', RBComplete h p) ->
  bd_completed d = None /\
  exists last first p0,
    bd_last d = Some last /\ N.of_nat (length (bd_slices d)) = last + 1 /\
    alookup 0 (bd_slices d) = Some first /\ rs_parent first = Some p0 /\
    h = map (fun x => rs_root (snd x)) (slices_sorted (bd_slices d)) /\
    walk_slices (slices_sorted (bd_slices d)) p0 false = Some p /\ fst p < slot /\
    bd_completed d' = Some (h, p).
Proof. exact reconstructed_block_spec. Qed.

Theorem C13_completed_block_announced_once : forall chk ct slot d s d' r x,
  bd_completed d = Some x -> bd_add_shred chk ct slot d s = (d', r) ->
  bd_completed d' = Some x /\ (forall h p, r <> AOk (Some (BBlock h p))).
Proof. exact completed_block_announced_once. Qed.

Theorem C13_flagged_leader_blocks_dissemination : forall chk ct slot sd s,
  sd_panicked sd = false -> sd_misbehaved sd = true ->
  bs_step chk ct slot sd (BDissem s) = (sd, BRErr EInvalidShred, []).
Proof. exact flagged_refuses_dissemination. Qed.

Theorem C13_invalid_block_once : forall sd sd' evs, flag_misbehaviour sd = (sd', evs) ->
  sd_misbehaved sd' = true /\ (evs = [BInvalidBlock] /\ sd_misbehaved sd = false \/ evs = [] /\ sd_misbehaved sd = true).
Proof. exact flag_once. Qed.

Theorem C13_conflicting_slices_are_equivocation : forall chk ct slot d s c,
  alookup (b_slice s) (bd_cache d) = Some c -> commit_eqb c (commitment_of s) = false ->
  bd_add_shred chk ct slot d s = (d, AErr EEquivocation).
Proof. exact conflicting_commitment_is_equivocation. Qed.

Print Assumptions C13_reconstructed_block_spec.
Print Assumptions C13_completed_block_announced_once.
Print Assumptions C13_flagged_leader_blocks_dissemination.
Print Assumptions C13_invalid_block_once.
Print Assumptions C13_conflicting_slices_are_equivocation.

(* ---------- honest blocks: order / duplication / subset independence ---------- *)
Theorem C13_dissem_run_is_spec : forall slot ct hb l,
  hb_ok slot ct hb = true -> forallb (honest_shred hb) l = true ->
  snd (bs_dissem_run ct slot l) = expected_outs ct hb [] l.
Proof. exact dissem_run_is_spec. Qed.

Theorem C13_dissem_honest_safe : forall slot ct hb l,
  hb_ok slot ct hb = true -> forallb (honest_shred hb) l = true ->
  sd_misbehaved (fst (bs_dissem_run ct slot l)) = false /\
  sd_panicked (fst (bs_dissem_run ct slot l)) = false /\
  forall r ev, In (r, ev) (snd (bs_dissem_run ct slot l)) ->
    (r = BRErr EDuplicate \/ exists x, r = BROk x) /\ ~ In BInvalidBlock ev.
Proof. exact dissem_honest_safe. Qed.

Theorem C13_dissem_first_shred_once : forall slot ct hb s t,
  hb_ok slot ct hb = true -> forallb (honest_shred hb) (s :: t) = true ->
  exists out', snd (bs_dissem_run ct slot (s :: t)) = (BROk None, [BFirstShred]) :: out' /\
               filter is_first_event (out_events out') = [].
Proof. exact dissem_first_shred_once. Qed.

Theorem C13_dissem_block_once : forall slot ct hb l,
  hb_ok slot ct hb = true -> forallb (honest_shred hb) l = true ->
  exists parent, hb_parent ct hb = Some parent /\ fst parent < slot /\
    filter is_block_event (out_events (snd (bs_dissem_run ct slot l))) =
      (if block_ready hb l then [BBlock (hb_hash hb) parent] else []) /\
    bd_completed (sd_dissem (fst (bs_dissem_run ct slot l))) =
      (if block_ready hb l then Some (hb_hash hb, parent) else None).
Proof. exact dissem_block_once. Qed.

Theorem C13_dissem_no_block_before_ready : forall slot ct hb l1 l2,
  hb_ok slot ct hb = true -> forallb (honest_shred hb) (l1 ++ l2) = true -> block_ready hb l1 = false ->
  firstn (length l1) (snd (bs_dissem_run ct slot (l1 ++ l2))) = snd (bs_dissem_run ct slot l1) /\
  filter is_block_event (out_events (snd (bs_dissem_run ct slot l1))) = [].
Proof. exact dissem_no_block_before_ready. Qed.

Theorem C13_dissem_shreds_available : forall slot ct hb l i j,
  hb_ok slot ct hb = true -> forallb (honest_shred hb) l = true ->
  i < hb_len hb -> j < TOTAL_SHREDS ->
  block_ready hb l = true \/ slice_ready l i = true \/ In j (idxs l i) ->
  alookup j (aget [] i (bd_shreds (sd_dissem (fst (bs_dissem_run ct slot l))))) = Some (hshred hb i j).
Proof. exact dissem_shreds_available. Qed.

(* non-vacuity: a two-slice block with an optimistic-handover parent switch in slice 1; the shreds arrive
   interleaved, out of order, with repeats, and a strict subset of them (36 + 32 distinct of 128) suffices,
   and the Block is announced at the very last delivery (one shred fewer: not ready) *)
Definition ex_ct : content := [(100, DecOk (Some (3, 77)) true); (101, DecOk (Some (4, 88)) true)].
Definition ex_hb : hblock := [(100, 64); (101, 32)].
Definition ex_shreds : list bshred :=
  map (hshred ex_hb 1) (rev (seqN 30 34)) ++ map (hshred ex_hb 0) (seqN 0 20)
  ++ map (hshred ex_hb 1) (seqN 28 5) ++ map (hshred ex_hb 0) (seqN 10 22).
Example C13_nonvacuous :
  hb_ok 5 ex_ct ex_hb = true /\ forallb (honest_shred ex_hb) ex_shreds = true /\
  block_ready ex_hb ex_shreds = true /\ block_ready ex_hb (removelast ex_shreds) = false /\
  hb_parent ex_ct ex_hb = Some (4, 88) /\
  filter (fun e => negb (is_first_event e)) (out_events (snd (bs_dissem_run ex_ct 5 ex_shreds)))
    = [BBlock [100; 101] (4, 88)].
Proof. vm_compute. repeat split; reflexivity. Qed.

(* ---------- the unsigned data / coding tag ---------- *)
Theorem C13_tag_flip_is_harmless : forall chk ct slot sd op,
  sd_panicked sd = false -> op_tag_ok op = false ->
  bs_step chk ct slot sd op = (sd, BRErr EInvalidShred, []).
Proof. exact bs_step_tag_bad. Qed.

Theorem C13_dissem_run_filter_tag : forall ct slot l,
  fst (bs_dissem_run ct slot l) = fst (bs_dissem_run ct slot (filter shred_tag_ok l)) /\
  snd (bs_dissem_run ct slot l) = weave_refusals l (snd (bs_dissem_run ct slot (filter shred_tag_ok l))).
Proof. exact run_filter_tag. Qed.

Theorem C13_dissem_flipped_run_is_spec : forall slot ct hb l,
  hb_ok slot ct hb = true -> forallb (honest_or_flipped hb) l = true ->
  snd (bs_dissem_run ct slot l) = weave_refusals l (expected_outs ct hb [] (filter shred_tag_ok l)).
Proof. exact dissem_flipped_run_is_spec. Qed.

Theorem C13_dissem_flipped_safe : forall slot ct hb l,
  hb_ok slot ct hb = true -> forallb (honest_or_flipped hb) l = true ->
  sd_misbehaved (fst (bs_dissem_run ct slot l)) = false /\
  sd_panicked (fst (bs_dissem_run ct slot l)) = false /\
  (forall r ev, In (r, ev) (snd (bs_dissem_run ct slot l)) ->
     (r = BRErr EDuplicate \/ (exists x, r = BROk x) \/ (r = BRErr EInvalidShred /\ ev = [])) /\ ~ In BInvalidBlock ev) /\
  exists parent, hb_parent ct hb = Some parent /\ fst parent < slot /\
    filter is_block_event (out_events (snd (bs_dissem_run ct slot l))) =
      (if block_ready hb (filter shred_tag_ok l) then [BBlock (hb_hash hb) parent] else []) /\
    bd_completed (sd_dissem (fst (bs_dissem_run ct slot l))) =
      (if block_ready hb (filter shred_tag_ok l) then Some (hb_hash hb, parent) else None).
Proof. exact dissem_flipped_safe. Qed.

Theorem C13_pinned_tag_flip_flags_correct_leader_refuted :
  hb_ok 2 tf_ct tf_hb = true /\ forallb (honest_or_flipped tf_hb) tf_shreds = true /\
  block_ready tf_hb (filter shred_tag_ok tf_shreds) = true /\
  sd_misbehaved (fst (bs_dissem_run_gen false tf_ct 2 tf_shreds)) = true /\
  out_events (snd (bs_dissem_run_gen false tf_ct 2 tf_shreds)) = [BFirstShred; BInvalidBlock] /\
  sd_misbehaved (fst (bs_dissem_run_gen true tf_ct 2 tf_shreds)) = false /\
  out_events (snd (bs_dissem_run_gen true tf_ct 2 tf_shreds)) = [BFirstShred; BBlock [1] (1, 3)].
Proof. exact pinned_tag_flip_flags_correct_leader. Qed.

(* non-vacuity: the two-slice example with three honest shreds flipped in transit (one of them the very first
   delivery) and a flipped shred of a foreign root slipped in: still exactly FirstShred and the Block, no
   InvalidBlock, four refusals; and a conflicting shred whose tag is flipped is NOT evidence (no flag) while the
   same shred with a consistent tag is *)
(* a validly signed shred of slice 1 under another root *)
Definition ex_conflict : bshred := mkBS 1 true 999 7 true 32.
Definition ex_flipped : list bshred :=
  [flip_tag (hshred ex_hb 1 63)] ++ firstn 40 ex_shreds ++ [flip_tag (hshred ex_hb 0 3); flip_tag ex_conflict]
  ++ skipn 40 ex_shreds ++ [flip_tag (hshred ex_hb 1 2)].
Example C13_nonvacuous_tag_flips :
  forallb (honest_or_flipped ex_hb) ex_flipped = true /\ forallb (honest_shred ex_hb) ex_flipped = false /\
  block_ready ex_hb (filter shred_tag_ok ex_flipped) = true /\
  out_events (snd (bs_dissem_run ex_ct 5 ex_flipped)) = [BFirstShred; BBlock [100; 101] (4, 88)] /\
  length (filter (fun o => match fst o with BRErr EInvalidShred => true | _ => false end) (snd (bs_dissem_run ex_ct 5 ex_flipped))) = 4%nat /\
  sd_misbehaved (fst (bs_dissem_run ex_ct 5 (ex_shreds ++ [flip_tag ex_conflict]))) = false /\
  sd_misbehaved (fst (bs_dissem_run ex_ct 5 (ex_shreds ++ [ex_conflict]))) = true.
Proof. vm_compute. repeat split; reflexivity. Qed.

(* ---------- arbitrary shred sequences ---------- *)
Theorem C13_dissem_never_panics : forall c slot l,
  sd_panicked (fst (bs_dissem_run c slot l)) = false /\
  forall r ev, In (r, ev) (snd (bs_dissem_run c slot l)) -> r <> BRPanic.
Proof. exact dissem_never_panics. Qed.

Theorem C13_dissem_invalid_once : forall c slot l,
  filter is_invalid_event (out_events (snd (bs_dissem_run c slot l))) =
  if sd_misbehaved (fst (bs_dissem_run c slot l)) then [BInvalidBlock] else [].
Proof. exact dissem_invalid_once. Qed.

Theorem C13_dissem_silent_after_flag : forall c slot l1 l2,
  sd_misbehaved (fst (bs_dissem_run c slot l1)) = true ->
  fst (bs_dissem_run c slot (l1 ++ l2)) = fst (bs_dissem_run c slot l1) /\
  exists out2, snd (bs_dissem_run c slot (l1 ++ l2)) = snd (bs_dissem_run c slot l1) ++ out2 /\
               length out2 = length l2 /\
               forall r ev, In (r, ev) out2 -> r = BRErr EInvalidShred /\ ev = [].
Proof. exact dissem_silent_after_flag. Qed.

Theorem C13_dissem_equivocation_flagged : forall c slot l s1 s2,
  In s1 l -> In s2 l -> shred_tag_ok s1 = true -> shred_tag_ok s2 = true -> b_slice s1 = b_slice s2 ->
  commit_eqb (commitment_of s1) (commitment_of s2) = false ->
  sd_misbehaved (fst (bs_dissem_run c slot l)) = true /\
  filter is_invalid_event (out_events (snd (bs_dissem_run c slot l))) = [BInvalidBlock].
Proof. exact dissem_equivocation_flagged. Qed.

Theorem C13_dissem_last_marker_conflict_flagged : forall c slot l s1 s2,
  In s1 l -> In s2 l -> shred_tag_ok s1 = true -> shred_tag_ok s2 = true -> b_last s1 = true ->
  b_slice s1 < b_slice s2 \/ (b_last s2 = true /\ b_slice s1 <> b_slice s2) ->
  sd_misbehaved (fst (bs_dissem_run c slot l)) = true /\
  filter is_invalid_event (out_events (snd (bs_dissem_run c slot l))) = [BInvalidBlock].
Proof. exact dissem_last_marker_conflict_flagged. Qed.

Theorem C13_dissem_revealed_equivocation_flagged : forall c slot l,
  reveals_conflict (filter shred_tag_ok l) || reveals_last_conflict (filter shred_tag_ok l) = true ->
  sd_misbehaved (fst (bs_dissem_run c slot l)) = true /\
  filter is_invalid_event (out_events (snd (bs_dissem_run c slot l))) = [BInvalidBlock].
Proof. exact dissem_revealed_equivocation_flagged. Qed.

Theorem C13_dissem_only_valid_blocks : forall ct slot l r ev h p,
  In (r, ev) (snd (bs_dissem_run ct slot l)) -> In (BBlock h p) ev -> valid_block ct slot h p.
Proof. exact dissem_only_valid_blocks. Qed.

Example C13_nonvacuous_valid_block : valid_block ex_ct 5 [100; 101] (4, 88).
Proof.
  exists [(0, mkRS 100 (Some (3, 77)) true); (1, mkRS 101 (Some (4, 88)) true)], (mkRS 100 (Some (3, 77)) true), (3, 77).
  repeat split; try reflexivity.
  intros i r [H|[H|[]]]; injection H as <- <-; reflexivity.
Qed.

(* non-vacuity: the honest example with ONE conflicting shred of slice 1 (another root) slipped in at
   position 40 (before the block is complete), resp. appended at the end (after the Block was announced);
   and a shred of slice 2 after the last-slice marker of slice 1 *)
Example C13_nonvacuous_equivocation :
  let l1 := firstn 40 ex_shreds ++ [ex_conflict] ++ skipn 40 ex_shreds in
  let l2 := ex_shreds ++ [ex_conflict] in
  let l3 := ex_shreds ++ [mkBS 2 false 102 0 true 32] in
  reveals_conflict (filter shred_tag_ok l1) = true /\ reveals_conflict (filter shred_tag_ok l2) = true /\
  reveals_last_conflict (filter shred_tag_ok l3) = true /\
  reveals_conflict (filter shred_tag_ok ex_shreds) || reveals_last_conflict (filter shred_tag_ok ex_shreds) = false /\
  filter (fun e => negb (is_first_event e)) (out_events (snd (bs_dissem_run ex_ct 5 l1))) = [BInvalidBlock] /\
  filter (fun e => negb (is_first_event e)) (out_events (snd (bs_dissem_run ex_ct 5 l2)))
    = [BBlock [100; 101] (4, 88); BInvalidBlock] /\
  filter (fun e => negb (is_first_event e)) (out_events (snd (bs_dissem_run ex_ct 5 l3)))
    = [BBlock [100; 101] (4, 88); BInvalidBlock].
Proof. vm_compute. repeat split; reflexivity. Qed.

(* ---------- the leader's own fast path ---------- *)
Theorem C13_own_path_spec : forall slot ct hb, hb_ok slot ct hb = true ->
  exists parent, hb_parent ct hb = Some parent /\
    sd_panicked (fst (bs_ops_run ct slot (own_ops hb))) = false /\
    sd_misbehaved (fst (bs_ops_run ct slot (own_ops hb))) = false /\
    bd_completed (sd_dissem (fst (bs_ops_run ct slot (own_ops hb)))) = Some (hb_hash hb, parent) /\
    out_events (snd (bs_ops_run ct slot (own_ops hb))) = [BFirstShred; BBlock (hb_hash hb) parent] /\
    (forall r ev, In (r, ev) (snd (bs_ops_run ct slot (own_ops hb))) -> exists x, r = BROk x) /\
    (forall i j, i < hb_len hb -> j < TOTAL_SHREDS ->
       alookup j (aget [] i (bd_shreds (sd_dissem (fst (bs_ops_run ct slot (own_ops hb)))))) = Some (hshred hb i j)).
Proof. exact own_path_spec. Qed.

Theorem C13_own_path_equals_follower : forall slot ct hb l,
  hb_ok slot ct hb = true -> forallb (honest_shred hb) l = true -> block_ready hb l = true ->
  bd_completed (sd_dissem (fst (bs_ops_run ct slot (own_ops hb)))) =
    bd_completed (sd_dissem (fst (bs_dissem_run ct slot l))) /\
  forall i j, i < hb_len hb -> j < TOTAL_SHREDS ->
    alookup j (aget [] i (bd_shreds (sd_dissem (fst (bs_ops_run ct slot (own_ops hb)))))) =
    alookup j (aget [] i (bd_shreds (sd_dissem (fst (bs_dissem_run ct slot l))))).
Proof. exact own_path_equals_follower. Qed.

Example C13_nonvacuous_own_path :
  out_events (snd (bs_ops_run ex_ct 5 (own_ops ex_hb))) = [BFirstShred; BBlock [100; 101] (4, 88)] /\
  bd_completed (sd_dissem (fst (bs_ops_run ex_ct 5 (own_ops ex_hb)))) =
  bd_completed (sd_dissem (fst (bs_dissem_run ex_ct 5 ex_shreds))).
Proof. vm_compute. split; reflexivity. Qed.

Print Assumptions C13_dissem_run_is_spec.
Print Assumptions C13_dissem_honest_safe.
Print Assumptions C13_dissem_first_shred_once.
Print Assumptions C13_dissem_block_once.
Print Assumptions C13_dissem_no_block_before_ready.
Print Assumptions C13_dissem_shreds_available.
Print Assumptions C13_nonvacuous.
Print Assumptions C13_tag_flip_is_harmless.
Print Assumptions C13_dissem_run_filter_tag.
Print Assumptions C13_dissem_flipped_run_is_spec.
Print Assumptions C13_dissem_flipped_safe.
Print Assumptions C13_pinned_tag_flip_flags_correct_leader_refuted.
Print Assumptions C13_nonvacuous_tag_flips.
Print Assumptions C13_dissem_never_panics.
Print Assumptions C13_dissem_invalid_once.
Print Assumptions C13_dissem_silent_after_flag.
Print Assumptions C13_dissem_equivocation_flagged.
Print Assumptions C13_dissem_last_marker_conflict_flagged.
Print Assumptions C13_dissem_revealed_equivocation_flagged.
Print Assumptions C13_nonvacuous_equivocation.
Print Assumptions C13_own_path_spec.
Print Assumptions C13_own_path_equals_follower.
Print Assumptions C13_nonvacuous_own_path.
Print Assumptions C13_dissem_only_valid_blocks.
Print Assumptions C13_nonvacuous_valid_block.
