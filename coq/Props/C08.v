(* C08 - Per-node finality tracking and pruning are certificate-justified and lossless.

   PROVED for the model of the finality tracker (Model/Pool.v ft_ definitions = finality_tracker.rs, current tree),
   for EVERY sequence of operations from the initial tracker (parent registrations, notarization marks,
   fast-finalization marks, finalization marks, in any order, with repetitions, including marks and links
   for slots already decided or pruned), provided the history is CONSISTENT WITH SOME CHAIN
   C : slot -> option hash (ft_consistent C ops = true, Model/FinalitySpec.v):
     - every fast-finalized block is the chain's block of its slot; every finalized slot is on the chain;
     - at most one notarized block per slot (genesis (0,0) counts as notarized); it NEED NOT be the chain's
       block of its slot (a slot may hold a notarization certificate for one block and a notar-fallback
       certificate for another from which the chain continues - a safe execution with < 20 % Byzantine
       stake, found by the C01 composition) UNLESS the slot is finalized directly: a final mark + the
       notarization mark put the notarized block on the chain, and a fast-finalized block is the slot's
       notarized block if there is one;
     - a parent is older than its child, a block has one parent, and if a block is on the chain so is its
       parent and no slot strictly between them is.
   (This is weaker than the premise of the first version of these theorems, which demanded that the
   notarized block of a slot on the chain is the chain's block: C08_consistent_run_never_panics for the larger
   class is what "fix: allow a notarized block other than the implicitly finalized one in a slot" achieves;
   the pinned assertions panic on such histories: C08_pinned_notarized_other_block_panics_refuted, about the
   copy of the tracker with the two pinned assertions (Model/FinalitySpec.v ft_*_gen true, which with false
   IS the current model: C08_pinned_variant_differs_only_by_flag).)
   The chain is a ghost: the tracker never sees it, and C is universally quantified.
   Specification (Model/FinalitySpec.v), over the accumulated marks and links = the list of operations:
     Direct b    = fast mark for b, or final mark for b's slot and notar mark for b;
     FinalStar b = Direct b, or b is the known parent of a FinalStar block;   SkippedStar s = s lies strictly
     between a FinalStar block and its known parent;  spec_view = the same as a boolean function
     (C08_spec_decides_*: final_starb / spec_view decide FinalStar / SkippedStar).
   Theorems:
     (0) C08_consistent_run_never_panics;
     (1) C08_status_is_spec: for every slot the tracker still holds (>= watermark)
         'ft_view t s = spec_view ops s' (finalized with h / implicitly skipped / final pending notar /
         notarized h / nothing); C08_reported_final_iff = soundness and completeness w.r.t. FinalStar;
     (2) C08_reported_skipped_iff: implicitly skipped exactly the slots between a finalized block and its
         finalized known parent;
     (3) C08_highest_is_max_direct, C08_watermark_is_decided_prefix (all slots 1..watermark decided,
         watermark+1 not, nothing older retained), C08_pruned_slots_follow_chain, C08_run_monotone;
     (4) C08_events_exactly_once: over the whole run no (slot, block) and no skipped slot is reported twice,
         everything reported is justified, every justified block of a slot > 0 and every skipped slot is
         reported; with C08_consistency_inherited_by_prefixes this holds after every operation, i.e. each
         report is made by the very operation that justifies it ("as soon as the parent links are known");
     (5) C08_late_notarization_ignored / _finalization_ / _fast_finalization_: a late mark for a decided slot
         returns the identical tracker and no event (no consistency needed; fast: same view);
         C08_without_restore_refuted: without writing the decided status back (the defect recorded for the
         pinned tree, fixed by b32759c) a consistent history makes the tracker contradict the specification.
   Needed hypotheses: C08_inconsistent_history_refuted (two fast-finalized blocks in one slot: panic, or -
   after pruning - a justified block that is never reported).
   Observation: C08_genesis_report_depends_on_order (genesis is reported as implicitly finalized only if
   the link of its child is known before the child is finalized) - hence 'slot > 0' in (4).
   Earlier theorems (kept): pruning is lossless, the pool retains / accepts nothing below the watermark.

   POOL LINK, PROVED (Proofs/PoolMarks.v, PoolHeld.v, PoolOracleSpec.v; vocabulary Model/PoolTrace.v) for EVERY pool
   reachable from pool_init by any pool_step sequence (votes of any signers, received certificates, block
   registrations, standstill, waits, refused messages; steps that panic change no tracker and add nothing):
   ghost trace = the certificates of the ECertCreated events of every step (add_valid_cert emits exactly one per
   certificate it stores, created from votes or received), the (block, parent) pair of every registration that
   returned, the waiter registrations;  H = held_certs trace,  B = reg_links trace.
     (6) C08_pool_finality_marks: the pool's finality tracker IS ft_run ft_init (fops_of trace): a notarization mark for
         b iff a Notar certificate for b is in H, a fast-finalization mark iff a FastFinal certificate, a finalization
         mark for s iff a Final certificate, add_parent (b, par) iff registered (a block of a decided slot is dropped
         by the pool; add_parent ignores it too, so it may be listed); as a set the operation list is cert_hist H B,
         and H is exactly the observable certificate events (C08_ghost_run_is_pool_run: the ghost run is the pool run);
     (7) C08_pool_finality_certificate_level / _events_certificate_level: under ft_consistent C (cert_hist H B) - the
         consistency of the certificates held, a property of the SETS H, B only
         (C08_consistency_premise_is_order_independent) - status of every retained slot = closure of direct
         finalization (C08_direct_finalization_in_certificates: FastFinal certificate, or Final + Notar certificates)
         under the registered links, implicitly skipped = strictly between a finalized block and its registered
         parent, watermark = end of the decided prefix, highest = highest directly finalized slot, every finalized
         block (slot > 0) and skipped slot reported exactly once;
     (8) no premise: C08_pool_monotone (watermark and highest finalized slot never decrease along any pool run),
         C08_held_certificates_are_H_on_retained_slots (everything stored in a slot state is in H; H restricted to
         slots >= watermark is still stored: pruning drops exactly decided slots and nothing else),
         C08_reachable_pool_retains_nothing_below_watermark (no slot state below the watermark in ANY reachable pool,
         also in the middle of a vote that creates several certificates);
     (9) the oracle's executable specification is the relational one: C08_oracle_finals_star_is_FinalStar (all blocks
         but genesis, which the oracle lists separately), _skipped_star_is_SkippedStar, _spec_decided_is_Decided, and
         C08_oracle_clauses_hold_of_model: highest = max_slot_of (direct_finals H), watermark = decided_prefix .. H B 0
         hold of the model in every reachable consistent pool.
   REMAINS ORACLE-ONLY: that ft_consistent holds of the certificates a node can hold when < 20% of the stake is
   Byzantine (it is a premise here; C01's subject), and the model / implementation correspondence itself (that the
   implementation emits the same certificate events, so that the oracle's all_certs / all_blocks are H / B). The
   far-future bound is out_of_bounds by definition (Proofs/TrackerProofs.v out_of_bounds_spec). The parent-ready side
   of the link is in Props/C07.v. *)
From Coq Require Import List NArith Bool.
From AG Require Import Gen.Params Model.Pool Model.PoolSpec Model.TrackerSpec Model.FinalitySpec Model.PoolTrace
     Oracle.PoolRun Proofs.TrackerProofs Proofs.FinalityProofs Proofs.PoolMarks Proofs.PoolHeld Proofs.PoolOracleSpec.
Import ListNotations.
Open Scope N_scope.

Theorem C08_prune_lossless : forall t,
  let t' := ft_prune t in
  ft_first t <= ft_first t' /\ ft_highest t' = ft_highest t /\
  (forall s, ft_first t < s <= ft_first t' -> is_decided (alookup s (ft_status t)) = true) /\
  (forall s st, In (s, st) (ft_status t') -> ft_first t' <= s) /\
  (forall b p, In (b, p) (ft_parents t') -> ft_first t' <= fst b).
Proof. exact ft_prune_spec. Qed.

Theorem C08_pool_retains_only_undecided_suffix : forall p s ss,
  In (s, ss) (p_slots (pool_prune p)) -> first_unpruned p <= s.
Proof. exact pool_prune_retains_only_undecided_suffix. Qed.

Theorem C08_old_votes_refused : forall e p vt,
  p_panicked p = false -> v_slot vt < first_unpruned p ->
  pool_step e p (OpVote vt) = (p, RVerdict VOutOfBounds, po_empty).
Proof. exact vote_old_refused. Qed.

Theorem C08_old_certs_refused : forall e p c,
  p_panicked p = false -> c_slot c < first_unpruned p ->
  pool_step e p (OpCert c) = (p, RVerdict VOutOfBounds, po_empty).
Proof. exact cert_old_refused. Qed.

Theorem C08_undecided_votes_not_refused : forall e p vt,
  p_panicked p = false -> out_of_bounds p (v_slot vt) = false ->
  snd (fst (pool_step e p (OpVote vt))) <> RVerdict VOutOfBounds.
Proof. exact vote_in_bounds_not_refused. Qed.

(* ---------- the finality tracker against the specification, every operation sequence ---------- *)
Theorem C08_consistent_run_never_panics : forall (C : slot -> option hash) (ops : list ft_op),
  ft_consistent C ops = true -> ft_run ft_init ops <> None.
Proof. exact consistent_run_never_panics. Qed.

Theorem C08_status_is_spec : forall (C : slot -> option hash) (ops : list ft_op),
  ft_consistent C ops = true ->
  forall t evs, ft_run ft_init ops = Some (t, evs) ->
  forall s, ft_first t <= s -> ft_view t s = spec_view ops s.
Proof. exact status_is_spec. Qed.

Theorem C08_reported_final_iff : forall (C : slot -> option hash) (ops : list ft_op),
  ft_consistent C ops = true ->
  forall t evs, ft_run ft_init ops = Some (t, evs) ->
  forall s h, ft_first t <= s -> (ft_view t s = VFinal h <-> FinalStar ops (s, h)).
Proof. exact reported_final_iff. Qed.

Theorem C08_reported_skipped_iff : forall (C : slot -> option hash) (ops : list ft_op),
  ft_consistent C ops = true ->
  forall t evs, ft_run ft_init ops = Some (t, evs) ->
  forall s, ft_first t <= s -> (ft_view t s = VSkipped <-> SkippedStar ops s).
Proof. exact reported_skipped_iff. Qed.

Theorem C08_spec_decides_final : forall (H : hist) (b : blockid),
  (forall c p, Link H c p -> fst p < fst c) -> (final_starb H b = true <-> FinalStar H b).
Proof. exact final_starb_iff. Qed.

Theorem C08_spec_decides_skipped : forall (H : hist) (s : slot),
  (forall c p, Link H c p -> fst p < fst c) -> (spec_skipped H s = true <-> SkippedStar H s).
Proof. exact spec_skipped_iff. Qed.

Theorem C08_highest_is_max_direct : forall (C : slot -> option hash) (ops : list ft_op),
  ft_consistent C ops = true ->
  forall t evs, ft_run ft_init ops = Some (t, evs) ->
  (forall b, Direct ops b -> fst b <= ft_highest t) /\
  (ft_highest t = 0 \/ exists b, Direct ops b /\ fst b = ft_highest t).
Proof. exact highest_is_max_direct. Qed.

Theorem C08_watermark_is_decided_prefix : forall (C : slot -> option hash) (ops : list ft_op),
  ft_consistent C ops = true ->
  forall t evs, ft_run ft_init ops = Some (t, evs) ->
  (forall s, 0 < s <= ft_first t -> view_decided (spec_view ops s) = true) /\
  view_decided (spec_view ops (ft_first t + 1)) = false /\
  (forall s v, In (s, v) (ft_status t) -> ft_first t <= s) /\
  (forall b p, In (b, p) (ft_parents t) -> ft_first t <= fst b).
Proof. exact watermark_is_decided_prefix. Qed.

Theorem C08_pruned_slots_follow_chain : forall (C : slot -> option hash) (ops : list ft_op),
  ft_consistent C ops = true ->
  forall t evs, ft_run ft_init ops = Some (t, evs) ->
  forall s, 0 < s < ft_first t ->
  match C s with Some h => FinalStar ops (s, h) | None => SkippedStar ops s end.
Proof. exact pruned_slots_follow_chain. Qed.

Theorem C08_run_monotone : forall (C : slot -> option hash) ops1 ops2 t1 e1 t2 e2,
  ft_consistent C (ops1 ++ ops2) = true ->
  ft_run ft_init ops1 = Some (t1, e1) -> ft_run ft_init (ops1 ++ ops2) = Some (t2, e2) ->
  ft_first t1 <= ft_first t2 /\ ft_highest t1 <= ft_highest t2.
Proof. exact run_monotone. Qed.

Theorem C08_events_exactly_once : forall (C : slot -> option hash) (ops : list ft_op),
  ft_consistent C ops = true ->
  forall t evs, ft_run ft_init ops = Some (t, evs) ->
  NoDup (all_final_events evs) /\ NoDup (all_skip_events evs) /\
  (forall x, In x (all_final_events evs) -> FinalStar ops x) /\
  (forall x, FinalStar ops x -> 0 < fst x -> In x (all_final_events evs)) /\
  (forall s, In s (all_skip_events evs) <-> SkippedStar ops s).
Proof. exact events_once. Qed.

Theorem C08_consistency_inherited_by_prefixes : forall (C : slot -> option hash) a b,
  ft_consistent C (a ++ b) = true -> ft_consistent C a = true.
Proof. exact consistent_prefix. Qed.

Theorem C08_late_notarization_ignored : forall t b t' ev,
  is_decided (alookup (fst b) (ft_status t)) = true -> ft_mark_notarized t b = Some (t', ev) ->
  t' = t /\ ev = fe_empty.
Proof. exact late_notarization_ignored. Qed.

Theorem C08_late_finalization_ignored : forall t s t' ev,
  is_decided (alookup s (ft_status t)) = true -> ft_mark_finalized t s = Some (t', ev) ->
  t' = t /\ ev = fe_empty.
Proof. exact late_finalization_ignored. Qed.

Theorem C08_late_fast_finalization_ignored : forall t b t' ev,
  is_decided (alookup (fst b) (ft_status t)) = true -> ft_mark_fast_finalized t b = Some (t', ev) ->
  ev = fe_empty /\ (forall s, ft_view t' s = ft_view t s) /\
  ft_parents t' = ft_parents t /\ ft_first t' = ft_first t /\ ft_highest t' = ft_highest t.
Proof. exact late_fast_finalization_ignored. Qed.

Theorem C08_without_restore_refuted : exists C ops b t evs t' ev,
  ft_consistent C (ops ++ [TNotar b]) = true /\ ft_run ft_init ops = Some (t, evs) /\
  is_decided (alookup (fst b) (ft_status t)) = true /\
  ft_mark_notarized_norestore t b = Some (t', ev) /\
  ft_view t' (fst b) <> spec_view (ops ++ [TNotar b]) (fst b) /\
  ft_view t' (fst b) <> ft_view t (fst b).
Proof. exact norestore_refuted. Qed.

Theorem C08_inconsistent_history_refuted :
  ft_run ft_init [TFast (1, 1); TFast (1, 9)] = None /\
  ft_run ft_init [TNotar (1, 1); TNotar (1, 2)] = None /\
  exists t evs, let ops := [TFast (1, 1); TFast (2, 2); TFast (1, 9)] in
    ft_run ft_init ops = Some (t, evs) /\ FinalStar ops (1, 9) /\ FinalStar ops (1, 1) /\
    ~ In (1, 9) (all_final_events evs).
Proof. exact inconsistent_history_refuted. Qed.

Theorem C08_genesis_report_depends_on_order :
  let C := fun s => if s =? 0 then Some 0 else if s =? 1 then Some 1 else None in
  let a := [TParent (1, 1) (0, 0); TFast (1, 1)] in
  let b := [TFast (1, 1); TParent (1, 1) (0, 0)] in
  ft_consistent C a = true /\ ft_consistent C b = true /\
  exists ta ea tb eb, ft_run ft_init a = Some (ta, ea) /\ ft_run ft_init b = Some (tb, eb) /\
    In (0, 0) (all_final_events ea) /\ ~ In (0, 0) (all_final_events eb) /\
    ft_first ta = ft_first tb /\ ft_highest ta = ft_highest tb.
Proof. exact genesis_report_depends_on_order. Qed.

(* the pinned tree asserted that a slot whose status is Notarized(h) / ImplicitlyFinalized(h) is implicitly
   finalized / notarized with that very h: both consistent histories below panic there, and run through now *)
Theorem C08_pinned_notarized_other_block_panics_refuted :
  ft_consistent nb_chain nb_ops = true /\ ft_run_pinned ft_init nb_ops = None /\ ft_run ft_init nb_ops <> None /\
  ft_consistent nb_chain2 nb_ops2 = true /\ ft_run_pinned ft_init nb_ops2 = None /\ ft_run ft_init nb_ops2 <> None.
Proof. exact pinned_notarized_other_block_panics. Qed.

Theorem C08_pinned_variant_differs_only_by_flag : forall ops t, ft_run_gen false t ops = ft_run t ops.
Proof. exact ft_run_gen_false. Qed.

(* the safe execution with a notarized block off the chain (stakes [41,40,19]; tracker operations of the pool
   trace, then a late re-delivery of the notarization) satisfies the hypotheses, runs without panic and
   reports (1,11) as implicitly finalized although slot 1 is notarized with (1,12) *)
Example C08_nonvacuous_notarized_other_block :
  ft_consistent nb_chain nb_ops = true /\ ft_consistent nb_chain2 nb_ops2 = true.
Proof. exact nb_ops_consistent. Qed.
Example C08_nonvacuous_notarized_other_block_run : exists t evs, ft_run ft_init nb_ops = Some (t, evs) /\
  In (1, 11) (flat_map fe_impl_final evs) /\
  all_final_events evs = [(4, 41); (2, 21); (1, 11); (0, 0)] /\ all_skip_events evs = [3] /\
  ft_first t = 4 /\ ft_highest t = 4.
Proof. exact nb_ops_run. Qed.
Example C08_nonvacuous_late_notarization_of_other_block : exists t evs, ft_run ft_init nb_ops2 = Some (t, evs) /\
  ft_view t 2 = VFinal 21 /\ all_final_events evs = [(3, 31); (2, 21)] /\ ft_first t = 0.
Proof. exact nb_ops2_run. Qed.
(* ---------- the certificate-to-mark link: WHICH operations the pool issues to its finality tracker ---------- *)
(* every pool reachable from pool_init by any pool_step sequence (panicking steps included: they change no tracker);
   g_trace = ghost trace read off the observable step results (Model/PoolTrace.v) *)
Theorem C08_pool_finality_marks : forall e ops,
  let g := ghost_run e ops in
  let H := held_certs (g_trace g) in let B := reg_links (g_trace g) in
  (exists fevs, ft_run ft_init (fops_of (g_trace g)) = Some (p_ft (g_pool g), fevs)) /\
  H = ev_certs (g_events g) /\
  (forall b, In (TNotar b) (fops_of (g_trace g)) <-> has_notar_cert H b = true) /\
  (forall b, In (TFast b) (fops_of (g_trace g)) <-> has_ff_cert H b = true) /\
  (forall s, In (TFinal s) (fops_of (g_trace g)) <-> has_final_cert H s = true) /\
  (forall b par, In (TParent b par) (fops_of (g_trace g)) <-> In (b, par) B) /\
  same_marks (fops_of (g_trace g)) (cert_hist H B).
Proof. exact pool_finality_marks. Qed.

Theorem C08_ghost_run_is_pool_run : forall e ops,
  g_pool (ghost_run e ops) = fold_left (fun p op => fst (fst (pool_step e p op))) ops pool_init.
Proof. exact ghost_run_pool. Qed.

Theorem C08_direct_finalization_in_certificates : forall H B b,
  Direct (cert_hist H B) b <->
  has_ff_cert H b = true \/ (has_final_cert H (fst b) = true /\ (b = (0, 0) \/ has_notar_cert H b = true)).
Proof. exact Direct_certs. Qed.

Theorem C08_consistency_premise_is_order_independent : forall C H H',
  same_marks H H' -> ft_consistent C H = ft_consistent C H'.
Proof. exact ft_consistent_same. Qed.

(* C08 at certificate level: status = closure of direct finalization (by H) under the registered links (B),
   watermark = decided prefix, highest = highest directly finalized slot *)
Theorem C08_pool_finality_certificate_level : forall e ops (C : slot -> option hash),
  let g := ghost_run e ops in let p := g_pool g in
  let H := held_certs (g_trace g) in let B := reg_links (g_trace g) in
  ft_consistent C (cert_hist H B) = true ->
  (forall s, first_unpruned p <= s -> ft_view (p_ft p) s = spec_view (fops_of (g_trace g)) s) /\
  (forall s h, first_unpruned p <= s -> (ft_view (p_ft p) s = VFinal h <-> FinalStar (cert_hist H B) (s, h))) /\
  (forall s, first_unpruned p <= s -> (ft_view (p_ft p) s = VSkipped <-> SkippedStar (cert_hist H B) s)) /\
  (forall s, 0 < s <= first_unpruned p -> Decided (cert_hist H B) s) /\
  ~ Decided (cert_hist H B) (first_unpruned p + 1) /\
  (forall b, Direct (cert_hist H B) b -> fst b <= finalized_slot p) /\
  (finalized_slot p = 0 \/ exists b, Direct (cert_hist H B) b /\ fst b = finalized_slot p) /\
  (forall s v, In (s, v) (ft_status (p_ft p)) -> first_unpruned p <= s) /\
  (forall b par, In (b, par) (ft_parents (p_ft p)) -> first_unpruned p <= fst b).
Proof. exact pool_finality_certificate_level. Qed.

Theorem C08_pool_finality_events_certificate_level : forall e ops (C : slot -> option hash),
  let g := ghost_run e ops in let p := g_pool g in
  let H := held_certs (g_trace g) in let B := reg_links (g_trace g) in
  ft_consistent C (cert_hist H B) = true ->
  exists fevs, ft_run ft_init (fops_of (g_trace g)) = Some (p_ft p, fevs) /\
    NoDup (all_final_events fevs) /\ NoDup (all_skip_events fevs) /\
    (forall x, In x (all_final_events fevs) -> FinalStar (cert_hist H B) x) /\
    (forall x, FinalStar (cert_hist H B) x -> 0 < fst x -> In x (all_final_events fevs)) /\
    (forall s, In s (all_skip_events fevs) <-> SkippedStar (cert_hist H B) s).
Proof. exact pool_finality_events_certificate_level. Qed.

(* no premise: watermark and highest finalized slot never decrease along any pool run *)
Theorem C08_pool_monotone : forall e ops1 ops2,
  first_unpruned (g_pool (ghost_run e ops1)) <= first_unpruned (g_pool (ghost_run e (ops1 ++ ops2))) /\
  finalized_slot (g_pool (ghost_run e ops1)) <= finalized_slot (g_pool (ghost_run e (ops1 ++ ops2))).
Proof. exact pool_monotone. Qed.

(* the ghost H against the certificates stored NOW: everything stored is in H, and H restricted to the slots at or above
   the watermark is still stored (what is missing was decided and pruned) *)
Theorem C08_held_certificates_are_H_on_retained_slots : forall e ops,
  let g := ghost_run e ops in
  (forall s c, In c (certs_of_slot (p_ss (g_pool g) s)) -> In c (held_certs (g_trace g)) /\ c_slot c = s) /\
  (forall c, In c (held_certs (g_trace g)) -> first_unpruned (g_pool g) <= c_slot c ->
             In c (certs_of_slot (p_ss (g_pool g) (c_slot c)))).
Proof. exact held_is_retained_ghost. Qed.

Theorem C08_reachable_pool_retains_nothing_below_watermark : forall e ops s ss,
  In (s, ss) (p_slots (g_pool (ghost_run e ops))) -> first_unpruned (g_pool (ghost_run e ops)) <= s.
Proof. exact reachable_retains_nothing_old. Qed.

(* ---------- the oracle's executable specification (Oracle/PoolRun.v) IS the relational one ---------- *)
Theorem C08_oracle_finals_star_is_FinalStar : forall cs blocks,
  (forall b par, In (b, par) blocks -> fst par < fst b) ->
  forall b, b <> (0, 0) -> (bmem b (finals_star cs blocks) = true <-> FinalStar (cert_hist cs blocks) b).
Proof. exact finals_star_iff. Qed.

Theorem C08_oracle_skipped_star_is_SkippedStar : forall cs blocks,
  (forall b par, In (b, par) blocks -> fst par < fst b) ->
  forall t, skipped_star (finals_star cs blocks) blocks t = true <-> SkippedStar (cert_hist cs blocks) t.
Proof. exact skipped_star_iff. Qed.

Theorem C08_oracle_spec_decided_is_Decided : forall cs blocks,
  (forall b par, In (b, par) blocks -> fst par < fst b) ->
  forall t, 0 < t -> (spec_decided cs blocks t = true <-> Decided (cert_hist cs blocks) t).
Proof. exact spec_decided_iff. Qed.

(* the finality clauses of c08_step_ok (highest = max of the direct finals, watermark = decided_prefix, nothing older
   retained by the tracker) hold of the MODEL in every reachable pool whose certificates are consistent *)
Theorem C08_oracle_clauses_hold_of_model : forall e ops (C : slot -> option hash),
  let g := ghost_run e ops in let p := g_pool g in
  let H := held_certs (g_trace g) in let B := reg_links (g_trace g) in
  ft_consistent C (cert_hist H B) = true ->
  finalized_slot p = max_slot_of (direct_finals H) /\
  first_unpruned p = decided_prefix (S (length H + length B + N.to_nat (finalized_slot p))) H B 0 /\
  (forall s ss, In (s, ss) (ft_status (p_ft p)) -> first_unpruned p <= s).
Proof. exact oracle_c08_clauses_hold_of_model. Qed.

(* the hypotheses are satisfiable by a history with finalization before notarization, a child link before the
   parent link, a gap, and marks / links for slots already decided; and the run does what the theorems say *)
Example C08_nonvacuous : ft_consistent ex_chain ex_ops = true.
Proof. vm_compute. reflexivity. Qed.
Example C08_nonvacuous_run : exists t evs, ft_run ft_init ex_ops = Some (t, evs) /\
  ft_first t = 5 /\ ft_highest t = 5 /\
  all_final_events evs = [(5, 5); (3, 3); (1, 1)] /\ all_skip_events evs = [4; 2].
Proof. exact ex_ops_run. Qed.

(* the pool-level hypotheses are satisfiable: certificates created from votes and received ones, a finalization
   certificate before the notarization certificate, a child link before the parent link, a gap, a certificate for a
   slot already decided (refused), a waiter; lk_ops / lk_chain in Proofs/PoolMarks.v *)
Example C08_pool_link_nonvacuous :
  let g := ghost_run lk_epoch lk_ops in
  let H := held_certs (g_trace g) in let B := reg_links (g_trace g) in
  ft_consistent lk_chain (cert_hist H B) = true /\ slot0_genesis_only H B = true /\
  p_panicked (g_pool g) = false /\
  map (fun c => (c_slot c, c_kind c)) H =
    [(1, CNotarFb 7); (1, CNotar 7); (1, CFastFinal 7); (3, CFinal); (2, CSkip); (3, CNotar 3); (5, CFastFinal 5);
     (6, CSkip); (7, CSkip)] /\
  B = [((5, 5), (3, 3)); ((3, 3), (1, 7))] /\
  first_unpruned (g_pool g) = 5 /\ finalized_slot (g_pool g) = 5 /\
  pt_parents_ready (p_prt (g_pool g)) 8 = [(5, 5)] /\
  ev_prs (g_events g) = [(4, (3, 3)); (8, (5, 5))] /\ ev_wk (g_events g) = [EWaiterWoken 8 (5, 5)] /\
  ready_specb H B 8 (5, 5) = true /\ ready_specb H B 8 (3, 3) = false.
Proof. exact lk_example. Qed.

Print Assumptions C08_prune_lossless.
Print Assumptions C08_pool_retains_only_undecided_suffix.
Print Assumptions C08_old_votes_refused.
Print Assumptions C08_old_certs_refused.
Print Assumptions C08_undecided_votes_not_refused.
Print Assumptions C08_consistent_run_never_panics.
Print Assumptions C08_status_is_spec.
Print Assumptions C08_reported_final_iff.
Print Assumptions C08_reported_skipped_iff.
Print Assumptions C08_spec_decides_final.
Print Assumptions C08_spec_decides_skipped.
Print Assumptions C08_highest_is_max_direct.
Print Assumptions C08_watermark_is_decided_prefix.
Print Assumptions C08_pruned_slots_follow_chain.
Print Assumptions C08_run_monotone.
Print Assumptions C08_events_exactly_once.
Print Assumptions C08_consistency_inherited_by_prefixes.
Print Assumptions C08_late_notarization_ignored.
Print Assumptions C08_late_finalization_ignored.
Print Assumptions C08_late_fast_finalization_ignored.
Print Assumptions C08_without_restore_refuted.
Print Assumptions C08_inconsistent_history_refuted.
Print Assumptions C08_genesis_report_depends_on_order.
Print Assumptions C08_nonvacuous.
Print Assumptions C08_nonvacuous_run.
Print Assumptions C08_pinned_notarized_other_block_panics_refuted.
Print Assumptions C08_pinned_variant_differs_only_by_flag.
Print Assumptions C08_nonvacuous_notarized_other_block.
Print Assumptions C08_nonvacuous_notarized_other_block_run.
Print Assumptions C08_nonvacuous_late_notarization_of_other_block.
Print Assumptions C08_pool_finality_marks.
Print Assumptions C08_ghost_run_is_pool_run.
Print Assumptions C08_direct_finalization_in_certificates.
Print Assumptions C08_consistency_premise_is_order_independent.
Print Assumptions C08_pool_finality_certificate_level.
Print Assumptions C08_pool_finality_events_certificate_level.
Print Assumptions C08_pool_monotone.
Print Assumptions C08_pool_link_nonvacuous.
Print Assumptions C08_held_certificates_are_H_on_retained_slots.
Print Assumptions C08_oracle_finals_star_is_FinalStar.
Print Assumptions C08_oracle_skipped_star_is_SkippedStar.
Print Assumptions C08_oracle_spec_decided_is_Decided.
Print Assumptions C08_oracle_clauses_hold_of_model.
Print Assumptions C08_reachable_pool_retains_nothing_below_watermark.
