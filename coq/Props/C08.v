(* C08 - Per-node finality tracking and pruning are certificate-justified and lossless.
   PARTIAL: proved for the model - the watermark never decreases and only moves over decided slots
   (nothing undecided is dropped), the highest finalized slot is untouched by pruning, after pruning
   nothing below the watermark is retained (tracker status, parent links, per-slot pool state), votes
   and certificates are refused exactly for slots below the watermark (or too far ahead) and never
   otherwise.  "finalized exactly when the certificates justify it", "watermark = end of the maximal
   decided prefix" and "ancestors finalized as soon as links are known" are decided by the oracle
   c08_step_ok on implementation traces and the model/implementation correspondence. *)
From Coq Require Import List NArith Bool.
From AG Require Import Gen.Params Model.Pool Model.PoolSpec Proofs.TrackerProofs.
Import ListNotations.
Open Scope N_scope.

Theorem C08_prune_lossless : forall t,
  let t' := ft_prune t in
  ft_first t <= ft_first t' /\ ft_highest t' = ft_highest t /\
  (forall s, ft_first t < s <= ft_first t' -> is_decided (alookup s (ft_status t)) = true) /\
  (forall s st, In (s, st) (ft_status t') -> ft_first t' <= s) /\
  (forall b p, In (b, p) (ft_parents t') -> ft_first t' <= fst b).
Proof. exact ft_prune_spec. Qed.

Theorem C08_pool_retains_only_undecided_suffix : forall p s ss,
  In (s, ss) (p_slots (pool_prune p)) -> first_unpruned p <= s.
Proof. exact pool_prune_retains_only_undecided_suffix. Qed.

Theorem C08_old_votes_refused : forall e p vt,
  p_panicked p = false -> v_slot vt < first_unpruned p ->
  pool_step e p (OpVote vt) = (p, RVerdict VOutOfBounds, po_empty).
Proof. exact vote_old_refused. Qed.

Theorem C08_old_certs_refused : forall e p c,
  p_panicked p = false -> c_slot c < first_unpruned p ->
  pool_step e p (OpCert c) = (p, RVerdict VOutOfBounds, po_empty).
Proof. exact cert_old_refused. Qed.

Theorem C08_undecided_votes_not_refused : forall e p vt,
  p_panicked p = false -> out_of_bounds p (v_slot vt) = false ->
  snd (fst (pool_step e p (OpVote vt))) <> RVerdict VOutOfBounds.
Proof. exact vote_in_bounds_not_refused. Qed.

Print Assumptions C08_prune_lossless.
Print Assumptions C08_pool_retains_only_undecided_suffix.
Print Assumptions C08_old_votes_refused.
Print Assumptions C08_old_certs_refused.
Print Assumptions C08_undecided_votes_not_refused.
