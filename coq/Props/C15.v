(* C15 - Merkle proofs verify exactly for the leaf at the stated position.
   This file contains only the property theorems (closed by lemmas of Proofs/MerkleProofs.v),
   their pinned statements and Print Assumptions. *)
From Coq Require Import String Uint63 List NArith Bool.
From AG Require Import Lib.Sha256 Lib.Hex Model.Merkle Model.MerkleSha Proofs.MerkleProofs Gen.Params.
Import ListNotations.

Section C15.
  Context {H leafT : Type}.
  Variable hash_leaf : leafT -> H.
  Variable hash_pair : H -> H -> H.
  Variable empty_leaf : leafT.
  Variable H_eqb : H -> H -> bool.
  Variable max_height : nat.
  Hypothesis H_eqb_spec : forall a b, H_eqb a b = true <-> a = b.
  Variable leaves : list H.
  Hypothesis leaves_nonempty : leaves <> [].
  Hypothesis leaves_are_leaf_hashes : Forall (fun y => exists d, y = hash_leaf d) leaves.

  Let empty0 := hash_leaf empty_leaf.
  Let lv := levels hash_pair empty0 leaves.
  Let ht := height lv.

  (* every proof the tree creates verifies (for every position of the padded width) *)
  Theorem C15_proof_complete : forall i, (i < 2 ^ N.of_nat ht)%N -> ht <= max_height ->
    check hash_pair H_eqb max_height (node hash_pair empty0 lv 0 i) i (root empty0 lv)
          (create_proof hash_pair empty0 lv i) = true.
  Proof. exact (proof_complete hash_leaf hash_pair empty_leaf H_eqb max_height H_eqb_spec leaves leaves_nonempty). Qed.

  (* a proof verifies only for the leaf at that index, with the index inside the width and the
     proof exactly as long as the tree is high - unless a hash collision / label confusion is exhibited *)
  Theorem C15_proof_sound : forall d i p,
    check hash_pair H_eqb max_height (hash_leaf d) i (root empty0 lv) p = true ->
    Collision hash_leaf hash_pair \/
    (length p = ht /\ (i < 2 ^ N.of_nat ht)%N /\ hash_leaf d = node hash_pair empty0 lv 0 i).
  Proof. exact (proof_sound hash_leaf hash_pair empty_leaf H_eqb max_height H_eqb_spec leaves leaves_nonempty leaves_are_leaf_hashes). Qed.

  (* the last-leaf variant additionally guarantees that nothing non-empty lies to the right *)
  Theorem C15_last_sound : forall d i p,
    check_last hash_pair empty0 H_eqb max_height (hash_leaf d) i (root empty0 lv) p = true ->
    Collision hash_leaf hash_pair \/
    (length p = ht /\ (i < 2 ^ N.of_nat ht)%N /\ hash_leaf d = node hash_pair empty0 lv 0 i /\
     forall j, (i < j)%N -> PairCollision hash_pair \/ node hash_pair empty0 lv 0 j = empty0).
  Proof. exact (last_sound hash_leaf hash_pair empty_leaf H_eqb max_height H_eqb_spec leaves leaves_nonempty leaves_are_leaf_hashes). Qed.

  (* ... and verifies whenever that is the case *)
  Theorem C15_last_complete : forall i,
    (i < 2 ^ N.of_nat ht)%N -> ht <= max_height ->
    (forall j, (i < j)%N -> (j < 2 ^ N.of_nat ht)%N -> node hash_pair empty0 lv 0 j = empty0) ->
    check_last hash_pair empty0 H_eqb max_height (node hash_pair empty0 lv 0 i) i (root empty0 lv)
               (create_proof hash_pair empty0 lv i) = true.
  Proof. exact (last_complete hash_leaf hash_pair empty_leaf H_eqb max_height H_eqb_spec leaves leaves_nonempty). Qed.

  (* historical finding (fixed): without the leftover-index test every index i + k*2^|p| verified too *)
  Theorem C15_pinned_check_aliased : forall x i p r k,
    check_pinned hash_pair H_eqb max_height x i r p = true ->
    check_pinned hash_pair H_eqb max_height x (i + k * 2 ^ N.of_nat (length p)) r p = true.
  Proof. exact (check_pinned_alias hash_leaf hash_pair empty_leaf H_eqb max_height H_eqb_spec leaves). Qed.
End C15.

(* The constant table EMPTY_ROOTS of the implementation equals the model's empty_root for the
   SHA-256 instance with the implementation's labels (re-checked whenever Params.v changes). *)
Theorem C15_empty_roots_ok :
  forallb (fun hr => bytes_eqb (s_empty_root (fst hr)) (hex (snd hr)))
          (combine (seq 0 (length EMPTY_ROOTS)) EMPTY_ROOTS) = true
  /\ length EMPTY_ROOTS = N.to_nat MAX_MERKLE_TREE_HEIGHT.
Proof. split; vm_compute; reflexivity. Qed.

(* non-vacuity: a concrete 5-leaf tree meets the hypotheses; honest proof verifies, alias index does not *)
Example C15_nonvacuous :
  let leaves := [[1%uint63]; [2%uint63]; []; [4%uint63]; [5%uint63]] in
  s_check [2%uint63] 1 (s_root leaves) (s_create_proof leaves 1) = true /\
  s_check [2%uint63] 9 (s_root leaves) (s_create_proof leaves 1) = false /\
  s_check_last [5%uint63] 4 (s_root leaves) (s_create_proof leaves 4) = true /\
  s_check_last [4%uint63] 3 (s_root leaves) (s_create_proof leaves 3) = false.
Proof. vm_compute. repeat split; reflexivity. Qed.

Check C15_proof_complete. Check C15_proof_sound. Check C15_last_sound. Check C15_last_complete.
Print Assumptions C15_proof_complete.
Print Assumptions C15_proof_sound.
Print Assumptions C15_last_sound.
Print Assumptions C15_last_complete.
Print Assumptions C15_pinned_check_aliased.
Print Assumptions C15_empty_roots_ok.
Print Assumptions C15_nonvacuous.
