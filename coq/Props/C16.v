(* C16 - All nodes agree on shred routing, so fault-free dissemination reaches everyone.
   Theorems over the executable routing model (Model/Routing.v).

   Routing as a function of (slot, slice, shred) only: in the model the relay of a shred is
   `rotor_relay rng sm slot slice shred` and the tree of a shred is `turbine_tree rng stakes fanout own slot
   shred`; neither has an argument for the computing node (other than the node's own position in the
   tree), construction time or call order, and the sampler `sm` is `rotor_new stakes` / `rotor_new_fa1 stakes`
   (`rotor_ctor fa1 stakes`), a function of the stakes - for Rotor::new_fa1 since b638f0a, which replaced
   the thread-RNG shuffle of PartitionSampler::new by a fixed-seed one (modelled: rand's shuffle on ChaCha12).  What remains to be shown, and is shown below: distinct coordinates give
   distinct seeds; the caches return what a fresh computation returns for every query history and eviction
   policy; given agreement, a loss-free run delivers every shred to every other validator exactly once
   (Turbine: for EVERY order of the validators and every fanout >= 1; Rotor: through exactly one relay
   broadcast, for every n, relay and leader, relay = leader included).
   Refuted for the model of the pinned tree only: agreement between Rotor::new_fa1 instances (thread-RNG
   shuffle; `rotor_new_fa1_pinned stakes order`).  Still a known finding: Rotor::new_fa1 panics at construction
   for some validator sets (C17_fa1_partition_constructible_refuted).
   PARTIAL (validated by the correspondence / oracle, not proved): that the real instances compute the
   model's function irrespective of own id, construction time, call order and cache state (several
   independently constructed Rotor / Turbine instances per own id are asked the same triples - several slices
   of one slot, several slots - in different orders and must give identical answers); that
   StdRng::from_seed is Lib/ChaCha.v's ChaCha12 and the weighted shuffle's sum tree computes prefix-sum search;
   that the receive path of consensus.rs forwards on every receipt, the leader's own included, before storing:
   the loss-free runs of the check drive REAL Alpenglow nodes through handle_disseminator_shred and must
   reproduce the model's delivery sequence (`run`, in which every node forwards on every receipt) and leave
   the whole slice in every non-leader's blockstore. *)
From Coq Require Import List NArith Bool.
From AG Require Import Gen.Params Lib.ChaCha Model.Sampling Model.Routing Proofs.SamplingProofs Proofs.RoutingProofs.
Import ListNotations.
Open Scope N_scope.

(* RNG seeded from (slot, slice) / (slot, shred) only: distinct coordinates, distinct seeds *)
Theorem C16_rotor_seed_injective : forall slot slice slot' slice',
  slot < W64 -> slice < W64 -> slot' < W64 -> slice' < W64 ->
  rotor_seed slot slice = rotor_seed slot' slice' -> slot = slot' /\ slice = slice'.
Proof. exact rotor_seed_injective. Qed.
Theorem C16_turbine_seed_injective : forall slot shred slot' shred',
  slot < W64 -> shred < W64 -> slot' < W64 -> shred' < W64 ->
  turbine_seed slot shred = turbine_seed slot' shred' -> slot = slot' /\ shred = shred'.
Proof. exact turbine_seed_injective. Qed.

(* independence of call order and caching: a look-up-else-compute cache (relay_cache, tree_cache), under
   any eviction policy and any history of queries, answers exactly like a fresh computation *)
Theorem C16_cache_is_memo : forall (K V : Type) (keq : K -> K -> bool) (f : K -> V),
  (forall a b, keq a b = true -> a = b) ->
  forall ks keeps c,
    length keeps = length ks ->
    Forall (fun keep => forall c0 e, In e (keep c0) -> In e c0) keeps ->
    cache_valid f c ->
    memo_run keq f keeps c ks = map f ks.
Proof. exact cache_is_memo_any. Qed.

(* the sampler either constructor builds is a function of the stakes: two instances of the same epoch hold
   the same sampler, hence (same rng) the same relay for every triple *)
Theorem C16_rotor_relay_is_a_function_of_the_triple : forall (rng : list N -> stream) fa1 stakes sm1 sm2 slot slice shred,
  rotor_ctor fa1 stakes = COk sm1 -> rotor_ctor fa1 stakes = COk sm2 ->
  rotor_relay rng sm1 slot slice shred = rotor_relay rng sm2 slot slice shred.
Proof. exact rotor_relay_is_a_function_of_the_triple. Qed.

(* ... which failed for Rotor::new_fa1 in the pinned tree *)
Theorem C16_rotor_fa1_instances_disagree_pinned_refuted :
  exists stakes o1 o2 sm1 sm2 slot slice shred,
    rotor_new_fa1_pinned stakes o1 = COk sm1 /\ rotor_new_fa1_pinned stakes o2 = COk sm2 /\
    (exists r1 r2, rotor_relay (stdrng 4) sm1 slot slice shred = RRelay r1 /\
                   rotor_relay (stdrng 4) sm2 slot slice shred = RRelay r2 /\ r1 <> r2).
Proof. exact rotor_fa1_instances_disagree_pinned_refuted. Qed.

(* sample_relay indexes the committee by the shred index: a relay exists for every shred of a slice
   (both Rotor constructors) *)
Theorem C16_rotor_relay_defined_for_every_shred : forall (rng : list N -> stream) fa1 stakes sm slot slice q r shred,
  rotor_ctor fa1 stakes = COk sm ->
  rotor_relays rng sm slot slice = Ok q r -> shred < TOTAL_SHREDS ->
  exists v, rotor_relay rng sm slot slice shred = RRelay v /\ nth_error q (N.to_nat shred) = Some v.
Proof. exact rotor_relay_defined_for_every_shred. Qed.

(* the relay always is a validator of the epoch (so that `send` has an address) *)
Theorem C16_rotor_relay_in_range : forall (rng : list N -> stream) fa1 stakes sm slot slice shred r,
  rotor_ctor fa1 stakes = COk sm -> lenN stakes < W64 ->
  rotor_relay rng sm slot slice shred = RRelay r -> r < lenN stakes.
Proof. exact rotor_relay_in_range. Qed.

(* Rotor, loss-free: every validator other than the leader obtains every shred exactly once, through exactly
   one relay broadcast; for every validator count, relay and leader *)
Theorem C16_rotor_exactly_one_relay_broadcast : forall n leader relay,
  relay < n -> leader < n ->
  exists deliveries, rotor_run n leader relay = Some deliveries /\
    (forall v, v < n -> v <> leader -> count_occ_N deliveries v = 1) /\
    count_occ_N deliveries leader = (if leader =? relay then 1 else 0) /\
    (forall v, n <= v -> count_occ_N deliveries v = 0) /\
    (forall own, own <> relay -> rotor_forward n own relay leader = []).
Proof. exact rotor_exactly_one_relay_broadcast. Qed.

(* ... in particular for the relay the model computes for any (slot, slice, shred) from ANY random stream and
   the leader of that slot *)
Theorem C16_rotor_model_exactly_once : forall (rng : list N -> stream) fa1 stakes sm slot slice shred relay,
  rotor_ctor fa1 stakes = COk sm -> lenN stakes < W64 ->
  rotor_relay rng sm slot slice shred = RRelay relay ->
  let n := lenN stakes in
  let leader := leader_of n slot in
  exists deliveries, rotor_run n leader relay = Some deliveries /\
    (forall v, v < n -> v <> leader -> count_occ_N deliveries v = 1) /\
    count_occ_N deliveries leader <= 1 /\
    (forall v, n <= v -> count_occ_N deliveries v = 0) /\
    (forall own, own <> relay -> rotor_forward n own relay leader = []).
Proof. exact rotor_model_exactly_once. Qed.

(* Turbine, loss-free: for every order of the validators and every fanout >= 1 the forwarding relation
   reaches every validator exactly once (breadth-first: in the order itself) *)
Theorem C16_turbine_exactly_once : forall order fanout,
  NoDup order -> 1 <= fanout -> lenN order * fanout + 1 < W64 ->
  exists deliveries, turbine_run order fanout = Some deliveries /\
    (forall v, In v order -> count_occ_N deliveries v = 1) /\
    (forall v, ~ In v order -> count_occ_N deliveries v = 0).
Proof. exact turbine_exactly_once. Qed.

(* the weighted shuffle of the model returns every validator index exactly once, for every stake vector
   (zero stakes included) and every random stream ... *)
Theorem C16_weighted_shuffle_is_a_permutation : forall stakes s order r,
  lenN stakes < W64 ->
  weighted_shuffle stakes s = Ok order r ->
  NoDup order /\ (forall v, In v order <-> v < lenN stakes).
Proof. exact weighted_shuffle_is_a_permutation. Qed.

(* ... hence the tree built for any (slot, shred) from ANY random stream delivers the shred to every
   validator of the epoch exactly once, for every validator count, stake distribution and fanout >= 1 *)
Theorem C16_turbine_model_exactly_once : forall (rng : list N -> stream) stakes slot shred fanout order r,
  turbine_order rng stakes slot shred = Ok order r ->
  1 <= fanout -> lenN stakes * fanout + 1 < W64 ->
  exists deliveries, turbine_run order fanout = Some deliveries /\
    forall v, count_occ_N deliveries v = if v <? lenN stakes then 1 else 0.
Proof. exact turbine_model_exactly_once. Qed.

(* every position > 0 has exactly one parent, and is a child of that parent *)
Theorem C16_turbine_child_of_its_parent : forall order fanout q,
  NoDup order -> 1 <= fanout -> lenN order * fanout + 1 < W64 ->
  (0 < q)%nat -> (q < length order)%nat ->
  let parent := nth (Nat.div (Nat.sub q 1) (N.to_nat fanout)) order 0 in
  (exists t, tree_of_order order fanout (nth q order 0) = Some t /\ t_parent t = Some parent) /\
  In (nth q order 0) (turbine_children order fanout parent).
Proof. exact turbine_child_of_its_parent. Qed.

(* trivial disseminator: one send_to_many, everybody exactly once *)
Theorem C16_trivial_run : forall n, trivial_run n = Some (seqN 0 (N.to_nat n)).
Proof. exact trivial_run_deliveries. Qed.

Example C16_nonvacuous :
  (match rotor_new [3; 1; 4; 1; 5; 9; 2] with
   | COk sm => match rotor_relay (stdrng 16) sm 11 2 5 with
               | RRelay r => rotor_run 7 (leader_of 7 11) r
               | _ => None
               end
   | _ => None
   end,
   match turbine_order (stdrng 16) [3; 1; 4; 1; 5; 9; 2] 11 (index_in_slot 2 5) with
   | Ok order _ => turbine_run order 2
   | _ => None
   end) = (Some [5; 0; 1; 3; 4; 6], Some [4; 2; 1; 6; 5; 0; 3]).
Proof. exact routing_nonvacuous. Qed.

Print Assumptions C16_rotor_seed_injective.
Print Assumptions C16_turbine_seed_injective.
Print Assumptions C16_cache_is_memo.
Print Assumptions C16_rotor_relay_is_a_function_of_the_triple.
Print Assumptions C16_rotor_fa1_instances_disagree_pinned_refuted.
Print Assumptions C16_rotor_relay_defined_for_every_shred.
Print Assumptions C16_rotor_relay_in_range.
Print Assumptions C16_rotor_exactly_one_relay_broadcast.
Print Assumptions C16_rotor_model_exactly_once.
Print Assumptions C16_turbine_exactly_once.
Print Assumptions C16_weighted_shuffle_is_a_permutation.
Print Assumptions C16_turbine_model_exactly_once.
Print Assumptions C16_turbine_child_of_its_parent.
Print Assumptions C16_trivial_run.
Print Assumptions C16_nonvacuous.
