(* C14 - Repair: responses are checked against the block hash, bad peers are harmless.
   Proved for the requester model (Model/Repair.v, any sequence of repair_block / responses / time-outs,
   any content, any responses): a response the checks reject - unsolicited, of the wrong variant, with a
   failing Merkle proof, wrong header indices, a slice root other than the proven one, a bad
   signature - leaves the requester's whole state unchanged (request still outstanding, nothing
   stored, nothing sent); a NACK re-sends the request and leaves the set of outstanding requests unchanged;
   a shred is only ever requested after its slice root was proven (so the unreachable!() cannot fire and the
   requester panics only if the blockstore does); whatever is stored as a repaired block under a
   requested identifier hashes to that identifier, and only such a block is handed to the pool.
   The pinned tree removed a request on ANY response (refuted below), accepted a shred whose last-slice
   flag contradicted the proven slice count (one shred of a slice a Byzantine leader signed twice then
   poisoned the repaired data for good - refuted below) and kept a repaired block whose hash differed
   (assert_eq! panic) - all repaired by "fix:" commits in /repo.
   PARTIAL: that a proof verifies only for the committed root/position is C15 (the check results enter
   the model as booleans computed with the real DoubleMerkleTree); the responder's answers
   (positive answers verify against the block hash, anything unknown / out of range is NACKed, no
   panic) are decided by the oracle on the real RepairRequestHandler's outputs and by the model /
   implementation correspondence; sockets, peers' identity, timers are not modelled. *)
From Coq Require Import List NArith Bool.
From AG Require Import Gen.Params Model.Pool Model.Blockstore Model.Repair Proofs.RepairProofs.
Import ListNotations.
Open Scope N_scope.

Theorem C14_rejected_response_is_harmless : forall ct slot expected rp p,
  rp_panicked rp = false -> rejected rp p = true ->
  handle_response true ct slot expected rp p = (rp, []).
Proof. exact rejected_response_is_harmless. Qed.

Theorem C14_nack_keeps_request : forall ct slot expected rp r,
  rp_panicked rp = false -> has_req rp r = true ->
  exists rp', handle_response true ct slot expected rp (PNack r) = (rp', [OSend r]) /\
              (forall x, has_req rp' x = has_req rp x) /\ rp_roots rp' = rp_roots rp /\ rp_store rp' = rp_store rp.
Proof. exact nack_keeps_request. Qed.

Theorem C14_shreds_requested_only_under_proven_root : forall keep ct slot expected ops b s i,
  has_req (repair_run keep ct slot expected ops) (RShred b s i) = true ->
  root_lookup (b, s) (rp_roots (repair_run keep ct slot expected ops)) <> None.
Proof. intros keep ct slot expected ops. exact (roots_known_reachable keep ct slot expected ops). Qed.

Theorem C14_requester_panics_only_with_blockstore : forall ct slot expected rp p,
  roots_known rp -> rp_panicked rp = false ->
  rp_panicked (fst (handle_response true ct slot expected rp p)) = true ->
  exists b sl ix slot_ok s sig_ok sd evs,
    p = PShred (RShred b sl ix) slot_ok s sig_ok /\ bs_step true ct slot (rp_store rp) (BRepair b (expected b) s) = (sd, BRPanic, evs).
Proof. exact unreachable_is_unreachable. Qed.

Theorem C14_stored_only_if_hash_matches : forall keep ct slot expected ops key d h p,
  alookup key (sd_repaired (rp_store (repair_run keep ct slot expected ops))) = Some d ->
  bd_completed d = Some (h, p) -> h = expected key.
Proof. exact stored_only_if_hash_matches. Qed.

Theorem C14_only_matching_blocks_reach_the_pool : forall keep ct slot expected rp o,
  store_ok expected (rp_store rp) ->
  store_ok expected (rp_store (fst (repair_step keep ct slot expected rp o))) /\
  (forall key h par, In (OBlockToPool key h par) (snd (repair_step keep ct slot expected rp o)) -> h = expected key).
Proof. exact store_ok_step. Qed.

Theorem C14_pinned_bad_response_cancels_request_refuted :
  exists rp p, rp_panicked rp = false /\ rejected rp p = true /\
    has_req rp (resp_req p) = true /\
    has_req (fst (handle_response false [] 5 (fun _ => []) rp p)) (resp_req p) = false.
Proof. exact pinned_bad_response_cancels_request. Qed.

Theorem C14_resigned_slice_derails_unchecked_repair_refuted :
  let bad := repair_run_gen true false derail_ct 5 (fun _ => [7; 8]) derail_ops in
  let good := repair_run_gen true true derail_ct 5 (fun _ => [7; 8]) derail_ops in
  have_block (rp_store bad) 1 = false /\ rp_outstanding bad = [] /\
  have_block (rp_store good) 1 = true /\ rp_panicked good = false.
Proof. exact resigned_slice_derails_unchecked_repair. Qed.

(* non-vacuity: a one-slice block is fetched through hostile noise and stored *)
Example C14_nonvacuous :
  let ct := [(7, DecOk (Some (4, 3)) true)] in
  let sh i := mkBS 0 true 7 i (i <? DATA_SHREDS) 100 in
  let ops := [OStart 1; OResp (PLast (RLast 1) 0 9 false); OResp (PLast (RLast 1) 0 7 true);
              OResp (PRoot (RRoot 1 0) 9 false); OResp (PNack (RRoot 1 0)); OResp (PRoot (RRoot 1 0) 7 true);
              OResp (PShred (RShred 1 0 0) true (sh 1) true); OResp (PShred (RShred 1 0 0) true (mkBS 0 true 9 0 true 100) true)]
             ++ map (fun i => OResp (PShred (RShred 1 0 i) true (sh i) true)) (seqN 0 32) in
  let rp := repair_run true ct 5 (fun _ => [7]) ops in
  have_block (rp_store rp) 1 = true /\ rp_panicked rp = false /\ has_req rp (RShred 1 0 40) = true.
Proof. vm_compute. repeat split; reflexivity. Qed.

Print Assumptions C14_rejected_response_is_harmless.
Print Assumptions C14_nack_keeps_request.
Print Assumptions C14_shreds_requested_only_under_proven_root.
Print Assumptions C14_requester_panics_only_with_blockstore.
Print Assumptions C14_stored_only_if_hash_matches.
Print Assumptions C14_only_matching_blocks_reach_the_pool.
Print Assumptions C14_pinned_bad_response_cancels_request_refuted.
Print Assumptions C14_resigned_slice_derails_unchecked_repair_refuted.
Print Assumptions C14_nonvacuous.
