(* C14 - Repair: responses are checked against the block hash, bad peers are harmless, the responder's
   answers are consistent with what it holds, and a repair completes as long as some peer answers correctly.

   PROVED, requester safety (Model/Repair.v, any sequence of repair_block / responses / time-outs, any
   content, any responses): a response the checks reject - unsolicited, of the wrong variant, with a
   failing Merkle proof, wrong header indices, a data / coding type contradicting the shred index, a slice
   root other than the proven one, a bad signature - leaves the requester's whole state unchanged (request still outstanding, nothing
   stored, nothing sent); a NACK re-sends the request and leaves the set of outstanding requests unchanged;
   a shred is only ever requested after its slice root was proven (so the unreachable!() cannot fire and the
   requester panics only if the blockstore does); whatever is stored as a repaired block under a
   requested identifier hashes to that identifier, and only such a block is handed to the pool; a block
   that becomes stored is announced to the pool in that very step (C14_stored_block_is_announced).
   The shred type is covered by neither the leader's signature nor the Merkle path: a validly signed shred
   of the leader with the type flipped in transit is such a rejected response whatever else is right about it
   (C14_tag_flipped_response_is_ignored; current tree, "fix: do not blame the leader for a shred whose type
   contradicts its index": the blockstore would refuse it - C12_tag_flip_is_harmless - so the requester keeps
   the request instead of spending it).
   The pinned tree removed a request on ANY response (refuted below), accepted a shred whose last-slice
   flag contradicted the proven slice count (one shred of a slice a Byzantine leader signed twice then
   poisoned the repaired data for good - refuted below) and kept a repaired block whose hash differed
   (assert_eq! panic) - all repaired by "fix:" commits in /repo.

   PROVED, responder half (R1, soundness): for EVERY slot state reachable by ANY sequence of blockstore
   operations (dissemination, repair, own slices; any shreds, any content table), every positive answer of
   the responder model [answer] is consistent with the block data it holds for the key
   (C14_responder_sound, predicate [answer_ok] of Model/RepairSpec.v): a last-slice answer only for a
   completed block data whose last slice is the one named, with the root the completed hash has at that
   position; a slice-root answer only for a slice <= last with the hash's root at that position; a shred
   answer only for a shred stored at exactly the requested (slice, index) that carries the slice's
   committed (last flag, root) - and, whenever the data is complete, the root the hash commits to.
   The invariant behind it (Proofs/RepairResponderProofs.v, [RI]): no shreds beyond a marked last slice,
   every stored shred of slice i carries the slice's cached commitment, every reconstructed slice has the
   cached root, a completed hash lists the cached roots of slices 0..last - preserved by BlockData::add_shred
   for arbitrary shreds and by add_own_slice.  If every repair operation files its shred under the hash its
   key stands for, the block held for a key hashes to the key (C14_responder_hash_is_key), so the answers
   verify against the requested hash (C14_responder_answers_verify).  Everything else is answered NACK,
   the answer function is total - unknown block, block data not complete, slice beyond the last, shred
   not held (C14_responder_nacks).
   (R2, completeness): a responder that completed an honest block from dissemination (any order, duplicates,
   any subset making every slice ready) answers LastSliceRoot with (k-1, r_{k-1}), SliceRoot s < k with r_s,
   Shred (s < k, i < TOTAL_SHREDS) with the leader's shred (C14_responder_complete); on the wire these are
   the correct responses (C14_responder_answers_correctly).

   PROVED, progress (R3, 'cannot be derailed ... as long as some peer keeps answering correctly'):
   for an honest block [hb] requested under its own hash, and ANY stream of operations after repair_block,
   split into >= 3 rounds, such that
     - SOUND (decidable [sound_op]): a last-slice / slice-root proof boolean is true only for the true last
       index / the true root at that position (C15's theorem for the real tree), and a validly signed shred with
       the requested indices, the slice's root, the slice's last flag and a type consistent with its index is
       the leader's shred (one slice content per signed root - Merkle binding); everything else - NACKs, failing
       proofs, wrong variants, unsolicited or replayed responses, shreds of other validly signed slices of a
       Byzantine leader (other root or other last flag), validly signed shreds with a flipped (unsigned) type,
       time-outs, repeated repair_block - is unconstrained;
     - FAIR (decidable [fair_rounds]): every round contains, anywhere and interleaved with anything, the correct
       response to each request outstanding at its start (the three protocol phases: last-slice root, slice
       roots, shreds);
   the run ends without a panic, with [have_block] for the key, the stored hash being the requested one, and
   an OBlockToPool output for the key under that hash (C14_repair_completes).  The same when the responses
   are literally what a peer holding the block answers with the responder model
   (C14_repair_completes_with_honest_peer, joining R2 and R3).  Phase lemmas for every state a sound stream
   reaches: no panic and every outstanding request is for the block, in range, shreds only under the true
   root (C14_sound_stream_safe); the correct response to an outstanding request is accepted, removes exactly
   that request, records what it proves and issues exactly the next phase's requests
   (C14_correct_last_accepted / _root_ / _shred_; stored shreds only grow).

   REMAINS ORACLE-ONLY / PREMISES: that a proof boolean is sound and that a signed root binds the slice
   content are premises here (C15 / C12 prove them for the real tree and shred validation; the booleans enter
   the model computed with the real code); the Merkle proof OBJECTS of the responder (a created proof verifies:
   C15 proof_complete) and the model / implementation correspondence of [answer] and [handle_response] are
   decided by the oracle on the real RepairRequestHandler / Repair; fairness is the finite round form above
   (timers, peer choice, sockets are not modelled: a re-request after a time-out is the request staying
   outstanding). *)
From Coq Require Import List NArith Bool.
From AG Require Import Gen.Params Model.Pool Model.Blockstore Model.BlockstoreSpec Model.Repair Model.RepairSpec
  Proofs.RepairProofs Proofs.RepairResponderProofs Proofs.RepairProgressProofs.
Import ListNotations.
Open Scope N_scope.

Theorem C14_rejected_response_is_harmless : forall ct slot expected rp p,
  rp_panicked rp = false -> rejected rp p = true ->
  handle_response true ct slot expected rp p = (rp, []).
Proof. exact rejected_response_is_harmless. Qed.

Theorem C14_nack_keeps_request : forall ct slot expected rp r,
  rp_panicked rp = false -> has_req rp r = true ->
  exists rp', handle_response true ct slot expected rp (PNack r) = (rp', [OSend r]) /\
              (forall x, has_req rp' x = has_req rp x) /\ rp_roots rp' = rp_roots rp /\ rp_store rp' = rp_store rp.
Proof. exact nack_keeps_request. Qed.

Theorem C14_shreds_requested_only_under_proven_root : forall keep ct slot expected ops b s i,
  has_req (repair_run keep ct slot expected ops) (RShred b s i) = true ->
  root_lookup (b, s) (rp_roots (repair_run keep ct slot expected ops)) <> None.
Proof. intros keep ct slot expected ops. exact (roots_known_reachable keep ct slot expected ops). Qed.

Theorem C14_requester_panics_only_with_blockstore : forall ct slot expected rp p,
  roots_known rp -> rp_panicked rp = false ->
  rp_panicked (fst (handle_response true ct slot expected rp p)) = true ->
  exists b sl ix slot_ok s sig_ok sd evs,
    p = PShred (RShred b sl ix) slot_ok s sig_ok /\ bs_step true ct slot (rp_store rp) (BRepair b (expected b) s) = (sd, BRPanic, evs).
Proof. exact unreachable_is_unreachable. Qed.

Theorem C14_stored_only_if_hash_matches : forall keep ct slot expected ops key d h p,
  alookup key (sd_repaired (rp_store (repair_run keep ct slot expected ops))) = Some d ->
  bd_completed d = Some (h, p) -> h = expected key.
Proof. exact stored_only_if_hash_matches. Qed.

Theorem C14_only_matching_blocks_reach_the_pool : forall keep ct slot expected rp o,
  store_ok expected (rp_store rp) ->
  store_ok expected (rp_store (fst (repair_step keep ct slot expected rp o))) /\
  (forall key h par, In (OBlockToPool key h par) (snd (repair_step keep ct slot expected rp o)) -> h = expected key).
Proof. exact store_ok_step. Qed.

Theorem C14_pinned_bad_response_cancels_request_refuted :
  exists rp p, rp_panicked rp = false /\ rejected rp p = true /\
    has_req rp (resp_req p) = true /\
    has_req (fst (handle_response false [] 5 (fun _ => []) rp p)) (resp_req p) = false.
Proof. exact pinned_bad_response_cancels_request. Qed.

Theorem C14_resigned_slice_derails_unchecked_repair_refuted :
  let bad := repair_run_gen true false derail_ct 5 (fun _ => [7; 8]) derail_ops in
  let good := repair_run_gen true true derail_ct 5 (fun _ => [7; 8]) derail_ops in
  have_block (rp_store bad) 1 = false /\ rp_outstanding bad = [] /\
  have_block (rp_store good) 1 = true /\ rp_panicked good = false.
Proof. exact resigned_slice_derails_unchecked_repair. Qed.

Theorem C14_tag_flipped_response_is_ignored : forall ct slot expected rp r slot_ok s sig_ok,
  rp_panicked rp = false -> shred_tag_ok s = false ->
  rejected rp (PShred r slot_ok s sig_ok) = true /\
  handle_response true ct slot expected rp (PShred r slot_ok s sig_ok) = (rp, []).
Proof.
  intros ct slot expected rp r slot_ok s sig_ok Hp Ht.
  exact (conj (tag_flipped_response_is_rejected rp r slot_ok s sig_ok Ht)
              (tag_flipped_response_is_ignored ct slot expected rp r slot_ok s sig_ok Hp Ht)).
Qed.

(* ---------- a block that becomes stored is announced (any stream) ---------- *)
Theorem C14_stored_block_is_announced : forall keep ct slot expected rp o key,
  have_block (rp_store rp) key = false ->
  have_block (rp_store (fst (repair_step keep ct slot expected rp o))) key = true ->
  exists h p, In (OBlockToPool key h p) (snd (repair_step keep ct slot expected rp o)).
Proof. exact stored_block_is_announced. Qed.

(* ---------- R1: responder soundness, every reachable slot state ---------- *)
Theorem C14_responder_sound : forall chk ct slot ops key_hash r,
  answer_ok (bs_run_ops chk ct slot ops) key_hash r (answer (bs_run_ops chk ct slot ops) key_hash r).
Proof. exact responder_sound. Qed.

Theorem C14_responder_hash_is_key : forall chk ct slot ops key_hash b d h p,
  ops_keyed key_hash ops = true ->
  responder_data (bs_run_ops chk ct slot ops) b (key_hash b) = Some d -> bd_completed d = Some (h, p) -> h = key_hash b.
Proof. exact responder_hash_is_key. Qed.

Theorem C14_responder_answers_verify : forall chk ct slot ops key_hash r,
  ops_keyed key_hash ops = true ->
  answer_verifies (bs_run_ops chk ct slot ops) key_hash r (answer (bs_run_ops chk ct slot ops) key_hash r).
Proof. exact responder_answers_verify. Qed.

Theorem C14_responder_nacks : forall chk ct slot ops key_hash b,
  let sd := bs_run_ops chk ct slot ops in
  (responder_data sd b (key_hash b) = None ->
     answer sd key_hash (RLast b) = ANack /\ (forall s, answer sd key_hash (RRoot b s) = ANack) /\
     (forall s i, answer sd key_hash (RShred b s i) = ANack)) /\
  (forall d h l, responder_data sd b (key_hash b) = Some d -> held_block d h l ->
     forall s, l < s -> answer sd key_hash (RRoot b s) = ANack /\ forall i, answer sd key_hash (RShred b s i) = ANack) /\
  (forall d, responder_data sd b (key_hash b) = Some d -> bd_completed d = None ->
     answer sd key_hash (RLast b) = ANack /\ forall s, answer sd key_hash (RRoot b s) = ANack) /\
  (forall d s i, responder_data sd b (key_hash b) = Some d ->
     (forall shs, alookup s (bd_shreds d) = Some shs -> alookup i shs = None) -> answer sd key_hash (RShred b s i) = ANack).
Proof. exact responder_nacks. Qed.

(* ---------- R2: responder completeness for a block completed from dissemination ---------- *)
Theorem C14_responder_complete : forall slot ct hb l key_hash b,
  hb_ok slot ct hb = true -> forallb (honest_shred hb) l = true -> block_ready hb l = true ->
  key_hash b = hb_hash hb ->
  let sd := fst (bs_dissem_run ct slot l) in
  answer sd key_hash (RLast b) = ALast (hb_len hb - 1) (hb_root hb (hb_len hb - 1)) /\
  (forall s, s < hb_len hb -> answer sd key_hash (RRoot b s) = ARoot (hb_root hb s)) /\
  (forall s i, s < hb_len hb -> i < TOTAL_SHREDS -> answer sd key_hash (RShred b s i) = AShred (hshred hb s i)).
Proof. exact responder_complete. Qed.

Theorem C14_responder_answers_correctly : forall slot ct hb l key_hash r,
  hb_ok slot ct hb = true -> forallb (honest_shred hb) l = true -> block_ready hb l = true ->
  key_hash (req_key r) = hb_hash hb ->
  (match r with RLast _ => True | RRoot _ s => s < hb_len hb | RShred _ s i => s < hb_len hb /\ i < TOTAL_SHREDS end) ->
  resp_of_answer r (answer (fst (bs_dissem_run ct slot l)) key_hash r) = correct_resp hb r.
Proof. exact responder_answers_correctly. Qed.

(* ---------- R3: progress ---------- *)
Theorem C14_sound_stream_safe : forall slot ct hb k expected ops,
  hb_ok slot ct hb = true -> expected k = hb_hash hb -> forallb (sound_op hb k) ops = true ->
  let rp := repair_run true ct slot expected (OStart k :: ops) in
  rp_panicked rp = false /\ sd_panicked (rp_store rp) = false /\
  (forall r, has_req rp r = true ->
     match r with
     | RLast b => b = k
     | RRoot b s => b = k /\ s < hb_len hb
     | RShred b s i => b = k /\ s < hb_len hb /\ i < TOTAL_SHREDS /\ root_lookup (k, s) (rp_roots rp) = Some (hb_root hb s)
     end).
Proof. exact reach_sound_stream_safe. Qed.

Theorem C14_correct_last_accepted : forall slot ct hb k expected ops,
  hb_ok slot ct hb = true -> expected k = hb_hash hb -> forallb (sound_op hb k) ops = true ->
  let rp := repair_run true ct slot expected (OStart k :: ops) in
  has_req rp (RLast k) = true ->
  let rp' := fst (handle_response true ct slot expected rp (correct_resp hb (RLast k))) in
  rp_panicked rp' = false /\ alookup k (rp_lasts rp') = Some (hb_len hb - 1) /\
  (forall x, has_req rp' x = has_req rp x && negb (rreq_eqb (RLast k) x)
                             || existsb (rreq_eqb x) (map (fun s => RRoot k s) (seqN 0 (N.to_nat (hb_len hb))))) /\
  rp_store rp' = rp_store rp.
Proof. exact reach_last_accepted. Qed.

Theorem C14_correct_root_accepted : forall slot ct hb k expected ops s,
  hb_ok slot ct hb = true -> expected k = hb_hash hb -> forallb (sound_op hb k) ops = true ->
  let rp := repair_run true ct slot expected (OStart k :: ops) in
  has_req rp (RRoot k s) = true ->
  let rp' := fst (handle_response true ct slot expected rp (correct_resp hb (RRoot k s))) in
  rp_panicked rp' = false /\ root_lookup (k, s) (rp_roots rp') = Some (hb_root hb s) /\
  (forall x, has_req rp' x = has_req rp x && negb (rreq_eqb (RRoot k s) x)
                             || existsb (rreq_eqb x) (map (fun i => RShred k s i) (seqN 0 (N.to_nat TOTAL_SHREDS)))) /\
  rp_store rp' = rp_store rp /\ rp_lasts rp' = rp_lasts rp.
Proof. exact reach_root_accepted. Qed.

Theorem C14_correct_shred_accepted : forall slot ct hb k expected ops s i,
  hb_ok slot ct hb = true -> expected k = hb_hash hb -> forallb (sound_op hb k) ops = true ->
  let rp := repair_run true ct slot expected (OStart k :: ops) in
  has_req rp (RShred k s i) = true ->
  let rp' := fst (handle_response true ct slot expected rp (correct_resp hb (RShred k s i))) in
  let shreds_of x := bd_shreds (aget bd_empty k (sd_repaired (rp_store x))) in
  rp_panicked rp' = false /\
  alookup i (aget [] s (shreds_of rp')) = Some (hshred hb s i) /\
  (forall x, has_req rp' x = has_req rp x && negb (rreq_eqb (RShred k s i) x)) /\
  (forall s' i', s' < hb_len hb -> i' < TOTAL_SHREDS ->
     alookup i' (aget [] s' (shreds_of rp)) = Some (hshred hb s' i') ->
     alookup i' (aget [] s' (shreds_of rp')) = Some (hshred hb s' i')) /\
  rp_roots rp' = rp_roots rp /\ rp_lasts rp' = rp_lasts rp.
Proof. exact reach_shred_accepted. Qed.

Theorem C14_repair_completes : forall slot ct hb k expected rounds,
  hb_ok slot ct hb = true -> expected k = hb_hash hb ->
  forallb (forallb (sound_op hb k)) rounds = true ->
  fair_rounds hb ct slot expected (repair_run true ct slot expected [OStart k]) rounds = true ->
  (3 <= length rounds)%nat ->
  let rp := repair_run true ct slot expected (OStart k :: concat rounds) in
  rp_panicked rp = false /\ have_block (rp_store rp) k = true /\
  (exists d p, alookup k (sd_repaired (rp_store rp)) = Some d /\ bd_completed d = Some (hb_hash hb, p) /\ fst p < slot) /\
  (exists p, In (OBlockToPool k (hb_hash hb) p) (run_outs true ct slot expected repair_init (OStart k :: concat rounds))).
Proof. exact repair_completes. Qed.

Theorem C14_repair_completes_with_honest_peer : forall slot ct hb k expected lp rounds,
  hb_ok slot ct hb = true -> expected k = hb_hash hb ->
  forallb (honest_shred hb) lp = true -> block_ready hb lp = true ->
  forallb (forallb (sound_op hb k)) rounds = true ->
  peer_rounds (fst (bs_dissem_run ct slot lp)) ct slot expected (repair_run true ct slot expected [OStart k]) rounds = true ->
  (3 <= length rounds)%nat ->
  let rp := repair_run true ct slot expected (OStart k :: concat rounds) in
  rp_panicked rp = false /\ have_block (rp_store rp) k = true /\
  (exists d p, alookup k (sd_repaired (rp_store rp)) = Some d /\ bd_completed d = Some (hb_hash hb, p) /\ fst p < slot) /\
  (exists p, In (OBlockToPool k (hb_hash hb) p) (run_outs true ct slot expected repair_init (OStart k :: concat rounds))).
Proof. exact repair_completes_with_honest_peer. Qed.

(* ---------- non-vacuity of the new hypotheses ---------- *)
Definition ex_ct : content := [(7, DecOk (Some (4, 3)) true); (8, DecOk None true)].
Definition ex_hb : hblock := [(7, 100); (8, 100)].
Definition ex_expected : N -> blockhash := fun _ => [7; 8].
(* what the responder received: 40 shreds of slice 1, then 40 of slice 0, then duplicates *)
Definition ex_held : list bshred :=
  map (hshred ex_hb 1) (seqN 0 40) ++ map (hshred ex_hb 0) (seqN 10 40) ++ map (hshred ex_hb 0) (seqN 12 3).
(* hostile noise: failing proofs, NACKs, an unsolicited response, wrong variants, a shred of a re-signed slice
   (same root, other last flag, valid signature), a shred under another validly signed root, a shred with the
   wrong index, the leader's validly signed shred with its (unsigned) type flipped, a time-out, a repeated
   repair_block *)
Definition ex_noise : list rop :=
  [OResp (PLast (RLast 1) 0 7 false); OResp (PLast (RLast 1) 5 9 false); OResp (PNack (RLast 1)); OResp (PNack (RRoot 1 0));
   OResp (PRoot (RRoot 1 0) 9 false); OResp (PRoot (RLast 1) 7 true); OResp (PLast (RLast 2) 0 7 true);
   OResp (PShred (RShred 1 0 0) true (mkBS 0 true 7 0 true 100) true);
   OResp (PShred (RShred 1 0 1) true (mkBS 0 false 9 1 true 100) true);
   OResp (PShred (RShred 1 1 2) true (hshred ex_hb 1 3) true);
   OResp (PShred (RShred 1 0 5) true (flip_tag (hshred ex_hb 0 5)) true);
   OResp (PShred (RShred 1 1 40) true (flip_tag (hshred ex_hb 1 40)) true);
   OTimeout (RLast 1); OStart 1].
Definition ex_rp0 := repair_run true ex_ct 5 ex_expected [OStart 1].
Definition ex_round (rp : repair) : list rop :=
  ex_noise ++ rev (map (fun r => OResp (correct_resp ex_hb r)) (rp_outstanding rp)) ++ ex_noise.
Definition ex_rounds : list (list rop) :=
  let l1 := ex_round ex_rp0 in
  let rp1 := run_ops true ex_ct 5 ex_expected ex_rp0 l1 in
  let l2 := ex_round rp1 in
  let rp2 := run_ops true ex_ct 5 ex_expected rp1 l2 in
  let l3 := ex_round rp2 in
  let rp3 := run_ops true ex_ct 5 ex_expected rp2 l3 in
  [l1; l2; l3; ex_round rp3].
Definition ex_peer : slotdata := fst (bs_dissem_run ex_ct 5 ex_held).
Definition ex_pround (rp : repair) : list rop :=
  ex_noise ++ map (fun r => OResp (resp_of_answer r (answer ex_peer ex_expected r))) (rp_outstanding rp).
Definition ex_prounds : list (list rop) :=
  let l1 := ex_pround ex_rp0 in
  let rp1 := run_ops true ex_ct 5 ex_expected ex_rp0 l1 in
  let l2 := ex_pround rp1 in
  let rp2 := run_ops true ex_ct 5 ex_expected rp1 l2 in
  [l1; l2; ex_pround rp2].

(* the premises of C14_repair_completes hold for a two-slice block fetched through hostile noise *)
Example C14_progress_nonvacuous :
  hb_ok 5 ex_ct ex_hb = true /\ ex_expected 1 = hb_hash ex_hb /\
  forallb (forallb (sound_op ex_hb 1)) ex_rounds = true /\
  fair_rounds ex_hb ex_ct 5 ex_expected ex_rp0 ex_rounds = true /\ (3 <= length ex_rounds)%nat /\
  existsb (fun o => negb (sound_op ex_hb 1 o)) [OResp (PLast (RLast 1) 0 7 true); OResp (PShred (RShred 1 0 0) true (mkBS 0 false 7 0 true 50) true)] = true.
Proof. vm_compute. repeat split; try reflexivity; repeat constructor. Qed.

(* the premises of C14_repair_completes_with_honest_peer / C14_responder_complete hold *)
Example C14_peer_nonvacuous :
  forallb (honest_shred ex_hb) ex_held = true /\ block_ready ex_hb ex_held = true /\
  forallb (forallb (sound_op ex_hb 1)) ex_prounds = true /\
  peer_rounds ex_peer ex_ct 5 ex_expected ex_rp0 ex_prounds = true /\ (3 <= length ex_prounds)%nat.
Proof. vm_compute. repeat split; try reflexivity; repeat constructor. Qed.

(* the responder gives positive answers of every kind and NACKs in reachable states, also with repaired data
   filed under the key's hash *)
Example C14_responder_nonvacuous :
  let ops := map BDissem ex_held ++ map (fun i => BRepair 2 [7; 8] (hshred ex_hb 0 i)) (seqN 0 5) in
  let sd := bs_run_ops true ex_ct 5 ops in
  ops_keyed ex_expected ops = true /\
  answer sd ex_expected (RLast 1) = ALast 1 8 /\ answer sd ex_expected (RRoot 1 0) = ARoot 7 /\
  answer sd ex_expected (RShred 1 1 63) = AShred (hshred ex_hb 1 63) /\ answer sd ex_expected (RRoot 1 2) = ANack /\
  answer sd (fun k => if k =? 2 then [9] else [7; 8]) (RShred 2 0 3) = AShred (hshred ex_hb 0 3) /\
  answer sd (fun k => if k =? 2 then [9] else [7; 8]) (RLast 2) = ANack.
Proof. vm_compute. repeat split; reflexivity. Qed.

(* non-vacuity: a one-slice block is fetched through hostile noise and stored *)
Example C14_nonvacuous :
  let ct := [(7, DecOk (Some (4, 3)) true)] in
  let sh i := mkBS 0 true 7 i (i <? DATA_SHREDS) 100 in
  let ops := [OStart 1; OResp (PLast (RLast 1) 0 9 false); OResp (PLast (RLast 1) 0 7 true);
              OResp (PRoot (RRoot 1 0) 9 false); OResp (PNack (RRoot 1 0)); OResp (PRoot (RRoot 1 0) 7 true);
              OResp (PShred (RShred 1 0 0) true (sh 1) true); OResp (PShred (RShred 1 0 0) true (mkBS 0 true 9 0 true 100) true)]
             ++ map (fun i => OResp (PShred (RShred 1 0 i) true (sh i) true)) (seqN 0 32) in
  let rp := repair_run true ct 5 (fun _ => [7]) ops in
  have_block (rp_store rp) 1 = true /\ rp_panicked rp = false /\ has_req rp (RShred 1 0 40) = true.
Proof. vm_compute. repeat split; reflexivity. Qed.

Print Assumptions C14_rejected_response_is_harmless.
Print Assumptions C14_nack_keeps_request.
Print Assumptions C14_shreds_requested_only_under_proven_root.
Print Assumptions C14_requester_panics_only_with_blockstore.
Print Assumptions C14_stored_only_if_hash_matches.
Print Assumptions C14_only_matching_blocks_reach_the_pool.
Print Assumptions C14_pinned_bad_response_cancels_request_refuted.
Print Assumptions C14_resigned_slice_derails_unchecked_repair_refuted.
Print Assumptions C14_nonvacuous.
Print Assumptions C14_tag_flipped_response_is_ignored.
Print Assumptions C14_stored_block_is_announced.
Print Assumptions C14_responder_sound.
Print Assumptions C14_responder_hash_is_key.
Print Assumptions C14_responder_answers_verify.
Print Assumptions C14_responder_nacks.
Print Assumptions C14_responder_complete.
Print Assumptions C14_responder_answers_correctly.
Print Assumptions C14_sound_stream_safe.
Print Assumptions C14_correct_last_accepted.
Print Assumptions C14_correct_root_accepted.
Print Assumptions C14_correct_shred_accepted.
Print Assumptions C14_repair_completes.
Print Assumptions C14_repair_completes_with_honest_peer.
Print Assumptions C14_progress_nonvacuous.
Print Assumptions C14_peer_nonvacuous.
Print Assumptions C14_responder_nonvacuous.
