(* C20 - Execution state: persistent map semantics, fork isolation, content commitment.

   All statements are about the executable model Model/ExecState.v (bitmap trie with explicit Panic
   outcomes, LtHash lane arithmetic, DummyExecution), for ALL operation sequences (induction, no bounds).
   Keys are well formed (kwf: 32 bytes, each below 256) - the Rust type [u8; 32].

   Coverage of the property's clauses:
     map semantics (get / len / ordered iteration, never a panic)  C20_refines_map, C20_observations,
                                                                  C20_iteration_is_sorted, C20_reference_is_a_map
     fork isolation                                               C20_fork_isolated, C20_fork_is_copy
     equal contents => equal states, whatever the history         C20_canonical, C20_eq_is_content_equality
     incremental LtHash = recomputed from contents, any order     C20_lthash_is_sum (inside C20_refines_map's
                                                                  invariant), C20_lthash_order_independent
     engine: reported commitment = fold of the block's tx         C20_engine_reports_fold, C20_engine_slices,
       sequence from the seed; seed rules                          C20_engine_seed_*
     "unknown parents fall back to the parent block hash"         C20_engine_unknown_parent, C20_engine_ended_block_never_seed
                                                                  (current code, all histories); refuted for the pinned
                                                                  variant: C20_pinned_engine_unknown_parent_refuted
   Partial: Arc sharing is not modelled (persistent tree) - isolation of the implementation's copy-on-write is
   decided by the correspondence check; the LtHash theorems assume the entry hash yields 1024 lanes below
   2^16 (true of the SHA-256 counter-mode expansion, not proved about Lib/Sha256.v). *)
From Coq Require Import List NArith Bool Sorting.Sorted Sorting.Permutation.
From AG Require Import Model.ExecState Proofs.ExecKeyProofs Proofs.ExecStateProofs Proofs.ExecCommitProofs.
Import ListNotations.
Open Scope N_scope.

(* Every sequence of inserts / removes / forks over well-formed keys runs without a panic; afterwards every
   fork is well formed, its contents are those of the plain ordered map that received the same operations,
   and its LtHash is the commitment recomputed from its contents. *)
Theorem C20_refines_map : forall he, (forall k v, vok NUM_LANES (he k v)) ->
  forall ops, Forall op_ok ops ->
  exists w, world_run he [fork_new] ops = Ok w /\
            world_ok he w /\
            wcontents w = ref_run [[]] ops.
Proof. exact refines_map. Qed.

(* ... and every single operation returns what the ordered map returns (the previous value of the key) *)
Theorem C20_step_refines_map : forall he, (forall k v, vok NUM_LANES (he k v)) ->
  forall w o, world_ok he w -> op_ok o ->
  exists w', world_step he w o = Ok (w', ref_result (wcontents w) o) /\ world_ok he w' /\
             wcontents w' = ref_step (wcontents w) o.
Proof. exact world_step_spec. Qed.

(* What a well-formed fork answers: lookups, length, iteration (the implementation's stack machine),
   sortedness in lexicographic byte order, commitment. *)
Theorem C20_observations : forall he x, fork_ok he x ->
  (forall k, kwf k -> st_get (fk_state x) k = Ok (m_find k (fcontents x))) /\
  st_len (fk_state x) = N.of_nat (length (fcontents x)) /\
  st_iter (fk_state x) = Ok (fcontents x) /\
  sorted (fcontents x) /\
  fk_lt x = lt_of_contents he (fcontents x).
Proof. exact fork_observations. Qed.

Theorem C20_iteration_is_sorted : forall s, st_wf s ->
  StronglySorted (fun a b => bytes_ltb (fst a) (fst b) = true) (contents s).
Proof. exact st_sorted. Qed.

(* the reference really is an ordered map: lookup laws and sortedness are preserved *)
Theorem C20_reference_is_a_map :
  (forall (k k' : key) (v : value) l, m_find k' (m_ins k v l) = if bytes_eqb k k' then Some v else m_find k' l) /\
  (forall (k k' : key) l, sorted l -> m_find k' (m_del k l) = if bytes_eqb k k' then None else m_find k' l) /\
  (forall (k : key) (v : value) l, length k = KEY_LEN -> (forall x, In x l -> length (fst x) = KEY_LEN) ->
                                   sorted l -> sorted (m_ins k v l)) /\
  (forall (k : key) l, sorted l -> sorted (m_del k l)).
Proof. exact reference_is_a_map. Qed.

(* lexicographic byte order is decided by the first differing 5-bit chunk, and the 52 chunks determine the key *)
Theorem C20_chunks_order : forall k1 k2 d, kwf k1 -> kwf k2 -> d < 52 ->
  (forall j, j < d -> chunk k1 j = chunk k2 j) -> chunk k1 d < chunk k2 d -> bytes_ltb k1 k2 = true.
Proof. exact chunks_lt. Qed.
Theorem C20_chunk_at_is_digit : forall k d, kwf k -> d < 52 -> chunk_at k d = Ok (chunk k d) /\ chunk k d < 32.
Proof. exact chunk_at_is_digit. Qed.

(* fork isolation: whatever is written elsewhere, a fork nobody writes to is exactly what it was *)
Theorem C20_fork_isolated : forall he ops w w' j, world_run he w ops = Ok w' ->
  (forall o, In o ops -> writes_to o <> Some j) -> (j < length w)%nat -> nth_error w' j = nth_error w j.
Proof. exact world_run_frame. Qed.
Theorem C20_fork_is_copy : forall he w f x, nth_error w f = Some x ->
  world_step he w (SFork f) = Ok (w ++ [x], None) /\ nth_error (w ++ [x]) (length w) = Some x.
Proof. exact world_fork_copy. Qed.

(* canonical form: two reachable states with equal contents are equal, whatever produced them *)
Theorem C20_canonical : forall s1 s2, st_wf s1 -> st_wf s2 -> contents s1 = contents s2 -> s1 = s2.
Proof. exact st_canonical. Qed.
Theorem C20_eq_is_content_equality : forall s1 s2, st_wf s1 -> st_wf s2 ->
  (state_eqb s1 s2 = true <-> contents s1 = contents s2).
Proof. exact eq_is_content_equality. Qed.
(* in particular across the forks of any reachable world *)
Theorem C20_canonical_in_worlds : forall he, (forall k v, vok NUM_LANES (he k v)) ->
  forall ops1 ops2 w1 w2 x1 x2, Forall op_ok ops1 -> Forall op_ok ops2 ->
  world_run he [fork_new] ops1 = Ok w1 -> world_run he [fork_new] ops2 = Ok w2 ->
  In x1 w1 -> In x2 w2 -> fcontents x1 = fcontents x2 -> x1 = x2.
Proof. exact canonical_in_worlds. Qed.

(* the commitment depends on the multiset of entries only *)
Theorem C20_lthash_order_independent : forall he, (forall k v, vok NUM_LANES (he k v)) ->
  forall c1 c2, Permutation c1 c2 -> lt_of_contents he c1 = lt_of_contents he c2.
Proof. exact lt_order_independent. Qed.
Theorem C20_lthash_is_sum : forall he, (forall k v, vok NUM_LANES (he k v)) ->
  forall c, lt_of_contents he c = sumh he c.
Proof. exact lt_of_contents_sum. Qed.

(* engine (rekey = true: the current code, end_block files an ended block under Known(block_id);
   rekey = false: the pinned tree).  Every BlockExecuted event reports the fold of exactly the block's
   transactions (all slices, in order) from the seed fixed at begin_block, and their number - both variants *)
Theorem C20_engine_reports_fold : forall H genesis rekey ops g,
  eng_run H genesis rekey (gerase H g) ops = map (g_eval H) (g_run H genesis rekey g ops).
Proof. exact engine_reports_fold. Qed.
Theorem C20_engine_slices : forall H genesis rekey e id a b,
  fst (eng_step H genesis rekey (fst (eng_step H genesis rekey e (EExec id a))) (EExec id b)) =
  fst (eng_step H genesis rekey e (EExec id (a ++ b))).
Proof. exact exec_slices. Qed.
Theorem C20_engine_seed_genesis : forall genesis e, eng_seed genesis e None = genesis.
Proof. exact seed_no_parent. Qed.
Theorem C20_engine_seed_known_parent : forall genesis e (p : block_id) x,
  eng_get e (Known (fst p) (snd p)) = Some x -> eng_seed genesis e (Some p) = be_hash x.
Proof. exact seed_known_parent. Qed.
Theorem C20_engine_seed_fallback : forall genesis e (p : block_id),
  eng_get e (Known (fst p) (snd p)) = None -> eng_get e (Pending (fst p)) = None ->
  eng_seed genesis e (Some p) = snd p.
Proof. exact seed_unknown_parent. Qed.
(* a block STILL pending in the parent's slot (hash not yet known) is taken for the parent *)
Theorem C20_engine_seed_pending_slot : forall genesis e (p : block_id) x,
  eng_get e (Known (fst p) (snd p)) = None -> eng_get e (Pending (fst p)) = Some x ->
  eng_seed genesis e (Some p) = be_hash x.
Proof. exact seed_pending_slot. Qed.

(* CURRENT code, all call histories: a block whose parent p was never begun as Known nor ended under that
   identifier, while no block is still pending in p's slot, reports the fold from the parent BLOCK hash *)
Theorem C20_engine_unknown_parent : forall (H : list N -> list N) (genesis : hash) (ops : list eop)
  (slot : N) (p : block_id) (txs : list (list N)) (b : block_id),
  fst b = slot -> existsb (mentions_block p) ops = false -> existsb (mentions_block b) ops = false ->
  eng_get (eng_state H genesis true [] ops) (Pending (fst p)) = None ->
  eng_run H genesis true [] (ops ++ [EBegin (Pending slot) (Some p); EExec (Pending slot) txs; EEnd b])
  = eng_run H genesis true [] ops ++ [(b, N.of_nat (length txs), fold_txs H (snd p) txs)].
Proof. exact current_unknown_parent_uses_block_hash. Qed.
(* ... and a block that ENDED as (s, A) is never the seed of a child of (s, B), B <> A *)
Theorem C20_engine_ended_block_never_seed : forall (H : list N -> list N) (genesis : hash) (ops : list eop)
  (s : N) (A B : hash) (slot : N) (txs : list (list N)) (c : block_id),
  bytes_eqb A B = false -> fst c = slot ->
  existsb (mentions_block (s, A)) ops = false -> existsb (mentions_block (s, B)) ops = false ->
  existsb (mentions_block c) (ops ++ [EEnd (s, A)]) = false ->
  eng_run H genesis true [] ((ops ++ [EEnd (s, A)]) ++ [EBegin (Pending slot) (Some (s, B)); EExec (Pending slot) txs; EEnd c])
  = eng_run H genesis true [] (ops ++ [EEnd (s, A)]) ++ [(c, N.of_nat (length txs), fold_txs H B txs)].
Proof. exact current_ended_block_never_seed. Qed.
Theorem C20_engine_end_clears_pending : forall H genesis e (b : block_id),
  eng_get e (Known (fst b) (snd b)) = None ->
  eng_get (fst (eng_step H genesis true e (EEnd b))) (Pending (fst b)) = None.
Proof. exact end_clears_pending. Qed.
(* a Known entry exists only for a block that was begun as Known or ended (both variants) *)
Theorem C20_engine_known_only_if_mentioned : forall H genesis rekey ops e (p : block_id),
  existsb (mentions_block p) ops = false -> eng_get e (Known (fst p) (snd p)) = None ->
  eng_get (eng_state H genesis rekey e ops) (Known (fst p) (snd p)) = None.
Proof. exact known_absent_unless_mentioned. Qed.
(* PINNED tree (before fix 2f23043): the naive statement is FALSE, a pending block that ended under another
   hash was taken for the parent; witness
   begin(Pending 1); execute [07]; end (1, A); begin(Pending 2, parent (1, B)); execute [09]; end (2, C) *)
Theorem C20_pinned_engine_unknown_parent_refuted : ~ unknown_parent_uses_block_hash false.
Proof. exact pinned_unknown_parent_uses_block_hash_refuted. Qed.
Theorem C20_engine_unknown_parent_residual : forall (H : list N -> list N) (genesis : hash) (rekey : bool) (e : engine)
  (slot : N) (p : block_id) (txs : list (list N)) (b : block_id),
  fst b = slot -> eng_get e (Known (fst p) (snd p)) = None -> eng_get e (Pending (fst p)) = None ->
  eng_get e (Known (fst b) (snd b)) = None ->
  eng_run H genesis rekey e [EBegin (Pending slot) (Some p); EExec (Pending slot) txs; EEnd b]
  = [(b, N.of_nat (length txs), fold_txs H (snd p) txs)].
Proof. exact unknown_parent_residual. Qed.
Example C20_current_engine_on_the_pinned_witness :
  eng_run (fun x => x) [0] true []
    ([EBegin (Pending 1) None; EExec (Pending 1) [[7]]; EEnd (1, [10])] ++
     [EBegin (Pending 2) (Some (1, [11])); EExec (Pending 2) [[9]]; EEnd (2, [12])])
  = [((1, [10]), 1, [0; 7]); ((2, [12]), 1, [11; 9])].
Proof. exact current_engine_on_the_pinned_witness. Qed.

(* non-vacuity: two keys that differ only in the very last bit (trie depth 51), a third in another cluster;
   fork, write to both sides, remove (collapsing the depth-51 chain): observations, isolation, canonical form *)
Example C20_nonvacuous :
  let ka := repeat 171 32 in
  let kb := repeat 171 31 ++ [170] in
  let kc := 5 :: repeat 0 31 in
  let he := fun (_ : key) (_ : value) => repeat 1 1024 in
  match world_run he [fork_new]
          [SInsert 0 ka [1]; SInsert 0 kb [2]; SFork 0; SInsert 1 kc [3]; SRemove 0 ka; SInsert 1 kb [9];
           SFork 0; SInsert 2 ka [1]; SRemove 2 ka] with
  | Ok [f0; f1; f2] =>
    (to_list (st_root (fk_state f0)), to_list (st_root (fk_state f1)),
     state_eqb (fk_state f0) (fk_state f2), state_eqb (fk_state f0) (fk_state f1),
     st_get (fk_state f1) ka, st_len (fk_state f1),
     st_root (fk_state f0))
    = ([(kb, [2])], [(kc, [3]); (kb, [9]); (ka, [1])], true, false, Ok (Some [1]), 3,
       Branch 2097152 [Leaf kb [2]])
  | _ => False
  end.
Proof. vm_compute. reflexivity. Qed.

Print Assumptions C20_refines_map.
Print Assumptions C20_step_refines_map.
Print Assumptions C20_observations.
Print Assumptions C20_iteration_is_sorted.
Print Assumptions C20_reference_is_a_map.
Print Assumptions C20_chunks_order.
Print Assumptions C20_chunk_at_is_digit.
Print Assumptions C20_fork_isolated.
Print Assumptions C20_fork_is_copy.
Print Assumptions C20_canonical.
Print Assumptions C20_eq_is_content_equality.
Print Assumptions C20_canonical_in_worlds.
Print Assumptions C20_lthash_order_independent.
Print Assumptions C20_lthash_is_sum.
Print Assumptions C20_engine_reports_fold.
Print Assumptions C20_engine_slices.
Print Assumptions C20_engine_seed_genesis.
Print Assumptions C20_engine_seed_known_parent.
Print Assumptions C20_engine_seed_fallback.
Print Assumptions C20_engine_seed_pending_slot.
Print Assumptions C20_engine_unknown_parent.
Print Assumptions C20_engine_ended_block_never_seed.
Print Assumptions C20_engine_end_clears_pending.
Print Assumptions C20_engine_known_only_if_mentioned.
Print Assumptions C20_pinned_engine_unknown_parent_refuted.
Print Assumptions C20_current_engine_on_the_pinned_witness.
Print Assumptions C20_engine_unknown_parent_residual.
Print Assumptions C20_nonvacuous.
