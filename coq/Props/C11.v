(* C11 - Erasure coding: any 32 of a slice's 64 shreds restore it bit-for-bit.

   Theorems about the executable model Model/Shredder.v (generic in the byte type; the facts
   assumed about bytes are discharged for the executable byte type in C11_executable_bytes).
   External libraries appear only as explicit premises of the theorems that need them:
     RS_len, MDS   reed-solomon-simd (encoder output shape; any DATA_SHREDS shards of a codeword
                   restore every missing original)
     ks_len, ks_invol   AES-128-CTR keystream application is length preserving and an involution
     hash_len      SHA-256 digests have 32 bytes (proved for the executable SHA-256: C11_executable_bytes)
   No premise: padding / sizing arithmetic for EVERY payload length (C11_pad_roundtrip,
   C11_rs_shred_never_panics), refusal above the limit, the count check, failures leave the array
   untouched.  The Ed25519 signature is an opaque value produced by [sign]; "valid under the same signed
   root" is stated as: same signature value, same header, same root, Merkle proof verifying (check = true).

   Covered only by the correspondence / oracle (bin/check C11), not by a theorem: that the Rust code
   agrees with this model (all four shredders, shard bytes, roots, proofs, reconstructed slice, mutated
   array, error kinds, documented panic), the wincode layout of the payload, the behaviour of the real
   codec on inconsistent shards (recorded, not modelled), ValidatedShred::try_new on regenerated shreds. *)
From Coq Require Import List NArith Bool Uint63.
From AG Require Import Gen.Params Lib.Sha256 Lib.Hex Model.Merkle Model.MerkleSha Model.Shredder Model.ShredderSha
     Proofs.MerkleProofs Proofs.ShredderProofs Oracle.C11.
Import ListNotations.
Open Scope N_scope.

Section C11.
  Context {B H Sig : Type}.
  Variable zero marker : B.
  Variable beqb : B -> B -> bool.
  Variable bxor : B -> B -> B.
  Variable b_of_N : N -> B.
  Variable N_of_b : B -> N.
  Variable rs_encode : N -> list (list B) -> list (list B).
  Variable rs_recover : N -> list (option (list B)) -> list (option (list B)) -> list (list B).
  Variable keystream : list B -> list B -> list B.
  Variable hash : list B -> list B.
  Variable hash_leaf : list B -> H.
  Variable hash_pair : H -> H -> H.
  Variable H_eqb : H -> H -> bool.
  Variable sign : header -> H -> Sig.

  Hypothesis beqb_spec : forall a b, beqb a b = true <-> a = b.
  Hypothesis marker_nonzero : marker <> zero.
  Hypothesis byte_roundtrip : forall n, n < 256 -> N_of_b (b_of_N n) = n.
  Hypothesis bxor_invol : forall a b, bxor (bxor a b) b = a.
  Hypothesis H_eqb_spec : forall a b, H_eqb a b = true <-> a = b.

  Let tree_fn := real_tree hash_leaf hash_pair.
  Let proof_fn := real_proof hash_leaf hash_pair.
  Let shredT := @shred B H Sig.
  Let m_deshred : variant -> list (option shredT) -> dres (@rslice B H) * list (option shredT) := deshred zero marker beqb bxor N_of_b rs_encode rs_recover keystream hash hash_leaf H_eqb tree_fn proof_fn.
  Let m_shred : variant -> @slice B -> list B -> sres (list shredT) := shred_slice zero marker bxor b_of_N rs_encode keystream hash hash_leaf sign tree_fn proof_fn.
  Let m_leader_out : variant -> @slice B -> list B -> list shredT := leader_out zero marker bxor b_of_N rs_encode keystream hash hash_leaf sign tree_fn proof_fn.
  Let m_leader_root := leader_root zero marker bxor b_of_N rs_encode keystream hash hash_leaf tree_fn.
  Let m_payload_bytes := @payload_bytes B b_of_N.

  (* ---- padding / sizing: every payload length 0..=MAX_DATA_PER_SLICE, no premise ---- *)
  Theorem C11_pad_roundtrip : forall p : list B, lenN p <= MAX_DATA_PER_SLICE ->
    let shards := split_pad zero marker p in
    let sb := shard_bytes_of (lenN p) in
    lenN shards = DATA_SHREDS /\ Forall (fun c => lenN c = sb) shards /\
    N.odd sb = false /\ 2 <= sb <= MAX_DATA_PER_SHRED /\
    concat shards = padded zero marker p /\
    unpad zero marker beqb (concat shards) = Some p.
  Proof.
    intros p Hp. cbv zeta.
    edestruct (@split_pad_shape B H Sig zero marker) as [A [Bq [C [D E]]]]; [eassumption..|].
    repeat split; try eassumption; try (apply E).
    eapply pad_roundtrip; eassumption.
  Qed.

  (* the boundary arithmetic of ReedSolomonCoder::shred never underflows / panics and yields exactly
     the 32 pieces of the padded payload *)
  Theorem C11_rs_shred_never_panics : forall nc (p : list B), lenN p <= MAX_DATA_PER_SLICE ->
    rs_shred zero marker rs_encode nc p = SOk (mkRaw (split_pad zero marker p) (rs_encode nc (split_pad zero marker p))).
  Proof. intros. eapply rs_shred_ok; eassumption. Qed.

  Theorem C11_padding_bounds : forall len, len <= MAX_DATA_PER_SLICE ->
    1 <= padding_of len <= 2 * DATA_SHREDS /\ len + padding_of len = DATA_SHREDS * shard_bytes_of len.
  Proof. intros len Hl. destruct (sizing_facts len Hl) as [A [Bq _]]. split; assumption. Qed.

  (* ---- fewer than DATA_SHREDS shreds never reconstruct anything; the codec is never consulted ---- *)
  Theorem C11_fewer_than_32_never_reconstruct : forall v (arr : list (option shredT)),
    lenN (present arr) < DATA_SHREDS ->
    m_deshred v arr = deshred_short v arr /\
    (forall sl out, m_deshred v arr <> (DOk sl, out)) /\
    snd (m_deshred v arr) = arr.
  Proof.
    intros v arr Hc.
    assert (E : m_deshred v arr = deshred_short v arr) by (unfold m_deshred; eapply deshred_lt32; eassumption).
    split; [exact E|]. split.
    - intros sl out. rewrite E. eapply deshred_short_never_ok; eassumption.
    - rewrite E. unfold deshred_short.
      match goal with |- context [if ?c then _ else _] => destruct c end; [reflexivity|].
      match goal with |- context [match ?c with LOk => _ | LNone => _ | LPanic => _ end] => destruct c end; reflexivity.
  Qed.

  Theorem C11_count_check_ignores_codec : forall v (arr : list (option shredT))
      rs_encode' rs_recover' keystream' hash' tree_fn' proof_fn',
    lenN (present arr) < DATA_SHREDS ->
    deshred zero marker beqb bxor N_of_b rs_encode' rs_recover' keystream' hash' hash_leaf H_eqb tree_fn' proof_fn' v arr
    = m_deshred v arr.
  Proof.
    intros. unfold m_deshred.
    erewrite deshred_lt32; [|eassumption..]. erewrite (deshred_lt32 zero marker beqb); [|eassumption..]. reflexivity.
  Qed.

  (* ---- any failure (error or panic) hands the array back untouched ---- *)
  Theorem C11_failure_leaves_input : forall v (arr : list (option shredT)) r out,
    m_deshred v arr = (r, out) -> (forall sl, r <> DOk sl) -> out = arr.
  Proof. intros v arr r out. unfold m_deshred. eapply deshred_failure_leaves_input; eassumption. Qed.

  Theorem C11_error_leaves_input : forall v (arr : list (option shredT)) e out,
    m_deshred v arr = (DErr e, out) -> out = arr.
  Proof. intros v arr e out. unfold m_deshred. eapply deshred_error_leaves_input; eassumption. Qed.

  (* ---- premises about the external libraries, each introduced where it is first needed ---- *)
  Hypothesis ks_len : forall k x, length (keystream k x) = length x.
  Hypothesis hash_len : forall x, length (hash x) = 32%nat.

  (* ---- shredding: refused above the limit, total (no panic) within it ---- *)
  Theorem C11_oversize_refused : forall v (s : @slice B) key, lenN key = CIPHER_KEY_BYTES ->
    max_data_size v < lenN (m_payload_bytes s) -> m_shred v s key = SErrTooMuchData.
  Proof. intros. unfold m_shred. eapply oversize_refused; eassumption. Qed.

  Hypothesis RS_len : forall nc d sb, length d = N.to_nat DATA_SHREDS -> Forall (fun c => lenN c = sb) d ->
    length (rs_encode nc d) = N.to_nat nc /\ Forall (fun c => lenN c = sb) (rs_encode nc d).

  Theorem C11_shred_within_limit : forall v (s : @slice B) key, lenN key = CIPHER_KEY_BYTES ->
    lenN (m_payload_bytes s) <= max_data_size v -> m_shred v s key = SOk (m_leader_out v s key).
  Proof. intros. unfold m_shred, m_leader_out. eapply shred_ok; eassumption. Qed.

  (* ---- every shred of the leader (hence, by the previous theorem, every regenerated one) sits at its
     index, data before coding, and carries a Merkle proof that verifies under the root the leader
     signed together with the header (uses C15's proof_complete) ---- *)
  Theorem C11_leader_shreds_valid : forall v (s : @slice B) key,
    lenN key = CIPHER_KEY_BYTES -> lenN (m_payload_bytes s) <= max_data_size v ->
    length (m_leader_out v s key) = N.to_nat TOTAL_SHREDS /\
    forall j dflt, (j < N.to_nat TOTAL_SHREDS)%nat ->
      let sh := nth j (m_leader_out v s key) dflt in
      sh_index sh = N.of_nat j /\ sh_is_data sh = (N.of_nat j <? data_out v) /\
      shred_valid hash_leaf hash_pair H_eqb sign (N.to_nat MAX_MERKLE_TREE_HEIGHT) (sl_header s) (m_leader_root v s key) sh.
  Proof.
    intros. unfold m_leader_out, m_leader_root.
    eapply leader_shreds_valid; try eassumption; intros; reflexivity.
  Qed.

  (* ValidatedShred::try_new (signature over header and derived root) accepts every such shred, and the
     root it derives is the cached one, provided the leader's signature verifies *)
  Theorem C11_valid_shreds_pass_try_new : forall mh hdr rt (sh : shredT) (verify : Sig -> header -> H -> bool),
    (forall h r, verify (sign h r) h r = true) ->
    shred_valid hash_leaf hash_pair H_eqb sign mh hdr rt sh ->
    validate hash_leaf hash_pair verify sh = true /\ derived_root hash_leaf hash_pair sh = sh_root sh.
  Proof. intros. eapply shred_valid_validate; eassumption. Qed.

  Hypothesis MDS : forall nc d pd pc sb,
    DATA_SHREDS <= nc <= TOTAL_SHREDS ->
    length d = N.to_nat DATA_SHREDS -> Forall (fun c => lenN c = sb) d -> N.odd sb = false -> 2 <= sb <= MAX_DATA_PER_SHRED ->
    length pd = N.to_nat DATA_SHREDS -> length pc = N.to_nat nc -> DATA_SHREDS <= count_true pd + count_true pc ->
    forall i, (i < N.to_nat DATA_SHREDS)%nat -> nth i pd true = false ->
      nth i (rs_recover nc (mask pd d) (mask pc (rs_encode nc d))) [] = nth i d [].
  Hypothesis ks_invol : forall k x, keystream k (keystream k x) = x.

  (* ---- the reconstruction theorem: all four shredders, every slice within the limit (empty and
     maximum included), every subset of >= DATA_SHREDS of the TOTAL_SHREDS positions ---- *)
  Theorem C11_any32_reconstructs : forall v (s : @slice B) key (m : list bool),
    slice_wf s -> lenN key = CIPHER_KEY_BYTES -> lenN (m_payload_bytes s) <= max_data_size v ->
    length m = N.to_nat TOTAL_SHREDS -> DATA_SHREDS <= count_true m ->
    m_deshred v (mask m (m_leader_out v s key))
    = (DOk (mkRSlice s (m_leader_root v s key)), map Some (m_leader_out v s key)).
  Proof.
    intros. unfold m_deshred, m_leader_out, m_leader_root.
    eapply any32_reconstructs; try eassumption; intros; reflexivity.
  Qed.

  Theorem C11_regenerated_shreds_valid : forall v (s : @slice B) key (m : list bool) j dflt,
    slice_wf s -> lenN key = CIPHER_KEY_BYTES -> lenN (m_payload_bytes s) <= max_data_size v ->
    length m = N.to_nat TOTAL_SHREDS -> DATA_SHREDS <= count_true m -> (j < N.to_nat TOTAL_SHREDS)%nat ->
    exists sh, nth j (snd (m_deshred v (mask m (m_leader_out v s key)))) None = Some sh /\
               sh = nth j (m_leader_out v s key) dflt /\
               shred_valid hash_leaf hash_pair H_eqb sign (N.to_nat MAX_MERKLE_TREE_HEIGHT) (sl_header s) (m_leader_root v s key) sh.
  Proof.
    intros v s key m j dflt Hwf Hk Hfit Hm Hc Hj.
    rewrite (C11_any32_reconstructs v s key m Hwf Hk Hfit Hm Hc). cbn [snd].
    destruct (C11_leader_shreds_valid v s key Hk Hfit) as [L V].
    exists (nth j (m_leader_out v s key) dflt). split; [|split; [reflexivity|]].
    - rewrite (nth_indep _ None (Some dflt)) by (rewrite map_length, L; exact Hj). apply map_nth.
    - apply (V j dflt Hj).
  Qed.
End C11.

(* the model that is RUN by the correspondence check (memoised tree, fast_proof) is the model above *)
Theorem C11_run_model_is_the_model :
  forall (B H Sig : Type) zero marker beqb bxor b_of_N N_of_b rs_encode rs_recover keystream hash
         (hash_leaf : list B -> H) (hash_pair : H -> H -> H) H_eqb (sign : header -> H -> Sig) tree_fn,
  (forall l, tree_fn l = real_tree hash_leaf hash_pair l) ->
  (forall v (arr : list (option (@shred B H Sig))),
     deshred zero marker beqb bxor N_of_b rs_encode rs_recover keystream hash hash_leaf H_eqb tree_fn (fast_proof hash_leaf hash_pair) v arr
     = deshred zero marker beqb bxor N_of_b rs_encode rs_recover keystream hash hash_leaf H_eqb (real_tree hash_leaf hash_pair) (real_proof hash_leaf hash_pair) v arr) /\
  (forall v (s : @slice B) key,
     @shred_slice B H Sig zero marker bxor b_of_N rs_encode keystream hash hash_leaf sign tree_fn (fast_proof hash_leaf hash_pair) v s key
     = @shred_slice B H Sig zero marker bxor b_of_N rs_encode keystream hash hash_leaf sign (real_tree hash_leaf hash_pair) (real_proof hash_leaf hash_pair) v s key).
Proof.
  intros. split; intros.
  - apply deshred_ext; [assumption|]. intros. apply fast_proof_eq.
  - apply shred_slice_ext; [assumption|]. intros. apply fast_proof_eq.
Qed.

(* the byte-level premises hold for the executable instance (primitive ints, executable SHA-256) *)
Theorem C11_executable_bytes :
  (forall a b : int, Uint63.eqb a b = true <-> a = b) /\ i_marker <> i_zero /\
  (forall n, n < 256 -> N_of_int (int_of_N n) = n) /\
  (forall a b : int, PrimInt63.lxor (PrimInt63.lxor a b) b = a) /\
  (forall a b : list int, bytes_eqb a b = true <-> a = b) /\
  (forall m, length (sha256 m) = 32%nat).
Proof.
  repeat split; try apply int_beqb_spec; try apply int_marker_nonzero; try apply int_byte_roundtrip;
    try apply int_lxor_invol; try apply bytes_eqb_spec; try apply sha256_length.
Qed.

(* non-vacuity: a slice shredded by the real PetsShredder (all-or-nothing variant, slice with a parent;
   the 33 coding shards and the ciphertext below are the implementation's), run through the model with
   the recorded codeword as the Reed-Solomon table: each listed subset of >= 32 shreds gives back the slice
   and all 64 leader shreds, 31 shreds give NotEnoughShreds and leave the array alone, an oversize slice is
   refused *)
Example C11_nonvacuous :
  let data := (unlimb 63 [0x72f582a6856744;0xcd575f0dbffe22;0x226b124208698d;0x8f2c02054a515b;0x81cec2bf4d7045;0xfff5e3ca02280;0x0;0x0;0x0]%uint63) in
  let phash := (unlimb 32 [0x6aa78f9ea558ee;0x9cdaf65e70f339;0x8fab249a1378f4;0x1b4a12121547b2;0x9c62f8d5000000]%uint63) in
  let key := (unlimb 16 [0x75716f43fc0763;0xe2cbf8a1013cf8;0xf9fc0000000000]%uint63) in
  let ct := (unlimb 112 [0xc158bb03c3d1c;0x59ba8f5564be82;0x8daafebf186185;0x874854fcb22a2a;0xcf59c1f11ecb59;0x9dd1b7f2e748b2;0x9c2683b9dc4837;0x70e70592d91406;0x4b08418032f878;0x5998094f99735e;0x16d89d8e835b12;0xed35a8d6b7b109;0x779d1421786750;0xef7c2bb7c0481c;0x5120e745e564e3;0xdf6f7df27dd5fb]%uint63) in
  let shards := chunks 6 (unlimb 384 [0xc158bb03c3d1c;0x59ba8f5564be82;0x8daafebf186185;0x874854fcb22a2a;0xcf59c1f11ecb59;0x9dd1b7f2e748b2;0x9c2683b9dc4837;0x70e70592d91406;0x4b08418032f878;0x5998094f99735e;0x16d89d8e835b12;0xed35a8d6b7b109;0x779d1421786750;0xef7c2bb7c0481c;0x5120e745e564e3;0xdf6f7df27dd5fb;0x75716f43fc0763;0xe2cbf8a1013cf8;0xf9fc8000000000;0x0;0x0;0x0;0x0;0x0;0x0;0x0;0x7cc70d;0x7012cfe13e6dcf;0x101e47642b43ba;0x577a550addb912;0x6c0117c538460e;0x31a40cc0eb5e16;0xb7c2fbf224b197;0xb121236db7ad3b;0xbc658bd69eb06e;0x82b44597fa7c47;0xc89058d5344361;0xca211cd2199240;0xf55c01266c298b;0x62e6e92bffcfee;0xd5bdb3dfc07278;0xa1a537baad1d0d;0x1d464cea00cb10;0x8e4ae321aa61b6;0xb436b8d5820ac7;0x2698abb7bfcb2a;0x3d1b514ce34c9e;0xe034ca39433716;0x7f700f7e1d62ea;0xd7c20f7ca16e04;0xc24baa6f09a54f;0x694b514f902abb;0x695759cbb93ead;0xcb4d332f85a34b;0x28dc9db39d4c00]%uint63) in
  let coding := skipn 31 shards in
  let hdr := mkHeader 18446744073709551615 1023 false in
  let s := mkSlice hdr (Some (574654799122, phash)) data in
  let pb := i_payload_bytes s in
  let ks := tbl_keystream [(key, pb, ct); (key, ct, pb)] in
  let d := match i_rs_shred (fun _ _ => []) 33 (i_rs_input ks Pets s key) with SOk rw => r_data rw | _ => [] end in
  let tbl := [mkCw 33 d coding] in
  let sh := i_shred_slice (tbl_encode tbl) ks (fun _ _ => 7) i_real_tree i_real_proof Pets s key in
  let de := i_deshred (tbl_encode tbl) (tbl_recover None tbl) ks i_real_tree i_real_proof Pets in
  let subset (f : nat -> bool) (out : list (@shred int ibytes N)) := mask (map f (seq 0 64)) out in
  match sh with
  | SOk out =>
    list_eqb bytes_eqb (map sh_data out) (firstn 31 d ++ coding) = true /\
    forallb (fun f => match de (subset f out) with
                      | (DOk r, arr) => list_eqb (opt_eqb shred_eqb) arr (map Some out) && bytes_eqb (sl_data (rs_slice r)) data
                                        && parent_eqb (sl_parent (rs_slice r)) (Some (574654799122, phash))
                                        && header_eqb (sl_header (rs_slice r)) hdr
                      | _ => false end)
            [fun _ => true; fun i => Nat.ltb i 32; fun i => Nat.leb 32 i; fun i => Nat.even i; fun i => Nat.leb 31 i && Nat.ltb i 63] = true /\
    (match de (subset (fun i => Nat.ltb i 31) out) with
     | (DErr NotEnoughShreds, arr) => list_eqb (opt_eqb shred_eqb) arr (subset (fun i => Nat.ltb i 31) out)
     | _ => false end) = true
  | _ => False
  end /\
  i_shred_slice (fun _ _ => []) (fun _ x => x) (fun _ _ => 7) i_real_tree i_real_proof Pets
                (mkSlice (mkHeader 1 0 true) None (repeat 0%uint63 32743)) key = SErrTooMuchData.
Proof. vm_compute. repeat split; reflexivity. Qed.

Print Assumptions C11_pad_roundtrip.
Print Assumptions C11_rs_shred_never_panics.
Print Assumptions C11_padding_bounds.
Print Assumptions C11_fewer_than_32_never_reconstruct.
Print Assumptions C11_count_check_ignores_codec.
Print Assumptions C11_failure_leaves_input.
Print Assumptions C11_error_leaves_input.
Print Assumptions C11_oversize_refused.
Print Assumptions C11_shred_within_limit.
Print Assumptions C11_any32_reconstructs.
Print Assumptions C11_leader_shreds_valid.
Print Assumptions C11_valid_shreds_pass_try_new.
Print Assumptions C11_regenerated_shreds_valid.
Print Assumptions C11_run_model_is_the_model.
Print Assumptions C11_executable_bytes.
Print Assumptions C11_nonvacuous.
