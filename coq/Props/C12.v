(* C12 - Shreds are bound to leader, slot, slice and position; equivocation is detected.
   Theorems over the shred-authentication model (ideal ed25519: a signature is (made by the leader?,
   message)) composed with the proved Merkle theorems of C15:
     - the signed commitment is injective in (slot, slice index, last flag, slice root);
     - without a cached commitment a shred is accepted only if the leader signed exactly that commitment
       of the root derived from the shred's payload at its index;
     - such a derivation reaching an honest tree's root binds payload and position (or exhibits a
       collision / label confusion);
     - a cached commitment shortcuts verification only for an identical commitment, a different validly
       signed one is Equivocation;
     - in the blockstore two different commitments for one slice are Equivocation in both orders (C13 file).
   KNOWN FINDING (recorded, not fixed): the data/coding tag is not bound by anything; a validated shred of a
   correct leader with the tag flipped makes the blockstore flag that leader (refuted lemma below). *)
From Coq Require Import String Uint63 List NArith Bool.
From AG Require Import Lib.Sha256 Lib.Hex Model.Merkle Model.MerkleSha Model.ShredAuth Model.Pool Model.Blockstore
                       Proofs.MerkleProofs Proofs.ShredAuthProofs Proofs.BlockstoreProofs Gen.Params.
Import ListNotations.

Theorem C12_commitment_injective : forall s1 i1 l1 r1 s2 i2 l2 r2,
  (s1 < 2 ^ 64)%N -> (s2 < 2 ^ 64)%N -> (i1 < 2 ^ 64)%N -> (i2 < 2 ^ 64)%N ->
  commitment_bytes s1 i1 l1 r1 = commitment_bytes s2 i2 l2 r2 ->
  s1 = s2 /\ i1 = i2 /\ l1 = l2 /\ r1 = r2.
Proof. exact commitment_injective. Qed.

Theorem C12_accepted_only_if_signed : forall w,
  validate_shred None w = SOk ->
  w_sig_by_leader w = true /\ w_sig_msg w = commitment_bytes (w_slot w) (w_slice w) (w_last w) (shred_root w).
Proof. exact accepted_only_if_signed. Qed.

Theorem C12_cache_shortcuts_only_identical : forall c w,
  (validate_shred (Some c) w = SOk <-> c = shred_commitment w) /\
  (validate_shred (Some c) w = SEquivocation <->
     c <> shred_commitment w /\ w_sig_by_leader w = true /\ w_sig_msg w = shred_commitment w).
Proof. exact cache_shortcuts_only_identical. Qed.

(* the root derived from (payload, index, path) equals an honest slice tree's root only if the payload is the
   leaf at that position and the path is as long as the tree is high - or a collision is exhibited *)
Theorem C12_payload_bound_to_position : forall (leaves : list (list int)) d i p,
  leaves <> [] ->
  s_derive_root d i p = s_root leaves ->
  Collision sha_leaf sha_pair \/
  (length p = height (s_levels leaves) /\
   sha_leaf d = node sha_pair sha_empty0 (s_levels leaves) 0 (i mod 2 ^ N.of_nat (height (s_levels leaves)))).
Proof.
  intros leaves d i p Hne E.
  assert (Hne' : map sha_leaf leaves <> []) by (destruct leaves; [congruence | discriminate]).
  assert (HF : Forall (fun y => exists d0, y = sha_leaf d0) (map sha_leaf leaves)).
  { apply Forall_forall. intros y Hy. apply in_map_iff in Hy. destruct Hy as [x [<- _]]. eauto. }
  exact (derive_root_sound sha_leaf sha_pair [] bytes_eqb 0%nat bytes_eqb_spec (map sha_leaf leaves) Hne' HF d i p E).
Qed.

Theorem C12_conflicting_commitments_are_equivocation : forall chk ct slot d s c,
  alookup (b_slice s) (bd_cache d) = Some c -> commit_eqb c (commitment_of s) = false ->
  bd_add_shred chk ct slot d s = (d, AErr EEquivocation).
Proof. exact conflicting_commitment_is_equivocation. Qed.

(* known finding: one honest shred (slice 0, root 1, shred index 5) with its tag flipped to "coding",
   arriving second, makes the blockstore report the (correct) leader *)
Theorem C12_tag_flip_flags_correct_leader_refuted :
  let ct := [(1%N, DecOk (Some (1%N, 3%N)) true)] in
  let s1 := mkBS 0 true 1 7 true 64 in
  let s2 := mkBS 0 true 1 5 false 64 in       (* index 5 is a data position, tag says coding *)
  let '(sd1, _, _) := bs_step true ct 2%N sd_empty (BDissem s1) in
  snd (bs_step true ct 2%N sd1 (BDissem s2)) = [BInvalidBlock].
Proof. vm_compute. reflexivity. Qed.

Print Assumptions C12_commitment_injective.
Print Assumptions C12_accepted_only_if_signed.
Print Assumptions C12_cache_shortcuts_only_identical.
Print Assumptions C12_payload_bound_to_position.
Print Assumptions C12_conflicting_commitments_are_equivocation.
Print Assumptions C12_tag_flip_flags_correct_leader_refuted.
