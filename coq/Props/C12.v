(* C12 - Shreds are bound to leader, slot, slice and position; equivocation is detected.
   Theorems over the shred-authentication model (ideal ed25519: a signature is (made by the leader?,
   message)) composed with the proved Merkle theorems of C15:
     - the signed commitment is injective in (slot, slice index, last flag, slice root);
     - without a cached commitment a shred is accepted only if the leader signed exactly that commitment
       of the root derived from the shred's payload at its index;
     - such a derivation reaching an honest tree's root binds payload and position (or exhibits a
       collision / label confusion);
     - a cached commitment shortcuts verification only for an identical commitment, a different validly
       signed one is Equivocation;
     - in the blockstore two different commitments for one slice are Equivocation in both orders (C13 file).
   THE UNSIGNED TAG.  The data / coding tag of a shred is bound by neither the signature nor the Merkle proof (a
   shred with the tag flipped still passes validation: the C12 wire-level case `data-coding-tag-flipped`).
   Current tree ("fix: do not blame the leader for a shred whose type contradicts its index", model parameter
   tagchk = true of bs_step_gen; bs_step = bs_step_gen true):
     - C12_tag_flip_is_harmless: in EVERY non-panicked slot state (none other is reachable: C10 / C13), on both
       network paths (dissemination and repair), a shred whose tag contradicts its index
       (shred_tag_ok s = false: b_is_data <> (index <? DATA_SHREDS)) is refused with InvalidShred, no event, and
       the state - stored shreds, commitments, the leader's misbehaviour flag - is exactly what it was;
     - C12_tag_consistent_step_unchanged: for every other operation the step is the pinned step;
     - C12_tag_flips_never_flag_correct_leader: for every honest block and EVERY delivery list consisting of
       honest shreds of it and arbitrary tag-inconsistent shreds (any number, any positions, e.g. honest shreds
       flipped in transit) the leader is never flagged, nothing panics, InvalidBlock is never announced, the only
       returns are Ok / Duplicate / (for the flipped ones) InvalidShred, and the block is announced exactly once,
       exactly when the tag-consistent shreds make every slice ready - with its hash and parent - and stored;
     - C12_tag_flipped_shreds_leave_no_trace (any shreds at all): the run over l has the state and the events of
       the run over the tag-consistent shreds of l, and its outputs are those with the refusals woven in.
   Pinned tree (tagchk = false), kept as a refutation: C12_pinned_tag_flip_flags_correct_leader_refuted - one
   honest shred with the tag flipped among 32 honest ones got the correct leader flagged (InvalidBlock) and the
   block was never announced; the same deliveries on the current model announce the block.
   ORACLE-ONLY: that the real blockstore behaves like this (c12_block_step_ok / c13_step_ok on the shape
   honest-tag-flip and the correspondence with bs_step). *)
From Coq Require Import String Uint63 List NArith Bool.
From AG Require Import Lib.Sha256 Lib.Hex Model.Merkle Model.MerkleSha Model.ShredAuth Model.Pool Model.Blockstore
                       Model.BlockstoreSpec Proofs.MerkleProofs Proofs.ShredAuthProofs Proofs.BlockstoreProofs
                       Proofs.BlockstoreTagProofs Gen.Params.
Import ListNotations.

Theorem C12_commitment_injective : forall s1 i1 l1 r1 s2 i2 l2 r2,
  (s1 < 2 ^ 64)%N -> (s2 < 2 ^ 64)%N -> (i1 < 2 ^ 64)%N -> (i2 < 2 ^ 64)%N ->
  commitment_bytes s1 i1 l1 r1 = commitment_bytes s2 i2 l2 r2 ->
  s1 = s2 /\ i1 = i2 /\ l1 = l2 /\ r1 = r2.
Proof. exact commitment_injective. Qed.

Theorem C12_accepted_only_if_signed : forall w,
  validate_shred None w = SOk ->
  index_in_width w = true /\
  w_sig_by_leader w = true /\ w_sig_msg w = commitment_bytes (w_slot w) (w_slice w) (w_last w) (shred_root w).
Proof. exact accepted_only_if_signed. Qed.

(* the shred index has to lie within the width of the tree spanned by the path (the derivation of the root ignores
   surplus index bits): otherwise the shred is rejected, cached commitment or not.  The pinned tree accepted a
   payload at every alias position i + k * 2^(path length) of a smaller tree the leader signed (repaired by bac8e06) *)
Theorem C12_alias_index_rejected : forall c w, index_in_width w = false -> validate_shred c w = SInvalidSignature.
Proof. exact alias_index_rejected. Qed.

Theorem C12_pinned_alias_index_accepted_refuted :
  exists w, index_in_width w = false /\ validate_shred_gen false None w = SOk /\ validate_shred None w = SInvalidSignature.
Proof.
  exists (mkW 1 0 false 2 [] [[]] true true (commitment_bytes 1 0 false (s_derive_root [] 2 [[]]))).
  vm_compute. repeat split; reflexivity.
Qed.

Theorem C12_cache_shortcuts_only_identical : forall c w,
  (validate_shred (Some c) w = SOk <-> index_in_width w = true /\ c = shred_commitment w) /\
  (validate_shred (Some c) w = SEquivocation <->
     index_in_width w = true /\ c <> shred_commitment w /\ w_sig_by_leader w = true /\ w_sig_msg w = shred_commitment w).
Proof. exact cache_shortcuts_only_identical. Qed.

(* in particular: the SAME slice root validly signed a second time under another header (last flag, slice index or slot)
   is equivocation against the first commitment - not a replay, not an invalid signature *)
Theorem C12_differently_headed_signed_shreds_equivocate : forall w1 w2,
  validate_shred None w1 = SOk -> validate_shred None w2 = SOk ->
  (w_slot w1 < 2 ^ 64)%N -> (w_slot w2 < 2 ^ 64)%N -> (w_slice w1 < 2 ^ 64)%N -> (w_slice w2 < 2 ^ 64)%N ->
  (w_slot w1, w_slice w1, w_last w1) <> (w_slot w2, w_slice w2, w_last w2) ->
  validate_shred (Some (shred_commitment w1)) w2 = SEquivocation.
Proof. exact differently_headed_signed_shreds_equivocate. Qed.

(* the root derived from (payload, index, path) equals an honest slice tree's root only if the payload is the
   leaf at that position and the path is as long as the tree is high - or a collision is exhibited *)
Theorem C12_payload_bound_to_position : forall (leaves : list (list int)) d i p,
  leaves <> [] ->
  s_derive_root d i p = s_root leaves ->
  Collision sha_leaf sha_pair \/
  (length p = height (s_levels leaves) /\
   sha_leaf d = node sha_pair sha_empty0 (s_levels leaves) 0 (i mod 2 ^ N.of_nat (height (s_levels leaves)))).
Proof.
  intros leaves d i p Hne E.
  assert (Hne' : map sha_leaf leaves <> []) by (destruct leaves; [congruence | discriminate]).
  assert (HF : Forall (fun y => exists d0, y = sha_leaf d0) (map sha_leaf leaves)).
  { apply Forall_forall. intros y Hy. apply in_map_iff in Hy. destruct Hy as [x [<- _]]. eauto. }
  exact (derive_root_sound sha_leaf sha_pair [] bytes_eqb 0%nat bytes_eqb_spec (map sha_leaf leaves) Hne' HF d i p E).
Qed.

Theorem C12_conflicting_commitments_are_equivocation : forall chk ct slot d s c,
  alookup (b_slice s) (bd_cache d) = Some c -> commit_eqb c (commitment_of s) = false ->
  bd_add_shred chk ct slot d s = (d, AErr EEquivocation).
Proof. exact conflicting_commitment_is_equivocation. Qed.

(* ---------- the unsigned data / coding tag ---------- *)
Theorem C12_tag_flip_is_harmless : forall chk ct slot sd op,
  sd_panicked sd = false -> op_tag_ok op = false ->
  bs_step chk ct slot sd op = (sd, BRErr EInvalidShred, []).
Proof. exact bs_step_tag_bad. Qed.

Theorem C12_tag_consistent_step_unchanged : forall chk ct slot sd op, op_tag_ok op = true ->
  bs_step chk ct slot sd op = bs_step_gen false chk ct slot sd op.
Proof. exact bs_step_tag_ok. Qed.

Theorem C12_tag_flipped_shreds_leave_no_trace : forall ct slot l,
  fst (bs_dissem_run ct slot l) = fst (bs_dissem_run ct slot (filter shred_tag_ok l)) /\
  snd (bs_dissem_run ct slot l) = weave_refusals l (snd (bs_dissem_run ct slot (filter shred_tag_ok l))).
Proof. exact run_filter_tag. Qed.

Theorem C12_tag_flips_never_flag_correct_leader : forall slot ct hb l,
  hb_ok slot ct hb = true -> forallb (honest_or_flipped hb) l = true ->
  sd_misbehaved (fst (bs_dissem_run ct slot l)) = false /\
  sd_panicked (fst (bs_dissem_run ct slot l)) = false /\
  (forall r ev, In (r, ev) (snd (bs_dissem_run ct slot l)) ->
     (r = BRErr EDuplicate \/ (exists x, r = BROk x) \/ (r = BRErr EInvalidShred /\ ev = [])) /\ ~ In BInvalidBlock ev) /\
  exists parent, hb_parent ct hb = Some parent /\ (fst parent < slot)%N /\
    filter is_block_event (out_events (snd (bs_dissem_run ct slot l))) =
      (if block_ready hb (filter shred_tag_ok l) then [BBlock (hb_hash hb) parent] else []) /\
    bd_completed (sd_dissem (fst (bs_dissem_run ct slot l))) =
      (if block_ready hb (filter shred_tag_ok l) then Some (hb_hash hb, parent) else None).
Proof. exact dissem_flipped_safe. Qed.

(* pinned tree (no tag guard): one honest shred (slice 0, root 1, shred index 5) with its tag flipped to
   "coding", arriving second among 33 deliveries of a one-slice honest block, got the (correct) leader flagged
   and the block was never announced; with the guard the same deliveries announce the block.  The first three
   conjuncts say that the hypotheses of C12_tag_flips_never_flag_correct_leader hold for this input
   (non-vacuity) *)
Theorem C12_pinned_tag_flip_flags_correct_leader_refuted :
  hb_ok 2 tf_ct tf_hb = true /\ forallb (honest_or_flipped tf_hb) tf_shreds = true /\
  block_ready tf_hb (filter shred_tag_ok tf_shreds) = true /\
  sd_misbehaved (fst (bs_dissem_run_gen false tf_ct 2 tf_shreds)) = true /\
  out_events (snd (bs_dissem_run_gen false tf_ct 2 tf_shreds)) = [BFirstShred; BInvalidBlock] /\
  sd_misbehaved (fst (bs_dissem_run_gen true tf_ct 2 tf_shreds)) = false /\
  out_events (snd (bs_dissem_run_gen true tf_ct 2 tf_shreds)) = [BFirstShred; BBlock [1%N] (1%N, 3%N)].
Proof. exact pinned_tag_flip_flags_correct_leader. Qed.

(* the single step of the recorded finding: pinned flags, current refuses without a trace *)
Example C12_tag_flip_step :
  let ct := [(1%N, DecOk (Some (1%N, 3%N)) true)] in
  let s1 := mkBS 0 true 1 7 true 64 in
  let s2 := mkBS 0 true 1 5 false 64 in       (* index 5 is a data position, tag says coding *)
  shred_tag_ok s2 = false /\
  (let '(sd1, _, _) := bs_step_gen false true ct 2%N sd_empty (BDissem s1) in
   snd (bs_step_gen false true ct 2%N sd1 (BDissem s2)) = [BInvalidBlock]) /\
  (let '(sd1, _, _) := bs_step true ct 2%N sd_empty (BDissem s1) in
   bs_step true ct 2%N sd1 (BDissem s2) = (sd1, BRErr EInvalidShred, [])).
Proof. vm_compute. repeat split; reflexivity. Qed.

Print Assumptions C12_commitment_injective.
Print Assumptions C12_accepted_only_if_signed.
Print Assumptions C12_cache_shortcuts_only_identical.
Print Assumptions C12_differently_headed_signed_shreds_equivocate.
Print Assumptions C12_alias_index_rejected.
Print Assumptions C12_pinned_alias_index_accepted_refuted.
Print Assumptions C12_payload_bound_to_position.
Print Assumptions C12_conflicting_commitments_are_equivocation.
Print Assumptions C12_tag_flip_is_harmless.
Print Assumptions C12_tag_consistent_step_unchanged.
Print Assumptions C12_tag_flipped_shreds_leave_no_trace.
Print Assumptions C12_tag_flips_never_flag_correct_leader.
Print Assumptions C12_pinned_tag_flip_flags_correct_leader_refuted.
Print Assumptions C12_tag_flip_step.
