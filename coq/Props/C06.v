(* C06 - Safe-to-notar / safe-to-skip are signalled exactly when the protocol allows.
   Only property theorems (closed by lemmas of Proofs/SafeToProofs.v) and Print Assumptions.
   PARTIAL: soundness and at-most-once are proved for the model; "as soon as all conditions hold,
   whichever arrives last" (completeness) is not yet a theorem - it is decided by the completeness
   oracle on implementation traces (Oracle/PoolRun.v, c06_step_ok) over shuffled trigger groups. *)
From Coq Require Import List NArith Bool.
From AG Require Import Gen.Params Model.Pool Model.PoolSpec Proofs.SlotStateProofs Proofs.SafeToProofs.
Import ListNotations.
Open Scope N_scope.

(* safe-to-notar(b) is raised only if the node already voted in the slot but not to notarize b, b's
   notarize stake is >= 40 %, or >= 20 % with skip + notarize(b) >= 60 %, and b's block and parent are
   known with the parent certified; it is raised only for a block not signalled before and marks it *)
Theorem C06_s2n_sound_once : forall e s ss h ss' ev rp,
  s2n_try e s ss h = (ss', ev, rp) -> ev <> [] ->
  ev = [ESafeToNotar (s, h)] /\ memN h (s2n_sent (ss_n ss)) = false /\ memN h (s2n_sent (ss_n ss')) = true
  /\ s2n_conditions e ss h.
Proof. exact s2n_try_once. Qed.

(* the stake figures in that condition are the stake of distinct validators with stored votes *)
Theorem C06_stakes_are_stored_votes : forall e ss, ss_reach e ss -> totals_ok e ss.
Proof. intros e ss H. exact (proj1 (reach_invariants e ss H)). Qed.

(* safe-to-skip is raised only if the node notarized a block in the slot and skip + non-top notar stake
   is >= 40 %, at most once *)
Theorem C06_s2s_sound_once : forall e s ss ev ss' ev',
  s2s_try e s ss ev = (ss', ev') -> ev' <> ev ->
  ev' = ev ++ [ESafeToSkip s] /\ s2s_sent (ss_n ss) = false /\ s2s_sent (ss_n ss') = true
  /\ is_weak_quorum e (st_nos (ss_t ss) - st_top (ss_t ss)) = true
  /\ exists h, alookup (own e) (vo_notar (ss_v ss)) = Some h.
Proof. exact s2s_try_sound. Qed.

Print Assumptions C06_s2n_sound_once.
Print Assumptions C06_stakes_are_stored_votes.
Print Assumptions C06_s2s_sound_once.
