(* C06 - Safe-to-notar / safe-to-skip are signalled exactly when the protocol allows.
   Only property theorems (closed by lemmas of Proofs/SafeToProofs.v, Proofs/SafeToComplete.v,
   Proofs/SafeToPool.v) and Print Assumptions.

   PROVED for the model of the current tree (all stake distributions, all admitted votes over any number of
   competing blocks, all orders of votes / own vote / block registration / parent certificate, no bounds):
     soundness + at most once       C06_s2n_sound_once, C06_s2s_sound_once
     COMPLETENESS, one slot state   C06_slot_flags_are_conditions: in every reachable slot state the sent-flag
                                    of a block EQUALS its condition (likewise safe-to-skip);
                                    C06_slot_step_exact: an operation raises SafeToNotar(s,h) iff it makes the
                                    condition of h true, and then exactly once - whichever of vote / own vote /
                                    block registration / parent certified arrives last;
                                    C06_slot_history_exact: exactly once over a whole history
     COMPLETENESS, through the pool C06_pool_complete: in every pool reached by pool_step from the initial pool
                                    without panic, the condition on the pool's state - slot retained, block
                                    registered with parent par, par is genesis or a Notar / NotarFallback /
                                    FastFinal certificate for par is held, own vote, stake - implies that the
                                    signal was raised, exactly once over the whole history;
                                    C06_pool_step_exact, C06_pool_trigger_emits: the last-arriving trigger
                                    raises it (the cross-slot path parent certificate -> waiting children
                                    included); C06_pool_safe_to_skip_complete; C06_pool_invariant
     stake figures                  C06_stakes_are_stored_votes, C06_condition_on_stored_votes,
                                    C06_skip_figures_are_stored_votes (stake of distinct validators with
                                    stored votes)
   REFUTED:
     C06_pinned_genesis_parent_refuted        pinned tree (pool_add_block_gen false): a child of genesis never
                                              got SafeToNotar; fixed by 60d950a, the theorems above are about
                                              pool_add_block = pool_add_block_gen true
     C06_received_parent_cert_pruned_refuted  FINDING, current tree: "holds" cannot be weakened to "received" -
                                              the certificate of a parent whose slot was pruned before the
                                              child block was registered is gone and SafeToNotar is never
                                              raised (the real pool behaves like the model on this trace; kept
                                              as the reason why the property, and now the oracle of
                                              Oracle/PoolRun.v, say "a certificate the node HOLDS")
     C06_pinned_waiting_child_pruned_panics_refuted  pinned tree (notify_waiting_children_gen false): the
                                              waiting-children notification panicked ("parent not known") for a
                                              child whose slot had been pruned; fixed by 599595f - the same trace
                                              is accepted now (C06_waiting_child_pruned_no_panic) and the
                                              notification can never panic (C06_waiting_children_never_panic)
   The pool theorems keep the hypothesis "the step did not panic" (p_panicked p' = false): it no longer guards
     against the notification, but against the other panics of pool_step, which are reachable and are C10's
     subject - the finality tracker's consistency asserts (conflicting finalization / notarization, second
     parent of a block), add_to_ready on a duplicate, a certificate constructor without votes, add_block with
     parent slot >= block slot, a second waiter, standstill without final certificates.
   ORACLE-ONLY (not a theorem): that the pool model and the Rust pool agree (correspondence on generated
     traces); the condition as a statement about the HISTORY of accepted inputs (c06_step_ok) - the theorems
     speak about the pool's state (stored votes, recorded registrations, held certificates); operations that
     panic (RPanic) are excluded here as in the oracle. *)
From Coq Require Import List NArith Bool.
From AG Require Import Gen.Params Model.Pool Model.PoolSpec Model.SafeToSpec
  Proofs.SlotStateProofs Proofs.SafeToProofs Proofs.SafeToComplete Proofs.SafeToPool.
Import ListNotations.
Open Scope N_scope.

(* safe-to-notar(b) is raised only if the node already voted in the slot but not to notarize b, b's
   notarize stake is >= 40 %, or >= 20 % with skip + notarize(b) >= 60 %, and b's block and parent are
   known with the parent certified; it is raised only for a block not signalled before and marks it *)
Theorem C06_s2n_sound_once : forall e s ss h ss' ev rp,
  s2n_try e s ss h = (ss', ev, rp) -> ev <> [] ->
  ev = [ESafeToNotar (s, h)] /\ memN h (s2n_sent (ss_n ss)) = false /\ memN h (s2n_sent (ss_n ss')) = true
  /\ s2n_conditions e ss h.
Proof. exact s2n_try_once. Qed.

(* the stake figures in that condition are the stake of distinct validators with stored votes *)
Theorem C06_stakes_are_stored_votes : forall e ss, ss_reach e ss -> totals_ok e ss.
Proof. intros e ss H. exact (proj1 (reach_invariants e ss H)). Qed.

(* safe-to-skip is raised only if the node notarized a block in the slot and skip + non-top notar stake
   is >= 40 %, at most once *)
Theorem C06_s2s_sound_once : forall e s ss ev ss' ev',
  s2s_try e s ss ev = (ss', ev') -> ev' <> ev ->
  ev' = ev ++ [ESafeToSkip s] /\ s2s_sent (ss_n ss) = false /\ s2s_sent (ss_n ss') = true
  /\ is_weak_quorum e (st_nos (ss_t ss) - st_top (ss_t ss)) = true
  /\ exists h, alookup (own e) (vo_notar (ss_v ss)) = Some h.
Proof. exact s2s_try_sound. Qed.

(* ---------------- completeness on one slot state ---------------- *)
(* the decidable condition used below is the condition of the soundness theorem *)
Theorem C06_condition_is_the_property : forall e ss h,
  s2n_condb e ss h = true <-> s2n_conditions e ss h.
Proof. exact condb_iff_conditions. Qed.

(* INVARIANT: in every slot state the pool can reach (any admitted votes, stored certificates, block
   registrations and parent-certified notifications, in any order) SafeToNotar(h) has been raised iff the
   condition of h holds on the stored votes / registered blocks / parent status, and SafeToSkip iff the
   node notarized a block and skip + non-top notar stake >= 40 % *)
Theorem C06_slot_flags_are_conditions : forall e ss, ss_reach e ss ->
  (forall h, s2n_sentb ss h = s2n_condb e ss h) /\ s2s_sent (ss_n ss) = s2s_condb e ss.
Proof. exact slot_flags_are_conditions. Qed.

(* EXACTLY WHEN: an operation on a reachable slot state raises SafeToNotar(s, h) exactly once if it makes the
   condition of h true (false before, true after - the last-arriving trigger) and not at all otherwise;
   likewise SafeToSkip(s); it raises no such event for another slot and no other kind of event *)
Theorem C06_slot_step_exact : forall e s ss op ss' evs,
  ss_reach e ss -> ss_op_ok s ss op = true -> ss_apply e s ss op = (ss', evs) ->
  (forall b, ev_count (is_s2n b) evs
             = b2n ((fst b =? s) && s2n_condb e ss' (snd b) && negb (s2n_condb e ss (snd b)))) /\
  (forall s', ev_count (is_s2s s') evs
              = b2n ((s' =? s) && s2s_condb e ss' && negb (s2s_condb e ss))) /\
  Forall ev_kind_ok evs.
Proof. exact step_exact. Qed.

(* whole histories of one slot: after any sequence of operations from the empty state, SafeToNotar(s, h) has
   been raised exactly once if the condition of h holds now and never otherwise; likewise SafeToSkip(s) *)
Theorem C06_slot_history_exact : forall e s ops ss evs,
  ss_run e s ss_empty ops = Some (ss, evs) ->
  (forall h, ev_count (is_s2n (s, h)) evs = b2n (s2n_condb e ss h)) /\
  ev_count (is_s2s s) evs = b2n (s2s_condb e ss) /\
  (forall b, fst b <> s -> ev_count (is_s2n b) evs = O) /\
  (forall s', s' <> s -> ev_count (is_s2s s') evs = O) /\
  Forall ev_kind_ok evs.
Proof. exact run_exact. Qed.

(* the condition evaluated on the stored votes (stake of distinct validators) is the same condition *)
Theorem C06_condition_on_stored_votes : forall e ss h,
  ss_reach e ss -> s2n_condb e ss h = s2n_cond_votesb e ss h.
Proof. exact condb_on_votes. Qed.

(* the figures of safe-to-skip: notar-or-skip stake = stake of the validators holding a skip or a notar vote,
   top = stake of the most-voted block *)
Theorem C06_skip_figures_are_stored_votes : forall e ss, ss_reach e ss -> nos_top_ok e ss.
Proof. exact reach_nos_top. Qed.

(* ---------------- completeness through the pool ---------------- *)
(* every slot state of a pool reached by any operation sequence (votes, certificates, block registrations,
   standstill, waits, in any order) without panic is a reachable slot state, and every registered child of a
   retained slot either knows its parent certified or waits for a parent the pool holds no certificate for *)
Theorem C06_pool_invariant : forall e ops p evs,
  pool_exec e pool_init ops = (p, evs) -> p_panicked p = false ->
  (forall s, ss_reach e (p_ss p s)) /\ link_inv p None.
Proof. exact pool_reach_inv. Qed.

(* INVARIANT + EXACTLY ONCE: in every such pool, if the slot of b is retained, b is registered with parent
   par, the pool holds a Notar / NotarFallback / FastFinal certificate for par, the node voted in the slot but
   not to notarize b, and b's stake condition holds, then SafeToNotar(b) has been raised, exactly once *)
Theorem C06_pool_complete : forall e ops p evs b par,
  pool_exec e pool_init ops = (p, evs) -> p_panicked p = false ->
  pool_s2n_condb e p b par = true ->
  pool_s2n_sentb p b = true /\ ev_count (is_s2n b) evs = 1%nat.
Proof. exact pool_complete_once. Qed.

Theorem C06_pool_safe_to_skip_complete : forall e ops p evs s,
  pool_exec e pool_init ops = (p, evs) -> p_panicked p = false ->
  pool_s2s_condb e p s = true ->
  pool_s2s_sentb p s = true /\ ev_count (is_s2s s) evs = 1%nat.
Proof. exact pool_s2s_complete_once. Qed.

(* EXACTLY WHEN, one pool operation: for every block / slot retained afterwards, the operation raises
   SafeToNotar(b) once if it makes b's condition true and not at all otherwise; likewise SafeToSkip *)
Theorem C06_pool_step_exact : forall e p op p' res o,
  pool_inv e p -> pool_step e p op = (p', res, o) -> p_panicked p' = false ->
  pool_inv e p' /\
  (forall b, first_unpruned p' <= fst b ->
     ev_count (is_s2n b) (po_events o)
     = b2n (s2n_condb e (p_ss p' (fst b)) (snd b) && negb (s2n_condb e (p_ss p (fst b)) (snd b)))) /\
  (forall s, first_unpruned p' <= s ->
     ev_count (is_s2s s) (po_events o) = b2n (s2s_condb e (p_ss p' s) && negb (s2s_condb e (p_ss p s)))).
Proof. exact pool_step_exact. Qed.

(* the last-arriving trigger raises the event, whichever it is: a vote of another validator, the own vote,
   the block registration, or the parent's certificate (created from votes or received; through the
   waiting-children map) *)
Theorem C06_pool_trigger_emits : forall e p op p' res o b par,
  pool_inv e p -> pool_step e p op = (p', res, o) -> p_panicked p' = false ->
  pool_s2n_condb e p' b par = true -> s2n_condb e (p_ss p (fst b)) (snd b) = false ->
  ev_count (is_s2n b) (po_events o) = 1%nat.
Proof. exact pool_trigger_emits. Qed.

(* FINDING: "holds" cannot be weakened to "received": a fast-finalization certificate for the parent was
   accepted, its slot pruned by a later finalization, then the child registered and voted for *)
Theorem C06_received_parent_cert_pruned_refuted :
  let e := pruned_parent_epoch in
  let p := fst (pool_exec e pool_init pruned_parent_ops) in
  let evs := snd (pool_exec e pool_init pruned_parent_ops) in
  snd (fst (pool_step e pool_init (OpCert pruned_parent_cert1))) = RVerdict VOk
  /\ cert_block pruned_parent_cert1 = Some (1, 11)
  /\ p_panicked p = false /\ retainedb p 3 = true /\ registeredb p (3, 33) (1, 11) = true
  /\ own_voted_otherb e (p_ss p 3) 33 = true /\ s2n_stakeb e (p_ss p 3) 33 = true
  /\ holds_parent_certb p (1, 11) = false
  /\ ev_count (is_s2n (3, 33)) evs = O.
Proof. exact received_parent_cert_pruned_refuted. Qed.

(* finding on the pinned tree (fixed, 60d950a): a child of genesis never got SafeToNotar although every
   clause held; [pool_exec_gp true] is the current pool (C06_pool_complete applies to it) *)
Theorem C06_pinned_genesis_parent_refuted :
  let e := genesis_child_epoch in
  let p := fst (pool_exec_gp false e pool_init genesis_child_ops) in
  let evs := snd (pool_exec_gp false e pool_init genesis_child_ops) in
  p_panicked p = false /\ pool_s2n_condb e p (1, 7) (0, 0) = true /\ ev_count (is_s2n (1, 7)) evs = O.
Proof. exact pinned_genesis_parent_refuted. Qed.

Theorem C06_current_variant_is_pool_exec : forall e ops p, pool_exec_gp true e p ops = pool_exec e p ops.
Proof. exact pool_exec_gp_current. Qed.

(* finding on the pinned tree (fixed, 599595f): the waiting-children map is never pruned; a child whose slot was
   pruned by the very finalization its parent's late notarization certificate causes made the notification
   re-create the slot state and panic ("parent not known").  [pruned_child_mid] is the state inside add_valid_cert
   at the moment the children of (1,11) are notified; the current notification skips the pruned child *)
Theorem C06_pinned_waiting_child_pruned_panics_refuted :
  match pruned_child_mid with
  | Some p1 => first_unpruned p1 = 3 /\ In ((1, 11), (2, 22)) (p_waiting p1)
               /\ notify_waiting_children_gen false pruned_child_epoch p1 (1, 11) = None
               /\ notify_waiting_children pruned_child_epoch p1 (1, 11) <> None
  | None => False
  end.
Proof. exact pinned_waiting_child_pruned_panics. Qed.

(* the same history on the current pool: the late certificate is accepted, no panic *)
Theorem C06_waiting_child_pruned_no_panic :
  let e := pruned_child_epoch in
  let p := fst (pool_exec e pool_init pruned_child_ops) in
  p_panicked p = false /\ In ((1, 11), (2, 22)) (p_waiting p)
  /\ snd (fst (pool_step e p (OpCert pruned_child_late_cert))) = RVerdict VOk
  /\ p_panicked (fst (fst (pool_step e p (OpCert pruned_child_late_cert)))) = false.
Proof. exact waiting_child_pruned_no_panic. Qed.

(* in general: in every pool reached without panic (and, by the same invariants, in the intermediate states
   of add_valid_cert - Proofs/SafeToPool.nwc_no_panic), notifying the waiting children of any block cannot
   panic: every waiting child of a retained slot is registered and has a parent status, pruned ones are skipped *)
Theorem C06_waiting_children_never_panic : forall e ops p evs b0,
  pool_exec e pool_init ops = (p, evs) -> p_panicked p = false ->
  notify_waiting_children e p b0 <> None.
Proof. exact reach_nwc_no_panic. Qed.

(* non-vacuity: stakes [2,3,3], own = 2; notar(5,52) by validator 1, two children of (4,41) registered, own
   skip vote, the parent's NotarFallback certificate arrives last (cross-slot trigger): the condition of
   (5,52) holds, the event was raised once, nothing for the sibling (5,51) without votes *)
Example C06_nonvacuous :
  let e := mkEpoch [2; 3; 3] 2 in
  let ops := [OpVote (mkVote 5 (KNotar 52) 1); OpBlock (5, 52) (4, 41); OpBlock (5, 51) (4, 41);
              OpVote (mkVote 5 KSkip 2); OpCert (mkCert 4 (CNotarFb 41) [0; 1] [] 5)] in
  let p := fst (pool_exec e pool_init ops) in
  let evs := snd (pool_exec e pool_init ops) in
  (p_panicked p, pool_s2n_condb e p (5, 52) (4, 41), pool_s2n_condb e p (5, 51) (4, 41),
   ev_count (is_s2n (5, 52)) evs, ev_count (is_s2n (5, 51)) evs)
  = (false, true, false, 1%nat, O).
Proof. vm_compute. reflexivity. Qed.

(* non-vacuity, genesis parent on the current tree: the same history as the pinned witness raises the event *)
Example C06_nonvacuous_genesis :
  let e := genesis_child_epoch in
  let p := fst (pool_exec e pool_init genesis_child_ops) in
  (p_panicked p, pool_s2n_condb e p (1, 7) (0, 0), ev_count (is_s2n (1, 7)) (snd (pool_exec e pool_init genesis_child_ops)))
  = (false, true, 1%nat).
Proof. vm_compute. reflexivity. Qed.

(* non-vacuity, safe-to-skip with the own notar vote arriving last; and the guards of the slot-level
   operations are satisfiable (a history of one slot with all four kinds of operation) *)
Example C06_nonvacuous_skip :
  let e := mkEpoch [1; 1; 1; 1; 1] 0 in
  let ops := [OpVote (mkVote 1 (KNotar 8) 1); OpVote (mkVote 1 KSkip 2); OpVote (mkVote 1 (KNotar 7) 0)] in
  let p := fst (pool_exec e pool_init ops) in
  (p_panicked p, pool_s2s_condb e p 1, ev_count (is_s2s 1) (snd (pool_exec e pool_init ops))) = (false, true, 1%nat).
Proof. vm_compute. reflexivity. Qed.

Example C06_nonvacuous_slot :
  let e := mkEpoch [2; 3; 3] 2 in
  match ss_run e 5 ss_empty [SOVote (mkVote 5 (KNotar 52) 1); SOKnown 52; SOVote (mkVote 5 KSkip 2);
                             SOCert (mkCert 5 CSkip [2] [] 3); SOCertified 52] with
  | Some (ss, evs) => (s2n_condb e ss 52, ev_count (is_s2n (5, 52)) evs) = (true, 1%nat)
  | None => False
  end.
Proof. vm_compute. reflexivity. Qed.

Print Assumptions C06_s2n_sound_once.
Print Assumptions C06_stakes_are_stored_votes.
Print Assumptions C06_s2s_sound_once.
Print Assumptions C06_condition_is_the_property.
Print Assumptions C06_slot_flags_are_conditions.
Print Assumptions C06_slot_step_exact.
Print Assumptions C06_slot_history_exact.
Print Assumptions C06_condition_on_stored_votes.
Print Assumptions C06_skip_figures_are_stored_votes.
Print Assumptions C06_pool_invariant.
Print Assumptions C06_pool_complete.
Print Assumptions C06_pool_safe_to_skip_complete.
Print Assumptions C06_pool_step_exact.
Print Assumptions C06_pool_trigger_emits.
Print Assumptions C06_received_parent_cert_pruned_refuted.
Print Assumptions C06_pinned_genesis_parent_refuted.
Print Assumptions C06_current_variant_is_pool_exec.
Print Assumptions C06_pinned_waiting_child_pruned_panics_refuted.
Print Assumptions C06_waiting_child_pruned_no_panic.
Print Assumptions C06_waiting_children_never_panic.
Print Assumptions C06_nonvacuous.
Print Assumptions C06_nonvacuous_genesis.
Print Assumptions C06_nonvacuous_skip.
Print Assumptions C06_nonvacuous_slot.
