(* C09 - Only authentic votes and sufficiently backed certificates are admitted.
   Theorems over the validation model with IDEAL signatures (DESIGN.md section 3/4): an individual
   signature is the pair (key that made it, payload it was made for); forgery and algebraic
   cancellation inside BLS aggregates are assumed away (stated as the trusted base of this property).
   "Never a panic" is decided by the correspondence (every verdict of the real code is taken under
   catch_unwind and the model is total). *)
From Coq Require Import List NArith Bool.
From AG Require Import Gen.Params Model.Pool Model.Validate Proofs.ValidateProofs Proofs.FractionProofs.
Import ListNotations.
Open Scope N_scope.

Theorem C09_vote_admitted_iff : forall e v,
  validate_vote e v = V9Ok <->
  (sv_signer v < nvals e /\ sv_sig_key v = sv_signer v /\ payload_eqb (sv_sig_payload v) (sv_payload v) = true).
Proof. exact vote_admitted_iff. Qed.

Theorem C09_payload_domain_separation : forall a b, payload_eqb a b = true ->
  pl_kind a = pl_kind b /\ pl_slot a = pl_slot b /\ ((pl_kind a = 0 \/ pl_kind a = 1) -> pl_hash a = pl_hash b).
Proof. exact payload_eqb_spec. Qed.

Theorem C09_cert_admitted_only_if : forall e c,
  validate_cert e c = V9Ok ->
  cert_check_threshold e c = true /\
  (let '(p1, p2) := cert_payloads c in
   opt_half_verify (nvals e) p1 (sc_h1 c) = true /\ (is_mixed c = true -> opt_half_verify (nvals e) p2 (sc_h2 c) = true)).
Proof. exact cert_admitted_only_if. Qed.

Theorem C09_verifying_half_is_signed_by_its_signers : forall n p h,
  half_verify n p h = true ->
  h_bits h = n /\
  forall a, In a (h_atoms h) -> exists a', In a' (h_atoms h) /\ a_claimed a' = a_key a /\ payload_eqb (a_payload a) p = true.
Proof. exact half_verify_signers_signed. Qed.

Theorem C09_declared_stake_irrelevant : forall e c d,
  validate_cert e (mkSCert (sc_kind c) (sc_slot c) (sc_hash c) (sc_h1 c) (sc_h2 c) d) = validate_cert e c.
Proof. exact declared_stake_irrelevant. Qed.

(* the stake thresholds: Fraction::is_met multiplies 64-bit operands in 128 bits; for every 64-bit stake, total and
   fraction this is exactly the comparison of unbounded naturals the models use (no product wraps) ... *)
Theorem C09_threshold_arithmetic_exact : forall num den value total,
  num < 2 ^ 64 -> den < 2 ^ 64 -> value < 2 ^ 64 -> total < 2 ^ 64 ->
  is_met_u128 num den value total = is_met num den value total.
Proof. exact is_met_u128_exact. Qed.

(* ... whereas the same cross-multiplication in saturating 64-bit arithmetic admits 25 % of a total stake of 1.6e19
   as a 60 % quorum *)
Theorem C09_saturating_threshold_arithmetic_refuted :
  let total := 16000000000000000000 in let value := 4000000000000000000 in
  total < 2 ^ 64 /\ value < 2 ^ 64 /\
  is_met_sat64 3 5 value total = true /\ is_met 3 5 value total = false.
Proof. exact is_met_sat64_refuted. Qed.

Example C09_nonvacuous :
  let e := mkEpoch [1; 1; 1; 1; 1] 0 in
  let p := mkPayload 0 7 3 in
  let good := mkSCert 0 7 3 (Some (mkHalf 5 [mkAtom 0 0 p; mkAtom 1 1 p; mkAtom 2 2 p])) None 3 in
  let swapped := mkSCert 0 7 3 (Some (mkHalf 5 [mkAtom 0 1 p; mkAtom 1 0 p; mkAtom 2 2 p])) None 3 in
  let forged := mkSCert 0 7 3 (Some (mkHalf 5 [mkAtom 0 0 p; mkAtom 1 1 p; mkAtom 2 4 p])) None 3 in
  let short := mkSCert 0 7 3 (Some (mkHalf 5 [mkAtom 0 0 p; mkAtom 1 1 p])) None 99 in
  (validate_cert e good, validate_cert e swapped, validate_cert e forged, validate_cert e short)
  = (V9Ok, V9Ok, V9InvalidSignature, V9InsufficientStake).
Proof. vm_compute. reflexivity. Qed.

Print Assumptions C09_vote_admitted_iff.
Print Assumptions C09_payload_domain_separation.
Print Assumptions C09_cert_admitted_only_if.
Print Assumptions C09_verifying_half_is_signed_by_its_signers.
Print Assumptions C09_declared_stake_irrelevant.
Print Assumptions C09_threshold_arithmetic_exact.
Print Assumptions C09_saturating_threshold_arithmetic_refuted.
Print Assumptions C09_nonvacuous.
