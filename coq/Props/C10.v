(* C10 - No network input or Byzantine-signed content can crash or wedge a node.      PARTIAL.

   What is a theorem here (all about the executable models, each for ALL inputs / ALL input sequences, by
   induction, no bound):
     blockstore   C10_blockstore_never_panics, C10_blockstore_step_never_panics: for every sequence of shreds offered
                  through dissemination or repair (any content, any order, any interleaving of blocks, any decoding
                  table) the two [expect]s of try_reconstruct_block ("all slices are present, including the first",
                  "first slice contains a parent") are unreachable.
     repair       C10_repair_never_panics: for every sequence of repair starts, responses of any kind from anyone and
                  time-outs, neither the unreachable!() of handle_response nor a blockstore panic is reached; what is
                  handed to Pool::add_block has its parent in an earlier slot (C10_repaired_block_passes_add_block_assert)
                  and (C14) the requested hash, so the assert_eq! on the hash holds.
     -> pool      C10_blockstore_blocks_pass_add_block_assert: assert!(block_id.0 > parent_id.0) in Pool::add_block /
                  FinalityTracker::add_parent cannot fire for any block the blockstore announces; the pinned tree did
                  (C10_pinned_future_parent_refuted).
     votor        C10_votor_panics_iff: in every state reachable by ANY event sequence the four
                  assert!(slot >= first_unpruned_slot) are unreachable; the only reachable assertion is set_timeouts'
                  is_start_of_window, exactly on a ParentReady for a slot that does not start a window ...
     pool->votor  ... which the pool never emits (C10_pool_parent_ready_only_on_window_start), hence
                  C10_votor_never_panics_on_pool_output for every interleaving of pool output with arbitrary
                  blockstore events and time-outs.
     u64          C10_votor_u64_never_panics: with u64 slot arithmetic (current tree) Votor never panics for ANY event
                  sequence whose ParentReady events name window starts - every slot up to 2^64-1 included
                  (C10_votor_u64_window_slots_fit); the pinned arithmetic panicked exactly on the last leader window
                  (C10_pinned_votor_u64_panics_iff, C10_pinned_votor_last_window_refuted).
     producer     C10_producer_never_panics: for EVERY transaction stream (payloads of any length, beyond the MTU too), with
                  or without parent, no underflow and the slice fits MAX_DATA_PER_SLICE (so Shredder::shred accepts it);
                  C10_producer_contents: it contains exactly the in-limit transactions among those consumed;
                  C10_handover_total: apply_parent_ready never panics. Pinned tree: C10_pinned_producer_safe_within_limit,
                  C10_pinned_producer_panics_exactly_when, C10_pinned_producer_oversize_refuted / _flood_refuted,
                  C10_pinned_handover_panics_iff / C10_pinned_handover_equivocation_refuted.
     pool         C10_pool_refusals_harmless: messages refused by the window check change nothing and never panic.
   Cited from other properties: wire decoders are total functions into option (C19), vote / certificate validation is
   total and guards the signer index before indexing (C09), the shredder's layout / size guards (C11).

   Defects found by this property, all repaired in /repo (the models follow the repaired code; the pinned variants stay
   behind parameters and their refutations are kept as C10_pinned_..._refuted):
     (1) 7f57b91  oversize transaction -> leader's block producer panicked          (produce_slice_payload)
     (2) c169de0  two Byzantine-signed shreds for the last u64 window -> Votor panicked      (Slot::slots_in_window)
     (3) 8dab5dc  equivocating leader before a handover -> next leader's block producer panicked (apply_parent_ready)

   NOT a theorem (validated by the correspondence / oracle of bin/check C10 only, or not covered):
     - the pool's "consensus safety violation" assertions and add_parent's same-block-two-parents assertion are
       reachable only with conflicting certificates (>= 20% Byzantine stake, C01) / a hash collision: not proved here;
       the consensus stream drives the real pool with histories consistent with < 20% Byzantine stake;
     - that the Rust code agrees with the models (decided per run by the correspondence check on generated cases);
     - task wiring of consensus.rs (a panicking Votor / repair task makes the next Pool::send_* expect fail as well),
       channel back-pressure, network send errors (Votor::broadcast expects), resource exhaustion (the blockstore keeps
       shreds of any future slot its leader signs), external crates;
     - liveness after hostile input is observed on real clusters (finalized slot advances, repair requests answered),
       not proved. *)
From Coq Require Import List NArith Bool.
From AG Require Import Gen.Params Model.Pool Model.Blockstore Model.Repair Model.Votor Model.Producer Model.Node64
     Proofs.NoPanicBlockstore Proofs.NoPanicRepair Proofs.NoPanicVotor Proofs.NoPanicPool Proofs.NoPanicNode64
     Proofs.NoPanicProducer Oracle.C10.
Import ListNotations.
Open Scope N_scope.

(* ---------------- blockstore ---------------- *)
Theorem C10_blockstore_never_panics : forall chk ct slot ops,
  forallb net_op ops = true ->
  sd_panicked (fst (bs_run chk ct slot sd_empty ops)) = false /\
  Forall (fun r => r <> BRPanic) (snd (bs_run chk ct slot sd_empty ops)).
Proof. exact bs_run_network_no_panic. Qed.

Theorem C10_blockstore_step_never_panics : forall chk ct slot sd op,
  inv_sd sd -> sd_panicked sd = false -> net_op op = true ->
  inv_sd (fst (fst (bs_step chk ct slot sd op))) /\
  sd_panicked (fst (fst (bs_step chk ct slot sd op))) = false /\
  snd (fst (bs_step chk ct slot sd op)) <> BRPanic.
Proof. exact bs_step_network_no_panic. Qed.

Theorem C10_blockstore_blocks_pass_add_block_assert : forall ct slot sd op sd' h par evs,
  net_op op = true -> bs_step true ct slot sd op = (sd', BROk (Some (h, par)), evs) -> fst par < slot.
Proof. exact bs_step_block_parent_earlier. Qed.

Theorem C10_pinned_future_parent_refuted :
  exists ct slot ops h p, forallb net_op ops = true /\
    In (BROk (Some (h, p))) (snd (bs_run false ct slot sd_empty ops)) /\ slot <= fst p.
Proof. exact pinned_block_with_future_parent_refuted. Qed.

Theorem C10_pool_add_block_assert : forall e p b par, p_panicked p = false ->
  fst b <= fst par -> snd (fst (pool_step e p (OpBlock b par))) = RPanic.
Proof. exact pool_add_block_assert_iff. Qed.

(* ---------------- repair ---------------- *)
Theorem C10_repair_never_panics : forall keep ct slot expected ops,
  let rp := repair_run keep ct slot expected ops in
  rp_panicked rp = false /\ sd_panicked (rp_store rp) = false.
Proof. intros keep ct slot expected ops. destruct (repair_never_panics keep ct slot expected ops) as [A [_ [_ B]]]. split; assumption. Qed.

Theorem C10_repaired_block_passes_add_block_assert : forall keep ct slot expected rp p key h par,
  repair_ok rp -> In (OBlockToPool key h par) (snd (handle_response keep ct slot expected rp p)) -> fst par < slot.
Proof. exact repaired_block_parent_earlier. Qed.

(* ---------------- votor ---------------- *)
Theorem C10_votor_panics_iff : forall own t i, vinv t -> vt_panicked t = false ->
  snd (votor_step own t i) = bad_parent_ready t i /\
  vinv (fst (fst (votor_step own t i))) /\
  vt_panicked (fst (fst (votor_step own t i))) = bad_parent_ready t i.
Proof. exact votor_step_panics_iff. Qed.

Theorem C10_votor_never_panics : forall own ins,
  forallb parent_ready_on_window_start ins = true ->
  vt_panicked (votor_run own ins) = false /\ vinv (votor_run own ins).
Proof. exact votor_never_panics. Qed.

Theorem C10_votor_misaligned_parent_ready_refuted :
  snd (votor_step 0 votor_init (VPool (EParentReady 5 (4, 1)))) = true.
Proof. exact votor_misaligned_parent_ready_refuted. Qed.

Theorem C10_pool_parent_ready_only_on_window_start : forall e p op,
  Forall ev_ok (po_events (snd (pool_step e p op))).
Proof. exact pool_step_parent_ready_on_window_start. Qed.

Theorem C10_votor_never_panics_on_pool_output : forall e own ins, node_input e ins ->
  vt_panicked (votor_run own ins) = false.
Proof. exact votor_never_panics_on_pool_output. Qed.

(* ---------------- u64 slots ---------------- *)
Theorem C10_votor_u64_is_votor : forall own t i, votor_step64 own t i = votor_step own t i.
Proof. exact votor_step64_is_votor_step. Qed.

Theorem C10_votor_u64_window_slots_fit : forall s s',
  s <= U64_MAX -> In s' (seqN (window_first s) (N.to_nat SLOTS_PER_WINDOW)) -> s' <= U64_MAX.
Proof. exact window_slots_fit_u64. Qed.

Theorem C10_votor_u64_never_panics : forall own ins,
  forallb parent_ready_on_window_start ins = true ->
  vt_panicked (votor_run64 own ins) = false.
Proof. exact votor64_never_panics. Qed.

Theorem C10_votor_u64_panics_iff : forall own t i, vinv t -> vt_panicked t = false ->
  snd (votor_step64 own t i) = bad_parent_ready t i.
Proof. exact votor_step64_panics_iff. Qed.

Theorem C10_pinned_votor_u64_panics_iff : forall own t i, vinv t -> vt_panicked t = false ->
  snd (votor_step64_pinned own t i) =
  (bad_parent_ready t i || match skip_window_target t i with Some s => window_overflows s | None => false end).
Proof. exact votor_step64_pinned_panics_iff. Qed.

Theorem C10_pinned_votor_u64_never_panics_below_last_window : forall own ins,
  forallb parent_ready_on_window_start ins = true -> forallb below_last_window ins = true ->
  vt_panicked (votor_run64_pinned own ins) = false.
Proof. exact votor64_pinned_never_panics_below_last_window. Qed.

Theorem C10_pinned_votor_last_window_refuted :
  snd (votor_step64_pinned 0 votor_init (VInvalidBlock U64_MAX)) = true /\
  snd (votor_step64_pinned 0 votor_init (VInvalidBlock (U64_MAX - 3))) = true /\
  snd (votor_step64_pinned 0 votor_init (VInvalidBlock (U64_MAX - 4))) = false /\
  snd (votor_step64 0 votor_init (VInvalidBlock U64_MAX)) = false /\
  snd (fst (votor_step64 0 votor_init (VInvalidBlock U64_MAX))) =
    map (fun s => VBVote (mkVote s KSkip 0)) [U64_MAX - 3; U64_MAX - 2; U64_MAX - 1; U64_MAX].
Proof. exact votor64_pinned_last_window_refuted. Qed.

(* ---------------- block producer ---------------- *)
Theorem C10_producer_never_panics : forall hp txs,
  match produce_slice hp txs with
  | PPanic => False
  | PFull l _ _ | PTimeout l _ _ => l <= buffer_space hp /\ slice_payload_len hp l <= MAX_DATA_PER_SLICE /\ shred_accepts hp l = true
  end.
Proof. exact produce_slice_never_panics. Qed.

Theorem C10_producer_contents : forall hp txs,
  exists (full : bool) (k : N),
    produce_slice hp txs = (if full then PFull else PTimeout) (8 + total (accepted k txs)) (N.of_nat (length (accepted k txs))) k /\
    k <= N.of_nat (length txs) /\ (full = false -> k = N.of_nat (length txs)) /\
    (full = true -> buffer_space hp - (8 + total (accepted k txs)) < MAX_TRANSACTION_SIZE + 8).
Proof. exact produce_slice_contents. Qed.

Theorem C10_pinned_producer_safe_within_limit : forall hp txs,
  Forall (fun p => p <= MAX_TRANSACTION_SIZE) txs ->
  match produce_slice_pinned hp txs with
  | PPanic => False
  | PFull l _ _ | PTimeout l _ _ => l <= buffer_space hp /\ shred_accepts hp l = true
  end.
Proof. exact produce_slice_pinned_safe. Qed.

Theorem C10_pinned_producer_panic_needs_oversize : forall hp txs,
  produce_slice_pinned hp txs = PPanic -> Exists (fun p => MAX_TRANSACTION_SIZE < p) txs.
Proof. exact produce_slice_pinned_panic_needs_oversize. Qed.

Theorem C10_pinned_producer_panics_exactly_when : forall space txs len count consumed,
  produce_gen false space len count consumed txs = PPanic <->
  exists pre p post, txs = pre ++ p :: post /\
    space < len + total pre + tx_encoded p /\
    (forall k, (k <= length pre)%nat -> k <> O ->
       MAX_TRANSACTION_SIZE + 8 <= space - (len + total (firstn k pre)) /\ len + total (firstn k pre) <= space).
Proof. exact produce_pinned_panics_iff. Qed.

Theorem C10_pinned_producer_oversize_refuted :
  Forall (fun p => tx_encoded p <= MTU_BYTES) oversize_witness /\
  produce_slice_pinned false oversize_witness = PPanic /\ produce_slice_pinned true oversize_witness = PPanic /\
  produce_slice false oversize_witness = PTimeout 31728 61 62.
Proof. exact produce_slice_pinned_oversize_refuted. Qed.

Theorem C10_pinned_producer_flood_refuted : forall hp,
  produce_slice_pinned hp (repeat (MTU_BYTES - 8) 22) = PPanic /\ produce_slice hp (repeat (MTU_BYTES - 8) 22) = PTimeout 8 0 22.
Proof. exact produce_slice_pinned_flood_refuted. Qed.

Theorem C10_handover_total : forall o r, apply_parent_ready o r <> AprPanic.
Proof. exact apply_parent_ready_total. Qed.

Theorem C10_handover_spec : forall o r,
  apply_parent_ready o r = if snd r =? snd o then AprKeep else AprSwitch r.
Proof. exact apply_parent_ready_spec. Qed.

Theorem C10_pinned_handover_panics_iff : forall o r,
  apply_parent_ready_pinned o r = AprPanic <-> (fst r = fst o /\ snd r <> snd o).
Proof. exact apply_parent_ready_pinned_panics_iff. Qed.

Theorem C10_pinned_handover_equivocation_refuted :
  apply_parent_ready_pinned (11, 1) (11, 2) = AprPanic /\ apply_parent_ready (11, 1) (11, 2) = AprSwitch (11, 2).
Proof. exact apply_parent_ready_pinned_equivocation_refuted. Qed.

(* ---------------- pool refusals ---------------- *)
Theorem C10_pool_refusals_harmless : forall e p,
  p_panicked p = false ->
  (forall v, out_of_bounds p (v_slot v) = true -> pool_step e p (OpVote v) = (p, RVerdict VOutOfBounds, po_empty)) /\
  (forall c, out_of_bounds p (c_slot c) = true -> pool_step e p (OpCert c) = (p, RVerdict VOutOfBounds, po_empty)) /\
  (forall c, out_of_bounds p (c_slot c) = false -> cert_duplicate (p_ss (p_touch p (c_slot c)) (c_slot c)) c = true ->
             pool_step e p (OpCert c) = (p_touch p (c_slot c), RVerdict VDuplicate, po_empty)).
Proof.
  intros e p Hp. split; [|split].
  - intros v H. apply pool_out_of_bounds_vote_harmless; assumption.
  - intros c H. apply pool_out_of_bounds_cert_harmless; assumption.
  - intros c H1 H2. apply pool_duplicate_cert_harmless; assumption.
Qed.

(* ---------------- the theorems are about something: a hostile run that exercises every model ---------------- *)
Example C10_nonvacuous :
  (* a Byzantine-signed one-slice block whose first slice carries no parent, then a correct block: flagged / announced *)
  let ct := [(1, DecOk None true); (2, DecOk (Some (4, 3)) true)] in
  let bad := map (fun i => BDissem (mkBS 0 true 1 i (i <? DATA_SHREDS) 64)) (seqN 0 33) in
  let good := map (fun i => BDissem (mkBS 0 true 2 i (i <? DATA_SHREDS) 64)) (seqN 0 33) in
  (existsb (fun r => match r with BRErr EInvalidShred => true | _ => false end) (snd (bs_run true ct 5 sd_empty bad)),
   existsb (fun r => match r with BROk (Some _) => true | _ => false end) (snd (bs_run true ct 5 sd_empty good)),
   (* Votor: a window skipped after an invalid block, votes cast, no panic *)
   snd (votor_step 0 votor_init (VInvalidBlock 6)),
   length (snd (fst (votor_step 0 votor_init (VInvalidBlock 6)))),
   (* the producer fills a slice with maximal in-limit transactions and stops *)
   produce_slice false (repeat 512 100))
  = (true, true, false, 4%nat, PFull 32248 62 62).
Proof. vm_compute. reflexivity. Qed.

Print Assumptions C10_blockstore_never_panics.
Print Assumptions C10_blockstore_step_never_panics.
Print Assumptions C10_blockstore_blocks_pass_add_block_assert.
Print Assumptions C10_pinned_future_parent_refuted.
Print Assumptions C10_pool_add_block_assert.
Print Assumptions C10_repair_never_panics.
Print Assumptions C10_repaired_block_passes_add_block_assert.
Print Assumptions C10_votor_panics_iff.
Print Assumptions C10_votor_never_panics.
Print Assumptions C10_votor_misaligned_parent_ready_refuted.
Print Assumptions C10_pool_parent_ready_only_on_window_start.
Print Assumptions C10_votor_never_panics_on_pool_output.
Print Assumptions C10_votor_u64_is_votor.
Print Assumptions C10_votor_u64_window_slots_fit.
Print Assumptions C10_votor_u64_never_panics.
Print Assumptions C10_votor_u64_panics_iff.
Print Assumptions C10_pinned_votor_u64_panics_iff.
Print Assumptions C10_pinned_votor_u64_never_panics_below_last_window.
Print Assumptions C10_pinned_votor_last_window_refuted.
Print Assumptions C10_producer_never_panics.
Print Assumptions C10_producer_contents.
Print Assumptions C10_pinned_producer_safe_within_limit.
Print Assumptions C10_pinned_producer_panic_needs_oversize.
Print Assumptions C10_pinned_producer_panics_exactly_when.
Print Assumptions C10_pinned_producer_oversize_refuted.
Print Assumptions C10_pinned_producer_flood_refuted.
Print Assumptions C10_handover_total.
Print Assumptions C10_handover_spec.
Print Assumptions C10_pinned_handover_panics_iff.
Print Assumptions C10_pinned_handover_equivocation_refuted.
Print Assumptions C10_pool_refusals_harmless.
Print Assumptions C10_nonvacuous.
