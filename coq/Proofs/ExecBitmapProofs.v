(* The bitmap-compressed branch (u32 bitmap + dense child vector) seen as a 32-slot array of optional
   children: child_index / insert_child / remove_child / in-place replacement are array reads and
   writes, the child vector is the array without its empty slots, and the array determines the branch. *)
From Coq Require Import List NArith Bool Arith PeanoNat Lia ZifyBool ZifyNat ZifyN.
From AG Require Import Model.ExecState Proofs.ExecWinProofs.
Import ListNotations.
Open Scope N_scope.

(* ---------- generic list facts ---------- *)
Lemma set_nth_length : forall (A : Type) (l : list A) i x, (i < length l)%nat -> length (set_nth i x l) = length l.
Proof.
  intros A l i x H. unfold set_nth. rewrite app_length, firstn_length. cbn [length]. rewrite skipn_length. lia.
Qed.
Lemma set_nth_nth : forall (A : Type) (l : list A) i x j d, (i < length l)%nat ->
  nth j (set_nth i x l) d = if Nat.eqb j i then x else nth j l d.
Proof.
  induction l as [|a l IH]; intros i x j d H; cbn [length] in H; [lia|].
  destruct i as [|i]; destruct j as [|j]; try reflexivity.
  change (set_nth (S i) x (a :: l)) with (a :: set_nth i x l). cbn [nth]. rewrite IH by lia. reflexivity.
Qed.
Lemma set_nth_nth_error : forall (A : Type) (l : list A) i x j, (i < length l)%nat ->
  nth_error (set_nth i x l) j = if Nat.eqb j i then Some x else nth_error l j.
Proof.
  induction l as [|a l IH]; intros i x j H; cbn [length] in H; [lia|].
  destruct i as [|i]; destruct j as [|j]; try reflexivity.
  change (set_nth (S i) x (a :: l)) with (a :: set_nth i x l). cbn [nth_error]. rewrite IH by lia. reflexivity.
Qed.
Lemma set_nth_cons_S : forall (A : Type) (a : A) l i x, set_nth (S i) x (a :: l) = a :: set_nth i x l.
Proof. reflexivity. Qed.
Lemma set_nth_cons_0 : forall (A : Type) (a : A) l x, set_nth 0 x (a :: l) = x :: l.
Proof. reflexivity. Qed.
Lemma insert_at_cons_S : forall (A : Type) (a : A) l i x, insert_at (S i) x (a :: l) = a :: insert_at i x l.
Proof. reflexivity. Qed.
Lemma remove_at_cons_S : forall (A : Type) (a : A) l i, remove_at (S i) (a :: l) = a :: remove_at i l.
Proof. reflexivity. Qed.
Lemma set_nth_split : forall (A : Type) (l : list A) i x, set_nth i x l = firstn i l ++ x :: skipn (S i) l.
Proof. reflexivity. Qed.
Lemma set_nth_same : forall (A : Type) (l : list A) i x, nth_error l i = Some x -> set_nth i x l = l.
Proof.
  induction l as [|a l IH]; intros [|i] x E; cbn in E; try discriminate.
  - injection E as ->. reflexivity.
  - rewrite set_nth_cons_S, IH; auto.
Qed.

(* ---------- popcount = number of set bits ---------- *)
Fixpoint count_true (l : list bool) : nat :=
  match l with [] => 0%nat | true :: t => S (count_true t) | false :: t => count_true t end.

Lemma Nrange_S : forall n, Nrange (S n) = 0 :: map N.succ (Nrange n).
Proof.
  intros n. unfold Nrange. cbn [seq map]. f_equal. rewrite <- seq_shift, !map_map.
  apply map_ext. intros a. lia.
Qed.
Lemma popcount_div2 : forall n, popcount n = ((if N.odd n then 1 else 0) + popcount (N.div2 n))%nat.
Proof. intros [|[p|p|]]; reflexivity. Qed.
Lemma popcount_bits : forall k n, n < 2 ^ N.of_nat k -> popcount n = count_true (map (N.testbit n) (Nrange k)).
Proof.
  induction k as [|k IH]; intros n Hn.
  - cbn in Hn. assert (n = 0) by lia. subst. reflexivity.
  - rewrite Nrange_S. cbn [map]. rewrite map_map.
    rewrite (map_ext (fun x => N.testbit n (N.succ x)) (N.testbit (N.div2 n)))
      by (intros a; apply N.testbit_succ_r_div2; lia).
    rewrite popcount_div2, N.bit0_odd.
    rewrite (IH (N.div2 n)).
    + destruct (N.odd n); reflexivity.
    + rewrite N.div2_div. apply N.div_lt_upper_bound; [lia|].
      rewrite Nat2N.inj_succ, N.pow_succ_r' in Hn. exact Hn.
Qed.

Definition bits (bm : N) : list bool := map (N.testbit bm) (Nrange 32).
Lemma bits_length : forall bm, length (bits bm) = 32%nat.
Proof. intros. unfold bits, Nrange. rewrite !map_length, seq_length. reflexivity. Qed.
Lemma Nrange_nth : forall n j, (j < n)%nat -> nth j (Nrange n) 0 = N.of_nat j.
Proof.
  intros n j H. unfold Nrange. change 0 with (N.of_nat 0). rewrite map_nth, seq_nth by lia. reflexivity.
Qed.
Lemma bits_nth : forall bm j, (j < 32)%nat -> nth j (bits bm) false = N.testbit bm (N.of_nat j).
Proof.
  intros bm j H. unfold bits.
  rewrite (nth_indep _ false (N.testbit bm 0)) by (rewrite map_length; unfold Nrange; rewrite map_length, seq_length; lia).
  rewrite map_nth, Nrange_nth by lia. reflexivity.
Qed.
Lemma bits_firstn : forall bm c, (c <= 32)%nat -> firstn c (bits bm) = map (N.testbit bm) (Nrange c).
Proof.
  intros bm c H. unfold bits, Nrange. rewrite !firstn_map. do 2 f_equal.
  replace 32%nat with (c + (32 - c))%nat by lia. rewrite seq_app, firstn_app, seq_length.
  replace (c - c)%nat with 0%nat by lia. cbn [firstn]. rewrite app_nil_r.
  rewrite firstn_all2; auto. rewrite seq_length. lia.
Qed.

Lemma shiftl1 : forall c, N.shiftl 1 c = 2 ^ c.
Proof. intros. apply N.shiftl_1_l. Qed.

Lemma rank_spec : forall bm c, c <= 32 -> rank bm c = count_true (firstn (N.to_nat c) (bits bm)).
Proof.
  intros bm c Hc. unfold rank. rewrite shiftl1, N.sub_1_r, <- N.ones_equiv, N.land_ones.
  rewrite bits_firstn by lia.
  rewrite (popcount_bits (N.to_nat c)) by (rewrite N2Nat.id; apply N.mod_lt, N.pow_nonzero; lia).
  f_equal. apply map_ext_in. intros a Ha. unfold Nrange in Ha. apply in_map_iff in Ha.
  destruct Ha as [j [<- Hj]]. apply in_seq in Hj. apply N.mod_pow2_bits_low. lia.
Qed.

Lemma land_pow2_zero : forall bm c, (N.land bm (2 ^ c) =? 0) = negb (N.testbit bm c).
Proof.
  intros bm c. destruct (N.testbit bm c) eqn:E; cbn [negb].
  - apply N.eqb_neq. intros Z. assert (X : N.testbit (N.land bm (2 ^ c)) c = true).
    { rewrite N.land_spec, E, N.pow2_bits_true. reflexivity. }
    rewrite Z in X. rewrite N.bits_0 in X. discriminate.
  - apply N.eqb_eq. apply N.bits_inj. intros i. rewrite N.land_spec, N.bits_0, N.pow2_bits_eqb.
    destruct (N.eqb_spec c i); subst; [rewrite E|]; rewrite ?andb_false_r; reflexivity.
Qed.

Lemma child_index_spec : forall bm c, c < 32 ->
  child_index bm c = if nth (N.to_nat c) (bits bm) false
                     then Some (count_true (firstn (N.to_nat c) (bits bm))) else None.
Proof.
  intros bm c Hc. unfold child_index. rewrite shiftl1, land_pow2_zero, bits_nth, N2Nat.id by lia.
  rewrite rank_spec by lia. destruct (N.testbit bm c); reflexivity.
Qed.

(* bits after setting / clearing one bit *)
Lemma bits_ext_upd : forall bm bm' c x, c < 32 ->
  (forall j, j < 32 -> N.testbit bm' j = if j =? c then x else N.testbit bm j) ->
  bits bm' = set_nth (N.to_nat c) x (bits bm).
Proof.
  intros bm bm' c x Hc E. apply nth_ext with (d := false) (d' := false).
  - rewrite set_nth_length; rewrite !bits_length; lia.
  - intros n Hn. rewrite bits_length in Hn.
    rewrite set_nth_nth by (rewrite bits_length; lia). rewrite !bits_nth by lia. rewrite E by lia.
    destruct (N.eqb_spec (N.of_nat n) c); destruct (Nat.eqb_spec n (N.to_nat c)); auto; lia.
Qed.
Lemma bits_set : forall bm c, c < 32 -> bits (N.lor bm (N.shiftl 1 c)) = set_nth (N.to_nat c) true (bits bm).
Proof.
  intros bm c Hc. apply bits_ext_upd; auto. intros j Hj. rewrite shiftl1, N.lor_spec, N.pow2_bits_eqb.
  destruct (N.eqb_spec j c); destruct (N.eqb_spec c j); subst; try lia; rewrite ?orb_true_r, ?orb_false_r; reflexivity.
Qed.
Lemma bits_clear : forall bm c, c < 32 -> bits (N.ldiff bm (N.shiftl 1 c)) = set_nth (N.to_nat c) false (bits bm).
Proof.
  intros bm c Hc. apply bits_ext_upd; auto. intros j Hj. rewrite shiftl1, N.ldiff_spec, N.pow2_bits_eqb.
  destruct (N.eqb_spec j c); destruct (N.eqb_spec c j); subst; try lia; cbn [negb]; rewrite ?andb_true_r, ?andb_false_r; reflexivity.
Qed.

(* bm < 2^32 as "no bit at or above 32" *)
Lemma lt32_hi : forall n, n < 2 ^ 32 <-> (forall i, 32 <= i -> N.testbit n i = false).
Proof.
  intros n. split.
  - intros H i Hi. rewrite <- (N.mod_small n (2 ^ 32)) by exact H. apply N.mod_pow2_bits_high. exact Hi.
  - intros H. assert (E : n = n mod 2 ^ 32).
    { apply N.bits_inj. intros i. destruct (N.lt_ge_cases i 32).
      - rewrite N.mod_pow2_bits_low; auto.
      - rewrite N.mod_pow2_bits_high, H; auto. }
    rewrite E. apply N.mod_lt. apply N.pow_nonzero. lia.
Qed.
Lemma lor_bit_lt32 : forall bm c, bm < 2 ^ 32 -> c < 32 -> N.lor bm (N.shiftl 1 c) < 2 ^ 32.
Proof.
  intros bm c H Hc. apply lt32_hi. intros i Hi. rewrite shiftl1, N.lor_spec, N.pow2_bits_eqb.
  rewrite (proj1 (lt32_hi bm) H i Hi). destruct (N.eqb_spec c i); [lia | reflexivity].
Qed.
Lemma ldiff_lt32 : forall bm m, bm < 2 ^ 32 -> N.ldiff bm m < 2 ^ 32.
Proof.
  intros bm m H. apply lt32_hi. intros i Hi. rewrite N.ldiff_spec, (proj1 (lt32_hi bm) H i Hi). reflexivity.
Qed.
Lemma bits_inj : forall a b, a < 2 ^ 32 -> b < 2 ^ 32 -> bits a = bits b -> a = b.
Proof.
  intros a b Ha Hb E. apply N.bits_inj. intros i. destruct (N.lt_ge_cases i 32).
  - assert (X : nth (N.to_nat i) (bits a) false = nth (N.to_nat i) (bits b) false) by (rewrite E; reflexivity).
    rewrite !bits_nth, N2Nat.id in X by lia. exact X.
  - rewrite (proj1 (lt32_hi a) Ha), (proj1 (lt32_hi b) Hb); auto.
Qed.

(* ---------- the 32-slot view ---------- *)
Fixpoint expand (bs : list bool) (cs : list node) : list (option node) :=
  match bs with
  | [] => []
  | false :: t => None :: expand t cs
  | true :: t => match cs with c :: r => Some c :: expand t r | [] => None :: expand t [] end
  end.
Definition opt_list {A} (o : option A) : list A := match o with Some x => [x] | None => [] end.

Lemma expand_length : forall bs cs, length (expand bs cs) = length bs.
Proof. induction bs as [|[|] bs IH]; intros [|c cs]; cbn; auto. Qed.

Lemma expand_nth : forall bs cs i,
  nth i (expand bs cs) None = if nth i bs false then nth_error cs (count_true (firstn i bs)) else None.
Proof.
  induction bs as [|b bs IH]; intros cs i.
  - destruct i; reflexivity.
  - destruct i as [|i].
    + destruct b; destruct cs; reflexivity.
    + destruct b; cbn [expand nth firstn count_true].
      * destruct cs as [|c r]; cbn [nth]; rewrite IH; cbn [nth_error]; auto.
        destruct (nth i bs false); auto. destruct (count_true (firstn i bs)); reflexivity.
      * cbn [nth]. apply IH.
Qed.

Lemma count_true_set_true : forall bs i, (i < length bs)%nat -> nth i bs false = false ->
  count_true (set_nth i true bs) = S (count_true bs).
Proof.
  induction bs as [|b bs IH]; intros [|i] L E; cbn [length] in L; try lia.
  - cbn in E. subst. reflexivity.
  - rewrite set_nth_cons_S. destruct b; cbn [count_true]; rewrite IH; auto; lia.
Qed.
Lemma count_true_set_false : forall bs i, (i < length bs)%nat -> nth i bs false = true ->
  S (count_true (set_nth i false bs)) = count_true bs.
Proof.
  induction bs as [|b bs IH]; intros [|i] L E; cbn [length] in L; try lia.
  - cbn in E. subst. reflexivity.
  - rewrite set_nth_cons_S. destruct b; cbn [count_true]; rewrite <- (IH i); auto; lia.
Qed.
Lemma count_true_firstn_le : forall bs i, (count_true (firstn i bs) <= count_true bs)%nat.
Proof.
  induction bs as [|b bs IH]; intros [|i]; cbn [firstn]; try apply Nat.le_0_l.
  specialize (IH i). destruct b; cbn [count_true]; lia.
Qed.
Lemma count_true_firstn_lt : forall bs i, nth i bs false = true -> (count_true (firstn i bs) < count_true bs)%nat.
Proof.
  induction bs as [|b bs IH]; intros [|i] E; cbn in E; try discriminate.
  - subst. cbn. lia.
  - specialize (IH i E). destruct b; cbn [firstn count_true]; lia.
Qed.

Lemma expand_insert : forall bs cs i n, (i < length bs)%nat -> nth i bs false = false ->
  length cs = count_true bs ->
  expand (set_nth i true bs) (insert_at (count_true (firstn i bs)) n cs) = set_nth i (Some n) (expand bs cs).
Proof.
  induction bs as [|b bs IH]; intros cs [|i] n L E LC; cbn [length] in L; try lia.
  - cbn in E. subst. reflexivity.
  - rewrite set_nth_cons_S. cbn in E. destruct b; cbn [firstn count_true] in *.
    + destruct cs as [|c r]; [discriminate|]. rewrite insert_at_cons_S. cbn [expand]. rewrite set_nth_cons_S.
      f_equal. apply IH; auto; cbn in LC; lia.
    + cbn [expand]. rewrite set_nth_cons_S. f_equal. apply IH; auto; lia.
Qed.
Lemma expand_set : forall bs cs i n, nth i bs false = true -> length cs = count_true bs ->
  expand bs (set_nth (count_true (firstn i bs)) n cs) = set_nth i (Some n) (expand bs cs).
Proof.
  induction bs as [|b bs IH]; intros cs [|i] n E LC; cbn in E; try discriminate.
  - subst. destruct cs as [|c r]; [discriminate|]. reflexivity.
  - destruct b; cbn [firstn count_true] in *.
    + destruct cs as [|c r]; [discriminate|]. rewrite set_nth_cons_S. cbn [expand]. rewrite set_nth_cons_S.
      f_equal. apply IH; auto; cbn in LC; lia.
    + cbn [expand]. rewrite set_nth_cons_S. f_equal. apply IH; auto.
Qed.
Lemma expand_remove : forall bs cs i, nth i bs false = true -> length cs = count_true bs ->
  expand (set_nth i false bs) (remove_at (count_true (firstn i bs)) cs) = set_nth i None (expand bs cs).
Proof.
  induction bs as [|b bs IH]; intros cs [|i] E LC; cbn in E; try discriminate.
  - subst. destruct cs as [|c r]; [discriminate|]. reflexivity.
  - rewrite set_nth_cons_S. destruct b; cbn [firstn count_true] in *.
    + destruct cs as [|c r]; [discriminate|]. rewrite remove_at_cons_S. cbn [expand]. rewrite set_nth_cons_S.
      f_equal. apply IH; auto; cbn in LC; lia.
    + cbn [expand]. rewrite set_nth_cons_S. f_equal. apply IH; auto.
Qed.
Lemma expand_children : forall bs cs, length cs = count_true bs -> flat_map opt_list (expand bs cs) = cs.
Proof.
  induction bs as [|b bs IH]; intros cs LC.
  - destruct cs; [reflexivity | discriminate].
  - destruct b; cbn [count_true] in LC.
    + destruct cs as [|c r]; [discriminate|]. cbn [expand flat_map opt_list app]. f_equal. apply IH. cbn in LC. lia.
    + cbn [expand flat_map opt_list app]. apply IH; auto.
Qed.
Lemma expand_inj : forall bs1 bs2 cs1 cs2, length cs1 = count_true bs1 -> length cs2 = count_true bs2 ->
  length bs1 = length bs2 -> expand bs1 cs1 = expand bs2 cs2 -> bs1 = bs2 /\ cs1 = cs2.
Proof.
  induction bs1 as [|b1 bs1 IH]; intros [|b2 bs2] cs1 cs2 L1 L2 LB E; cbn [length] in LB; try lia.
  - destruct cs1, cs2; try discriminate. auto.
  - destruct b1, b2; cbn [count_true] in *.
    + destruct cs1 as [|c1 r1]; [discriminate|]. destruct cs2 as [|c2 r2]; [discriminate|].
      cbn [expand] in E. injection E as E1 E2. subst. cbn in L1, L2.
      destruct (IH bs2 r1 r2) as [-> ->]; auto; lia.
    + destruct cs1 as [|c1 r1]; [discriminate|]. cbn [expand] in E. discriminate.
    + destruct cs2 as [|c2 r2]; [discriminate|]. cbn [expand] in E. discriminate.
    + cbn [expand] in E. injection E as E. destruct (IH bs2 cs1 cs2) as [-> ->]; auto; lia.
Qed.

(* ---------- branch-level statements ---------- *)
Definition slots (bm : N) (cs : list node) : list (option node) := expand (bits bm) cs.
Definition bwf (bm : N) (cs : list node) : Prop := bm < 2 ^ 32 /\ length cs = count_true (bits bm).
Definition child_of (bm : N) (cs : list node) (c : N) : option node :=
  match child_index bm c with Some idx => nth_error cs idx | None => None end.
Definition slot (sl : list (option node)) (c : N) : option node := nth (N.to_nat c) sl None.

Lemma slots_unfold : forall bm cs, slots bm cs = expand (bits bm) cs.
Proof. reflexivity. Qed.

Lemma slots_length : forall bm cs, length (slots bm cs) = 32%nat.
Proof. intros. unfold slots. rewrite expand_length. apply bits_length. Qed.

Lemma child_of_slot : forall bm cs c, c < 32 -> child_of bm cs c = slot (slots bm cs) c.
Proof.
  intros bm cs c Hc. unfold child_of, slot, slots. rewrite child_index_spec by auto. rewrite expand_nth.
  destruct (nth (N.to_nat c) (bits bm) false); reflexivity.
Qed.

Lemma bwf_empty : bwf 0 [].
Proof. split; [reflexivity | reflexivity]. Qed.
Lemma slots_empty : slots 0 [] = repeat None 32.
Proof. reflexivity. Qed.

Lemma child_index_none_bit : forall bm c, c < 32 -> child_index bm c = None -> nth (N.to_nat c) (bits bm) false = false.
Proof. intros bm c Hc E. rewrite child_index_spec in E by auto. destruct (nth (N.to_nat c) (bits bm) false); [discriminate | reflexivity]. Qed.
Lemma child_index_some_bit : forall bm c idx, c < 32 -> child_index bm c = Some idx ->
  nth (N.to_nat c) (bits bm) false = true /\ idx = count_true (firstn (N.to_nat c) (bits bm)).
Proof.
  intros bm c idx Hc E. rewrite child_index_spec in E by auto.
  destruct (nth (N.to_nat c) (bits bm) false); [injection E as <-; auto | discriminate].
Qed.

Lemma insert_child_spec : forall bm cs c n, c < 32 -> bwf bm cs -> child_index bm c = None ->
  bwf (fst (insert_child bm cs c n)) (snd (insert_child bm cs c n)) /\
  slots (fst (insert_child bm cs c n)) (snd (insert_child bm cs c n)) = set_nth (N.to_nat c) (Some n) (slots bm cs).
Proof.
  intros bm cs c n Hc [B L] E. apply child_index_none_bit in E; auto. unfold insert_child. cbn [fst snd].
  rewrite rank_spec by lia. unfold slots, bwf. rewrite bits_set by auto.
  assert (Hl : (N.to_nat c < length (bits bm))%nat) by (rewrite bits_length; lia).
  split; [split|].
  - apply lor_bit_lt32; auto.
  - rewrite count_true_set_true by auto. unfold insert_at. rewrite app_length, firstn_length. cbn [length].
    rewrite skipn_length. pose proof (count_true_firstn_le (bits bm) (N.to_nat c)). lia.
  - apply expand_insert; auto.
Qed.
Lemma set_child_spec : forall bm cs c idx n, c < 32 -> bwf bm cs -> child_index bm c = Some idx ->
  bwf bm (set_nth idx n cs) /\ slots bm (set_nth idx n cs) = set_nth (N.to_nat c) (Some n) (slots bm cs).
Proof.
  intros bm cs c idx n Hc [B L] E. apply child_index_some_bit in E; auto. destruct E as [E ->].
  pose proof (count_true_firstn_lt _ _ E). split; [split; auto|].
  - rewrite set_nth_length; lia.
  - unfold slots. apply expand_set; auto.
Qed.
Lemma remove_child_spec : forall bm cs c idx, c < 32 -> bwf bm cs -> child_index bm c = Some idx ->
  bwf (fst (remove_child bm cs idx c)) (snd (remove_child bm cs idx c)) /\
  slots (fst (remove_child bm cs idx c)) (snd (remove_child bm cs idx c)) = set_nth (N.to_nat c) None (slots bm cs).
Proof.
  intros bm cs c idx Hc [B L] E. apply child_index_some_bit in E; auto. destruct E as [E ->].
  unfold remove_child. cbn [fst snd]. unfold slots, bwf. rewrite bits_clear by auto.
  assert (Hl : (N.to_nat c < length (bits bm))%nat) by (rewrite bits_length; lia).
  pose proof (count_true_firstn_lt _ _ E). pose proof (count_true_set_false _ _ Hl E).
  split; [split|].
  - apply ldiff_lt32; auto.
  - unfold remove_at. rewrite app_length, firstn_length, skipn_length. lia.
  - apply expand_remove; auto.
Qed.
Lemma slots_children : forall bm cs, bwf bm cs -> flat_map opt_list (slots bm cs) = cs.
Proof. intros bm cs [_ L]. apply expand_children; auto. Qed.
Lemma slots_inj : forall bm1 cs1 bm2 cs2, bwf bm1 cs1 -> bwf bm2 cs2 -> slots bm1 cs1 = slots bm2 cs2 ->
  bm1 = bm2 /\ cs1 = cs2.
Proof.
  intros bm1 cs1 bm2 cs2 [B1 L1] [B2 L2] E.
  assert (LB : length (bits bm1) = length (bits bm2)) by (rewrite !bits_length; reflexivity).
  rewrite (slots_unfold bm1 cs1), (slots_unfold bm2 cs2) in E.
  pose proof (expand_inj (bits bm1) (bits bm2) cs1 cs2 L1 L2 LB E) as [Eb Ec].
  split; [apply (bits_inj bm1 bm2 B1 B2 Eb) | exact Ec].
Qed.
Lemma slot_set_nth : forall sl c x c', length sl = 32%nat -> c < 32 ->
  slot (set_nth (N.to_nat c) x sl) c' = if c' =? c then x else slot sl c'.
Proof.
  intros sl c x c' L Hc. unfold slot. rewrite set_nth_nth by lia.
  destruct (Nat.eqb_spec (N.to_nat c') (N.to_nat c)); destruct (N.eqb_spec c' c); auto; lia.
Qed.

Lemma child_cases : forall bm cs c, c < 32 -> bwf bm cs ->
  (child_index bm c = None /\ slot (slots bm cs) c = None) \/
  (exists idx ch, child_index bm c = Some idx /\ nth_error cs idx = Some ch /\ slot (slots bm cs) c = Some ch).
Proof.
  intros bm cs c Hc W. pose proof (child_of_slot bm cs c Hc) as E. unfold child_of in E.
  destruct (child_index bm c) as [idx|] eqn:CI.
  - right. destruct W as [B L]. destruct (child_index_some_bit _ _ _ Hc CI) as [Hb ->].
    pose proof (count_true_firstn_lt _ _ Hb) as Lt. rewrite <- L in Lt.
    destruct (nth_error cs (count_true (firstn (N.to_nat c) (bits bm)))) as [ch|] eqn:NE.
    + exists (count_true (firstn (N.to_nat c) (bits bm))), ch. auto.
    + apply nth_error_None in NE. lia.
  - left. auto.
Qed.

Global Opaque slots bits.
