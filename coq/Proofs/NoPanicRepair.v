(* C10: the repair requester model (Model/Repair.v) never reaches its unreachable!() nor the blockstore's
   expects, for ANY sequence of repair starts, responses (from anyone, of any content) and time-outs. *)
From Coq Require Import List NArith Bool Lia.
From AG Require Import Gen.Params Model.Pool Model.Blockstore Model.Repair
     Proofs.SlotStateProofs Proofs.BlockstoreProofs Proofs.RepairProofs Proofs.NoPanicBlockstore.
Import ListNotations.
Open Scope N_scope.

Definition repair_ok (rp : repair) : Prop :=
  rp_panicked rp = false /\ roots_known rp /\ inv_sd (rp_store rp) /\ sd_panicked (rp_store rp) = false.

Lemma repair_ok_init : repair_ok repair_init.
Proof. split; [reflexivity|]. split; [intros b s i H; discriminate H|]. split; [apply inv_sd_empty|reflexivity]. Qed.

Theorem repair_step_no_panic : forall keep ct slot expected rp o,
  repair_ok rp -> repair_ok (fst (repair_step keep ct slot expected rp o)).
Proof.
  intros keep ct slot expected rp o [Hp [Hr [Hi Hs]]].
  split; [|split; [apply roots_known_step, Hr|]].
  - (* the requester's own flag *)
    destruct (rp_panicked (fst (repair_step keep ct slot expected rp o))) eqn:E; [|reflexivity]. exfalso.
    destruct o as [k|p|r]; cbn [repair_step] in E.
    + unfold repair_block in E. rewrite Hp in E. destruct (have_block _ _); cbn in E; congruence.
    + destruct keep.
      * destruct (unreachable_is_unreachable ct slot expected rp p Hr Hp E) as [b [sl [ix [so [s [sg [sd [evs [_ Hb]]]]]]]]].
        destruct (bs_step_network_no_panic true ct slot (rp_store rp) (BRepair b (expected b) s) Hi Hs eq_refl) as [_ [_ Hn]].
        rewrite Hb in Hn. cbn in Hn. congruence.
      * (* pinned variant (request dropped on any response): same reasoning, unfolded *)
        unfold handle_response, handle_response_gen in E. rewrite Hp in E.
        destruct (has_req rp (resp_req p)) eqn:Hh; cbn [negb] in E; [|cbn in E; congruence].
        destruct p as [r|r last root ok|r root ok|r slot_ok s sig_ok]; cbn [resp_req] in *.
        -- cbn in E. congruence.
        -- destruct r; cbn in E; try congruence. destruct ok; cbn in E; congruence.
        -- destruct r; cbn in E; try congruence. destruct ok; cbn in E; congruence.
        -- destruct r as [| |b sl ix]; try (cbn in E; congruence).
           destruct (negb (slot_ok && (b_slice s =? sl) && (b_index s =? ix))); [cbn in E; congruence|].
           destruct (negb (shred_tag_ok s)); [cbn in E; congruence|].
           destruct (true && negb (Bool.eqb (b_last s) (is_last_slice rp b sl))); [cbn in E; congruence|].
           destruct (root_lookup (b, sl) (rp_roots rp)) as [root|] eqn:Hl; [|exfalso; apply (Hr b sl ix Hh); exact Hl].
           destruct (negb (b_root s =? root)); [cbn in E; congruence|]. destruct (negb sig_ok); [cbn in E; congruence|].
           cbn [rp_store rp_outstanding rp_roots rp_lasts rp_panicked] in E.
           destruct (bs_step_network_no_panic true ct slot (rp_store rp) (BRepair b (expected b) s) Hi Hs eq_refl) as [_ [_ Hn]].
           destruct (bs_step true ct slot (rp_store rp) (BRepair b (expected b) s)) as [[sd ret] evs].
           destruct ret as [[[h par]|]| |]; cbn in E, Hn; congruence.
    + unfold timeout in E. rewrite Hp in E. destruct (has_req rp r); cbn in E; congruence.
  - (* the store *)
    destruct o as [k|p|r]; cbn [repair_step].
    + unfold repair_block. rewrite Hp. destruct (have_block _ _); cbn; auto.
    + unfold handle_response, handle_response_gen. rewrite Hp.
      destruct (has_req rp (resp_req p)); cbn [negb]; [|cbn; auto].
      assert (Hign : forall pn, let X := (if keep then (rp, @nil rout) else (mkRepair (del_req (rp_outstanding rp) (resp_req p)) (rp_roots rp) (rp_lasts rp) (rp_store rp) pn, [])) in
                     inv_sd (rp_store (fst X)) /\ sd_panicked (rp_store (fst X)) = false).
      { intros pn. destruct keep; cbn; auto. }
      destruct p as [r|r last root ok|r root ok|r slot_ok s sig_ok]; cbn [resp_req] in *.
      * cbn; auto.
      * destruct r; try apply Hign. destruct ok; [cbn; auto|apply Hign].
      * destruct r; try apply Hign. destruct ok; [cbn; auto|apply Hign].
      * destruct r as [| |b sl ix]; try apply Hign.
        destruct (negb (slot_ok && (b_slice s =? sl) && (b_index s =? ix))); [apply Hign|].
        destruct (negb (shred_tag_ok s)); [apply Hign|].
        destruct (true && negb (Bool.eqb (b_last s) (is_last_slice rp b sl))); [apply Hign|].
        destruct (root_lookup (b, sl) (rp_roots rp)) as [root|]; [|cbn; auto].
        destruct (negb (b_root s =? root)); [apply Hign|]. destruct (negb sig_ok); [apply Hign|].
        cbn [rp_store rp_outstanding rp_roots rp_lasts rp_panicked].
        destruct (bs_step_network_no_panic true ct slot (rp_store rp) (BRepair b (expected b) s) Hi Hs eq_refl) as [I1 [P1 _]].
        destruct (bs_step true ct slot (rp_store rp) (BRepair b (expected b) s)) as [[sd ret] evs]. cbn [fst snd] in *.
        destruct ret as [[[h par]|]| |]; cbn; auto.
    + unfold timeout. rewrite Hp. destruct (has_req rp r); cbn; auto.
Qed.

Theorem repair_never_panics : forall keep ct slot expected ops,
  repair_ok (repair_run keep ct slot expected ops).
Proof.
  intros keep ct slot expected ops. unfold repair_run.
  pose proof repair_ok_init as H0. revert H0. generalize repair_init.
  induction ops as [|o ops IH]; intros rp H; cbn [fold_left]; [exact H|].
  apply IH. apply repair_step_no_panic. exact H.
Qed.

(* what the requester hands to Pool::add_block: the requested hash, and a parent in an earlier slot *)
Theorem repaired_block_parent_earlier : forall keep ct slot expected rp p key h par,
  repair_ok rp -> In (OBlockToPool key h par) (snd (handle_response keep ct slot expected rp p)) -> fst par < slot.
Proof.
  intros keep ct slot expected rp p key h par [Hp _] Hin. unfold handle_response, handle_response_gen in Hin. rewrite Hp in Hin.
  destruct (negb (has_req rp (resp_req p))); [destruct Hin|].
  assert (Hign : forall pn, ~ In (OBlockToPool key h par) (snd (if keep then (rp, @nil rout) else (mkRepair (del_req (rp_outstanding rp) (resp_req p)) (rp_roots rp) (rp_lasts rp) (rp_store rp) pn, [])))).
  { intros pn. destruct keep; intros []. }
  assert (Hsend : forall rp0 rs, ~ In (OBlockToPool key h par) (snd (send_all rp0 rs))).
  { intros rp0 rs H. cbn in H. apply in_map_iff in H. destruct H as [x [E _]]. discriminate. }
  destruct p as [r|r last root ok|r root ok|r slot_ok s sig_ok]; cbn [resp_req] in *.
  - exfalso. eapply Hsend, Hin.
  - destruct r; try (exfalso; eapply Hign, Hin). destruct ok; exfalso; [eapply Hsend, Hin|eapply Hign, Hin].
  - destruct r; try (exfalso; eapply Hign, Hin). destruct ok; exfalso; [eapply Hsend, Hin|eapply Hign, Hin].
  - destruct r as [| |b sl ix]; try (exfalso; eapply Hign, Hin).
    destruct (negb (slot_ok && (b_slice s =? sl) && (b_index s =? ix))); [exfalso; eapply Hign, Hin|].
    destruct (negb (shred_tag_ok s)); [exfalso; eapply Hign, Hin|].
    destruct (true && negb (Bool.eqb (b_last s) (is_last_slice rp b sl))); [exfalso; eapply Hign, Hin|].
    destruct (root_lookup (b, sl) (rp_roots rp)) as [root|]; [|destruct Hin].
    destruct (negb (b_root s =? root)); [exfalso; eapply Hign, Hin|]. destruct (negb sig_ok); [exfalso; eapply Hign, Hin|].
    cbn [rp_store rp_outstanding rp_roots rp_lasts rp_panicked] in Hin.
    destruct (bs_step true ct slot (rp_store rp) (BRepair b (expected b) s)) as [[sd ret] evs] eqn:Hb.
    destruct ret as [[[h' par']|]| |]; cbn in Hin; try (destruct Hin; fail).
    destruct Hin as [E|[]]. injection E as <- <- <-.
    eapply (bs_step_block_parent_earlier ct slot (rp_store rp) (BRepair b (expected b) s)); [reflexivity|exact Hb].
Qed.
