(* Proofs about the committee-sampling model (Model/Sampling.v) - C17.
   Everything here holds for EVERY random stream (list of words), i.e. for every RNG. *)
From Coq Require Import List NArith ZArith Bool Lia Floats.
From AG Require Import Gen.Params Model.Sampling.
Import ListNotations.
Open Scope N_scope.

(* ------------------------------------------------------------------ *)
(* bit-level helpers are the arithmetic operations                     *)
(* ------------------------------------------------------------------ *)
Lemma U32MAX_ones : U32MAX = N.ones 32. Proof. reflexivity. Qed.
Lemma U64MAX_ones : U64MAX = N.ones 64. Proof. reflexivity. Qed.
Lemma W32_pow : W32 = 2 ^ 32. Proof. reflexivity. Qed.
Lemma W64_pow : W64 = 2 ^ 64. Proof. reflexivity. Qed.

Lemma lo32_spec x : lo32 x = x mod W32.
Proof. unfold lo32. rewrite U32MAX_ones, N.land_ones. reflexivity. Qed.
Lemma lo64_spec x : lo64 x = x mod W64.
Proof. unfold lo64. rewrite U64MAX_ones, N.land_ones. reflexivity. Qed.
Lemma hi64_spec x : hi64 x = x / W64.
Proof. unfold hi64. rewrite N.shiftr_div_pow2. reflexivity. Qed.
Lemma lo32_lt x : lo32 x < W32.
Proof. rewrite lo32_spec. apply N.mod_lt. discriminate. Qed.
Lemma word64_spec lo hi : word64 lo hi = lo mod W32 + (hi mod W32) * W32.
Proof. unfold word64. rewrite !lo32_spec, N.shiftl_mul_pow2. reflexivity. Qed.
Lemma word64_lt lo hi : word64 lo hi < W64.
Proof.
  rewrite word64_spec.
  assert (A : lo mod W32 < W32) by (apply N.mod_lt; discriminate).
  assert (B : hi mod W32 < W32) by (apply N.mod_lt; discriminate).
  change W64 with (W32 * W32). nia.
Qed.

Lemma next_u32_lt s w r : next_u32 s = Ok w r -> w < W32.
Proof. destruct s; cbn [next_u32]; intros H; inversion H; subst. apply lo32_lt. Qed.
Lemma next_u64_lt s w r : next_u64 s = Ok w r -> w < W64.
Proof.
  destruct s as [|a [|b s]]; cbn [next_u64]; intros H; inversion H; subst. apply word64_lt.
Qed.

(* ------------------------------------------------------------------ *)
(* uniform integers                                                    *)
(* ------------------------------------------------------------------ *)
Lemma mul_div_lt w range W : 0 < W -> w < W -> 0 < range -> w * range / W < range.
Proof.
  intros HW Hw Hr. apply N.div_lt_upper_bound; [lia|]. nia.
Qed.

(* induction principle following the two-words-at-a-time recursion *)
Lemma stream_ind2 (P : stream -> Prop) :
  P [] -> (forall a, P [a]) -> (forall a b r, P r -> P (a :: b :: r)) -> forall s, P s.
Proof.
  intros H0 H1 H2.
  assert (G : forall s, P s /\ forall a, P (a :: s)).
  { induction s as [|x s [IHa IHb]]; split; auto. }
  intros s. apply G.
Qed.

Lemma lemire64_lt range thresh : 0 < range -> forall s v r, lemire64 range thresh s = Ok v r -> v < range.
Proof.
  intros Hr s. induction s as [| a | a b s IH] using stream_ind2; intros v r H; cbn [lemire64] in H; try discriminate.
  destruct (thresh <=? lo64 (word64 a b * range)).
  - inversion H; subst. rewrite hi64_spec. apply mul_div_lt; [reflexivity | apply word64_lt | exact Hr].
  - eapply IH; eauto.
Qed.

Lemma uniform_u64_lt range s v r : 0 < range -> uniform_u64 range s = Ok v r -> v < range.
Proof. intros Hr H. eapply lemire64_lt; eauto. Qed.

(* the carry of Canon's method cannot leave the range *)
Lemma canon_carry W w range q lo n2 :
  0 < W -> w < W -> w * range = W * q + lo -> W <= lo + n2 -> n2 < range -> q + 1 < range.
Proof.
  intros HW Hw Hdm Ec Hn.
  assert (Hm : w * range + range <= W * range).
  { replace (W * range) with ((W - 1) * range + range) by (rewrite N.mul_sub_distr_r; nia).
    apply N.add_le_mono_r. apply N.mul_le_mono_r. lia. }
  assert (H1 : W * (q + 1) < W * range) by lia.
  apply N.mul_lt_mono_pos_l in H1; auto.
Qed.

(* Canon's method stays inside the range, including its carry *)
Lemma canon_lt bits next range :
  (forall s w r, next s = Ok w r -> w < 2 ^ bits) ->
  0 < range -> range < 2 ^ bits ->
  forall s v r, canon bits next range s = Ok v r -> v < range.
Proof.
  intros Hnext Hr Hr2 s v r H. unfold canon in H.
  destruct (next s) as [w s1| |] eqn:E1; try discriminate.
  pose proof (Hnext _ _ _ E1) as Hw.
  assert (HW : 0 < 2 ^ bits) by (apply N.neq_0_lt_0, N.pow_nonzero; discriminate).
  destruct (N.land (N.shiftl 1 bits - range) (N.ones bits) <? N.land (w * range) (N.ones bits)) eqn:Eb.
  - destruct (next s1) as [w2 s2| |] eqn:E2; try discriminate.
    pose proof (Hnext _ _ _ E2) as Hw2.
    rewrite N.shiftl_1_l in H. rewrite !N.shiftr_div_pow2, !N.land_ones in H.
    set (W := 2 ^ bits) in *.
    destruct (W <=? (w * range) mod W + w2 * range / W) eqn:Ec; inversion H; subst; clear H.
    + apply N.leb_le in Ec.
      assert (Hn : w2 * range / W < range) by (apply mul_div_lt; auto).
      pose proof (N.div_mod (w * range) W ltac:(lia)) as Hdm.
      apply (canon_carry W w range (w * range / W) ((w * range) mod W) (w2 * range / W)); auto.
    + apply mul_div_lt; auto.
  - rewrite !N.shiftr_div_pow2 in H. inversion H; subst. apply mul_div_lt; auto.
Qed.

Lemma random_range_usize_lt len s v r : len < W64 -> random_range_usize len s = Ok v r -> v < len.
Proof.
  intros Hlen. unfold random_range_usize. destruct (len =? 0) eqn:E0; [discriminate|]. apply N.eqb_neq in E0.
  destruct (U32MAX <? len) eqn:E1.
  - intros H. apply (canon_lt 64 next_u64 len) with (s := s) (r := r); auto; [|lia].
    intros s0 w r0 Hn. apply next_u64_lt in Hn. exact Hn.
  - apply N.ltb_ge in E1. intros H. apply (canon_lt 32 next_u32 len) with (s := s) (r := r); auto.
    + intros s0 w r0 Hn. apply next_u32_lt in Hn. exact Hn.
    + lia.
    + change (2 ^ 32) with W32. unfold U32MAX, W32 in *. lia.
Qed.

Lemma random_range_u64_lt w s v r : w < W64 -> random_range_u64 w s = Ok v r -> v < w.
Proof.
  intros Hw. unfold random_range_u64. destruct (w =? 0) eqn:E0; [discriminate|]. apply N.eqb_neq in E0.
  intros H. apply (canon_lt 64 next_u64 w) with (s := s) (r := r); auto; [|lia].
  intros s0 w0 r0 Hn. apply next_u64_lt in Hn. exact Hn.
Qed.

(* ------------------------------------------------------------------ *)
(* lists                                                               *)
(* ------------------------------------------------------------------ *)
Lemma lenN_app {A} (a b : list A) : lenN (a ++ b) = lenN a + lenN b.
Proof. unfold lenN. rewrite app_length. lia. Qed.
Lemma lenN_cons {A} (x : A) l : lenN (x :: l) = 1 + lenN l.
Proof. unfold lenN. cbn [length]. lia. Qed.
Lemma lenN_map {A B} (f : A -> B) l : lenN (map f l) = lenN l.
Proof. unfold lenN. rewrite map_length. reflexivity. Qed.
Lemma lenN_repeat {A} (x : A) m : lenN (repeat x (N.to_nat m)) = m.
Proof. unfold lenN. rewrite repeat_length. lia. Qed.
Lemma nthN_lt_length {A} (l : list A) i : i < lenN l -> (N.to_nat i < length l)%nat.
Proof. unfold lenN. lia. Qed.
Lemma sumN_app a b : sumN (a ++ b) = sumN a + sumN b.
Proof. unfold sumN. induction a as [|x a IH]; cbn [app fold_right]; [reflexivity|]. rewrite IH. lia. Qed.
Lemma sumN_cons x l : sumN (x :: l) = x + sumN l.
Proof. reflexivity. Qed.
Lemma sumN_nth_le l i : nthN l i 0 <= sumN l.
Proof.
  unfold nthN. generalize (N.to_nat i) as k. induction l as [|x l IH]; intros k.
  - destruct k; cbn; lia.
  - rewrite sumN_cons. destruct k as [|k]; cbn [nth]; [lia|]. specialize (IH k). lia.
Qed.
Lemma count_occ_N_app a b x : count_occ_N (a ++ b) x = count_occ_N a x + count_occ_N b x.
Proof. induction a as [|y a IH]; cbn [app count_occ_N]; [reflexivity|]. rewrite IH. lia. Qed.
Lemma count_occ_N_repeat_same x m : count_occ_N (repeatN x m) x = m.
Proof.
  unfold repeatN. rewrite <- (N2Nat.id m) at 2. generalize (N.to_nat m) as k.
  induction k as [|k IH]; cbn [repeat count_occ_N]; [reflexivity|]. rewrite N.eqb_refl, IH. lia.
Qed.
Lemma count_occ_N_repeat_other x y m : x <> y -> count_occ_N (repeatN x m) y = 0.
Proof.
  intros D. unfold repeatN. generalize (N.to_nat m) as k.
  induction k as [|k IH]; cbn [repeat count_occ_N]; [reflexivity|].
  destruct (x =? y) eqn:E; [apply N.eqb_eq in E; congruence|]. rewrite IH. reflexivity.
Qed.
Lemma count_occ_N_notin l x : ~ In x l -> count_occ_N l x = 0.
Proof.
  induction l as [|y l IH]; intros H; cbn [count_occ_N]; [reflexivity|].
  destruct (y =? x) eqn:E; [apply N.eqb_eq in E; subst; exfalso; apply H; left; reflexivity|].
  rewrite IH; [reflexivity|]. intros C. apply H. right. exact C.
Qed.

(* ------------------------------------------------------------------ *)
(* WeightedIndex                                                       *)
(* ------------------------------------------------------------------ *)
Lemma prefix_sums_nil acc ws : prefix_sums acc ws = [] -> ws = [].
Proof. destruct ws; [reflexivity | discriminate]. Qed.

Lemma removelast_cons {A} (a : A) l : l <> [] -> removelast (a :: l) = a :: removelast l.
Proof. destruct l; [congruence | reflexivity]. Qed.

(* the index found for `chosen` lies in range and carries positive weight *)
Lemma partition_point_spec ws : forall acc chosen,
  acc <= chosen -> chosen < acc + sumN ws ->
  let i := partition_point chosen (removelast (prefix_sums acc ws)) in
  i < lenN ws /\ 0 < nthN ws i 0.
Proof.
  induction ws as [|w r IH]; intros acc chosen Hlo Hhi.
  - cbn in Hhi. lia.
  - rewrite sumN_cons in Hhi. cbn [prefix_sums].
    destruct r as [|w2 r'].
    + cbn [prefix_sums removelast partition_point]. cbn in Hhi.
      split; [rewrite lenN_cons; lia|]. unfold nthN. cbn. lia.
    + rewrite removelast_cons by (cbn [prefix_sums]; discriminate). cbn [partition_point].
      destruct (acc + w <=? chosen) eqn:E.
      * apply N.leb_le in E. specialize (IH (acc + w) chosen E ltac:(lia)). cbn zeta in IH.
        destruct IH as [I1 I2]. set (j := partition_point chosen (removelast (prefix_sums (acc + w) (w2 :: r')))) in *.
        split; [rewrite lenN_cons; lia|].
        unfold nthN in *. replace (N.to_nat (1 + j)) with (S (N.to_nat j)) by lia. cbn [nth]. exact I2.
      * apply N.leb_gt in E. split; [rewrite lenN_cons; lia|]. unfold nthN. cbn. lia.
Qed.

Lemma windex_ok_total ws : windex_ok ws = true -> 0 < sumN ws /\ sumN ws < W64.
Proof.
  unfold windex_ok. destruct ws; [discriminate|]. intros H. apply andb_prop in H. destruct H as [A B].
  apply N.ltb_lt in A. apply N.ltb_lt in B. auto.
Qed.

Lemma windex_sample_spec ws s i r :
  0 < sumN ws -> windex_sample ws s = Ok i r -> i < lenN ws /\ 0 < nthN ws i 0.
Proof.
  intros Ht H. unfold windex_sample in H.
  destruct (lemire64 (sumN ws) ((W64 - sumN ws) mod sumN ws) s) as [chosen r'| |] eqn:E; try discriminate.
  inversion H; subst. apply lemire64_lt in E; [|exact Ht].
  unfold cum_weights. apply (partition_point_spec ws 0 chosen); lia.
Qed.

Lemma windex_ok_spec ws : windex_ok ws = true <-> (ws <> [] /\ 0 < sumN ws /\ sumN ws < W64).
Proof.
  unfold windex_ok. destruct ws as [|w r].
  - split; [discriminate | intros [H _]; congruence].
  - rewrite andb_true_iff, !N.ltb_lt. split; [intros [A B]; repeat split; auto; discriminate | intros [_ [A B]]; auto].
Qed.

(* ------------------------------------------------------------------ *)
(* IID sampling                                                        *)
(* ------------------------------------------------------------------ *)
Lemma iid_length k sample : forall s q r, iid k sample s = Ok q r -> length q = k.
Proof.
  induction k as [|k IH]; intros s q r H; cbn [iid] in H.
  - inversion H; reflexivity.
  - destruct (sample s) as [v s1| |]; try discriminate.
    destruct (iid k sample s1) as [q' s2| |] eqn:E; try discriminate.
    inversion H; subst. cbn [length]. f_equal. eapply IH; eauto.
Qed.
Lemma iid_Forall (P : N -> Prop) k sample :
  (forall s v r, sample s = Ok v r -> P v) ->
  forall s q r, iid k sample s = Ok q r -> Forall P q.
Proof.
  intros HP. induction k as [|k IH]; intros s q r H; cbn [iid] in H.
  - inversion H; constructor.
  - destruct (sample s) as [v s1| |] eqn:E1; try discriminate.
    destruct (iid k sample s1) as [q' s2| |] eqn:E; try discriminate.
    inversion H; subst. constructor; [eapply HP; eauto | eapply IH; eauto].
Qed.

(* ------------------------------------------------------------------ *)
(* set_nthN / indexed                                                  *)
(* ------------------------------------------------------------------ *)
Lemma set_nthN_length {A} (f : A -> A) l : forall i, length (set_nthN l i f) = length l.
Proof. induction l as [|x l IH]; intros [|i]; cbn [set_nthN length]; auto. Qed.
Lemma set_nthN_same {A} (f : A -> A) d l : forall i, (i < length l)%nat -> nth i (set_nthN l i f) d = f (nth i l d).
Proof.
  induction l as [|x l IH]; intros [|i] H; cbn [set_nthN nth length] in *; try lia; auto. apply IH. lia.
Qed.
Lemma set_nthN_other {A} (f : A -> A) d l : forall i j, i <> j -> nth j (set_nthN l i f) d = nth j l d.
Proof.
  induction l as [|x l IH]; intros [|i] [|j] H; cbn [set_nthN nth]; auto; try congruence.
Qed.
Lemma indexed_length {A} (l : list A) : forall i, length (indexed i l) = length l.
Proof. induction l as [|x l IH]; intros i; cbn [indexed length]; auto. Qed.
Lemma indexed_In {A} (l : list A) : forall i j x, In (j, x) (indexed i l) -> i <= j < i + lenN l.
Proof.
  induction l as [|y l IH]; intros i j x H; cbn [indexed] in H; [contradiction|].
  rewrite lenN_cons. destruct H as [H|H]; [inversion H; subst; lia|]. apply IH in H. lia.
Qed.
Lemma indexed_In_nth (l : list N) : forall i j x, In (j, x) (indexed i l) -> x = nthN l (j - i) 0.
Proof.
  induction l as [|y l IH]; intros i j x H; cbn [indexed] in H; [contradiction|].
  destruct H as [H|H].
  - inversion H; subst. replace (j - j) with 0 by lia. reflexivity.
  - pose proof (indexed_In _ _ _ _ H) as B. apply IH in H. subst x. unfold nthN.
    replace (N.to_nat (j - i)) with (S (N.to_nat (j - (i + 1)))) by lia. reflexivity.
Qed.

(* multiplicities in a list of pre-allocated seats *)
Lemma count_flat_repeat (g : N -> N) (l : list N) : forall i0 v,
  count_occ_N (flat_map (fun '(i, s) => repeatN i (g s)) (indexed i0 l)) v
  = if (i0 <=? v) && (v <? i0 + lenN l) then g (nthN l (v - i0) 0) else 0.
Proof.
  induction l as [|x r IH]; intros i0 v; cbn [indexed flat_map].
  - cbn [count_occ_N]. unfold lenN. cbn [length]. destruct (i0 <=? v) eqn:A; cbn [andb]; [|reflexivity].
    destruct (v <? i0 + N.of_nat 0) eqn:B; [|reflexivity]. apply N.leb_le in A. apply N.ltb_lt in B. lia.
  - rewrite count_occ_N_app, IH, lenN_cons.
    destruct (N.eq_dec i0 v) as [E|D].
    + subst v. rewrite count_occ_N_repeat_same.
      replace (i0 + 1 <=? i0) with false by (symmetry; apply N.leb_gt; lia). cbn [andb].
      replace (i0 <=? i0) with true by (symmetry; apply N.leb_le; lia).
      replace (i0 <? i0 + (1 + lenN r)) with true by (symmetry; apply N.ltb_lt; lia). cbn [andb].
      replace (i0 - i0) with 0 by lia. unfold nthN. cbn. lia.
    + rewrite count_occ_N_repeat_other by exact D.
      destruct (i0 <=? v) eqn:A; destruct (i0 + 1 <=? v) eqn:A'; cbn [andb];
        try (apply N.leb_le in A); try (apply N.leb_gt in A); try (apply N.leb_le in A'); try (apply N.leb_gt in A'); try lia.
      replace (v <? i0 + (1 + lenN r)) with (v <? i0 + 1 + lenN r) by (f_equal; lia).
      destruct (v <? i0 + 1 + lenN r); [|reflexivity].
      unfold nthN. replace (N.to_nat (v - i0)) with (S (N.to_nat (v - (i0 + 1)))) by lia. reflexivity.
Qed.
Lemma flat_repeat_range (g : N -> N) (l : list N) : forall i0 v,
  In v (flat_map (fun '(i, s) => repeatN i (g s)) (indexed i0 l)) -> i0 <= v < i0 + lenN l.
Proof.
  intros i0 v H. apply in_flat_map in H. destruct H as [[i s] [Hin Hv]].
  unfold repeatN in Hv. apply repeat_spec in Hv. subst v. eapply indexed_In; eauto.
Qed.

(* ------------------------------------------------------------------ *)
(* DecayingAcceptanceSampler                                           *)
(* ------------------------------------------------------------------ *)
Section DecayProofs.
  Variable accept : N -> float -> bool.
  Variable ws : list N.
  Hypothesis Hpos : 0 < sumN ws.

  Lemma decay_one_spec tries : forall counts s v counts' r,
    decay_one accept (windex_sample ws) tries counts s = Ok (v, counts') r ->
    v < lenN ws /\ 0 < nthN ws v 0 /\ (exists w, w < W64 /\ accept (nthN counts v 0) (u01_of_word w) = true)
    /\ counts' = set_nthN counts (N.to_nat v) N.succ.
  Proof.
    induction tries as [|t IH]; intros counts s v counts' r H; cbn [decay_one] in H; [discriminate|].
    destruct (windex_sample ws s) as [x s1| |] eqn:E1; try discriminate.
    destruct (u01 s1) as [u s2| |] eqn:E2; try discriminate.
    destruct (accept (nthN counts x 0) u) eqn:Ea.
    - inversion H; subst. apply windex_sample_spec in E1; [|exact Hpos]. destruct E1 as [A B].
      repeat split; auto. unfold u01 in E2. destruct (next_u64 s1) as [w r'| |] eqn:En; try discriminate.
      inversion E2; subst. exists w. split; [eapply next_u64_lt; eauto | exact Ea].
    - eapply IH; eauto.
  Qed.

  Lemma decay_quorum_length k : forall counts s q r,
    decay_quorum accept (windex_sample ws) k counts s = Ok q r -> length q = k.
  Proof.
    induction k as [|k IH]; intros counts s q r H; cbn [decay_quorum] in H.
    - inversion H; reflexivity.
    - destruct (decay_one accept (windex_sample ws) (N.to_nat MAX_TRIES_PER_SAMPLE) counts s) as [[v c'] s1| |] eqn:E1; try discriminate.
      destruct (decay_quorum accept (windex_sample ws) k c' s1) as [q' s2| |] eqn:E2; try discriminate.
      inversion H; subst. cbn [length]. f_equal. eapply IH; eauto.
  Qed.

  Lemma decay_quorum_members k : forall counts s q r,
    decay_quorum accept (windex_sample ws) k counts s = Ok q r ->
    Forall (fun v => v < lenN ws /\ 0 < nthN ws v 0) q.
  Proof.
    induction k as [|k IH]; intros counts s q r H; cbn [decay_quorum] in H.
    - inversion H; constructor.
    - destruct (decay_one accept (windex_sample ws) (N.to_nat MAX_TRIES_PER_SAMPLE) counts s) as [[v c'] s1| |] eqn:E1; try discriminate.
      destruct (decay_quorum accept (windex_sample ws) k c' s1) as [q' s2| |] eqn:E2; try discriminate.
      inversion H; subst. apply decay_one_spec in E1. destruct E1 as [A [B _]].
      constructor; [auto | eapply IH; eauto].
  Qed.

  (* any acceptance test that rejects once a validator has `cap` seats keeps everybody at or below cap *)
  Variable cap : N.
  Hypothesis Hcap : forall c w, cap <= c -> w < W64 -> accept c (u01_of_word w) = false.

  Lemma decay_quorum_cap k : forall counts s q r,
    length counts = length ws ->
    (forall v, nthN counts v 0 <= cap) ->
    decay_quorum accept (windex_sample ws) k counts s = Ok q r ->
    forall v, nthN counts v 0 + count_occ_N q v <= cap.
  Proof.
    induction k as [|k IH]; intros counts s q r Hlen Hc H v; cbn [decay_quorum] in H.
    - inversion H; subst. cbn [count_occ_N]. specialize (Hc v). lia.
    - destruct (decay_one accept (windex_sample ws) (N.to_nat MAX_TRIES_PER_SAMPLE) counts s) as [[x c'] s1| |] eqn:E1; try discriminate.
      destruct (decay_quorum accept (windex_sample ws) k c' s1) as [q' s2| |] eqn:E2; try discriminate.
      inversion H; subst; clear H. apply decay_one_spec in E1. destruct E1 as [A [_ [[u [Hu1 Hu]] Hc']]].
      assert (Hx : nthN counts x 0 < cap).
      { destruct (N.lt_ge_cases (nthN counts x 0) cap) as [L|G]; [exact L|]. rewrite (Hcap _ u G Hu1) in Hu. discriminate. }
      assert (Hxl : (N.to_nat x < length counts)%nat) by (rewrite Hlen; apply nthN_lt_length; exact A).
      assert (Hc2 : forall w, nthN c' w 0 <= cap).
      { intros w. subst c'. unfold nthN. destruct (N.eq_dec x w) as [E|D].
        - subst w. rewrite set_nthN_same by exact Hxl. unfold nthN in Hx. lia.
        - rewrite set_nthN_other by lia. apply Hc. }
      assert (Hl2 : length c' = length ws) by (subst c'; rewrite set_nthN_length; exact Hlen).
      specialize (IH c' s1 q' r Hl2 Hc2 E2 v). cbn [count_occ_N].
      subst c'. unfold nthN in *. destruct (N.eq_dec x v) as [E|D].
      + subst v. rewrite set_nthN_same in IH by exact Hxl. rewrite N.eqb_refl. lia.
      + rewrite set_nthN_other in IH by lia. replace (x =? v) with false by (symmetry; apply N.eqb_neq; exact D). lia.
  Qed.
End DecayProofs.

(* ------------------------------------------------------------------ *)
(* PartitionSampler                                                    *)
(* ------------------------------------------------------------------ *)
Definition entries (a : pacc) : list (N * N) := concat (pa_done a) ++ pa_cur a.
Definition pacc_wf (nb : N) (a : pacc) : Prop := length (pa_done a) = N.to_nat (pa_idx a) /\ pa_idx a < nb.

Lemma concat_app_single {A} (l : list (list A)) x : concat (l ++ [x]) = concat l ++ x.
Proof. rewrite concat_app. cbn [concat]. rewrite app_nil_r. reflexivity. Qed.

(* every entry produced for validator `id` carries at most its remaining stake *)
Lemma part_take_spec fuel nb spb id : forall stake a a',
  pacc_wf nb a ->
  part_take fuel nb spb id stake a = Some a' ->
  pacc_wf nb a' /\
  forall e, In e (entries a') -> In e (entries a) \/ (fst e = id /\ snd e <= stake).
Proof.
  induction fuel as [|f IH]; intros stake a a' Hwf H; cbn [part_take] in H.
  - destruct (stake =? 0); [|discriminate]. inversion H; subst. split; auto.
  - destruct (stake =? 0) eqn:E0; [inversion H; subst; split; auto|].
    set (take := N.min stake (spb - pa_cur_stake a)) in *.
    destruct ((pa_idx a <? nb - 1) && ((0 <? stake - take) || (pa_cur_stake a + take =? spb))) eqn:Eb.
    + apply andb_prop in Eb. destruct Eb as [Eb _]. apply N.ltb_lt in Eb.
      apply IH in H.
      * destruct H as [W H]. split; [exact W|]. intros e He. apply H in He. destruct He as [He|[A B]].
        -- unfold entries in He. cbn [pa_done pa_cur] in He. unfold bin in He. rewrite app_nil_r, concat_app_single, app_assoc in He.
           apply in_app_or in He. destruct He as [He|He]; [left; exact He|].
           right. destruct He as [He|[]]. subst e. cbn [fst snd]. split; [reflexivity | unfold take; lia].
        -- right. split; [exact A | lia].
      * destruct Hwf as [W1 W2]. unfold pacc_wf. cbn [pa_done pa_idx]. rewrite app_length. cbn [length]. split; lia.
    + apply IH in H.
      * destruct H as [W H]. split; [exact W|]. intros e He. apply H in He. destruct He as [He|[A B]].
        -- unfold entries in He. cbn [pa_done pa_cur] in He. rewrite app_assoc in He.
           apply in_app_or in He. destruct He as [He|He]; [left; exact He|].
           right. destruct He as [He|[]]. subst e. cbn [fst snd]. split; [reflexivity | unfold take; lia].
        -- right. split; [exact A | lia].
      * exact Hwf.
Qed.

Lemma part_fill_spec nb spb vals : forall a a',
  pacc_wf nb a ->
  part_fill nb spb vals a = Some a' ->
  pacc_wf nb a' /\
  forall e, In e (entries a') -> In e (entries a) \/ (exists st, In (fst e, st) vals /\ snd e <= st).
Proof.
  induction vals as [|[id st] r IH]; intros a a' Hwf H; cbn [part_fill] in H.
  - inversion H; subst. split; auto.
  - destruct (part_take (S (N.to_nat nb)) nb spb id st a) as [a1|] eqn:E; [|discriminate].
    apply part_take_spec in E; [|exact Hwf]. destruct E as [W1 E1].
    apply IH in H; [|exact W1]. destruct H as [W2 H2]. split; [exact W2|].
    intros e He. apply H2 in He. destruct He as [He|[st' [A B]]].
    + apply E1 in He. destruct He as [He|[A B]]; [left; exact He|].
      right. exists st. split; [left; rewrite A; reflexivity | exact B].
    + right. exists st'. split; [right; exact A | exact B].
Qed.

(* what PartitionSampler::new guarantees about its bins when it returns *)
Lemma partition_new_spec vals nb bins :
  partition_new vals nb = COk bins ->
  lenN bins = nb /\
  (forall b, In b bins -> 0 < sumN (map snd b)) /\
  (forall b e, In b bins -> In e b -> exists st, In (fst e, st) vals /\ snd e <= st).
Proof.
  unfold partition_new. destruct (nb =? 0) eqn:E0.
  - apply N.eqb_eq in E0. subst nb. intros H. inversion H; subst bins. split; [reflexivity|]. split; intros; contradiction.
  - apply N.eqb_neq in E0. destruct (W64 <=? sumN (map snd vals)); [discriminate|].
    destruct (part_fill nb (div_ceil (sumN (map snd vals)) nb) vals (mkPacc [] [] 0 0)) as [a|] eqn:Ef; [|discriminate].
    set (bs := pa_done a ++ [pa_cur a] ++ repeat [] (N.to_nat (nb - 1 - pa_idx a))).
    destruct (forallb (fun b : bin => windex_ok (map snd b)) bs) eqn:Eok; [|discriminate].
    intros H. inversion H; subst bins; clear H.
    apply part_fill_spec in Ef; [|unfold pacc_wf; cbn; split; lia].
    destruct Ef as [[W1 W2] He].
    split; [|split].
    + unfold bs, lenN. rewrite !app_length, repeat_length. cbn [length]. lia.
    + intros b Hb. rewrite forallb_forall in Eok. apply Eok in Hb. apply windex_ok_total in Hb. apply Hb.
    + intros b e Hb Hin. assert (Hent : In e (entries a)).
      { unfold bs in Hb. apply in_app_or in Hb. destruct Hb as [Hb|Hb].
        - unfold entries. apply in_or_app. left. apply in_concat. exists b. auto.
        - cbn [app] in Hb. destruct Hb as [Hb|Hb].
          + subst b. unfold entries. apply in_or_app. right. exact Hin.
          + apply repeat_spec in Hb. subst b. contradiction. }
      apply He in Hent. destruct Hent as [Hent|Hent]; [|exact Hent].
      unfold entries in Hent. cbn in Hent. contradiction.
Qed.

Lemma partition_sample_length bins : forall s q r, partition_sample bins s = Ok q r -> length q = length bins.
Proof.
  induction bins as [|b bs IH]; intros s q r H; cbn [partition_sample] in H.
  - inversion H; reflexivity.
  - destruct (windex_sample (map snd b) s) as [i s1| |]; try discriminate.
    destruct (partition_sample bs s1) as [q' s2| |] eqn:E; try discriminate.
    inversion H; subst. cbn [length]. f_equal. eapply IH; eauto.
Qed.

(* every sampled validator sits in a bin with a positive share *)
Lemma partition_sample_members bins :
  (forall b, In b bins -> 0 < sumN (map snd b)) ->
  forall s q r, partition_sample bins s = Ok q r ->
  Forall (fun v => exists b take, In b bins /\ In (v, take) b /\ 0 < take) q.
Proof.
  induction bins as [|b bs IH]; intros Hpos s q r H; cbn [partition_sample] in H.
  - inversion H; constructor.
  - destruct (windex_sample (map snd b) s) as [i s1| |] eqn:E1; try discriminate.
    destruct (partition_sample bs s1) as [q' s2| |] eqn:E; try discriminate.
    inversion H; subst; clear H.
    apply windex_sample_spec in E1; [|apply Hpos; left; reflexivity]. destruct E1 as [A B].
    rewrite lenN_map in A. constructor.
    + exists b, (snd (nthN b i (0, 0))). split; [left; reflexivity|]. split.
      * rewrite <- surjective_pairing. unfold nthN. apply nth_In. apply nthN_lt_length. exact A.
      * unfold nthN in *. rewrite <- (map_nth snd) . exact B.
    + eapply Forall_impl; [|eapply IH; eauto; intros b' Hb'; apply Hpos; right; exact Hb'].
      intros v [b' [t [H1 H2]]]. exists b', t. split; [right; exact H1 | exact H2].
Qed.

(* ------------------------------------------------------------------ *)
(* Fait Accompli pre-allocation                                        *)
(* ------------------------------------------------------------------ *)
Definition seats_list (cv : codever) (stakes : list N) (i0 total k : N) : list N :=
  flat_map (fun '(i, s) => repeatN i (seats cv s total k)) (indexed i0 stakes).

Lemma fa1_loop_spec cv total k stakes : forall id rq tr,
  fa1_loop cv stakes id total k = Some (rq, tr) ->
  rq = seats_list cv stakes id total k /\ length tr = length stakes /\
  (forall j, nthN tr j 0 <= nthN stakes j 0).
Proof.
  induction stakes as [|s r IH]; intros id rq tr H; cbn [fa1_loop] in H.
  - inversion H; subst. repeat split. intros j. unfold nthN. destruct (N.to_nat j); cbn [nth]; apply N.le_refl.
  - destruct (seats_panic cv total); [discriminate|].
    match type of H with (if ?c then _ else _) = _ => destruct c; [discriminate|] end.
    destruct (k =? 0); [discriminate|].
    destruct (s <? seats cv s total k * total / k) eqn:Es; [discriminate|].
    destruct (fa1_loop cv r (id + 1) total k) as [[rq' tr']|] eqn:E; [|discriminate].
    inversion H; subst; clear H. apply IH in E. destruct E as [E1 [E2 E3]]. subst rq'.
    split; [reflexivity|]. split; [cbn [length]; lia|].
    intros j. unfold nthN in *. destruct (N.to_nat j) as [|j'] eqn:Ej; cbn [nth]; [apply N.le_sub_l|].
    specialize (E3 (N.of_nat j')). rewrite Nat2N.id in E3. exact E3.
Qed.

Lemma fa1_prepare_spec cv stakes k p :
  fa1_prepare cv stakes k = Some p ->
  f1_required p = seats_list cv stakes 0 (sumN stakes) k /\
  lenN (f1_required p) + f1_kprime p = k /\
  length (f1_weights p) = length stakes /\
  (forall j, nthN (f1_weights p) j 0 <= nthN stakes j 0).
Proof.
  unfold fa1_prepare. destruct (W64 <=? sumN stakes); [discriminate|].
  destruct (fa1_loop cv stakes 0 (sumN stakes) k) as [[rq tr]|] eqn:E; [|discriminate].
  destruct (k <? lenN rq) eqn:Ek; [discriminate|]. apply N.ltb_ge in Ek.
  intros H. inversion H; subst; clear H. cbn [f1_required f1_kprime f1_weights].
  apply fa1_loop_spec in E. destruct E as [E1 [E2 E3]].
  split; [exact E1|]. split; [lia|].
  destruct (forallb (fun x => x =? 0) tr); split; auto. intros j. lia.
Qed.

Lemma seats_list_count cv stakes total k v :
  count_occ_N (seats_list cv stakes 0 total k) v = if v <? lenN stakes then seats cv (nthN stakes v 0) total k else 0.
Proof.
  unfold seats_list. rewrite (count_flat_repeat (fun s => seats cv s total k)).
  replace (0 <=? v) with true by (symmetry; apply N.leb_le; lia). cbn [andb].
  replace (0 + lenN stakes) with (lenN stakes) by lia. replace (v - 0) with v by lia. reflexivity.
Qed.
Lemma seats_list_range cv stakes total k v : In v (seats_list cv stakes 0 total k) -> v < lenN stakes.
Proof. intros H. apply (flat_repeat_range (fun s => seats cv s total k)) in H. lia. Qed.

Lemma fa1_sample_spec required k fsize fallback s q r :
  lenN required <= k ->
  fa1_sample required k fsize fallback s = Ok q r ->
  (q = required /\ lenN required = k) \/
  (exists q', fallback s = Ok q' r /\ q = required ++ q' /\ fsize = k - lenN required /\ lenN required < k).
Proof.
  intros Hle. unfold fa1_sample. destruct (lenN required <? k) eqn:E.
  - apply N.ltb_lt in E. destruct (k - lenN required =? fsize) eqn:Ef; [|discriminate]. apply N.eqb_eq in Ef.
    destruct (fallback s) as [q' r'| |] eqn:Eq; try discriminate. intros H. inversion H; subst.
    right. exists q'. auto.
  - apply N.ltb_ge in E. intros H. inversion H; subst. left. split; [reflexivity | lia].
Qed.

(* ------------------------------------------------------------------ *)
(* Fait Accompli 2                                                     *)
(* ------------------------------------------------------------------ *)
Lemma fa2_medium_spec clamp medium : forall room s q r,
  fa2_medium clamp room medium s = Ok q r ->
  (length q <= length medium)%nat /\ incl q (map fst medium) /\ (clamp = true -> lenN q <= room).
Proof.
  induction medium as [|[v p] m IH]; intros room s q r H; cbn [fa2_medium] in H.
  - inversion H; subst. split; [cbn; lia|]. split; [intros x []|]. intros _. apply N.le_0_l.
  - destruct (clamp && (room =? 0)) eqn:Ec.
    + inversion H; subst. split; [cbn; lia|]. split; [intros x []|]. intros _. apply N.le_0_l.
    + destruct (random_bool p s) as [b s1| |]; try discriminate.
      destruct (fa2_medium clamp (if b then room - 1 else room) m s1) as [q' s2| |] eqn:E; try discriminate.
      inversion H; subst; clear H. apply IH in E. destruct E as [E1 [E2 E3]]. cbn [map fst length].
      destruct b; cbn [length]; (split; [lia|]); split.
      * intros x [Hx|Hx]; [left; exact Hx | right; apply E2; exact Hx].
      * intros Hc. specialize (E3 Hc). subst clamp. cbn [andb] in Ec. apply N.eqb_neq in Ec.
        rewrite lenN_cons. lia.
      * intros x Hx. right. apply E2. exact Hx.
      * exact E3.
Qed.

Lemma fa2_new_spec cv stakes k st :
  fa2_new cv stakes k = Some st ->
  f2_required st = seats_list cv stakes 0 (sumN stakes) k /\ f2_k st = k /\
  0 < sumN (f2_weights st) /\ length (f2_weights st) = length stakes /\
  (forall v, In v (map fst (f2_medium st)) -> v < lenN stakes) /\
  f2_clamp st = (match cv with Current => true | Pinned => false end) /\
  (cv = Current -> sumN stakes <> 0).
Proof.
  unfold fa2_new. destruct (W64 <=? sumN stakes); [discriminate|].
  destruct (seats_panic cv (sumN stakes)) eqn:Esp; [discriminate|].
  destruct (negb (PrimFloat.leb (fsum (map (fun s => fa2_f s (sumN stakes) k) stakes)) 1)); [discriminate|].
  match goal with |- context [if windex_ok ?w then _ else _] => destruct (windex_ok w) eqn:Eok; [|discriminate]; set (ws := w) in * end.
  intros H. inversion H; subst; clear H. cbn [f2_required f2_k f2_weights f2_medium f2_clamp].
  split; [reflexivity|]. split; [reflexivity|]. split; [apply windex_ok_total in Eok; apply Eok|]. split; [|split; [|split]].
  - unfold ws. destruct (PrimFloat.eqb _ 0); [reflexivity|].
    rewrite map_length, indexed_length, combine_length, map_length. lia.
  - intros v Hv. apply in_map_iff in Hv. destruct Hv as [[v' p] [E Hin]]. cbn [fst] in E. subst v'.
    apply in_flat_map in Hin. destruct Hin as [[i [s fi]] [Hi Hp]].
    destruct (PrimFloat.ltb (rel_stake s (sumN stakes)) fi); [|contradiction].
    destruct Hp as [Hp|[]]. inversion Hp; subst.
    apply indexed_In in Hi. unfold lenN in Hi. rewrite combine_length, map_length in Hi. unfold lenN. lia.
  - reflexivity.
  - intros Ecv. subst cv. cbn [seats_panic] in Esp. apply N.eqb_neq in Esp. exact Esp.
Qed.

(* ------------------------------------------------------------------ *)
(* TurbineSampler: the weight vector has one entry per validator       *)
(* ------------------------------------------------------------------ *)
Lemma tw_pair_length stakes fanout leader root sl sr ew :
  length ew = length stakes -> length (tw_pair stakes fanout leader root sl sr ew) = length stakes.
Proof. intros H. unfold tw_pair. rewrite map_length, indexed_length, combine_length. lia. Qed.
Lemma fold_left_length_inv {A B} (f : list A -> B -> list A) (n : nat) (l : list B) :
  (forall e b, length e = n -> length (f e b) = n) -> forall e, length e = n -> length (fold_left f l e) = n.
Proof. intros Hf. induction l as [|b l IH]; intros e He; cbn [fold_left]; auto. Qed.
Lemma turbine_expected_work_length stakes fanout : length (turbine_expected_work stakes fanout) = length stakes.
Proof.
  unfold turbine_expected_work. apply fold_left_length_inv; [|apply map_length].
  intros e [leader sl] He. unfold tw_leader. apply fold_left_length_inv; [|exact He].
  intros e' [root sr] He'. destruct (root =? leader); [exact He'|]. apply tw_pair_length. exact He'.
Qed.
Lemma turbine_weights_general_spec stakes fanout ws :
  turbine_weights_general stakes fanout = Some ws -> length ws = length stakes /\ 0 < sumN ws.
Proof.
  unfold turbine_weights_general. destruct (W64 <=? sumN stakes); [discriminate|].
  destruct (lenN stakes <? 2); [discriminate|].
  destruct ((3 <=? lenN stakes) && (fanout =? 0)); [discriminate|].
  match goal with |- context [windex_ok ?w] => destruct (windex_ok w) eqn:Eok; [|discriminate] end.
  intros H. inversion H; subst. split; [rewrite map_length; apply turbine_expected_work_length|].
  apply windex_ok_total in Eok. apply Eok.
Qed.

Lemma turbine_weights_spec cv stakes fanout ws :
  turbine_weights cv stakes fanout = Some ws -> length ws = length stakes /\ 0 < sumN ws.
Proof.
  destruct cv; cbn [turbine_weights]; [apply turbine_weights_general_spec|].
  destruct (lenN stakes <=? 2); [|apply turbine_weights_general_spec].
  destruct (windex_ok stakes) eqn:E; [|discriminate]. intros H. inversion H; subst.
  split; [reflexivity|]. apply windex_ok_total in E. apply E.
Qed.

Lemma reject_same_spec (P : N -> Prop) sample tries : 
  (forall s v r, sample s = Ok v r -> P v) ->
  forall root s v r, reject_same tries sample root s = Ok v r -> P v.
Proof.
  intros HP. induction tries as [|t IH]; intros root s v r H; cbn [reject_same] in H; [discriminate|].
  destruct (sample s) as [x s1| |] eqn:E; try discriminate.
  destruct (x =? root); [eapply IH; eauto|]. inversion H; subst. eapply HP; eauto.
Qed.
Lemma turbine_sample_spec fanout ws s v r :
  0 < sumN ws -> turbine_sample fanout ws s = Ok v r -> v < lenN ws /\ 0 < nthN ws v 0.
Proof.
  intros Hp H. unfold turbine_sample in H.
  destruct (windex_sample ws s) as [root s1| |] eqn:E1; try discriminate.
  destruct (u01 s1) as [u s2| |]; try discriminate.
  destruct (PrimFloat.ltb u _).
  - inversion H; subst. eapply windex_sample_spec; eauto.
  - eapply (reject_same_spec (fun v => v < lenN ws /\ 0 < nthN ws v 0)); [|exact H].
    intros s0 v0 r0 H0. eapply windex_sample_spec; eauto.
Qed.

(* ------------------------------------------------------------------ *)
(* the strategies behind `construct` / `sample_quorum`                  *)
(* ------------------------------------------------------------------ *)
Definition valid_order (stakes order : list N) : Prop := Forall (fun id => id < lenN stakes) order.
(* FA2 fills up to k seats.  It returns exactly k if the pre-allocated and the "medium" seats alone do not
   exceed k (what the constructor's floating-point assertion sum f <= 1.0 was meant to ensure - pinned tree),
   or if the medium-node loop is clamped and the pre-allocated seats do not exceed k (current code, where
   the latter is a theorem: fa2_counts_ok_current) *)
Definition fa2_counts_ok (sm : sampler) : Prop :=
  match sm with
  | SmFA2 st => lenN (f2_required st) + lenN (f2_medium st) <= f2_k st
                \/ (f2_clamp st = true /\ lenN (f2_required st) <= f2_k st)
  | _ => True
  end.

Lemma lenN_of_length {A} (l : list A) k : length l = N.to_nat k -> lenN l = k.
Proof. unfold lenN. intros H. rewrite H. apply N2Nat.id. Qed.

Lemma shuffled_In stakes order id st : In (id, st) (shuffled stakes order) -> In id order /\ st = nthN stakes id 0.
Proof.
  unfold shuffled. intros H. apply in_map_iff in H. destruct H as [x [E Hx]]. inversion E; subst. auto.
Qed.

(* 1. exactly the configured number of validators *)
Theorem quorum_len : forall cv st stakes order sm s q r,
  construct cv st stakes order = COk sm -> fa2_counts_ok sm ->
  sample_quorum sm s = Ok q r -> lenN q = quorum_size st.
Proof.
  intros cv st stakes order sm s q r Hc Hfa Hs. destruct st; cbn [construct quorum_size] in *.
  - destruct (v <? lenN stakes); inversion Hc; subst. cbn [sample_quorum] in Hs.
    apply iid_length in Hs. apply lenN_of_length. exact Hs.
  - inversion Hc; subst. cbn [sample_quorum] in Hs. apply iid_length in Hs. apply lenN_of_length. exact Hs.
  - destruct (windex_ok stakes); inversion Hc; subst. cbn [sample_quorum] in Hs.
    apply iid_length in Hs. apply lenN_of_length. exact Hs.
  - destruct (turbine_weights cv stakes fanout); inversion Hc; subst. cbn [sample_quorum] in Hs.
    apply iid_length in Hs. apply lenN_of_length. exact Hs.
  - destruct (windex_ok stakes); inversion Hc; subst. cbn [sample_quorum] in Hs.
    apply decay_quorum_length in Hs. apply lenN_of_length. exact Hs.
  - destruct (partition_new (shuffled stakes order) bins) as [bs| |] eqn:Ep; inversion Hc; subst.
    cbn [sample_quorum] in Hs. apply partition_sample_length in Hs. apply partition_new_spec in Ep.
    destruct Ep as [Ep _]. unfold lenN in *. rewrite Hs. exact Ep.
  - destruct (fa1_prepare cv stakes k) as [p|] eqn:Ef; [|discriminate].
    destruct (partition_new (shuffled (f1_weights p) order) (f1_kprime p)) as [bs| |] eqn:Ep; inversion Hc; subst.
    cbn [sample_quorum] in Hs. apply fa1_prepare_spec in Ef. destruct Ef as [_ [Ek _]].
    apply fa1_sample_spec in Hs; [|lia]. destruct Hs as [[E1 E2]|[q' [Hq [E1 [E2 E3]]]]].
    + subst q. exact E2.
    + subst q. rewrite lenN_app. apply partition_sample_length in Hq. unfold lenN in *. lia.
  - destruct (fa1_prepare cv stakes k) as [p|] eqn:Ef; [|discriminate].
    destruct (windex_ok (f1_weights p)); inversion Hc; subst.
    cbn [sample_quorum] in Hs. apply fa1_prepare_spec in Ef. destruct Ef as [_ [Ek _]].
    apply fa1_sample_spec in Hs; [|lia]. destruct Hs as [[E1 E2]|[q' [Hq [E1 [E2 E3]]]]].
    + subst q. exact E2.
    + subst q. rewrite lenN_app. apply iid_length in Hq. unfold lenN in *. lia.
  - destruct (fa2_new cv stakes k) as [f|] eqn:Ef; inversion Hc; subst. cbn [sample_quorum fa2_counts_ok] in *.
    apply fa2_new_spec in Ef. destruct Ef as [_ [Ek _]]. unfold fa2_sample in Hs.
    destruct (fa2_medium (f2_clamp f) (f2_k f - lenN (f2_required f)) (f2_medium f) s) as [med s1| |] eqn:Em; try discriminate.
    match type of Hs with context [iid ?n ?f ?x] => destruct (iid n f x) as [q' s2| |] eqn:Ei; try discriminate end.
    inversion Hs; subst; clear Hs. apply fa2_medium_spec in Em. destruct Em as [Em [_ Emc]].
    apply iid_length in Ei. rewrite !lenN_app in *.
    destruct Hfa as [Hfa|[Hcl Hfa]]; [|specialize (Emc Hcl)]; unfold lenN in *; lia.
Qed.

(* 2. every member is a validator of the set *)
Theorem members_in_range : forall cv st stakes order sm s q r,
  construct cv st stakes order = COk sm -> valid_order stakes order -> lenN stakes < W64 ->
  sample_quorum sm s = Ok q r -> Forall (fun v => v < lenN stakes) q.
Proof.
  intros cv st stakes order sm s q r Hc Hord Hn Hs. destruct st; cbn [construct] in *.
  - destruct (v <? lenN stakes) eqn:Ev; inversion Hc; subst. apply N.ltb_lt in Ev. cbn [sample_quorum] in Hs.
    eapply iid_Forall; [|exact Hs]. intros s0 v0 r0 H0. inversion H0; subst. exact Ev.
  - inversion Hc; subst. cbn [sample_quorum] in Hs. eapply iid_Forall; [|exact Hs].
    intros s0 v0 r0 H0. eapply random_range_usize_lt; eauto.
  - destruct (windex_ok stakes) eqn:Eok; inversion Hc; subst. cbn [sample_quorum] in Hs.
    apply windex_ok_total in Eok. eapply iid_Forall; [|exact Hs].
    intros s0 v0 r0 H0. eapply windex_sample_spec; eauto. apply Eok.
  - destruct (turbine_weights cv stakes fanout) as [ws|] eqn:Et; inversion Hc; subst. cbn [sample_quorum] in Hs.
    apply turbine_weights_spec in Et. destruct Et as [El Ep]. eapply iid_Forall; [|exact Hs].
    intros s0 v0 r0 H0. apply turbine_sample_spec in H0; [|exact Ep]. unfold lenN in *. rewrite <- El. apply H0.
  - destruct (windex_ok stakes) eqn:Eok; inversion Hc; subst. cbn [sample_quorum] in Hs.
    apply windex_ok_total in Eok. apply decay_quorum_members in Hs; [|apply Eok].
    eapply Forall_impl; [|exact Hs]. intros a [A _]. exact A.
  - destruct (partition_new (shuffled stakes order) bins) as [bs| |] eqn:Ep; inversion Hc; subst.
    cbn [sample_quorum] in Hs. apply partition_new_spec in Ep. destruct Ep as [_ [Ep1 Ep2]].
    apply partition_sample_members in Hs; [|exact Ep1]. eapply Forall_impl; [|exact Hs].
    intros v [b [t [Hb [Hin _]]]]. destruct (Ep2 b (v, t) Hb Hin) as [st [Hst _]]. cbn [fst] in Hst.
    apply shuffled_In in Hst. destruct Hst as [Hst _]. unfold valid_order in Hord. rewrite Forall_forall in Hord. auto.
  - destruct (fa1_prepare cv stakes k) as [p|] eqn:Ef; [|discriminate].
    destruct (partition_new (shuffled (f1_weights p) order) (f1_kprime p)) as [bs| |] eqn:Ep; inversion Hc; subst.
    cbn [sample_quorum] in Hs. apply fa1_prepare_spec in Ef. destruct Ef as [Er [Ek [El _]]].
    assert (Hreq : Forall (fun v => v < lenN stakes) (f1_required p)).
    { rewrite Er. apply Forall_forall. intros v Hv. eapply seats_list_range; eauto. }
    apply fa1_sample_spec in Hs; [|lia]. destruct Hs as [[E1 E2]|[q' [Hq [E1 _]]]]; subst q; [exact Hreq|].
    apply Forall_app. split; [exact Hreq|].
    apply partition_new_spec in Ep. destruct Ep as [_ [Ep1 Ep2]].
    apply partition_sample_members in Hq; [|exact Ep1]. eapply Forall_impl; [|exact Hq].
    intros v [b [t [Hb [Hin _]]]]. destruct (Ep2 b (v, t) Hb Hin) as [st [Hst _]]. cbn [fst] in Hst.
    apply shuffled_In in Hst. destruct Hst as [Hst _]. unfold valid_order in Hord. rewrite Forall_forall in Hord. auto.
  - destruct (fa1_prepare cv stakes k) as [p|] eqn:Ef; [|discriminate].
    destruct (windex_ok (f1_weights p)) eqn:Eok; inversion Hc; subst.
    cbn [sample_quorum] in Hs. apply fa1_prepare_spec in Ef. destruct Ef as [Er [Ek [El _]]].
    assert (Hreq : Forall (fun v => v < lenN stakes) (f1_required p)).
    { rewrite Er. apply Forall_forall. intros v Hv. eapply seats_list_range; eauto. }
    apply fa1_sample_spec in Hs; [|lia]. destruct Hs as [[E1 E2]|[q' [Hq [E1 _]]]]; subst q; [exact Hreq|].
    apply Forall_app. split; [exact Hreq|]. apply windex_ok_total in Eok.
    eapply iid_Forall; [|exact Hq]. intros s0 v0 r0 H0. apply windex_sample_spec in H0; [|apply Eok].
    unfold lenN in *. rewrite <- El. apply H0.
  - destruct (fa2_new cv stakes k) as [f|] eqn:Ef; inversion Hc; subst. cbn [sample_quorum] in Hs.
    apply fa2_new_spec in Ef. destruct Ef as [Er [Ek [Ep [El [Em _]]]]]. unfold fa2_sample in Hs.
    destruct (fa2_medium (f2_clamp f) (f2_k f - lenN (f2_required f)) (f2_medium f) s) as [med s1| |] eqn:Emed; try discriminate.
    match type of Hs with context [iid ?n ?f ?x] => destruct (iid n f x) as [q' s2| |] eqn:Ei; try discriminate end.
    inversion Hs; subst; clear Hs. apply fa2_medium_spec in Emed. destruct Emed as [_ [Einc _]].
    apply Forall_app. split; [apply Forall_app; split|].
    + rewrite Er. apply Forall_forall. intros v Hv. eapply seats_list_range; eauto.
    + apply Forall_forall. intros v Hv. apply Em. apply Einc. exact Hv.
    + eapply iid_Forall; [|exact Ei]. intros s0 v0 r0 H0. apply windex_sample_spec in H0; [|exact Ep].
      unfold lenN in *. rewrite <- El. apply H0.
Qed.

(* 3. a zero-weight validator is never drawn.  `drawn` is the randomly drawn part of the committee (all of
   it except Fait Accompli's pre-allocated seats); every drawn validator has positive stake. *)
Definition prealloc (cv : codever) (st : strategy) (stakes : list N) : list N :=
  match st with
  | StFA1Part k | StFA1Stake k => seats_list cv stakes 0 (sumN stakes) k
  | _ => []
  end.
Definition stake_drawn (st : strategy) : bool :=
  match st with StStake _ | StDecay _ _ _ | StPartition _ | StFA1Part _ | StFA1Stake _ => true | _ => false end.

Lemma bins_members_positive stakes order bs nb s q r :
  partition_new (shuffled stakes order) nb = COk bs ->
  partition_sample bs s = Ok q r -> Forall (fun v => 0 < nthN stakes v 0) q.
Proof.
  intros Ep Hs. apply partition_new_spec in Ep. destruct Ep as [_ [Ep1 Ep2]].
  apply partition_sample_members in Hs; [|exact Ep1]. eapply Forall_impl; [|exact Hs].
  intros v [b [t [Hb [Hin Ht]]]]. destruct (Ep2 b (v, t) Hb Hin) as [st [Hst Hle]]. cbn [fst snd] in *.
  apply shuffled_In in Hst. destruct Hst as [_ Hst]. subst st. lia.
Qed.

Theorem zero_weight_never_drawn : forall cv st stakes order sm s q r,
  stake_drawn st = true ->
  construct cv st stakes order = COk sm -> sample_quorum sm s = Ok q r ->
  exists drawn, q = prealloc cv st stakes ++ drawn /\ Forall (fun v => 0 < nthN stakes v 0) drawn.
Proof.
  intros cv st stakes order sm s q r Hd Hc Hs. destruct st; cbn [stake_drawn] in Hd; try discriminate; cbn [construct prealloc] in *.
  - destruct (windex_ok stakes) eqn:Eok; inversion Hc; subst. cbn [sample_quorum] in Hs.
    apply windex_ok_total in Eok. exists q. split; [reflexivity|]. eapply iid_Forall; [|exact Hs].
    intros s0 v0 r0 H0. eapply windex_sample_spec; eauto. apply Eok.
  - destruct (windex_ok stakes) eqn:Eok; inversion Hc; subst. cbn [sample_quorum] in Hs.
    apply windex_ok_total in Eok. apply decay_quorum_members in Hs; [|apply Eok].
    exists q. split; [reflexivity|]. eapply Forall_impl; [|exact Hs]. intros a [_ B]. exact B.
  - destruct (partition_new (shuffled stakes order) bins) as [bs| |] eqn:Ep; inversion Hc; subst.
    cbn [sample_quorum] in Hs. exists q. split; [reflexivity|]. eapply bins_members_positive; eauto.
  - destruct (fa1_prepare cv stakes k) as [p|] eqn:Ef; [|discriminate].
    destruct (partition_new (shuffled (f1_weights p) order) (f1_kprime p)) as [bs| |] eqn:Ep; inversion Hc; subst.
    cbn [sample_quorum] in Hs. apply fa1_prepare_spec in Ef. destruct Ef as [Er [Ek [El Ew]]].
    apply fa1_sample_spec in Hs; [|lia]. destruct Hs as [[E1 E2]|[q' [Hq [E1 _]]]]; subst q.
    + exists []. rewrite app_nil_r. split; [exact Er | constructor].
    + exists q'. split; [rewrite Er; reflexivity|].
      pose proof (bins_members_positive _ _ _ _ _ _ _ Ep Hq) as Hpos.
      eapply Forall_impl; [|exact Hpos]. intros v Hv. cbn beta in *. specialize (Ew v). lia.
  - destruct (fa1_prepare cv stakes k) as [p|] eqn:Ef; [|discriminate].
    destruct (windex_ok (f1_weights p)) eqn:Eok; inversion Hc; subst.
    cbn [sample_quorum] in Hs. apply fa1_prepare_spec in Ef. destruct Ef as [Er [Ek [El Ew]]].
    apply fa1_sample_spec in Hs; [|lia]. destruct Hs as [[E1 E2]|[q' [Hq [E1 _]]]]; subst q.
    + exists []. rewrite app_nil_r. split; [exact Er | constructor].
    + exists q'. split; [rewrite Er; reflexivity|]. apply windex_ok_total in Eok.
      eapply iid_Forall; [|exact Hq]. intros s0 v0 r0 H0. apply windex_sample_spec in H0; [|apply Eok].
      destruct H0 as [_ H0]. cbn beta. specialize (Ew v0). lia.
Qed.

(* TurbineSampler draws by its own work-derived weights: never a validator whose weight is zero *)
Theorem turbine_zero_weight_never_drawn : forall cv fanout k stakes order sm s q r,
  construct cv (StTurbine fanout k) stakes order = COk sm -> sample_quorum sm s = Ok q r ->
  exists ws, turbine_weights cv stakes fanout = Some ws /\ Forall (fun v => 0 < nthN ws v 0) q.
Proof.
  intros cv fanout k stakes order sm s q r Hc Hs. cbn [construct] in Hc.
  destruct (turbine_weights cv stakes fanout) as [ws|] eqn:Et; inversion Hc; subst. cbn [sample_quorum] in Hs.
  exists ws. split; [reflexivity|]. apply turbine_weights_spec in Et. destruct Et as [_ Ep].
  eapply iid_Forall; [|exact Hs]. intros s0 v0 r0 H0. apply turbine_sample_spec in H0; [|exact Ep]. apply H0.
Qed.

(* 4. Fait Accompli: every validator holds at least its pre-allocated seats - the number the code computes,
   floor in binary64 of (stake as f64 / total as f64 * k as f64) *)
Definition is_fa (st : strategy) : bool := match st with StFA1Part _ | StFA1Stake _ | StFA2 _ => true | _ => false end.

Theorem fa_preallocated_seats : forall cv st stakes order sm s q r v,
  is_fa st = true ->
  construct cv st stakes order = COk sm -> sample_quorum sm s = Ok q r -> v < lenN stakes ->
  seats cv (nthN stakes v 0) (sumN stakes) (quorum_size st) <= count_occ_N q v.
Proof.
  intros cv st stakes order sm s q r v Hfa Hc Hs Hv. destruct st; cbn [is_fa] in Hfa; try discriminate; cbn [construct quorum_size] in *.
  - destruct (fa1_prepare cv stakes k) as [p|] eqn:Ef; [|discriminate].
    destruct (partition_new (shuffled (f1_weights p) order) (f1_kprime p)) as [bs| |] eqn:Ep; inversion Hc; subst.
    cbn [sample_quorum] in Hs. apply fa1_prepare_spec in Ef. destruct Ef as [Er [Ek _]].
    apply fa1_sample_spec in Hs; [|lia].
    assert (Hcnt : count_occ_N (f1_required p) v = seats cv (nthN stakes v 0) (sumN stakes) k).
    { rewrite Er, seats_list_count. apply N.ltb_lt in Hv. rewrite Hv. reflexivity. }
    destruct Hs as [[E1 _]|[q' [_ [E1 _]]]]; subst q; [lia|]. rewrite count_occ_N_app. lia.
  - destruct (fa1_prepare cv stakes k) as [p|] eqn:Ef; [|discriminate].
    destruct (windex_ok (f1_weights p)); inversion Hc; subst.
    cbn [sample_quorum] in Hs. apply fa1_prepare_spec in Ef. destruct Ef as [Er [Ek _]].
    apply fa1_sample_spec in Hs; [|lia].
    assert (Hcnt : count_occ_N (f1_required p) v = seats cv (nthN stakes v 0) (sumN stakes) k).
    { rewrite Er, seats_list_count. apply N.ltb_lt in Hv. rewrite Hv. reflexivity. }
    destruct Hs as [[E1 _]|[q' [_ [E1 _]]]]; subst q; [lia|]. rewrite count_occ_N_app. lia.
  - destruct (fa2_new cv stakes k) as [f|] eqn:Ef; inversion Hc; subst. cbn [sample_quorum] in Hs.
    apply fa2_new_spec in Ef. destruct Ef as [Er _]. unfold fa2_sample in Hs.
    destruct (fa2_medium (f2_clamp f) (f2_k f - lenN (f2_required f)) (f2_medium f) s) as [med s1| |]; try discriminate.
    match type of Hs with context [iid ?n ?f ?x] => destruct (iid n f x) as [q' s2| |]; try discriminate end.
    inversion Hs; subst; clear Hs. rewrite !count_occ_N_app, Er, seats_list_count.
    apply N.ltb_lt in Hv. rewrite Hv. lia.
Qed.

(* the guarantee of the property, floor(f * k) with f the exact stake fraction, follows wherever the
   binary64 computation agrees with the exact floor *)
Definition exact_floor (s total k : N) : N := s * k / total.
(* the code as it is now computes exactly that floor: the guarantee of the property, for every stake
   distribution, committee size, order and random stream, for both FA1 samplers and FA2 *)
Theorem fa_floor_guarantee : forall st stakes order sm s q r v,
  is_fa st = true ->
  construct Current st stakes order = COk sm -> sample_quorum sm s = Ok q r -> v < lenN stakes ->
  exact_floor (nthN stakes v 0) (sumN stakes) (quorum_size st) <= count_occ_N q v.
Proof. intros. exact (fa_preallocated_seats Current _ _ _ _ _ _ _ _ H H0 H1 H2). Qed.

(* pinned tree: the same only where the binary64 computation happened to be exact *)
Corollary fa_floor_guarantee_pinned_where_float_exact : forall st stakes order sm s q r v,
  is_fa st = true ->
  construct Pinned st stakes order = COk sm -> sample_quorum sm s = Ok q r -> v < lenN stakes ->
  fa_seats (nthN stakes v 0) (sumN stakes) (quorum_size st) = exact_floor (nthN stakes v 0) (sumN stakes) (quorum_size st) ->
  exact_floor (nthN stakes v 0) (sumN stakes) (quorum_size st) <= count_occ_N q v.
Proof. intros. rewrite <- H3. exact (fa_preallocated_seats Pinned _ _ _ _ _ _ _ _ H H0 H1 H2). Qed.

(* 5. decaying acceptance: no validator exceeds the cap, for every acceptance test that rejects at the cap *)
Theorem decay_cap : forall (accept : N -> float -> bool) (cap : N) ws k s q r v,
  (forall c w, cap <= c -> w < W64 -> accept c (u01_of_word w) = false) ->
  0 < sumN ws ->
  decay_quorum accept (windex_sample ws) k (map (fun _ => 0) ws) s = Ok q r ->
  count_occ_N q v <= cap.
Proof.
  intros accept cap ws k s q r v Hcap Hpos H.
  pose proof (decay_quorum_cap accept ws Hpos cap Hcap k (map (fun _ => 0) ws) s q r) as G.
  assert (Hz : forall w, nthN (map (fun _ : N => 0) ws) w 0 = 0).
  { intros w. unfold nthN. generalize (N.to_nat w). clear. induction ws as [|x l IH]; intros [|n]; cbn [map nth]; auto. }
  assert (G2 := G (map_length _ _)). assert (G3 : forall w, nthN (map (fun _ : N => 0) ws) w 0 <= cap) by (intros w; rewrite Hz; lia).
  specialize (G2 G3 H v). rewrite Hz in G2. lia.
Qed.

(* the sampler of the crate accepts iff random::<f64>() >= count as f64 / max_samples; the premise is the
   binary64 fact that count / max_samples >= 1 > random::<f64>() once count >= cap = ceil(max_samples) *)
Definition rejects_at (max_samples : float) (cap : N) : Prop :=
  forall c w, cap <= c -> w < W64 -> decay_accept max_samples c (u01_of_word w) = false.
Theorem decay_sampler_cap : forall cv mnum mden k stakes order sm cap s q r v,
  construct cv (StDecay mnum mden k) stakes order = COk sm ->
  rejects_at (decay_max mnum mden) cap ->
  sample_quorum sm s = Ok q r -> count_occ_N q v <= cap.
Proof.
  intros cv mnum mden k stakes order sm cap s q r v Hc Hrej Hs. cbn [construct] in Hc.
  destruct (windex_ok stakes) eqn:Eok; inversion Hc; subst. cbn [sample_quorum] in Hs.
  apply windex_ok_total in Eok. eapply decay_cap; eauto. apply Eok.
Qed.

(* 6. constructibility where it holds: the samplers without floating point / bins *)
Definition positive_set (stakes : list N) : Prop := stakes <> [] /\ Forall (fun s => 0 < s) stakes /\ sumN stakes < W64.
Lemma positive_set_windex stakes : positive_set stakes -> windex_ok stakes = true.
Proof.
  intros [Hne [Hpos Hsum]]. apply windex_ok_spec. split; [exact Hne|]. split; [|exact Hsum].
  destruct stakes as [|x l]; [congruence|]. inversion Hpos; subst. rewrite sumN_cons. lia.
Qed.
Theorem constructible : forall cv st stakes order,
  positive_set stakes ->
  match st with
  | StUniform _ | StStake _ | StDecay _ _ _ => True
  | StAllSame v _ => v < lenN stakes
  | _ => False
  end ->
  exists sm, construct cv st stakes order = COk sm.
Proof.
  intros cv st stakes order Hp Hst. pose proof (positive_set_windex _ Hp) as Hw.
  destruct st; try contradiction; cbn [construct]; rewrite ?Hw; eauto.
  apply N.ltb_lt in Hst. rewrite Hst. eauto.
Qed.

(* --- the repaired code: FA1 with the stake-weighted fallback is constructible for every positive set --- *)
Lemma div_add_le a b T : 0 < T -> a / T + b / T <= (a + b) / T.
Proof.
  intros HT. apply N.div_le_lower_bound; [lia|].
  pose proof (N.mul_div_le a T ltac:(lia)). pose proof (N.mul_div_le b T ltac:(lia)). lia.
Qed.
Lemma floor_sum_le (l : list N) k T : 0 < T -> sumN (map (fun s => s * k / T) l) <= sumN l * k / T.
Proof.
  intros HT. induction l as [|x l IH]; [cbn; apply N.le_0_l|].
  cbn [map]. rewrite !sumN_cons. rewrite N.mul_add_distr_r.
  eapply N.le_trans; [|apply div_add_le; exact HT]. lia.
Qed.
Lemma seats_list_length cv stakes : forall i0 total k,
  lenN (seats_list cv stakes i0 total k) = sumN (map (fun s => seats cv s total k) stakes).
Proof.
  unfold seats_list. induction stakes as [|x l IH]; intros i0 total k; [reflexivity|].
  cbn [indexed flat_map map]. rewrite lenN_app, sumN_cons, IH. unfold repeatN. rewrite lenN_repeat. reflexivity.
Qed.
Lemma seats_back_le s k T : 0 < k -> s * k / T * T / k <= s.
Proof.
  intros Hk. destruct (N.eq_dec T 0) as [E|D]; [subst; rewrite N.mul_0_r; cbn; apply N.le_0_l|].
  apply N.div_le_upper_bound; [lia|]. pose proof (N.mul_div_le (s * k) T D). lia.
Qed.

Lemma fa1_loop_current_total stakes : forall id total k,
  0 < total -> 0 < k ->
  exists rq tr, fa1_loop Current stakes id total k = Some (rq, tr) /\ sumN tr <= sumN stakes.
Proof.
  induction stakes as [|s r IH]; intros id total k HT Hk; cbn [fa1_loop].
  - exists [], []. split; [reflexivity | apply N.le_refl].
  - cbn [seats_panic seats]. replace (total =? 0) with false by (symmetry; apply N.eqb_neq; lia).
    replace (k =? 0) with false by (symmetry; apply N.eqb_neq; lia).
    pose proof (seats_back_le s k total Hk) as Hb.
    replace (s <? s * k / total * total / k) with false by (symmetry; apply N.ltb_ge; exact Hb).
    destruct (IH (id + 1) total k HT Hk) as [rq [tr [E L]]]. rewrite E.
    eexists; eexists. split; [reflexivity|]. rewrite !sumN_cons. apply N.add_le_mono; [apply N.le_sub_l | exact L].
Qed.

Lemma forallb_zero_sum l : forallb (fun x => x =? 0) l = false -> 0 < sumN l.
Proof.
  induction l as [|x l IH]; [discriminate|]. cbn [forallb]. rewrite sumN_cons.
  destruct (x =? 0) eqn:E; cbn [andb]; [intros H; specialize (IH H); lia|]. apply N.eqb_neq in E. lia.
Qed.

Theorem fa1_stake_constructible : forall stakes k order,
  positive_set stakes -> 1 <= k ->
  exists sm, construct Current (StFA1Stake k) stakes order = COk sm.
Proof.
  intros stakes k order Hp Hk. pose proof (positive_set_windex _ Hp) as Hw.
  destruct Hp as [Hne [Hpos Hsum]]. pose proof (windex_ok_total _ Hw) as [HT _].
  cbn [construct]. unfold fa1_prepare.
  replace (W64 <=? sumN stakes) with false by (symmetry; apply N.leb_gt; exact Hsum).
  destruct (fa1_loop_current_total stakes 0 (sumN stakes) k HT ltac:(lia)) as [rq [tr [E L]]]. rewrite E.
  pose proof (fa1_loop_spec _ _ _ _ _ _ _ E) as [Erq [Elen _]].
  assert (Hlen : lenN rq <= k).
  { rewrite Erq, seats_list_length. cbn [seats].
    eapply N.le_trans; [apply floor_sum_le; exact HT|]. rewrite N.mul_comm, N.div_mul by lia. apply N.le_refl. }
  replace (k <? lenN rq) with false by (symmetry; apply N.ltb_ge; exact Hlen).
  cbn [f1_weights f1_required f1_kprime].
  destruct (forallb (fun x => x =? 0) tr) eqn:Ez.
  - rewrite Hw. eauto.
  - assert (Hok : windex_ok tr = true).
    { apply windex_ok_spec. split; [|split].
      - intros C. subst tr. destruct stakes; [congruence | discriminate].
      - apply forallb_zero_sum. exact Ez.
      - lia. }
    rewrite Hok. eauto.
Qed.

(* ... and TurbineSampler for one or two validators *)
Theorem turbine_small_constructible : forall stakes fanout k order,
  positive_set stakes -> lenN stakes <= 2 ->
  exists sm, construct Current (StTurbine fanout k) stakes order = COk sm.
Proof.
  intros stakes fanout k order Hp Hn. pose proof (positive_set_windex _ Hp) as Hw.
  cbn [construct turbine_weights]. replace (lenN stakes <=? 2) with true by (symmetry; apply N.leb_le; exact Hn).
  rewrite Hw. eauto.
Qed.

(* ... and exactly k validators from every sampler the current code constructs: FA2's pre-allocated seats
   sum to at most k (exact arithmetic) and its medium-node loop is clamped *)
Lemma fa2_counts_ok_current st stakes order sm : construct Current st stakes order = COk sm -> fa2_counts_ok sm.
Proof.
  intros Hc. destruct st; cbn [construct] in Hc;
    try (match type of Hc with context [if ?c then _ else _] => destruct c end; inversion Hc; exact I);
    try (inversion Hc; exact I).
  - destruct (turbine_weights Current stakes fanout); inversion Hc; exact I.
  - destruct (partition_new (shuffled stakes order) bins); inversion Hc; exact I.
  - destruct (fa1_prepare Current stakes k) as [p|]; [|discriminate].
    destruct (partition_new (shuffled (f1_weights p) order) (f1_kprime p)); inversion Hc; exact I.
  - destruct (fa1_prepare Current stakes k) as [p|]; [|discriminate].
    destruct (windex_ok (f1_weights p)); inversion Hc; exact I.
  - destruct (fa2_new Current stakes k) as [f|] eqn:Ef; inversion Hc; subst. cbn [fa2_counts_ok].
    apply fa2_new_spec in Ef. destruct Ef as [Er [Ek [_ [_ [_ [Ecl HT]]]]]]. right. split; [exact Ecl|].
    rewrite Er, Ek, seats_list_length. cbn [seats]. specialize (HT eq_refl).
    eapply N.le_trans; [apply floor_sum_le; lia|]. rewrite N.mul_comm, N.div_mul by exact HT. apply N.le_refl.
Qed.

Theorem quorum_len_current : forall st stakes order sm s q r,
  construct Current st stakes order = COk sm ->
  sample_quorum sm s = Ok q r -> lenN q = quorum_size st.
Proof. intros. eapply quorum_len; eauto. eapply fa2_counts_ok_current; eauto. Qed.

(* 7. a committee is a function of the validator set and the random source.
   `sample_quorum` is a function of the constructed sampler and the stream.  In the pinned tree the sampler
   of the partition-based strategies also depended on the thread-RNG order (argument `order`); the other
   strategies never read it. *)
Definition order_free (st : strategy) : bool := match st with StPartition _ | StFA1Part _ => false | _ => true end.
Theorem pure_in_validators_and_rng_order_free : forall cv st stakes o1 o2,
  order_free st = true -> construct cv st stakes o1 = construct cv st stakes o2.
Proof. intros cv st stakes o1 o2 H. destruct st; cbn [order_free] in H; try discriminate; reflexivity. Qed.

(* the shuffle of PartitionSampler::new now is rand's shuffle on a fixed-seed StdRng: the order, hence the
   sampler, is a function of the validator list; `construct_current` has no other input *)
Lemma swap_list_Forall (P : N -> Prop) l i j : Forall P l -> P 0 -> Forall P (swap_list l i j).
Proof.
  intros Hl H0. unfold swap_list.
  assert (G : forall (l : list N) k x, Forall P l -> P x -> Forall P (set_nthN l k (fun _ => x))).
  { induction l0 as [|y l0 IH]; intros [|k] x Hf Hx; cbn [set_nthN]; auto; inversion Hf; subst; constructor; auto. }
  assert (Hn : forall k, P (nth k l 0)).
  { intros k. destruct (Nat.lt_ge_cases k (length l)) as [A|A].
    - rewrite Forall_forall in Hl. apply Hl. apply nth_In. exact A.
    - rewrite nth_overflow by exact A. exact H0. }
  apply G; [apply G; auto|]; apply Hn.
Qed.
Lemma swap_list_length l i j : length (swap_list l i j) = length l.
Proof. unfold swap_list. rewrite !set_nthN_length. reflexivity. Qed.
Lemma shuffle_go_Forall (P : N -> Prop) : P 0 -> forall todo i l st s l' r,
  Forall P l -> shuffle_go todo i l st s = Ok l' r -> Forall P l' /\ length l' = length l.
Proof.
  intros H0. induction todo as [|t IH]; intros i l st s l' r Hl H; cbn [shuffle_go] in H.
  - inversion H; subst. auto.
  - destruct (next_index st s) as [[idx st'] s1| |]; try discriminate.
    apply IH in H; [|apply swap_list_Forall; auto]. rewrite swap_list_length in H. exact H.
Qed.
Lemma fixed_order_valid n order : fixed_order n = Some order ->
  Forall (fun id => id < n) order /\ lenN order = n.
Proof.
  unfold fixed_order. set (ids := map fst (indexed 0 (repeat 0 (N.to_nat n)))).
  assert (Hids : Forall (fun id => id < n) ids).
  { apply Forall_forall. intros x Hx. unfold ids in Hx. apply in_map_iff in Hx. destruct Hx as [[a b] [E Hin]].
    cbn [fst] in E. subst a. apply indexed_In in Hin. unfold lenN in Hin. rewrite repeat_length in Hin. lia. }
  assert (Hlen : length ids = N.to_nat n) by (unfold ids; rewrite map_length, indexed_length, repeat_length; reflexivity).
  destruct (shuffle ids _) as [l r| |] eqn:E; try discriminate. intros H. inversion H; subst l.
  unfold shuffle in E. destruct (Nat.leb (length ids) 1) eqn:El.
  - inversion E; subst. split; [exact Hids | unfold lenN; rewrite Hlen; lia].
  - destruct (N.eq_dec n 0) as [Z|NZ]; [subst n; cbn in El; discriminate|].
    apply (shuffle_go_Forall (fun id => id < n)) in E; [|lia | exact Hids].
    destruct E as [E1 E2]. split; [exact E1 | unfold lenN; rewrite E2, Hlen; lia].
Qed.

Lemma construct_current_as_construct st stakes sm :
  construct_current st stakes = COk sm ->
  exists order, valid_order stakes order /\ construct Current st stakes order = COk sm.
Proof.
  unfold construct_current. intros H.
  destruct st; try (exists []; split; [constructor | exact H]);
    (destruct (fixed_order (lenN stakes)) as [o|] eqn:E; [|discriminate];
     exists o; split; [apply fixed_order_valid in E; apply E | exact H]).
Qed.

Theorem pure_in_validators_and_rng : forall st stakes sm1 sm2 s,
  construct_current st stakes = COk sm1 -> construct_current st stakes = COk sm2 ->
  sample_quorum sm1 s = sample_quorum sm2 s.
Proof. intros st stakes sm1 sm2 s H1 H2. rewrite H1 in H2. inversion H2. reflexivity. Qed.

(* ------------------------------------------------------------------ *)
(* one instance used through both traits: committees do not depend on its history *)
(* ------------------------------------------------------------------ *)
Definition quorum_out (r : res (list N * list N)) : res (list N) :=
  match r with Ok (q, _) s => Ok q s | Panic => Panic | Starved => Starved end.

(* a fresh instance (all counters zero) is what `sample_quorum` of the model describes *)
Lemma quorum_from_fresh : forall sm s, quorum_out (sample_quorum_from sm (fresh_counts sm) s) = sample_quorum sm s.
Proof.
  intros sm s. destruct sm; cbn [sample_quorum_from fresh_counts quorum_out];
    try (match goal with |- context [sample_quorum ?x s] => destruct (sample_quorum x s) end; reflexivity).
  cbn [sample_quorum]. destruct (decay_quorum _ _ _ _ s); reflexivity.
Qed.

(* sample_quorum leaves every counter at zero, whatever state it started from (it ends with reset()) *)
Theorem counters_zero_after_quorum : forall sm counts s q c r,
  sample_quorum_from sm counts s = Ok (q, c) r ->
  match sm with SmDecay _ _ _ => c = fresh_counts sm | _ => c = counts end.
Proof.
  intros sm counts s q c r H. destruct sm; cbn [sample_quorum_from] in H;
    try (match type of H with context [sample_quorum ?x s] => destruct (sample_quorum x s) end; inversion H; reflexivity).
  destruct (decay_quorum _ _ _ _ s); inversion H. reflexivity.
Qed.

(* the stateless samplers ignore the state altogether *)
Lemma quorum_stateless : forall sm c s, fresh_counts sm = [] -> (forall ws m k, sm <> SmDecay ws m k) ->
  quorum_out (sample_quorum_from sm c s) = sample_quorum sm s.
Proof.
  intros sm c s _ Hnd. destruct sm; cbn [sample_quorum_from quorum_out];
    try (match goal with |- context [sample_quorum ?x s] => destruct (sample_quorum x s) end; reflexivity).
  exfalso. eapply Hnd. reflexivity.
Qed.

(* hence: whatever was done with an instance before (single draws, quorums, from any counter state), the
   committee drawn right after a completed sample_quorum is the committee a fresh instance draws from the same
   random words ... *)
Theorem quorum_after_quorum_is_fresh : forall sm counts s1 q1 c1 r1 s2,
  sample_quorum_from sm counts s1 = Ok (q1, c1) r1 ->
  quorum_out (sample_quorum_from sm c1 s2) = sample_quorum sm s2.
Proof.
  intros sm counts s1 q1 c1 r1 s2 H. pose proof (counters_zero_after_quorum _ _ _ _ _ _ H) as Hc.
  destruct sm; try (subst c1; apply quorum_stateless; [reflexivity | intros; discriminate]).
  rewrite Hc. apply quorum_from_fresh.
Qed.
(* ... and so is the committee drawn right after reset() *)
Theorem quorum_after_reset_is_fresh : forall sm counts s,
  quorum_out (sample_quorum_from sm (reset_counts sm counts) s) = sample_quorum sm s.
Proof.
  intros sm counts s. destruct sm; try (apply quorum_stateless; [reflexivity | intros; discriminate]).
  cbn [reset_counts]. apply (quorum_from_fresh (SmDecay ws max_samples k)).
Qed.

(* ------------------------------------------------------------------ *)
(* PartitionSampler::new always terminates                             *)
(* ------------------------------------------------------------------ *)
(* remaining stake (this validator's rest + everybody after it) fits the remaining bin capacity *)
Definition fits (nb spb : N) (a : pacc) (pending : N) : Prop :=
  pa_idx a < nb /\ pa_cur_stake a <= spb /\ pending + pa_cur_stake a <= (nb - pa_idx a) * spb.

Lemma part_take_terminates nb spb id : forall fuel stake rest a,
  fits nb spb a (stake + rest) ->
  (N.to_nat (nb - 1 - pa_idx a) < fuel)%nat ->
  exists a', part_take fuel nb spb id stake a = Some a' /\ fits nb spb a' rest.
Proof.
  induction fuel as [|f IH]; intros stake rest a Hfit Hfuel; [lia|].
  cbn [part_take]. destruct (stake =? 0) eqn:E0.
  - apply N.eqb_eq in E0. subst stake. exists a. split; [reflexivity|]. exact Hfit.
  - apply N.eqb_neq in E0. destruct Hfit as [F1 [F2 F3]].
    set (take := N.min stake (spb - pa_cur_stake a)).
    destruct ((pa_idx a <? nb - 1) && ((0 <? stake - take) || (pa_cur_stake a + take =? spb))) eqn:Eb.
    + apply andb_prop in Eb. destruct Eb as [Eb1 Eb2]. apply N.ltb_lt in Eb1.
      apply IH.
      * unfold fits. cbn [pa_idx pa_cur_stake]. split; [lia|]. split; [lia|].
        assert (Hfull : take = spb - pa_cur_stake a).
        { apply orb_prop in Eb2. destruct Eb2 as [Eb2|Eb2]; [apply N.ltb_lt in Eb2 | apply N.eqb_eq in Eb2]; unfold take in *; lia. }
        replace (nb - pa_idx a) with (1 + (nb - (pa_idx a + 1))) in F3 by lia.
        rewrite N.mul_add_distr_r in F3. lia.
      * cbn [pa_idx]. lia.
    + assert (Hdone : stake - take = 0).
      { apply andb_false_iff in Eb. destruct Eb as [Eb|Eb].
        - apply N.ltb_ge in Eb. assert (Hi : pa_idx a = nb - 1) by lia.
          replace (nb - pa_idx a) with 1 in F3 by lia. unfold take. lia.
        - apply orb_false_iff in Eb. destruct Eb as [Eb _]. apply N.ltb_ge in Eb. lia. }
      destruct f as [|f']; cbn [part_take]; rewrite Hdone; cbn [N.eqb].
      * eexists. split; [reflexivity|]. unfold fits. cbn [pa_idx pa_cur_stake]. unfold take in *. repeat split; lia.
      * eexists. split; [reflexivity|]. unfold fits. cbn [pa_idx pa_cur_stake]. unfold take in *. repeat split; lia.
Qed.

Lemma part_fill_terminates nb spb vals : forall a,
  fits nb spb a (sumN (map snd vals)) ->
  exists a', part_fill nb spb vals a = Some a'.
Proof.
  induction vals as [|[id st] r IH]; intros a Hfit; cbn [part_fill]; [eauto|].
  cbn [map snd] in Hfit. rewrite sumN_cons in Hfit.
  destruct (part_take_terminates nb spb id (S (N.to_nat nb)) st (sumN (map snd r)) a Hfit) as [a1 [E1 F1]].
  { destruct Hfit as [F _]. lia. }
  rewrite E1. apply IH. exact F1.
Qed.

Lemma div_ceil_covers total nb : 0 < nb -> total <= nb * div_ceil total nb.
Proof.
  intros Hn. unfold div_ceil. pose proof (N.div_mod (total + nb - 1) nb ltac:(lia)) as Hdm.
  pose proof (N.mod_lt (total + nb - 1) nb ltac:(lia)) as Hlt. lia.
Qed.

Theorem partition_never_hangs : forall vals nb, partition_new vals nb <> CHang.
Proof.
  intros vals nb. unfold partition_new. destruct (nb =? 0) eqn:E0; [discriminate|]. apply N.eqb_neq in E0.
  destruct (W64 <=? sumN (map snd vals)); [discriminate|].
  destruct (part_fill_terminates nb (div_ceil (sumN (map snd vals)) nb) vals (mkPacc [] [] 0 0)) as [a Ea].
  { unfold fits. cbn [pa_idx pa_cur_stake]. split; [lia|]. split; [lia|].
    pose proof (div_ceil_covers (sumN (map snd vals)) nb ltac:(lia)). lia. }
  rewrite Ea. match goal with |- context [forallb ?f ?l] => destruct (forallb f l) end; discriminate.
Qed.

Theorem construct_never_hangs : forall cv st stakes order, construct cv st stakes order <> CHang.
Proof.
  intros cv st stakes order. destruct st; cbn [construct].
  - destruct (v <? lenN stakes); discriminate.
  - discriminate.
  - destruct (windex_ok stakes); discriminate.
  - destruct (turbine_weights cv stakes fanout); discriminate.
  - destruct (windex_ok stakes); discriminate.
  - pose proof (partition_never_hangs (shuffled stakes order) bins).
    destruct (partition_new (shuffled stakes order) bins); congruence.
  - destruct (fa1_prepare cv stakes k) as [p|]; [|discriminate].
    pose proof (partition_never_hangs (shuffled (f1_weights p) order) (f1_kprime p)).
    destruct (partition_new (shuffled (f1_weights p) order) (f1_kprime p)); congruence.
  - destruct (fa1_prepare cv stakes k) as [p|]; [|discriminate]. destruct (windex_ok (f1_weights p)); discriminate.
  - destruct (fa2_new cv stakes k); discriminate.
Qed.

(* ------------------------------------------------------------------ *)
(* what the faithful model does NOT satisfy (witnesses; replayed on the implementation by the check)    *)
(* ------------------------------------------------------------------ *)
Definition ones (n : nat) : list N := repeat 1 n.

(* --- the tree pinned for this work (before 904dbce / b638f0a / 3524a23) --- *)

(* floor(f * k) was computed in binary64: 1/49 * 49 < 1, so with 49 equal stakes and 49 seats nobody was
   guaranteed a seat although floor(f * k) = 1 for everybody *)
Lemma fa_floor_guarantee_pinned_refuted :
  exists stakes k sm s q r v,
    construct Pinned (StFA1Stake k) stakes [] = COk sm /\ sample_quorum sm s = Ok q r /\ v < lenN stakes /\
    count_occ_N q v < exact_floor (nthN stakes v 0) (sumN stakes) k.
Proof.
  eexists (ones 49), 49, _, (xs32_words 98 1), _, _, 6.
  split; [vm_compute; reflexivity|]. split; [vm_compute; reflexivity|]. split; vm_compute; reflexivity.
Qed.

(* FA2 could return MORE than k validators although its assertion passed: five near-equal stakes around
   2^53, k = 25: 5 seats each by the rounded f64 product, four "medium" nodes in addition: 29 seats *)
Lemma fa2_committee_size_pinned_refuted :
  exists stakes k sm s q r,
    positive_set stakes /\ construct Pinned (StFA2 k) stakes [] = COk sm /\ sample_quorum sm s = Ok q r /\ k < lenN q.
Proof.
  eexists [9007199254740992; 9007199254740991; 9007199254740991; 9007199254740991; 9007199254740991], 25, _, (xs32_words 8 1), _, _.
  split; [split; [discriminate|]; split; [repeat constructor | vm_compute; reflexivity]|].
  split; [vm_compute; reflexivity|]. split; [vm_compute; reflexivity|]. vm_compute. reflexivity.
Qed.

(* TurbineSampler::new: usize underflow for one validator, all weights zero for two *)
Lemma turbine_constructible_pinned_refuted :
  construct Pinned (StTurbine TURBINE_DEFAULT_FANOUT 1) [1] [] = CPanic /\
  construct Pinned (StTurbine TURBINE_DEFAULT_FANOUT 1) [1; 1] [] = CPanic.
Proof. split; vm_compute; reflexivity. Qed.

(* FaitAccompli1Sampler: `samples * total_stake` overflowed u64 for totals beyond 2^64 / k *)
Lemma fa1_stake_constructible_pinned_refuted :
  exists stakes, positive_set stakes /\ construct Pinned (StFA1Stake TOTAL_SHREDS) stakes [] = CPanic.
Proof.
  exists [4611686018427387903; 4611686018427387904]. split; [|vm_compute; reflexivity].
  split; [discriminate|]. split; [repeat constructor | vm_compute; reflexivity].
Qed.

(* the bins depended on the thread-RNG shuffle: two orders, same validator set, same random words,
   different committees *)
Lemma partition_pure_in_rng_pinned_refuted :
  exists stakes bins o1 o2 sm1 sm2 s,
    construct Pinned (StPartition bins) stakes o1 = COk sm1 /\ construct Pinned (StPartition bins) stakes o2 = COk sm2 /\
    (exists q1 q2 r1 r2, sample_quorum sm1 s = Ok q1 r1 /\ sample_quorum sm2 s = Ok q2 r2 /\ q1 <> q2).
Proof.
  eexists (ones 4), 2, [0; 1; 2; 3], [0; 2; 1; 3], _, _, (xs32_words 4 1).
  split; [vm_compute; reflexivity|]. split; [vm_compute; reflexivity|].
  eexists; eexists; eexists; eexists. split; [vm_compute; reflexivity|]. split; [vm_compute; reflexivity|].
  discriminate.
Qed.

(* --- the code as it is now --- *)

(* PartitionSampler::new still panics on an empty bin: 4 validators of stake 1 in 3 bins (2 + 2 + 0) *)
Lemma partition_constructible_refuted :
  exists stakes bins, positive_set stakes /\ construct_current (StPartition bins) stakes = CPanic.
Proof.
  exists (ones 4), 3. split; [|vm_compute; reflexivity].
  split; [discriminate|]. split; [repeat constructor | vm_compute; reflexivity].
Qed.

(* hence FaitAccompli1Sampler::new_with_partition_fallback (Rotor::new_fa1) panics for 5 equal validators
   and 64 seats: 12 seats each, residual stakes 1 each, 5 units in 4 bins of 2 *)
Lemma fa1_partition_constructible_refuted :
  exists stakes, positive_set stakes /\ construct_current (StFA1Part TOTAL_SHREDS) stakes = CPanic.
Proof.
  exists (ones 5). split; [|vm_compute; reflexivity].
  split; [discriminate|]. split; [repeat constructor | vm_compute; reflexivity].
Qed.

(* FaitAccompli2Sampler::new asserts sum f <= 1.0 with f = round(stake fraction * k) / k *)
Lemma fa2_constructible_refuted :
  exists stakes k, positive_set stakes /\ construct_current (StFA2 k) stakes = CPanic.
Proof.
  exists (ones 2), 1. split; [|vm_compute; reflexivity].
  split; [discriminate|]. split; [repeat constructor | vm_compute; reflexivity].
Qed.

(* non-vacuity: 49 equal stakes, 49 seats under the current FA1: everybody holds exactly one seat; a mixed
   distribution with the stake-weighted fallback *)
Example sampling_nonvacuous :
  (match construct_current (StFA1Stake 49) (ones 49) with
   | COk sm => match sample_quorum sm [] with
               | Ok q _ => forallb (fun v => count_occ_N q v =? 1) (map fst (indexed 0 (ones 49)))
               | _ => false
               end
   | _ => false
   end
   && match construct_current (StFA1Stake 8) [5; 1; 1; 1] with
      | COk sm => match sample_quorum sm (xs32_words 16 7) with
                  | Ok q _ => (lenN q =? 8) && (5 <=? count_occ_N q 0)
                  | _ => false
                  end
      | _ => false
      end
   && match construct_current (StFA2 3) [9007199254740993; 9007199254740993; 9007199254740993] with
      | COk sm => match sample_quorum sm (xs32_words 6 1) with Ok q _ => lenN q =? 3 | _ => false end
      | _ => false
      end) = true.
Proof. vm_compute. reflexivity. Qed.
