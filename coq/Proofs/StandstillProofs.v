(* C18: validity and sufficiency of the standstill-recovery bundle, for EVERY pool state reachable from
   pool_init by any sequence of pool operations (Model/Pool.v).

   Part A  association-list facts (unique keys, sorted view).
   Part B  [cext]: how the per-slot certificate stores evolve under the pool's sub-operations that add no
           certificate (same, or emptied below the watermark), and that slot keys stay unique.
   Part C  [cwf]: certificates sit in the slot and field of their own slot / kind.
   Part D  [LINK]: the finality tracker's per-slot status against the certificates held for that slot; the
           highest finalized slot carries a finalized status and is never pruned.
   Part E  one pool operation / operation sequences; where held certificates come from.
   Part F  the standstill bundle: never panics, validity of its contents.
   Part G  a fresh receiver fed the bundle's certificates in any order. *)
From Coq Require Import List NArith Bool Lia ZifyBool ZifyNat ZifyN.
From AG Require Import Gen.Params Model.Pool Model.PoolSpec Model.TrackerSpec
  Proofs.SlotStateProofs Proofs.TrackerProofs Proofs.ParentReadyProofs Proofs.PoolTrackerLink
  Proofs.VotorProgressProofs Proofs.PoolProgressProofs Proofs.ReadyChainProofs.
Import ListNotations.
Open Scope N_scope.

(* ================= Part A: association lists ================= *)
Lemma alookup_some_in {V} k (v : V) m : alookup k m = Some v -> In (k, v) m.
Proof.
  induction m as [|[k' v'] m IH]; cbn [alookup]; [discriminate|].
  destruct (k =? k') eqn:E; [|intros H; right; apply IH; exact H].
  apply N.eqb_eq in E. subst. intros H. injection H as <-. left. reflexivity.
Qed.
Lemma alookup_none_notin {V} k (m : list (N * V)) : alookup k m = None -> ~ In k (map fst m).
Proof.
  induction m as [|[k' v'] m IH]; cbn [alookup map fst]; [intros _ []|].
  destruct (k =? k') eqn:E; [discriminate|]. intros H [Hk|Hin]; [apply N.eqb_neq in E; congruence | exact (IH H Hin)].
Qed.
Lemma alookup_in_nodup {V} k (v : V) m : NoDup (map fst m) -> In (k, v) m -> alookup k m = Some v.
Proof.
  induction m as [|[k' v'] m IH]; cbn [alookup map fst]; intros ND Hin; [destruct Hin|].
  inversion ND as [|? ? Hn ND']; subst. destruct Hin as [E|Hin].
  - injection E as -> ->. rewrite N.eqb_refl. reflexivity.
  - destruct (k =? k') eqn:E; [|apply IH; assumption].
    apply N.eqb_eq in E. subst. exfalso. apply Hn. apply (in_map fst) in Hin. exact Hin.
Qed.
Lemma ainsert_keys {V} k (v : V) m : forall x, In x (map fst (ainsert k v m)) <-> x = k \/ In x (map fst m).
Proof.
  induction m as [|[k' v'] m IH]; intros x; cbn [ainsert map fst In]; [intuition congruence|].
  destruct (k =? k') eqn:E; cbn [map fst In].
  - apply N.eqb_eq in E. subst. intuition congruence.
  - rewrite IH. intuition congruence.
Qed.
Lemma ainsert_nodup {V} k (v : V) m : NoDup (map fst m) -> NoDup (map fst (ainsert k v m)).
Proof.
  induction m as [|[k' v'] m IH]; intros ND; cbn [ainsert map fst]; [constructor; [intros []|constructor]|].
  inversion ND as [|? ? Hn ND']; subst. destruct (k =? k') eqn:E; cbn [map fst].
  - apply N.eqb_eq in E. subst. constructor; assumption.
  - constructor; [|apply IH; exact ND']. rewrite ainsert_keys. intros [Hk|Hin]; [apply N.eqb_neq in E; congruence | contradiction].
Qed.
Lemma filter_keys_nodup {V} (f : N * V -> bool) m : NoDup (map fst m) -> NoDup (map fst (filter f m)).
Proof.
  induction m as [|kv m IH]; intros ND; cbn [filter map]; [constructor|].
  inversion ND as [|? ? Hn ND']; subst. destruct (f kv); [|apply IH; exact ND'].
  cbn [map]. constructor; [|apply IH; exact ND'].
  intros Hin. apply Hn. apply in_map_iff in Hin. destruct Hin as (x & Ex & Hx). apply filter_In in Hx.
  apply in_map_iff. exists x. split; [exact Ex | apply Hx].
Qed.

Lemma slot_insert_sorted_in {V} (x y : slot * V) l : In y (slot_insert_sorted x l) <-> y = x \/ In y l.
Proof.
  induction l as [|z l IH]; cbn [slot_insert_sorted In]; [intuition congruence|].
  destruct (fst z <? fst x); cbn [In]; [rewrite IH|]; intuition congruence.
Qed.
Lemma slots_sorted_in {V} (y : slot * V) l : In y (slots_sorted l) <-> In y l.
Proof.
  unfold slots_sorted. induction l as [|x l IH]; cbn [fold_right In]; [tauto|].
  rewrite slot_insert_sorted_in, IH. intuition congruence.
Qed.

Lemma sset_insert_in x y l : In y (sset_insert x l) <-> y = x \/ In y l.
Proof.
  induction l as [|z l IH]; cbn [sset_insert In]; [intuition congruence|].
  destruct (x <? z); [cbn [In]; intuition congruence|].
  destruct (x =? z) eqn:E; [apply N.eqb_eq in E; subst; cbn [In]; intuition congruence|].
  cbn [In]. rewrite IH. intuition congruence.
Qed.
Lemma sset_fold_in y l : In y (fold_right sset_insert [] l) <-> In y l.
Proof.
  induction l as [|x l IH]; cbn [fold_right In]; [tauto|]. rewrite sset_insert_in, IH. intuition congruence.
Qed.

(* an entry of a pool's slot map with unique keys is that slot's state *)
Definition keys_nd (p : pool) : Prop := NoDup (map fst (p_slots p)).
Lemma entry_is_state p k ss : keys_nd p -> In (k, ss) (p_slots p) -> p_ss p k = ss.
Proof. intros ND Hin. unfold p_ss, aget. rewrite (alookup_in_nodup k ss _ ND Hin). reflexivity. Qed.
Lemma state_is_entry p k ss : alookup k (p_slots p) = Some ss -> p_ss p k = ss.
Proof. intros H. unfold p_ss, aget. rewrite H. reflexivity. Qed.
Lemma no_entry_empty p k : alookup k (p_slots p) = None -> p_ss p k = ss_empty.
Proof. intros H. unfold p_ss, aget. rewrite H. reflexivity. Qed.

(* ================= Part B: the certificate stores under operations that add no certificate ================= *)
Record cext (p p' : pool) : Prop := {
  cx_first : first_unpruned p <= first_unpruned p';
  cx_certs : forall s, ss_c (p_ss p' s) = ss_c (p_ss p s) \/ (ss_c (p_ss p' s) = ss_c ss_empty /\ s < first_unpruned p');
  cx_keys : keys_nd p -> keys_nd p'
}.

Lemma cext_refl p : cext p p.
Proof. split; [lia | intros s; left; reflexivity | auto]. Qed.
Lemma cext_trans a b c : cext a b -> cext b c -> cext a c.
Proof.
  intros [F1 C1 K1] [F2 C2 K2]. split; [lia| |auto].
  intros s. destruct (C2 s) as [E2|[E2 L2]]; [|right; auto].
  destruct (C1 s) as [E1|[E1 L1]]; [left; congruence | right; split; [congruence | lia]].
Qed.
Lemma cext_set p s ss' : ss_c ss' = ss_c (p_ss p s) -> cext p (p_set_ss p s ss').
Proof.
  intros E. split; [unfold first_unpruned; cbn; lia| |].
  - intros s'. left. rewrite p_ss_set. destruct (s' =? s) eqn:Es; [apply N.eqb_eq in Es; subst; exact E | reflexivity].
  - unfold keys_nd, p_set_ss. cbn [p_slots]. apply ainsert_nodup.
Qed.
Lemma keys_nd_set p s ss' : keys_nd p -> keys_nd (p_set_ss p s ss').
Proof. unfold keys_nd, p_set_ss. cbn [p_slots]. apply ainsert_nodup. Qed.
Lemma cext_touch p s : cext p (p_touch p s).
Proof.
  unfold p_touch. destruct (alookup s (p_slots p)) eqn:E; [apply cext_refl|].
  apply cext_set. rewrite (no_entry_empty p s E). reflexivity.
Qed.
Lemma cext_slots p p' : p_slots p' = p_slots p -> first_unpruned p <= first_unpruned p' -> cext p p'.
Proof.
  intros E M. split; [exact M| |].
  - intros s. left. unfold p_ss. rewrite E. reflexivity.
  - unfold keys_nd. rewrite E. auto.
Qed.
Lemma cext_prune p : cext p (pool_prune p).
Proof.
  split; [unfold first_unpruned, pool_prune; cbn; lia| |].
  - intros s. rewrite p_ss_prune. destruct (first_unpruned p <=? s) eqn:E; [left; reflexivity|].
    right. split; [reflexivity|]. apply N.leb_gt in E. unfold first_unpruned, pool_prune in *. cbn. exact E.
  - unfold keys_nd, pool_prune. cbn [p_slots]. apply filter_keys_nodup.
Qed.
Lemma cext_panicked p : cext p (panicked p).
Proof. apply cext_slots; [reflexivity | unfold first_unpruned; cbn; lia]. Qed.
Lemma cext_hf p ev p' o : pool_handle_finalization p ev = Some (p', o) -> cext p p'.
Proof.
  unfold pool_handle_finalization. destruct (pt_handle_finalization (p_prt p) ev) as [[[t prs] wk]|]; [|discriminate].
  intros H. injection H as <- _.
  eapply cext_trans; [|apply cext_prune]. apply cext_slots; [reflexivity | unfold first_unpruned; cbn; lia].
Qed.
Lemma certified_certs e s ss h r : notify_parent_certified e s ss h = Some r -> ss_c (fst (fst r)) = ss_c ss.
Proof.
  unfold notify_parent_certified. destruct (alookup h (pa_status (ss_n ss))); [|discriminate].
  intros E. injection E as <-.
  match goal with |- context [s2n_try e s ?x h] => destruct (s2n_try_frame e s x h) as (_ & _ & C) end.
  cbn in *. exact C.
Qed.
Lemma known_certs ss h : ss_c (notify_parent_known ss h) = ss_c ss.
Proof. unfold notify_parent_known. destruct (alookup h (pa_status (ss_n ss))); reflexivity. Qed.

Lemma cext_notify_children e : forall children p acc p' o, notify_children e p children acc = Some (p', o) -> cext p p'.
Proof.
  unfold notify_children.
  induction children as [|[cs ch] l IH]; intros p acc p' o H; cbn [notify_children_gen andb] in H.
  - injection H as <- _. apply cext_refl.
  - destruct (cs <? first_unpruned p); [exact (IH _ _ _ _ H)|].
    destruct (notify_parent_certified e cs (p_ss (p_touch p cs) cs) ch) as [[[ss' evs] rps]|] eqn:NC; [|discriminate].
    apply IH in H. eapply cext_trans; [|exact H].
    eapply cext_trans; [apply cext_touch|]. apply cext_set.
    apply (certified_certs _ _ _ _ _ NC).
Qed.
Lemma cext_notify_waiting e p b p' o : notify_waiting_children e p b = Some (p', o) -> cext p p'.
Proof.
  unfold notify_waiting_children, notify_waiting_children_gen. intros H. apply cext_notify_children in H.
  eapply cext_trans; [|exact H]. apply cext_slots; [reflexivity | unfold first_unpruned; cbn; lia].
Qed.

(* add_valid_cert = store the certificate in its slot, then operations that add no certificate *)
Definition stored_cert (p : pool) (c : cert) : pool := p_set_ss p (c_slot c) (ss_add_cert (p_ss p (c_slot c)) c).

Lemma add_valid_cert_cext e p c p' o :
  add_valid_cert e p c = Some (p', o) -> cext (pool_with_ft (stored_cert p c) (p_ft p')) p' /\ ft_mono (p_ft p) (p_ft p').
Proof.
  unfold add_valid_cert. fold (stored_cert p c). set (p0 := stored_cert p c). set (s := c_slot c).
  assert (P0 : p_ft p0 = p_ft p) by reflexivity.
  intros H. destruct (c_kind c) as [h|h| |h|] eqn:K.
  - destruct (ft_mark_notarized (p_ft p0) (s, h)) as [[t ev]|] eqn:MN; [|discriminate].
    destruct (pool_handle_finalization (pool_with_ft p0 t) ev) as [[p1 o1]|] eqn:HF; [|discriminate].
    destruct (notify_waiting_children e p1 (s, h)) as [[p2 o2]|] eqn:NW; [|discriminate].
    destruct (pt_mark_notar_fallback (p_prt p2) (s, h)) as [[[t2 prs] wk]|] eqn:MF; [|discriminate].
    injection H as <- _.
    pose proof (notify_waiting_children_frame _ _ _ _ _ NW) as [_ F2].
    assert (F1 : p_ft p1 = t).
    { unfold pool_handle_finalization in HF. destruct (pt_handle_finalization _ ev) as [[[a b] c']|]; [|discriminate].
      injection HF as <- _. reflexivity. }
    cbn [p_ft pool_with_prt]. rewrite F2, F1. split; [|rewrite <- P0; apply (ft_mark_notarized_mono _ _ _ _ MN)].
    eapply cext_trans; [apply (cext_hf _ _ _ _ HF)|]. eapply cext_trans; [apply (cext_notify_waiting _ _ _ _ _ NW)|].
    apply cext_slots; [reflexivity | unfold first_unpruned; cbn; lia].
  - destruct (notify_waiting_children e p0 (s, h)) as [[p2 o2]|] eqn:NW; [|discriminate].
    destruct (pt_mark_notar_fallback (p_prt p2) (s, h)) as [[[t2 prs] wk]|] eqn:MF; [|discriminate].
    injection H as <- _.
    pose proof (notify_waiting_children_frame _ _ _ _ _ NW) as [_ F2].
    cbn [p_ft pool_with_prt]. rewrite F2, P0. split; [|apply ft_mono_refl].
    eapply cext_trans; [apply (cext_slots (pool_with_ft p0 (p_ft p)) p0); [reflexivity | unfold first_unpruned; cbn; lia]|].
    eapply cext_trans; [apply (cext_notify_waiting _ _ _ _ _ NW)|].
    apply cext_slots; [reflexivity | unfold first_unpruned; cbn; lia].
  - destruct (pt_mark_skipped (p_prt p0) s) as [[[t2 prs] wk]|] eqn:MS; [|discriminate].
    injection H as <- _. cbn [p_ft pool_with_prt]. rewrite P0. split; [|apply ft_mono_refl].
    apply cext_slots; [reflexivity | unfold first_unpruned; cbn; lia].
  - destruct (ft_mark_fast_finalized (p_ft p0) (s, h)) as [[t ev]|] eqn:MN; [|discriminate].
    destruct (pool_handle_finalization (pool_with_ft p0 t) ev) as [[p1 o1]|] eqn:HF; [|discriminate].
    destruct (notify_waiting_children e p1 (s, h)) as [[p2 o2]|] eqn:NW; [|discriminate].
    injection H as <- _.
    pose proof (notify_waiting_children_frame _ _ _ _ _ NW) as [_ F2].
    assert (F1 : p_ft p1 = t).
    { unfold pool_handle_finalization in HF. destruct (pt_handle_finalization _ ev) as [[[a b] c']|]; [|discriminate].
      injection HF as <- _. reflexivity. }
    rewrite F2, F1. split; [|rewrite <- P0; apply (ft_mark_fast_finalized_mono _ _ _ _ MN)].
    eapply cext_trans; [apply (cext_hf _ _ _ _ HF)|]. apply (cext_notify_waiting _ _ _ _ _ NW).
  - destruct (ft_mark_finalized (p_ft p0) s) as [[t ev]|] eqn:MN; [|discriminate].
    destruct (pool_handle_finalization (pool_with_ft p0 t) ev) as [[p1 o1]|] eqn:HF; [|discriminate].
    injection H as <- _.
    assert (F1 : p_ft p1 = t).
    { unfold pool_handle_finalization in HF. destruct (pt_handle_finalization _ ev) as [[[a b] c']|]; [|discriminate].
      injection HF as <- _. reflexivity. }
    rewrite F1. split; [|rewrite <- P0; apply (ft_mark_finalized_mono _ _ _ _ MN)].
    apply (cext_hf _ _ _ _ HF).
Qed.

(* ================= Part C: certificates sit in the slot and field of their own slot / kind ================= *)
Definition kinds_ok (ss : slot_state) : Prop :=
  (forall c, ce_notar (ss_c ss) = Some c -> exists h, c_kind c = CNotar h) /\
  (forall c, ce_ff (ss_c ss) = Some c -> exists h, c_kind c = CFastFinal h) /\
  (forall c, ce_fin (ss_c ss) = Some c -> c_kind c = CFinal) /\
  (forall c, ce_skip (ss_c ss) = Some c -> c_kind c = CSkip) /\
  (forall c, In c (ce_nf (ss_c ss)) -> exists h, c_kind c = CNotarFb h).
(* one notar-fallback certificate per block hash *)
Definition nf_uniq (ss : slot_state) : Prop :=
  forall c1 c2, In c1 (ce_nf (ss_c ss)) -> In c2 (ce_nf (ss_c ss)) -> cert_hash c1 = cert_hash c2 -> c1 = c2.
Definition ss_wf (s : slot) (ss : slot_state) : Prop :=
  kinds_ok ss /\ (forall c, In c (certs_of_slot ss) -> c_slot c = s) /\ nf_uniq ss.
Definition cwf (p : pool) : Prop := forall s, ss_wf s (p_ss p s).

Lemma ss_wf_ext s ss ss' : ss_c ss' = ss_c ss -> ss_wf s ss -> ss_wf s ss'.
Proof. unfold ss_wf, kinds_ok, nf_uniq, certs_of_slot. intros E. rewrite E. auto. Qed.
Lemma ss_wf_empty s : ss_wf s ss_empty.
Proof.
  split; [unfold kinds_ok; cbn; repeat split; intros; try discriminate; contradiction|].
  split; [intros c H; cbn in H; contradiction | intros c1 c2 H; cbn in H; contradiction].
Qed.

Lemma in_certs_of_slot ss c :
  In c (certs_of_slot ss) <->
  ce_fin (ss_c ss) = Some c \/ ce_ff (ss_c ss) = Some c \/ ce_notar (ss_c ss) = Some c \/ In c (ce_nf (ss_c ss)) \/
  ce_skip (ss_c ss) = Some c.
Proof.
  unfold certs_of_slot. rewrite !in_app_iff.
  destruct (ce_fin (ss_c ss)); destruct (ce_ff (ss_c ss)); destruct (ce_notar (ss_c ss)); destruct (ce_skip (ss_c ss));
    cbn [In]; intuition congruence.
Qed.

Lemma add_cert_in ss c c' : In c' (certs_of_slot (ss_add_cert ss c)) -> c' = c \/ In c' (certs_of_slot ss).
Proof.
  rewrite !in_certs_of_slot. unfold ss_add_cert.
  destruct (c_kind c) as [h|h| |h|]; try (cbn [ss_c with_c ce_fin ce_ff ce_notar ce_nf ce_skip]; intuition congruence).
  destruct (is_notar_fallback ss h); [intuition|].
  cbn [ss_c with_c ce_fin ce_ff ce_notar ce_nf ce_skip]. rewrite in_app_iff. cbn [In]. intuition congruence.
Qed.

Lemma ss_wf_add ss c : ss_wf (c_slot c) ss -> ss_wf (c_slot c) (ss_add_cert ss c).
Proof.
  intros [(K1 & K2 & K3 & K4 & K5) [Sl Un]]. split; [|split].
  - unfold kinds_ok, ss_add_cert. destruct (c_kind c) as [h|h| |h|] eqn:K.
    + cbn [ss_c with_c ce_fin ce_ff ce_notar ce_nf ce_skip]. repeat split; auto. intros c' E. injection E as <-. eauto.
    + destruct (is_notar_fallback ss h); [repeat split; auto|].
      cbn [ss_c with_c ce_fin ce_ff ce_notar ce_nf ce_skip]. repeat split; auto.
      intros c' Hin. apply in_app_or in Hin. destruct Hin as [Hin|[<-|[]]]; eauto.
    + cbn [ss_c with_c ce_fin ce_ff ce_notar ce_nf ce_skip]. repeat split; auto. intros c' E. injection E as <-. exact K.
    + cbn [ss_c with_c ce_fin ce_ff ce_notar ce_nf ce_skip]. repeat split; auto. intros c' E. injection E as <-. eauto.
    + cbn [ss_c with_c ce_fin ce_ff ce_notar ce_nf ce_skip]. repeat split; auto. intros c' E. injection E as <-. exact K.
  - intros c' Hin. apply add_cert_in in Hin. destruct Hin as [->|Hin]; [reflexivity | apply Sl; exact Hin].
  - unfold nf_uniq, ss_add_cert. destruct (c_kind c) as [h|h| |h|] eqn:K; try exact Un.
    destruct (is_notar_fallback ss h) eqn:Nf; [exact Un|].
    cbn [ss_c with_c ce_nf].
    assert (New : forall c', In c' (ce_nf (ss_c ss)) -> cert_hash c' <> cert_hash c).
    { intros c' Hin E. unfold is_notar_fallback in Nf.
      assert (existsb (fun c0 => match cert_hash c0 with Some h' => h' =? h | None => false end) (ce_nf (ss_c ss)) = true); [|congruence].
      apply existsb_exists. exists c'. split; [exact Hin|]. rewrite E. unfold cert_hash. rewrite K. apply N.eqb_refl. }
    intros c1 c2 H1 H2 E. apply in_app_or in H1. apply in_app_or in H2.
    destruct H1 as [H1|[<-|[]]]; destruct H2 as [H2|[<-|[]]]; auto.
    + exfalso. apply (New c1 H1 E).
    + exfalso. apply (New c2 H2). symmetry. exact E.
Qed.

Lemma cwf_cext p p' : cwf p -> cext p p' -> cwf p'.
Proof.
  intros W [_ C _] s. destruct (C s) as [E|[E _]].
  - apply (ss_wf_ext s (p_ss p s)); [exact E | apply W].
  - apply (ss_wf_ext s ss_empty); [exact E | apply ss_wf_empty].
Qed.
Lemma p_ss_with_ft p t s : p_ss (pool_with_ft p t) s = p_ss p s.
Proof. reflexivity. Qed.
Lemma cwf_stored p c : cwf p -> cwf (pool_with_ft (stored_cert p c) (p_ft p)).
Proof.
  intros W s. rewrite p_ss_with_ft. unfold stored_cert. rewrite p_ss_set.
  destruct (s =? c_slot c) eqn:E; [|apply W]. apply N.eqb_eq in E. subst. apply ss_wf_add. apply W.
Qed.

(* the view of a slot's certificates that the finality tracker depends on *)
Definition vff (ss : slot_state) : option hash :=
  match ce_ff (ss_c ss) with Some c => match c_kind c with CFastFinal h => Some h | _ => None end | None => None end.
Definition vnt (ss : slot_state) : option hash :=
  match ce_notar (ss_c ss) with Some c => match c_kind c with CNotar h => Some h | _ => None end | None => None end.
Definition vfn (ss : slot_state) : bool :=
  match ce_fin (ss_c ss) with Some c => match c_kind c with CFinal => true | _ => false end | None => false end.

Lemma view_ext ss ss' : ss_c ss' = ss_c ss -> vff ss' = vff ss /\ vnt ss' = vnt ss /\ vfn ss' = vfn ss.
Proof. unfold vff, vnt, vfn. intros ->. auto. Qed.
Lemma view_empty : vff ss_empty = None /\ vnt ss_empty = None /\ vfn ss_empty = false.
Proof. auto. Qed.

Lemma view_add ss c :
  match c_kind c with
  | CFastFinal h => vff (ss_add_cert ss c) = Some h /\ vnt (ss_add_cert ss c) = vnt ss /\ vfn (ss_add_cert ss c) = vfn ss
  | CNotar h => vff (ss_add_cert ss c) = vff ss /\ vnt (ss_add_cert ss c) = Some h /\ vfn (ss_add_cert ss c) = vfn ss
  | CFinal => vff (ss_add_cert ss c) = vff ss /\ vnt (ss_add_cert ss c) = vnt ss /\ vfn (ss_add_cert ss c) = true
  | _ => vff (ss_add_cert ss c) = vff ss /\ vnt (ss_add_cert ss c) = vnt ss /\ vfn (ss_add_cert ss c) = vfn ss
  end.
Proof.
  unfold vff, vnt, vfn, ss_add_cert. destruct (c_kind c) as [h|h| |h|] eqn:K;
    try (cbn [ss_c with_c ce_fin ce_ff ce_notar ce_nf ce_skip]; rewrite ?K; auto).
  destruct (is_notar_fallback ss h); auto.
Qed.

(* with well-formed fields, membership in the slot's certificate list determines the view *)
Lemma field_of ss c : kinds_ok ss -> In c (certs_of_slot ss) ->
  match c_kind c with
  | CFastFinal h => vff ss = Some h
  | CNotar h => vnt ss = Some h
  | CFinal => vfn ss = true
  | CSkip => ce_skip (ss_c ss) = Some c
  | CNotarFb h => In c (ce_nf (ss_c ss))
  end.
Proof.
  intros (K1 & K2 & K3 & K4 & K5) Hin. apply in_certs_of_slot in Hin. unfold vff, vnt, vfn.
  destruct Hin as [H|[H|[H|[H|H]]]].
  - rewrite (K3 c H). rewrite H, (K3 c H). reflexivity.
  - destruct (K2 c H) as [h K]. rewrite K, H, K. reflexivity.
  - destruct (K1 c H) as [h K]. rewrite K, H, K. reflexivity.
  - destruct (K5 c H) as [h K]. rewrite K. exact H.
  - rewrite (K4 c H). exact H.
Qed.
Lemma view_has_cert ss : kinds_ok ss ->
  (forall h, vff ss = Some h -> exists c, ce_ff (ss_c ss) = Some c /\ c_kind c = CFastFinal h) /\
  (forall h, vnt ss = Some h -> exists c, ce_notar (ss_c ss) = Some c /\ c_kind c = CNotar h) /\
  (vfn ss = true -> exists c, ce_fin (ss_c ss) = Some c /\ c_kind c = CFinal).
Proof.
  intros _. unfold vff, vnt, vfn. repeat split.
  - intros h. destruct (ce_ff (ss_c ss)) as [c|]; [|discriminate]. destruct (c_kind c) eqn:K; try discriminate.
    intros E. injection E as <-. eauto.
  - intros h. destruct (ce_notar (ss_c ss)) as [c|]; [|discriminate]. destruct (c_kind c) eqn:K; try discriminate.
    intros E. injection E as <-. eauto.
  - destruct (ce_fin (ss_c ss)) as [c|]; [|discriminate]. destruct (c_kind c) eqn:K; try discriminate. eauto.
Qed.
Lemma class_view ss : kinds_ok ss ->
  (ce_ff (ss_c ss) <> None -> exists h, vff ss = Some h) /\
  (ce_notar (ss_c ss) <> None -> exists h, vnt ss = Some h) /\
  (ce_fin (ss_c ss) <> None -> vfn ss = true).
Proof.
  intros (K1 & K2 & K3 & _). unfold vff, vnt, vfn. repeat split.
  - destruct (ce_ff (ss_c ss)) as [c|]; [|congruence]. destruct (K2 c eq_refl) as [h K]. rewrite K. eauto.
  - destruct (ce_notar (ss_c ss)) as [c|]; [|congruence]. destruct (K1 c eq_refl) as [h K]. rewrite K. eauto.
  - destruct (ce_fin (ss_c ss)) as [c|]; [|congruence]. rewrite (K3 c eq_refl). reflexivity.
Qed.

(* ================= Part D: tracker status against held certificates ================= *)
Definition st_of (t : ftracker) (s : slot) : option fstatus := alookup s (ft_status t).
Lemma st_of_set t s v s' : st_of (ft_set_status t s v) s' = if s' =? s then Some v else st_of t s'.
Proof.
  unfold st_of, ft_set_status. cbn [ft_status]. destruct (s' =? s) eqn:E.
  - apply N.eqb_eq in E. subst. apply alookup_ainsert_same.
  - apply alookup_ainsert_other. apply N.eqb_neq. exact E.
Qed.

Record slot_link (s : slot) (st : option fstatus) (ff nt : option hash) (fn : bool) : Prop := {
  sl_ff : forall h, ff = Some h -> st = Some (FFinalized h) \/ st = Some (FImplFinalized h);
  sl_nt : forall h, nt = Some h ->
          st = Some (FNotarized h) \/ st = Some (FFinalized h) \/ (exists h', st = Some (FFinalized h') /\ ff = Some h') \/
          (exists h', st = Some (FImplFinalized h')) \/ st = Some FImplSkipped;
  sl_fn : fn = true ->
          st = Some FFinalPendingNotar \/ (exists h, st = Some (FFinalized h)) \/ (exists h, st = Some (FImplFinalized h));
  sl_F : forall h, st = Some (FFinalized h) -> ff = Some h \/ (fn = true /\ (nt = Some h \/ (s = 0 /\ h = 0)));
  sl_P : st = Some FFinalPendingNotar -> fn = true;
  sl_N : forall h, st = Some (FNotarized h) -> nt = Some h \/ (s = 0 /\ h = 0)
}.
Definition slot_link_ss (s : slot) (st : option fstatus) (ss : slot_state) : Prop :=
  slot_link s st (vff ss) (vnt ss) (vfn ss).

(* [lk_dec] with one exempt slot m (the slot being finalized, before the highest slot is raised) *)
Record LINKx (m : option slot) (t : ftracker) (C : slot -> slot_state) : Prop := {
  lk_slot : forall s, ft_first t <= s -> slot_link_ss s (st_of t s) (C s);
  lk_dec : forall s, ft_first t <= s -> is_decided (st_of t s) = true -> s <= ft_highest t \/ m = Some s;
  lk_fh : ft_first t <= ft_highest t;
  lk_hi : ft_highest t = 0 \/ exists h, st_of t (ft_highest t) = Some (FFinalized h);
  (* the genesis slot carries the genesis hash as long as nothing above it is finalized *)
  lk_zero : ft_first t = 0 -> st_of t 0 = Some (FNotarized 0) \/ st_of t 0 = Some (FFinalized 0) \/ 0 < ft_highest t
}.
Definition LINK := LINKx None.

Lemma LINK_dec t C s : LINK t C -> ft_first t <= s -> is_decided (st_of t s) = true -> s <= ft_highest t.
Proof. intros L Hs Hd. destruct (lk_dec _ _ _ L s Hs Hd) as [H|H]; [exact H | discriminate]. Qed.

Ltac sl_crush :=
  repeat match goal with
         | H : _ /\ _ |- _ => destruct H
         | H : exists _, _ |- _ => destruct H
         | H : _ \/ _ |- _ => destruct H
         | H : Some _ = Some _ |- _ => injection H as H
         | H : ?a = ?b |- _ => first [subst a | subst b]
         end; try discriminate; try congruence; eauto 6.

(* ---- implicit transitions (ancestor walk): slot by slot ---- *)
Inductive impl_tr (s : slot) : option fstatus -> option fstatus -> Prop :=
| it_same o : impl_tr s o o
| it_skipN : s <> 0 -> impl_tr s None (Some FImplSkipped)
| it_skipNt h : s <> 0 -> impl_tr s (Some (FNotarized h)) (Some FImplSkipped)
| it_finN h : impl_tr s None (Some (FImplFinalized h))
| it_finNt h h' : impl_tr s (Some (FNotarized h)) (Some (FImplFinalized h'))
| it_finP h : impl_tr s (Some FFinalPendingNotar) (Some (FImplFinalized h)).

Lemma impl_tr_trans s a b c : impl_tr s a b -> impl_tr s b c -> impl_tr s a c.
Proof. intros H1 H2. inversion H1; subst; inversion H2; subst; try assumption; constructor; assumption. Qed.

Lemma impl_tr_link s o o' ff nt fn : slot_link s o ff nt fn -> impl_tr s o o' -> slot_link s o' ff nt fn.
Proof.
  intros [A1 A2 A3 A4 A5 A6] T. inversion T; subst; [split; assumption| | | | |].
  - split; intros; try discriminate; try contradiction.
    + specialize (A1 _ H0). sl_crush. + specialize (A2 _ H0). sl_crush. + specialize (A3 H0). sl_crush.
  - split; intros; try discriminate; try contradiction.
    + specialize (A1 _ H0). sl_crush. + auto 6. + specialize (A3 H0). sl_crush.
  - split; intros; try discriminate.
    + specialize (A1 _ H). sl_crush. + specialize (A2 _ H). sl_crush. + specialize (A3 H). sl_crush.
  - split; intros; try discriminate.
    + specialize (A1 _ H). sl_crush. + right. right. right. left. eauto. + specialize (A3 H). sl_crush.
  - split; intros; try discriminate.
    + specialize (A1 _ H). sl_crush. + specialize (A2 _ H). sl_crush. + eauto.
Qed.

(* TR src t t': same watermark / highest slot / parent links; every slot's status moved by impl_tr, slots
   at or above src untouched *)
Record TR (src : slot) (t t' : ftracker) : Prop := {
  tr_first : ft_first t' = ft_first t;
  tr_high : ft_highest t' = ft_highest t;
  tr_par : ft_parents t' = ft_parents t;
  tr_st : forall s, impl_tr s (st_of t s) (st_of t' s);
  tr_above : forall s, src <= s -> st_of t' s = st_of t s
}.
Lemma TR_refl src t : TR src t t.
Proof. split; auto. intros s. constructor. Qed.
Lemma TR_trans src a b c : TR src a b -> TR src b c -> TR src a c.
Proof.
  intros [A1 A2 A3 A4 A5] [B1 B2 B3 B4 B5]. split; try congruence.
  - intros s. eapply impl_tr_trans; eauto.
  - intros s Hs. rewrite B5, A5; auto.
Qed.
Lemma TR_weaken a b t t' : a <= b -> TR a t t' -> TR b t t'.
Proof. intros Hab [A1 A2 A3 A4 A5]. split; auto. intros s Hs. apply A5. lia. Qed.
Lemma TR_same src t t' :
  ft_first t' = ft_first t -> ft_highest t' = ft_highest t -> ft_parents t' = ft_parents t ->
  (forall s, st_of t' s = st_of t s) -> TR src t t'.
Proof. intros A B C D. split; auto. intros s. rewrite D. constructor. Qed.
Lemma TR_set src t s v : s < src -> impl_tr s (st_of t s) (Some v) -> TR src t (ft_set_status t s v).
Proof.
  intros Hs Hi. split; try reflexivity.
  - intros s'. rewrite st_of_set. destruct (s' =? s) eqn:E; [apply N.eqb_eq in E; subst; exact Hi | constructor].
  - intros s' Hs'. rewrite st_of_set. destruct (s' =? s) eqn:E; [apply N.eqb_eq in E; lia | reflexivity].
Qed.

Lemma skip_between_tr : forall slots t ev t' ev' fl src,
  ft_skip_between t ev slots = Some (t', ev', fl) -> (forall x, In x slots -> x <> 0 /\ x < src) -> TR src t t'.
Proof.
  induction slots as [|s0 rest IH]; intros t ev t' ev' fl src H Hs; cbn [ft_skip_between] in H.
  - injection H as <- _ _. apply TR_refl.
  - destruct (Hs s0 (or_introl eq_refl)) as [Hz Hlt].
    assert (Hrest : forall x, In x rest -> x <> 0 /\ x < src) by (intros x Hx; apply Hs; right; exact Hx).
    destruct (alookup s0 (ft_status t)) as [[h| |h|h|]|] eqn:Old; try discriminate.
    + eapply TR_trans; [|apply (IH _ _ _ _ _ src H Hrest)].
      apply TR_set; [exact Hlt|]. unfold st_of. rewrite Old. constructor. exact Hz.
    + injection H as <- _ _. apply TR_set; [exact Hlt|]. unfold st_of. rewrite Old. constructor.
    + eapply TR_trans; [|apply (IH _ _ _ _ _ src H Hrest)].
      apply TR_set; [exact Hlt|]. unfold st_of. rewrite Old. constructor. exact Hz.
Qed.

Lemma seqN_in t lo len : In t (seqN lo len) <-> lo <= t < lo + N.of_nat len.
Proof.
  unfold seqN. rewrite in_map_iff. split.
  - intros (i & <- & Hi). apply in_seq in Hi. lia.
  - intros H. exists (N.to_nat (t - lo)). split; [lia|]. apply in_seq. lia.
Qed.

Lemma handle_impl_tr : forall fuel t src b ev t' ev',
  ft_handle_impl fuel t src b ev = Some (t', ev') -> TR src t t'.
Proof.
  induction fuel as [|f IH]; intros t src b ev t' ev' H; cbn [ft_handle_impl] in H; [discriminate|].
  destruct (fst b <? src) eqn:Lt; cbn [negb] in H; [|discriminate]. apply N.ltb_lt in Lt.
  destruct (fst b <? ft_first t); [injection H as <- _; apply TR_refl|].
  destruct (ft_skip_between t ev _) as [[[t1 ev1] early]|] eqn:SB; [|discriminate].
  assert (T1 : TR src t t1).
  { apply (skip_between_tr _ _ _ _ _ _ src SB). intros x Hx. apply seqN_in in Hx. lia. }
  destruct early; [injection H as <- _; exact T1|].
  set (t2 := ft_set_status t1 (fst b) (FImplFinalized (snd b))) in *.
  assert (Cont : forall evx, impl_tr (fst b) (st_of t1 (fst b)) (Some (FImplFinalized (snd b))) ->
            match blookup b (ft_parents t2) with
            | Some p => ft_handle_impl f t2 (fst b) p evx
            | None => Some (t2, evx)
            end = Some (t', ev') -> TR src t t').
  { intros evx Hi Hr. eapply TR_trans; [exact T1|].
    assert (T2 : TR src t1 t2) by (apply TR_set; assumption).
    destruct (blookup b (ft_parents t2)).
    - apply IH in Hr. eapply TR_trans; [exact T2|]. apply (TR_weaken (fst b)); [lia | exact Hr].
    - injection Hr as <- _. exact T2. }
  assert (Back : forall h, st_of t1 (fst b) = Some h -> TR src t (ft_set_status t2 (fst b) h)).
  { intros h Hh. eapply TR_trans; [exact T1|]. apply TR_same; try reflexivity.
    intros s. unfold t2. rewrite !st_of_set. destruct (s =? fst b) eqn:E; [|reflexivity].
    apply N.eqb_eq in E. subst. symmetry. exact Hh. }
  fold (st_of t1 (fst b)) in H.
  destruct (st_of t1 (fst b)) as [[h| |h|h|]|] eqn:Old.
  - apply (Cont _ (it_finNt _ _ _) H).
  - apply (Cont _ (it_finP _ _) H).
  - destruct (h =? snd b); [|discriminate]. injection H as <- _. apply Back. reflexivity.
  - destruct (h =? snd b); [|discriminate]. injection H as <- _. apply Back. reflexivity.
  - discriminate.
  - apply (Cont _ (it_finN _ _) H).
Qed.

(* ---- LINK under these moves ---- *)
Lemma view_eq_link s st ss ss' :
  vff ss' = vff ss -> vnt ss' = vnt ss -> vfn ss' = vfn ss -> slot_link_ss s st ss -> slot_link_ss s st ss'.
Proof. unfold slot_link_ss. intros -> -> ->. auto. Qed.

Lemma LINKx_ext m t C C' :
  (forall s, ft_first t <= s -> ss_c (C' s) = ss_c (C s)) -> LINKx m t C -> LINKx m t C'.
Proof.
  intros E [A B D F Z]. split; auto. intros s Hs. destruct (view_ext _ _ (E s Hs)) as (V1 & V2 & V3).
  apply (view_eq_link s _ (C s)); auto.
Qed.

Lemma LINK_TR src t t' C : LINK t C -> TR src t t' -> src <= ft_highest t -> LINK t' C.
Proof.
  intros L [T1 T2 T3 T4 T5] Hsrc. split.
  - intros s Hs. rewrite T1 in Hs. unfold slot_link_ss. eapply impl_tr_link; [apply (lk_slot _ _ _ L s Hs) | apply T4].
  - intros s Hs Hd. rewrite T1 in Hs. left. rewrite T2. destruct (N.lt_ge_cases s src) as [Hlt|Hge]; [lia|].
    rewrite (T5 s Hge) in Hd. apply (LINK_dec _ _ _ L Hs Hd).
  - rewrite T1, T2. apply (lk_fh _ _ _ L).
  - rewrite T2. destruct (lk_hi _ _ _ L) as [Z|[h Hh]]; [left; exact Z|]. right. exists h.
    pose proof (T4 (ft_highest t)) as Hi. rewrite Hh in Hi. inversion Hi; subst. congruence.
  - rewrite T1, T2. intros Hz. destruct (N.lt_ge_cases 0 src) as [Hlt|Hge]; [right; right; lia|].
    rewrite (T5 0 Hge). apply (lk_zero _ _ _ L Hz).
Qed.

Lemma st_of_prune t s : st_of (ft_prune t) s = if ft_first (ft_prune t) <=? s then st_of t s else None.
Proof.
  unfold st_of, ft_prune. cbn [ft_status ft_first].
  apply (alookup_filter_key (fun k => ft_advance (length (ft_status t)) (ft_status t) (ft_first t) <=? k)).
Qed.

Lemma LINK_prune t C : LINK t C -> LINK (ft_prune t) C.
Proof.
  intros L. pose proof (ft_prune_spec t) as (P1 & P2 & P3 & _). cbv zeta in *.
  assert (Hfh : ft_first (ft_prune t) <= ft_highest t).
  { destruct (N.eq_dec (ft_first (ft_prune t)) (ft_first t)) as [E|Ne]; [rewrite E; apply (lk_fh _ _ _ L)|].
    apply (LINK_dec _ _ _ L); [exact P1|]. apply P3. lia. }
  split.
  - intros s Hs. rewrite st_of_prune. apply N.leb_le in Hs. rewrite Hs. apply N.leb_le in Hs.
    apply (lk_slot _ _ _ L). lia.
  - intros s Hs Hd. rewrite st_of_prune in Hd. apply N.leb_le in Hs. rewrite Hs in Hd. apply N.leb_le in Hs.
    left. rewrite P2. apply (LINK_dec _ _ _ L); [lia | exact Hd].
  - rewrite P2. exact Hfh.
  - rewrite P2. destruct (lk_hi _ _ _ L) as [Z|[h Hh]]; [left; exact Z|]. right. exists h.
    rewrite st_of_prune. apply N.leb_le in Hfh. rewrite Hfh. exact Hh.
  - rewrite P2. intros Hz. rewrite st_of_prune, Hz. cbn [N.leb]. apply (lk_zero _ _ _ L). lia.
Qed.

(* the block being finalized already carries its Finalized status; the highest slot is raised, ancestors are
   walked, the tracker is pruned *)
Lemma LINK_hfb t C b ev t' ev' :
  LINKx (Some (fst b)) t C -> ft_first t <= fst b -> st_of t (fst b) = Some (FFinalized (snd b)) ->
  ft_handle_finalized_block t b ev = Some (t', ev') -> LINK t' C.
Proof.
  intros [A B D F Zr] Hb Hst H. unfold ft_handle_finalized_block in H. cbn [ft_parents] in H.
  set (t1 := mkFT (ft_status t) (ft_parents t) (N.max (fst b) (ft_highest t)) (ft_first t)) in *.
  assert (L1 : LINK t1 C).
  { split; cbn [ft_first ft_highest t1].
    - exact A.
    - intros s Hs Hd. left. destruct (B s Hs Hd) as [H1|H1]; [lia | injection H1 as <-; lia].
    - lia.
    - destruct (N.max_spec (fst b) (ft_highest t)) as [[Hlt ->]|[Hle ->]].
      + destruct F as [Z|F]; [lia | right; exact F].
      + right. exists (snd b). exact Hst.
    - intros Hz. destruct (Zr Hz) as [Z0|[Z0|Z0]]; auto. right. right. lia. }
  destruct (blookup b (ft_parents t)) as [p|].
  - destruct (ft_handle_impl (ft_fuel t1) t1 (fst b) p _) as [[t2 ev2]|] eqn:HI; [|discriminate].
    injection H as <- _. apply LINK_prune. apply handle_impl_tr in HI.
    apply (LINK_TR (fst b) t1 t2 C L1 HI). cbn [ft_highest t1]. lia.
  - injection H as <- _. apply LINK_prune. exact L1.
Qed.

(* one slot's status is rewritten and that slot's certificates change; everything else stays *)
Lemma LINKx_upd t C t' C' s v :
  LINK t C -> ft_first t' = ft_first t -> ft_highest t' = ft_highest t -> ft_first t <= s ->
  (forall s', st_of t' s' = if s' =? s then Some v else st_of t s') ->
  (forall s', s' <> s -> ss_c (C' s') = ss_c (C s')) ->
  slot_link_ss s (Some v) (C' s) ->
  (forall h, st_of t s = Some (FFinalized h) -> v = FFinalized h) ->
  (s = 0 -> v = FNotarized 0 \/ v = FFinalized 0 \/ 0 < ft_highest t) ->
  LINKx (Some s) t' C'.
Proof.
  intros L E1 E2 Hs St Hc Hl Hk Hz. split.
  - intros s' Hs'. rewrite E1 in Hs'. rewrite St. destruct (s' =? s) eqn:E.
    + apply N.eqb_eq in E. subst. exact Hl.
    + apply N.eqb_neq in E. destruct (view_ext _ _ (Hc s' E)) as (V1 & V2 & V3).
      apply (view_eq_link s' _ (C s')); auto. apply (lk_slot _ _ _ L). exact Hs'.
  - intros s' Hs' Hd. rewrite E1 in Hs'. rewrite St in Hd. destruct (s' =? s) eqn:E.
    + apply N.eqb_eq in E. subst. right. reflexivity.
    + left. rewrite E2. apply (LINK_dec _ _ _ L); assumption.
  - rewrite E1, E2. apply (lk_fh _ _ _ L).
  - rewrite E2. destruct (lk_hi _ _ _ L) as [Z|[h Hh]]; [left; exact Z|]. right. rewrite St.
    destruct (ft_highest t =? s) eqn:E; [|exists h; exact Hh].
    apply N.eqb_eq in E. rewrite E in Hh. exists h. rewrite (Hk h Hh). reflexivity.
  - rewrite E1, E2, St. intros Z. destruct (0 =? s) eqn:E.
    + apply N.eqb_eq in E. destruct (Hz (eq_sym E)) as [->|[->|H]]; auto.
    + apply (lk_zero _ _ _ L Z).
Qed.
Lemma LINKx_close s t C : LINKx (Some s) t C -> (is_decided (st_of t s) = true -> s <= ft_highest t) -> LINK t C.
Proof.
  intros [A B D F Z] H. split; auto. intros s' Hs' Hd. left.
  destruct (B s' Hs' Hd) as [H1|H1]; [exact H1 | injection H1 as <-; apply H; exact Hd].
Qed.

(* ---- the per-slot status rewrites of the three marking operations ---- *)
Lemma sl_fast s old ff nt fn h :
  slot_link s old ff nt fn ->
  (old = None \/ old = Some (FNotarized h) \/ old = Some FFinalPendingNotar \/ old = Some (FFinalized h) \/
   old = Some (FImplFinalized h)) ->
  slot_link s (Some (FFinalized h)) (Some h) nt fn.
Proof.
  intros [A1 A2 A3 A4 A5 A6] Ho. split; intros; try discriminate.
  - left. congruence.
  - right. right. left. eauto.
  - right. left. eauto.
  - left. congruence.
Qed.
Lemma sl_notar_new s old ff nt fn h :
  slot_link s old ff nt fn -> (old = None \/ old = Some (FNotarized h)) ->
  slot_link s (Some (FNotarized h)) ff (Some h) fn.
Proof.
  intros [A1 A2 A3 A4 A5 A6] Ho. split; intros; try discriminate.
  - specialize (A1 _ H). sl_crush.
  - left. congruence.
  - specialize (A3 H). sl_crush.
  - left. congruence.
Qed.
Lemma sl_notar_keep s old ff nt fn h :
  slot_link s old ff nt fn ->
  (old = Some (FFinalized h) \/ (exists h', old = Some (FImplFinalized h')) \/ old = Some FImplSkipped) ->
  slot_link s old ff (Some h) fn.
Proof.
  intros [A1 A2 A3 A4 A5 A6] Ho. split; intros; auto.
  - injection H as <-. destruct Ho as [Ho|[[h' Ho]|Ho]]; eauto 8.
  - specialize (A4 _ H). destruct Ho as [Ho|[[h' Ho]|Ho]]; try congruence.
    assert (h0 = h) by congruence. subst h0. destruct A4 as [A4|[A4 [A4'|A4']]]; auto.
  - destruct Ho as [Ho|[[h' Ho]|Ho]]; congruence.
Qed.
Lemma sl_notar_fin s ff nt fn h :
  slot_link s (Some FFinalPendingNotar) ff nt fn -> slot_link s (Some (FFinalized h)) ff (Some h) fn.
Proof.
  intros [A1 A2 A3 A4 A5 A6]. split; intros; try discriminate.
  - specialize (A1 _ H). sl_crush.
  - right. left. congruence.
  - right. left. eauto.
  - right. split; [apply A5; reflexivity|]. left. congruence.
Qed.
Lemma sl_final_new s old ff nt fn :
  slot_link s old ff nt fn -> (old = None \/ old = Some FFinalPendingNotar) ->
  slot_link s (Some FFinalPendingNotar) ff nt true.
Proof.
  intros [A1 A2 A3 A4 A5 A6] Ho. split; intros; try discriminate; auto.
  - specialize (A1 _ H). sl_crush.
  - specialize (A2 _ H). sl_crush.
Qed.
Lemma sl_final_keep s old ff nt fn :
  slot_link s old ff nt fn -> ((exists h, old = Some (FFinalized h)) \/ (exists h, old = Some (FImplFinalized h))) ->
  slot_link s old ff nt true.
Proof.
  intros [A1 A2 A3 A4 A5 A6] Ho. split; intros; auto.
  all: try (specialize (A4 _ H); destruct A4 as [A4|[A4 A4']]; auto; fail).
  all: try (destruct Ho as [[h0 Ho]|[h0 Ho]]; eauto; congruence).
Qed.
Lemma sl_final_fin s ff nt fn h :
  slot_link s (Some (FNotarized h)) ff nt fn -> slot_link s (Some (FFinalized h)) ff nt true.
Proof.
  intros [A1 A2 A3 A4 A5 A6]. split; intros; try discriminate.
  - specialize (A1 _ H). sl_crush.
  - specialize (A2 _ H). right. left. sl_crush.
  - right. left. eauto.
  - injection H as <-. right. split; [reflexivity|]. apply A6. reflexivity.
Qed.

Definition updC (C : slot -> slot_state) (s : slot) (ss : slot_state) : slot -> slot_state :=
  fun x => if x =? s then ss else C x.
Lemma updC_same C s ss : updC C s ss s = ss.
Proof. unfold updC. rewrite N.eqb_refl. reflexivity. Qed.
Lemma updC_other C s ss x : x <> s -> updC C s ss x = C x.
Proof. unfold updC. intros H. apply N.eqb_neq in H. rewrite H. reflexivity. Qed.

Lemma LINK_below t C s ss : LINK t C -> s < ft_first t -> LINK t (updC C s ss).
Proof. intros L Hs. apply (LINKx_ext None t C); [|exact L]. intros x Hx. rewrite updC_other by lia. reflexivity. Qed.

Lemma st_of_set2 t s a v s' : st_of (ft_set_status (ft_set_status t s a) s v) s' = if s' =? s then Some v else st_of t s'.
Proof. rewrite !st_of_set. destruct (s' =? s); reflexivity. Qed.

(* the genesis-slot clause of LINKx_upd *)
Ltac zt :=
  let Zs := fresh "Zs" in let Z := fresh "Z" in
  intros Zs; subst;
  match goal with L : LINK ?t _ |- _ => destruct (lk_zero _ _ _ L ltac:(lia)) as [Z|[Z|Z]]; [| |auto] end;
  match goal with Old : st_of _ 0 = Some _ |- _ => lazymatch Old with Z => fail | _ => rewrite Old in Z end | Old : st_of _ 0 = None |- _ => rewrite Old in Z end;
  try discriminate; try (inversion Z; subst); auto.

Lemma LINK_fast t C s h c t' ev :
  LINK t C -> c_kind c = CFastFinal h -> ft_mark_fast_finalized t (s, h) = Some (t', ev) ->
  LINK t' (updC C s (ss_add_cert (C s) c)).
Proof.
  intros L K H. unfold ft_mark_fast_finalized in H. cbn [fst snd] in H.
  destruct (s <? ft_first t) eqn:Lt; [injection H as <- _; apply LINK_below; [exact L | apply N.ltb_lt; exact Lt]|].
  apply N.ltb_ge in Lt. fold (st_of t s) in H.
  pose proof (view_add (C s) c) as V. rewrite K in V. destruct V as (V1 & V2 & V3).
  pose proof (lk_slot _ _ _ L s Lt) as Sl. unfold slot_link_ss in Sl.
  set (C' := updC C s (ss_add_cert (C s) c)).
  assert (Up : forall old, st_of t s = old ->
            (old = None \/ old = Some (FNotarized h) \/ old = Some FFinalPendingNotar \/ old = Some (FFinalized h) \/
             old = Some (FImplFinalized h)) ->
            LINKx (Some s) (ft_set_status t s (FFinalized h)) C').
  { intros old Eo Ho. apply (LINKx_upd t C _ C' s (FFinalized h) L); try reflexivity; auto.
    - intros s'. apply st_of_set.
    - intros s' Hn. unfold C'. rewrite updC_other by exact Hn. reflexivity.
    - unfold slot_link_ss, C'. rewrite updC_same, V1, V2, V3. rewrite Eo in Sl. exact (sl_fast s old _ _ _ h Sl Ho).
    - intros h0 Hh0. rewrite Hh0 in Eo. subst old. destruct Ho as [Ho|[Ho|[Ho|[Ho|Ho]]]]; congruence.
    - intros Zs. subst s. destruct (lk_zero _ _ _ L ltac:(lia)) as [Z|[Z|Z]]; [| |auto]; rewrite Eo in Z;
        destruct Ho as [Ho|[Ho|[Ho|[Ho|Ho]]]]; rewrite Ho in Z; try discriminate; injection Z as ->; auto. }
  assert (Hfb : forall old, st_of t s = old ->
            (old = None \/ old = Some (FNotarized h) \/ old = Some FFinalPendingNotar) ->
            ft_handle_finalized_block (ft_set_status t s (FFinalized h)) (s, h) fe_empty = Some (t', ev) -> LINK t' C').
  { intros old Eo Ho Hh. apply (LINK_hfb _ C' (s, h) fe_empty t' ev (Up old Eo ltac:(tauto))); cbn [fst snd]; auto.
    rewrite st_of_set, N.eqb_refl. reflexivity. }
  destruct (st_of t s) as [[h0| |h0|h0|]|] eqn:Old.
  - destruct (h0 =? h) eqn:E; [|discriminate]. apply N.eqb_eq in E. subst h0. apply (Hfb _ eq_refl); auto.
  - apply (Hfb _ eq_refl); auto.
  - destruct (h0 =? h) eqn:E; [|discriminate]. apply N.eqb_eq in E. subst h0. injection H as <- _.
    apply (LINKx_close s); [apply (Up _ eq_refl); auto 6|]. intros _. apply (LINK_dec _ _ _ L Lt). rewrite Old. reflexivity.
  - destruct (h0 =? h) eqn:E; [|discriminate]. apply N.eqb_eq in E. subst h0. injection H as <- _.
    apply (LINKx_close s); [apply (Up _ eq_refl); auto 6|]. intros _. apply (LINK_dec _ _ _ L Lt). rewrite Old. reflexivity.
  - discriminate.
  - apply (Hfb _ eq_refl); auto.
Qed.

Lemma LINK_notar t C s h c t' ev :
  LINK t C -> c_kind c = CNotar h -> ft_mark_notarized t (s, h) = Some (t', ev) ->
  LINK t' (updC C s (ss_add_cert (C s) c)).
Proof.
  intros L K H. unfold ft_mark_notarized in H. cbn [fst snd] in H.
  destruct (s <? ft_first t) eqn:Lt; [injection H as <- _; apply LINK_below; [exact L | apply N.ltb_lt; exact Lt]|].
  apply N.ltb_ge in Lt. fold (st_of t s) in H.
  pose proof (view_add (C s) c) as V. rewrite K in V. destruct V as (V1 & V2 & V3).
  pose proof (lk_slot _ _ _ L s Lt) as Sl. unfold slot_link_ss in Sl.
  set (C' := updC C s (ss_add_cert (C s) c)).
  assert (Up : forall t1 v, ft_first t1 = ft_first t -> ft_highest t1 = ft_highest t ->
            (forall s', st_of t1 s' = if s' =? s then Some v else st_of t s') ->
            slot_link s (Some v) (vff (C s)) (Some h) (vfn (C s)) ->
            (forall h0, st_of t s = Some (FFinalized h0) -> v = FFinalized h0) ->
            (s = 0 -> v = FNotarized 0 \/ v = FFinalized 0 \/ 0 < ft_highest t) ->
            LINKx (Some s) t1 C').
  { intros t1 v E1 E2 St Hl Hk Hz. apply (LINKx_upd t C t1 C' s v L); auto.
    - intros s' Hn. unfold C'. rewrite updC_other by exact Hn. reflexivity.
    - unfold slot_link_ss, C'. rewrite updC_same, V1, V2, V3. exact Hl. }
  destruct (st_of t s) as [[h0| |h0|h0|]|] eqn:Old.
  - destruct (h0 =? h) eqn:E; [|discriminate]. apply N.eqb_eq in E. subst h0. injection H as <- _.
    apply (LINKx_close s); [|rewrite st_of_set, N.eqb_refl; discriminate].
    apply (Up _ (FNotarized h)); try reflexivity; [intros s'; apply st_of_set | apply (sl_notar_new s _ _ _ _ h Sl); auto | discriminate | zt].
  - apply (LINK_hfb _ C' (s, h) fe_empty t' ev (Up (ft_set_status (ft_set_status t s (FNotarized h)) s (FFinalized h)) (FFinalized h) eq_refl eq_refl (st_of_set2 t s _ _) (sl_notar_fin s _ _ _ h Sl) ltac:(discriminate) ltac:(zt)));
      cbn [fst snd]; auto. rewrite st_of_set2, N.eqb_refl. reflexivity.
  - destruct (h0 =? h) eqn:E; [|discriminate]. apply N.eqb_eq in E. subst h0. injection H as <- _.
    apply (LINKx_close s); [|intros _; apply (LINK_dec _ _ _ L Lt); rewrite Old; reflexivity].
    apply (Up _ (FFinalized h)); try reflexivity; [intros s'; apply st_of_set2 | apply (sl_notar_keep s _ _ _ _ h Sl); auto | congruence | zt].
  - injection H as <- _.
    apply (LINKx_close s); [|intros _; apply (LINK_dec _ _ _ L Lt); rewrite Old; reflexivity].
    apply (Up _ (FImplFinalized h0)); try reflexivity; [intros s'; apply st_of_set2 | apply (sl_notar_keep s _ _ _ _ h Sl); eauto | discriminate | zt].
  - injection H as <- _.
    apply (LINKx_close s); [|intros _; apply (LINK_dec _ _ _ L Lt); rewrite Old; reflexivity].
    apply (Up _ FImplSkipped); try reflexivity; [intros s'; apply st_of_set2 | apply (sl_notar_keep s _ _ _ _ h Sl); auto | discriminate | zt].
  - injection H as <- _.
    apply (LINKx_close s); [|rewrite st_of_set, N.eqb_refl; discriminate].
    apply (Up _ (FNotarized h)); try reflexivity; [intros s'; apply st_of_set | apply (sl_notar_new s _ _ _ _ h Sl); auto | discriminate | zt].
Qed.

Lemma LINK_final t C s c t' ev :
  LINK t C -> c_kind c = CFinal -> ft_mark_finalized t s = Some (t', ev) ->
  LINK t' (updC C s (ss_add_cert (C s) c)).
Proof.
  intros L K H. unfold ft_mark_finalized in H.
  destruct (s <? ft_first t) eqn:Lt; [injection H as <- _; apply LINK_below; [exact L | apply N.ltb_lt; exact Lt]|].
  apply N.ltb_ge in Lt. fold (st_of t s) in H.
  pose proof (view_add (C s) c) as V. rewrite K in V. destruct V as (V1 & V2 & V3).
  pose proof (lk_slot _ _ _ L s Lt) as Sl. unfold slot_link_ss in Sl.
  set (C' := updC C s (ss_add_cert (C s) c)).
  assert (Up : forall t1 v, ft_first t1 = ft_first t -> ft_highest t1 = ft_highest t ->
            (forall s', st_of t1 s' = if s' =? s then Some v else st_of t s') ->
            slot_link s (Some v) (vff (C s)) (vnt (C s)) true ->
            (forall h0, st_of t s = Some (FFinalized h0) -> v = FFinalized h0) ->
            (s = 0 -> v = FNotarized 0 \/ v = FFinalized 0 \/ 0 < ft_highest t) ->
            LINKx (Some s) t1 C').
  { intros t1 v E1 E2 St Hl Hk Hz. apply (LINKx_upd t C t1 C' s v L); auto.
    - intros s' Hn. unfold C'. rewrite updC_other by exact Hn. reflexivity.
    - unfold slot_link_ss, C'. rewrite updC_same, V1, V2, V3. exact Hl. }
  destruct (st_of t s) as [[h0| |h0|h0|]|] eqn:Old.
  - apply (LINK_hfb _ C' (s, h0) fe_empty t' ev (Up (ft_set_status (ft_set_status t s FFinalPendingNotar) s (FFinalized h0)) (FFinalized h0) eq_refl eq_refl (st_of_set2 t s _ _) (sl_final_fin s _ _ _ h0 Sl) ltac:(discriminate) ltac:(zt)));
      cbn [fst snd]; auto. rewrite st_of_set2, N.eqb_refl. reflexivity.
  - injection H as <- _.
    apply (LINKx_close s); [|rewrite st_of_set, N.eqb_refl; discriminate].
    apply (Up _ FFinalPendingNotar); try reflexivity; [intros s'; apply st_of_set | apply (sl_final_new s _ _ _ _ Sl); auto | discriminate | zt].
  - injection H as <- _.
    apply (LINKx_close s); [|intros _; apply (LINK_dec _ _ _ L Lt); rewrite Old; reflexivity].
    apply (Up _ (FFinalized h0)); try reflexivity; [intros s'; apply st_of_set2 | apply (sl_final_keep s _ _ _ _ Sl); eauto | congruence | zt].
  - injection H as <- _.
    apply (LINKx_close s); [|intros _; apply (LINK_dec _ _ _ L Lt); rewrite Old; reflexivity].
    apply (Up _ (FImplFinalized h0)); try reflexivity; [intros s'; apply st_of_set2 | apply (sl_final_keep s _ _ _ _ Sl); eauto | discriminate | zt].
  - discriminate.
  - injection H as <- _.
    apply (LINKx_close s); [|rewrite st_of_set, N.eqb_refl; discriminate].
    apply (Up _ FFinalPendingNotar); try reflexivity; [intros s'; apply st_of_set | apply (sl_final_new s _ _ _ _ Sl); auto | discriminate | zt].
Qed.

Lemma LINK_same_st t t' C :
  LINK t C -> ft_first t' = ft_first t -> ft_highest t' = ft_highest t -> (forall s, st_of t' s = st_of t s) -> LINK t' C.
Proof.
  intros [A B D F Z] E1 E2 St. split.
  - intros s Hs. rewrite St. apply A. lia.
  - intros s Hs Hd. rewrite St in Hd. rewrite E2. apply B; [lia | exact Hd].
  - lia.
  - rewrite E2, St. exact F.
  - rewrite E1, E2, St. exact Z.
Qed.

Lemma LINK_parent t C b p t' ev : LINK t C -> ft_add_parent t b p = Some (t', ev) -> LINK t' C.
Proof.
  intros L H. unfold ft_add_parent in H.
  destruct (negb (fst p <? fst b)); [discriminate|].
  destruct (fst b <? ft_first t) eqn:Lt; [injection H as <- _; exact L|]. apply N.ltb_ge in Lt.
  destruct (blookup b (ft_parents t)) as [p'|].
  { destruct (bid_eqb p p'); [injection H as <- _; exact L | discriminate]. }
  cbn [ft_status] in H.
  set (t1 := mkFT (ft_status t) (binsert b p (ft_parents t)) (ft_highest t) (ft_first t)) in *.
  assert (L1 : LINK t1 C) by (apply (LINK_same_st t); auto).
  assert (Walk : forall h, st_of t (fst b) = Some (FFinalized h) \/ st_of t (fst b) = Some (FImplFinalized h) ->
            match ft_handle_impl (ft_fuel t1) t1 (fst b) p fe_empty with
            | Some (t2, ev0) => Some (ft_prune t2, ev0)
            | None => None
            end = Some (t', ev) -> LINK t' C).
  { intros h Hst Hw. destruct (ft_handle_impl (ft_fuel t1) t1 (fst b) p fe_empty) as [[t2 ev2]|] eqn:HI; [|discriminate].
    injection Hw as <- _. apply LINK_prune. apply handle_impl_tr in HI. apply (LINK_TR (fst b) t1 t2 C L1 HI).
    cbn [ft_highest t1]. apply (LINK_dec _ _ _ L Lt). destruct Hst as [-> | ->]; reflexivity. }
  fold (st_of t (fst b)) in H.
  destruct (st_of t (fst b)) as [[h| |h|h|]|] eqn:Old; try (injection H as <- _; exact L1).
  - destruct (h =? snd b); [|injection H as <- _; exact L1]. apply (Walk h); auto.
  - destruct (h =? snd b); [|injection H as <- _; exact L1]. apply (Walk h); auto.
Qed.

(* ================= Part E: the pool invariant ================= *)
Record INV (p : pool) : Prop := {
  inv_keys : keys_nd p;
  inv_cwf : cwf p;
  inv_link : LINK (p_ft p) (p_ss p)
}.

Lemma INV_via pm p' : keys_nd pm -> cwf pm -> LINK (p_ft p') (p_ss pm) -> cext pm p' -> INV p'.
Proof.
  intros K W L X. split.
  - apply (cx_keys _ _ X K).
  - apply (cwf_cext pm); assumption.
  - apply (LINKx_ext None _ (p_ss pm)); [|exact L].
    intros s Hs. destruct (cx_certs _ _ X s) as [E|[_ Lt]]; [exact E|]. unfold first_unpruned in Lt. lia.
Qed.
Lemma INV_same_ft p p' : INV p -> cext p p' -> p_ft p' = p_ft p -> INV p'.
Proof. intros [K W L] X E. apply (INV_via p); auto. rewrite E. exact L. Qed.
Lemma INV_panicked p : INV p -> INV (panicked p).
Proof. intros [K W L]. split; auto. Qed.
Lemma INV_init : INV pool_init.
Proof.
  split.
  - unfold keys_nd. cbn. constructor.
  - intros s. apply ss_wf_empty.
  - split; cbn [pool_init p_ft ft_init ft_first ft_highest].
    + intros s _. unfold slot_link_ss, st_of, ft_init. cbn [ft_status alookup].
      change (p_ss pool_init s) with ss_empty. destruct view_empty as (-> & -> & ->).
      destruct (s =? 0) eqn:E.
      * apply N.eqb_eq in E. subst. split; intros; try discriminate; auto.
        injection H as <-. auto.
      * apply N.eqb_neq in E. split; intros; try discriminate; try contradiction.
    + intros s _. unfold st_of, ft_init. cbn [ft_status alookup]. destruct (s =? 0); discriminate.
    + lia.
    + left. reflexivity.
    + intros _. left. reflexivity.
Qed.

(* which tracker operation add_valid_cert issues *)
Lemma add_valid_cert_ft e p c p' o :
  add_valid_cert e p c = Some (p', o) ->
  match c_kind c with
  | CNotar h => exists ev, ft_mark_notarized (p_ft p) (c_slot c, h) = Some (p_ft p', ev)
  | CFastFinal h => exists ev, ft_mark_fast_finalized (p_ft p) (c_slot c, h) = Some (p_ft p', ev)
  | CFinal => exists ev, ft_mark_finalized (p_ft p) (c_slot c) = Some (p_ft p', ev)
  | _ => p_ft p' = p_ft p
  end.
Proof.
  unfold add_valid_cert. fold (stored_cert p c). set (p0 := stored_cert p c). set (s := c_slot c).
  assert (P0 : p_ft p0 = p_ft p) by reflexivity. rewrite P0.
  assert (HFt : forall t ev p1 o1, pool_handle_finalization (pool_with_ft p0 t) ev = Some (p1, o1) -> p_ft p1 = t).
  { intros t ev p1 o1 HF. unfold pool_handle_finalization in HF.
    destruct (pt_handle_finalization _ ev) as [[[a b] c']|]; [|discriminate]. injection HF as <- _. reflexivity. }
  intros H. destruct (c_kind c) as [h|h| |h|] eqn:K.
  - destruct (ft_mark_notarized (p_ft p) (s, h)) as [[t ev]|] eqn:MN; [|discriminate].
    destruct (pool_handle_finalization (pool_with_ft p0 t) ev) as [[p1 o1]|] eqn:HF; [|discriminate].
    destruct (notify_waiting_children e p1 (s, h)) as [[p2 o2]|] eqn:NW; [|discriminate].
    destruct (pt_mark_notar_fallback (p_prt p2) (s, h)) as [[[t2 prs] wk]|] eqn:MF; [|discriminate].
    injection H as <- _. pose proof (notify_waiting_children_frame _ _ _ _ _ NW) as [_ F2].
    exists ev. cbn [p_ft pool_with_prt]. rewrite F2, (HFt _ _ _ _ HF). reflexivity.
  - destruct (notify_waiting_children e p0 (s, h)) as [[p2 o2]|] eqn:NW; [|discriminate].
    destruct (pt_mark_notar_fallback (p_prt p2) (s, h)) as [[[t2 prs] wk]|] eqn:MF; [|discriminate].
    injection H as <- _. pose proof (notify_waiting_children_frame _ _ _ _ _ NW) as [_ F2].
    cbn [p_ft pool_with_prt]. rewrite F2. exact P0.
  - destruct (pt_mark_skipped (p_prt p0) s) as [[[t2 prs] wk]|] eqn:MS; [|discriminate].
    injection H as <- _. reflexivity.
  - destruct (ft_mark_fast_finalized (p_ft p) (s, h)) as [[t ev]|] eqn:MN; [|discriminate].
    destruct (pool_handle_finalization (pool_with_ft p0 t) ev) as [[p1 o1]|] eqn:HF; [|discriminate].
    destruct (notify_waiting_children e p1 (s, h)) as [[p2 o2]|] eqn:NW; [|discriminate].
    injection H as <- _. pose proof (notify_waiting_children_frame _ _ _ _ _ NW) as [_ F2].
    exists ev. rewrite F2, (HFt _ _ _ _ HF). reflexivity.
  - destruct (ft_mark_finalized (p_ft p) s) as [[t ev]|] eqn:MN; [|discriminate].
    destruct (pool_handle_finalization (pool_with_ft p0 t) ev) as [[p1 o1]|] eqn:HF; [|discriminate].
    injection H as <- _. exists ev. rewrite (HFt _ _ _ _ HF). reflexivity.
Qed.

Lemma p_ss_stored p c s :
  p_ss (stored_cert p c) s = updC (p_ss p) (c_slot c) (ss_add_cert (p_ss p (c_slot c)) c) s.
Proof. unfold stored_cert, updC. apply p_ss_set. Qed.

Lemma LINK_other t C s c :
  LINK t C -> (forall h, c_kind c <> CNotar h) -> (forall h, c_kind c <> CFastFinal h) -> c_kind c <> CFinal ->
  LINK t (updC C s (ss_add_cert (C s) c)).
Proof.
  intros [A B D F] N1 N2 N3. split; auto. intros x Hx. unfold updC. destruct (x =? s) eqn:E; [|apply A; exact Hx].
  apply N.eqb_eq in E. subst x. pose proof (view_add (C s) c) as V.
  destruct (c_kind c) as [h|h| |h|] eqn:K.
  - exfalso. apply (N1 h). reflexivity.
  - destruct V as (V1 & V2 & V3). apply (view_eq_link s _ (C s)); auto.
  - destruct V as (V1 & V2 & V3). apply (view_eq_link s _ (C s)); auto.
  - exfalso. apply (N2 h). reflexivity.
  - exfalso. apply N3. reflexivity.
Qed.

Theorem add_valid_cert_INV : forall e p c p' o,
  INV p -> add_valid_cert e p c = Some (p', o) ->
  INV p' /\ forall s c', In c' (certs_of_slot (p_ss p' s)) -> c' = c \/ In c' (certs_of_slot (p_ss p s)).
Proof.
  intros e p c p' o [K W L] H.
  destruct (add_valid_cert_cext e p c p' o H) as [X _].
  pose proof (add_valid_cert_ft e p c p' o H) as Ft.
  set (pm := pool_with_ft (stored_cert p c) (p_ft p')) in *.
  assert (Spm : forall s, p_ss pm s = updC (p_ss p) (c_slot c) (ss_add_cert (p_ss p (c_slot c)) c) s).
  { intros s. unfold pm. rewrite p_ss_with_ft. apply p_ss_stored. }
  assert (Lm : LINK (p_ft p') (updC (p_ss p) (c_slot c) (ss_add_cert (p_ss p (c_slot c)) c))).
  { destruct (c_kind c) as [h|h| |h|] eqn:Kd.
    - destruct Ft as [ev Ft]. apply (LINK_notar _ _ _ h c _ ev L Kd Ft).
    - rewrite Ft. apply LINK_other; [exact L | | | ]; intros; congruence.
    - rewrite Ft. apply LINK_other; [exact L | | | ]; intros; congruence.
    - destruct Ft as [ev Ft]. apply (LINK_fast _ _ _ h c _ ev L Kd Ft).
    - destruct Ft as [ev Ft]. apply (LINK_final _ _ _ c _ ev L Kd Ft). }
  split.
  - apply (INV_via pm).
    + unfold pm, keys_nd. cbn [pool_with_ft p_slots]. apply keys_nd_set. exact K.
    + intros s. rewrite Spm. unfold updC. destruct (s =? c_slot c) eqn:E; [|apply W].
      apply N.eqb_eq in E. subst. apply ss_wf_add. apply W.
    + apply (LINKx_ext None _ _ (p_ss pm)) in Lm; [exact Lm|]. intros s _. rewrite Spm. reflexivity.
    + exact X.
  - intros s c' Hin. destruct (cx_certs _ _ X s) as [E|[E _]].
    + unfold certs_of_slot in Hin. rewrite E in Hin. fold (certs_of_slot (p_ss pm s)) in Hin. rewrite Spm in Hin.
      unfold updC in Hin. destruct (s =? c_slot c) eqn:Es; [|right; exact Hin].
      apply N.eqb_eq in Es. subst. apply add_cert_in in Hin. exact Hin.
    + unfold certs_of_slot in Hin. rewrite E in Hin. cbn in Hin. contradiction.
Qed.

Lemma add_certs_INV e : forall cs p acc p' o,
  INV p -> add_certs e p cs acc = Some (p', o) ->
  INV p' /\ forall s c', In c' (certs_of_slot (p_ss p' s)) -> In (Some c') cs \/ In c' (certs_of_slot (p_ss p s)).
Proof.
  induction cs as [|oc l IH]; intros p acc p' o I H; cbn [add_certs] in H.
  - injection H as <- _. split; [exact I | auto].
  - destruct oc as [c|]; [|discriminate].
    destruct (add_valid_cert e p c) as [[p1 o1]|] eqn:AV; [|discriminate].
    destruct (add_valid_cert_INV e p c p1 o1 I AV) as [I1 T1].
    destruct (IH _ _ _ _ I1 H) as [I2 T2]. split; [exact I2|].
    intros s c' Hin. destruct (T2 s c' Hin) as [Hl|Hp]; [left; right; exact Hl|].
    destruct (T1 s c' Hp) as [->|Hp0]; [left; left; reflexivity | right; exact Hp0].
Qed.

(* where a certificate held after one operation comes from *)
Definition cert_origin (e : epoch) (p : pool) (op : pool_op) (c : cert) : Prop :=
  match op with
  | OpCert c' => c = c' /\ out_of_bounds p (c_slot c) = false
  | OpVote vt => out_of_bounds p (v_slot vt) = false /\ admitted (p_ss p (v_slot vt)) vt /\
                 In (Some c) (o_certs (snd (ss_add_vote e (p_ss p (v_slot vt)) vt)))
  | _ => False
  end.

Theorem pool_step_INV : forall e p op,
  INV p ->
  let p' := fst (fst (pool_step e p op)) in
  INV p' /\ forall s c, In c (certs_of_slot (p_ss p' s)) -> In c (certs_of_slot (p_ss p s)) \/ cert_origin e p op c.
Proof.
  intros e p op I. cbv zeta.
  assert (Same : forall p', INV p' -> (forall s, ss_c (p_ss p' s) = ss_c (p_ss p s) \/ ss_c (p_ss p' s) = ss_c ss_empty) ->
            INV p' /\ forall s c, In c (certs_of_slot (p_ss p' s)) -> In c (certs_of_slot (p_ss p s)) \/ cert_origin e p op c).
  { intros p' I' E. split; [exact I'|]. intros s c Hin. left. unfold certs_of_slot in *.
    destruct (E s) as [Es|Es]; rewrite Es in Hin; [exact Hin | cbn in Hin; contradiction]. }
  assert (SameX : forall p', cext p p' -> p_ft p' = p_ft p ->
            INV p' /\ forall s c, In c (certs_of_slot (p_ss p' s)) -> In c (certs_of_slot (p_ss p s)) \/ cert_origin e p op c).
  { intros p' X E. apply Same; [apply (INV_same_ft p); assumption|].
    intros s. destruct (cx_certs _ _ X s) as [Es|[Es _]]; auto. }
  unfold pool_step. destruct (p_panicked p); [apply SameX; [apply cext_refl | reflexivity]|].
  destruct op as [vt|c|b par| |s|].
  - (* vote *)
    unfold pool_add_vote, pool_add_vote_gen.
    destruct (out_of_bounds p (v_slot vt)) eqn:OB; [apply SameX; [apply cext_refl | reflexivity]|].
    set (p0 := p_touch p (v_slot vt)).
    assert (X0 : cext p p0) by apply cext_touch.
    assert (F0 : p_ft p0 = p_ft p) by (unfold p0, p_touch; destruct (alookup _ _); reflexivity).
    assert (S0 : p_ss p0 (v_slot vt) = p_ss p (v_slot vt)) by apply p_ss_touch.
    rewrite S0.
    destruct (check_slashable (p_ss p (v_slot vt)) vt) eqn:CS; [apply SameX; assumption|].
    destruct (should_ignore (p_ss p (v_slot vt)) vt) eqn:SI; [apply SameX; assumption|].
    pose proof (add_vote_certs_frame true e (p_ss p (v_slot vt)) vt) as Fr.
    assert (Eo : snd (ss_add_vote_gen true e (p_ss p (v_slot vt)) vt) = snd (ss_add_vote e (p_ss p (v_slot vt)) vt)) by reflexivity.
    destruct (ss_add_vote_gen true e (p_ss p (v_slot vt)) vt) as [ss' out]. cbn [fst snd] in Fr, Eo.
    set (p1 := p_set_ss p0 (v_slot vt) ss').
    assert (X1 : cext p p1).
    { eapply cext_trans; [exact X0|]. apply cext_set. rewrite S0. exact Fr. }
    assert (I1 : INV p1) by (apply (INV_same_ft p); [exact I | exact X1 | exact F0]).
    destruct (add_certs e p1 (o_certs out) po_empty) as [[p2 o]|] eqn:AC.
    + cbn [fst]. destruct (add_certs_INV e _ _ _ _ _ I1 AC) as [I2 T2]. split; [exact I2|].
      intros s c Hin. destruct (T2 s c Hin) as [Hl|Hp].
      * right. cbn [cert_origin]. split; [exact OB|]. split; [split; assumption|]. rewrite <- Eo. exact Hl.
      * left. unfold certs_of_slot in *. destruct (cx_certs _ _ X1 s) as [Es|[Es _]]; rewrite Es in Hp; [exact Hp | cbn in Hp; contradiction].
    + cbn [fst]. apply Same; [apply INV_panicked; exact I1|].
      intros s. change (p_ss (panicked p1) s) with (p_ss p1 s). destruct (cx_certs _ _ X1 s) as [Es|[Es _]]; auto.
  - (* certificate *)
    unfold pool_add_cert.
    destruct (out_of_bounds p (c_slot c)) eqn:OB; [apply SameX; [apply cext_refl | reflexivity]|].
    set (p0 := p_touch p (c_slot c)).
    assert (X0 : cext p p0) by apply cext_touch.
    assert (F0 : p_ft p0 = p_ft p) by (unfold p0, p_touch; destruct (alookup _ _); reflexivity).
    assert (I0 : INV p0) by (apply (INV_same_ft p); assumption).
    destruct (cert_duplicate (p_ss p0 (c_slot c)) c); [apply SameX; assumption|].
    destruct (add_valid_cert e p0 c) as [[p1 o]|] eqn:AV.
    + cbn [fst]. destruct (add_valid_cert_INV e p0 c p1 o I0 AV) as [I1 T1]. split; [exact I1|].
      intros s c' Hin. destruct (T1 s c' Hin) as [->|Hp]; [right; cbn; auto|].
      left. unfold p0 in Hp. rewrite p_ss_touch in Hp. exact Hp.
    + cbn [fst]. apply SameX; [eapply cext_trans; [exact X0 | apply cext_panicked] | exact F0].
  - (* block *)
    unfold pool_add_block, pool_add_block_gen.
    destruct (negb (fst par <? fst b)); [apply SameX; [first [apply cext_refl | apply cext_panicked] | reflexivity]|].
    destruct (fst b <? first_unpruned p); [apply SameX; [first [apply cext_refl | apply cext_panicked] | reflexivity]|].
    destruct (ft_add_parent (p_ft p) b par) as [[t ev]|] eqn:AP; [|apply SameX; [first [apply cext_refl | apply cext_panicked] | reflexivity]].
    destruct (pool_handle_finalization (pool_with_ft p t) ev) as [[p1 o1]|] eqn:HF; [|apply SameX; [first [apply cext_refl | apply cext_panicked] | reflexivity]].
    assert (F1 : p_ft p1 = t).
    { unfold pool_handle_finalization in HF. destruct (pt_handle_finalization _ ev) as [[[a b'] c']|]; [|discriminate].
      injection HF as <- _. reflexivity. }
    assert (X1 : cext (pool_with_ft p t) p1) by apply (cext_hf _ _ _ _ HF).
    assert (I1 : INV p1).
    { destruct I as [K W L]. apply (INV_via (pool_with_ft p t)); auto. rewrite F1. apply (LINK_parent _ _ _ _ _ _ L AP). }
    assert (Via1 : forall p', cext p1 p' -> p_ft p' = p_ft p1 ->
              INV p' /\ forall s c, In c (certs_of_slot (p_ss p' s)) -> In c (certs_of_slot (p_ss p s)) \/ cert_origin e p (OpBlock b par) c).
    { intros p' X E. apply Same; [apply (INV_same_ft p1); assumption|].
      intros s. destruct (cx_certs _ _ X s) as [Es|[Es _]]; [|auto].
      destruct (cx_certs _ _ X1 s) as [Es1|[Es1 _]]; [left | right]; rewrite Es, Es1; reflexivity. }
    destruct (fst b <? first_unpruned p1); [apply Via1; [apply cext_refl | reflexivity]|].
    set (p2 := p_set_ss p1 (fst b) (notify_parent_known (p_ss p1 (fst b)) (snd b))).
    assert (X2 : cext p1 p2) by (apply cext_set; apply known_certs).
    match goal with |- context [if ?c then _ else _] => destruct c end.
    + destruct (notify_parent_certified e (fst b) (p_ss p2 (fst b)) (snd b)) as [[[ss' evs] rps]|] eqn:NC;
        [|cbn [fst]; apply Via1; [eapply cext_trans; [exact X2 | apply cext_panicked] | reflexivity]].
      assert (X3 : cext p1 (p_set_ss p2 (fst b) ss')).
      { eapply cext_trans; [exact X2|]. apply cext_set. apply (certified_certs _ _ _ _ _ NC). }
      destruct evs; destruct rps; cbn [fst]; apply Via1; try exact X3; try reflexivity.
      eapply cext_trans; [exact X3|]. apply cext_slots; [reflexivity | unfold first_unpruned; cbn; lia].
    + cbn [fst]. apply Via1; [|reflexivity].
      eapply cext_trans; [exact X2|]. apply cext_slots; [reflexivity | unfold first_unpruned; cbn; lia].
  - (* standstill *)
    unfold pool_standstill, pool_standstill_gen.
    destruct (get_final_certs p (finalized_slot p)); [destruct (true && (finalized_slot p =? 0))|]; cbn [fst];
      apply SameX; try apply cext_refl; try apply cext_panicked; reflexivity.
  - (* wait *)
    unfold pool_wait. destruct (pt_wait (p_prt p) s) as [[t r]|]; cbn [fst]; apply SameX; try apply cext_panicked; try reflexivity.
    apply cext_slots; [reflexivity | unfold first_unpruned; cbn; lia].
  - cbn [fst]. apply SameX; [apply cext_refl | reflexivity].
Qed.

Theorem pool_run_INV : forall e ops p, INV p -> INV (pool_run e p ops).
Proof.
  intros e ops. induction ops as [|op l IH]; intros p I; cbn [pool_run]; [exact I|].
  apply IH. apply (pool_step_INV e p op I).
Qed.
Theorem reachable_INV : forall e p, pool_reachable e p -> INV p.
Proof. intros e p [ops ->]. apply pool_run_INV. apply INV_init. Qed.

(* ================= Part F: the standstill bundle ================= *)
Lemma get_final_certs_ss p s :
  get_final_certs p s =
  match ce_ff (ss_c (p_ss p s)) with
  | Some c => [c]
  | None => match ce_fin (ss_c (p_ss p s)), ce_notar (ss_c (p_ss p s)) with
            | Some f, Some n => [f; n]
            | _, _ => []
            end
  end.
Proof.
  unfold get_final_certs, p_ss, aget. destruct (alookup s (p_slots p)); reflexivity.
Qed.

(* shape of the finalization proof of the highest finalized slot *)
Definition final_proof (p : pool) (s : slot) (l : list cert) : Prop :=
  (exists c h, l = [c] /\ c_kind c = CFastFinal h /\ c_slot c = s) \/
  (exists cf cn h, l = [cf; cn] /\ c_kind cf = CFinal /\ c_slot cf = s /\ c_kind cn = CNotar h /\ c_slot cn = s).

Theorem final_certs_present : forall p,
  INV p -> finalized_slot p <> 0 -> final_proof p (finalized_slot p) (get_final_certs p (finalized_slot p)).
Proof.
  intros p [K W L] Hz. unfold finalized_slot in *. set (f := ft_highest (p_ft p)) in *.
  destruct (lk_hi _ _ _ L) as [Z|[h Hh]]; [contradiction|]. fold f in Hh.
  pose proof (lk_slot _ _ _ L f (lk_fh _ _ _ L)) as Sl. unfold slot_link_ss in Sl.
  destruct (W f) as (Kd & Sf & _). destruct (view_has_cert _ Kd) as (H1 & H2 & H3).
  assert (Slot : forall c, In c (certs_of_slot (p_ss p f)) -> c_slot c = f) by exact Sf.
  rewrite get_final_certs_ss.
  destruct (sl_F _ _ _ _ _ Sl h Hh) as [Hff|[Hfn [Hnt|[Hs0 _]]]].
  - destruct (H1 h Hff) as (c & Ec & Kc). rewrite Ec. left. exists c, h. repeat split; auto.
    apply Slot. apply in_certs_of_slot. auto.
  - destruct (ce_ff (ss_c (p_ss p f))) as [c|] eqn:Ec.
    + destruct Kd as (_ & K2 & _). destruct (K2 c Ec) as [h' Kc]. left. exists c, h'. repeat split; auto.
      apply Slot. apply in_certs_of_slot. auto.
    + destruct (H3 Hfn) as (cf & Ef & Kf). destruct (H2 h Hnt) as (cn & En & Kn). rewrite Ef, En.
      right. exists cf, cn, h. repeat split; auto; apply Slot; apply in_certs_of_slot; auto.
  - contradiction.
Qed.

(* "Triggering recovery is safe in every state" *)
Theorem standstill_never_panics : forall e p, INV p -> snd (fst (pool_standstill e p)) <> RPanic.
Proof.
  intros e p I. unfold pool_standstill, pool_standstill_gen.
  destruct (get_final_certs p (finalized_slot p)) as [|c l] eqn:E; [|cbn; discriminate].
  destruct (finalized_slot p =? 0) eqn:Z; [cbn; discriminate|]. apply N.eqb_neq in Z.
  exfalso. destruct (final_certs_present p I Z) as [(c & h & El & _)|(cf & cn & h & El & _)]; congruence.
Qed.

(* the bundle as a function of the pool *)
Definition later_slots (p : pool) : list (slot * slot_state) :=
  filter (fun kv => finalized_slot p <? fst kv) (slots_sorted (p_slots p)).
Definition bundle_certs (p : pool) : list cert :=
  get_final_certs p (finalized_slot p) ++ flat_map (fun kv => certs_of_slot (snd kv)) (later_slots p).
Definition bundle_votes (e : epoch) (p : pool) : list vote :=
  flat_map (fun kv => own_votes_of_slot e (fst kv) (snd kv)) (later_slots p).

Theorem standstill_emits_bundle : forall e p,
  INV p -> pool_standstill e p = (p, RVerdict VNone, mkPO [EStandstill (finalized_slot p + 1) (bundle_certs p) (bundle_votes e p)] []).
Proof.
  intros e p I. pose proof (standstill_never_panics e p I) as Np.
  unfold pool_standstill, pool_standstill_gen in *. unfold bundle_certs, bundle_votes, later_slots.
  destruct (get_final_certs p (finalized_slot p)) as [|c l] eqn:E; [|reflexivity].
  destruct (finalized_slot p =? 0); cbn [andb] in *; [reflexivity | cbn in Np; congruence].
Qed.

Lemma later_slots_spec p k ss : keys_nd p ->
  (In (k, ss) (later_slots p) <-> finalized_slot p < k /\ alookup k (p_slots p) = Some ss).
Proof.
  intros K. unfold later_slots. rewrite filter_In, slots_sorted_in. cbn [fst]. split.
  - intros [Hin Hlt]. split; [apply N.ltb_lt; exact Hlt | apply alookup_in_nodup; assumption].
  - intros [Hlt Hl]. split; [apply alookup_some_in; exact Hl | apply N.ltb_lt; exact Hlt].
Qed.

Lemma in_final_certs p s c : In c (get_final_certs p s) -> In c (certs_of_slot (p_ss p s)).
Proof.
  rewrite get_final_certs_ss, in_certs_of_slot.
  destruct (ce_ff (ss_c (p_ss p s))) as [c0|]; [intros [<-|[]]; auto|].
  destruct (ce_fin (ss_c (p_ss p s))) as [cf|]; [|intros []].
  destruct (ce_notar (ss_c (p_ss p s))) as [cn|]; [|intros []].
  intros [<-|[<-|[]]]; auto.
Qed.

(* (1) every certificate of the bundle is held by the pool, in the state of its own slot, and is not older than
   the finalized slot; conversely every certificate held for a later slot is in the bundle *)
Theorem bundle_certs_held : forall p c,
  INV p -> In c (bundle_certs p) ->
  In c (certs_of_slot (p_ss p (c_slot c))) /\ finalized_slot p <= c_slot c.
Proof.
  intros p c [K W L] Hin. unfold bundle_certs in Hin. apply in_app_or in Hin. destruct Hin as [Hin|Hin].
  - apply in_final_certs in Hin. destruct (W (finalized_slot p)) as (_ & Sl & _). rewrite (Sl c Hin). split; [exact Hin | lia].
  - apply in_flat_map in Hin. destruct Hin as ([k ss] & Hk & Hc). cbn [snd] in Hc.
    apply (later_slots_spec p k ss K) in Hk. destruct Hk as [Hlt Hl]. apply state_is_entry in Hl. subst ss.
    destruct (W k) as (_ & Sl & _). rewrite (Sl c Hc). split; [exact Hc | lia].
Qed.
Theorem bundle_certs_complete : forall p s c,
  INV p -> finalized_slot p < s -> In c (certs_of_slot (p_ss p s)) -> In c (bundle_certs p).
Proof.
  intros p s c [K W L] Hlt Hin. unfold bundle_certs. apply in_or_app. right. apply in_flat_map.
  destruct (alookup s (p_slots p)) as [ss|] eqn:E.
  - exists (s, ss). split; [apply later_slots_spec; auto|]. cbn [snd]. rewrite <- (state_is_entry p s ss E). exact Hin.
  - rewrite (no_entry_empty p s E) in Hin. cbn in Hin. contradiction.
Qed.
Theorem bundle_final_certs : forall p,
  INV p -> finalized_slot p <> 0 ->
  exists l, final_proof p (finalized_slot p) l /\ forall c, In c l -> In c (bundle_certs p).
Proof.
  intros p I Hz. exists (get_final_certs p (finalized_slot p)). split; [apply final_certs_present; assumption|].
  intros c Hc. unfold bundle_certs. apply in_or_app. left. exact Hc.
Qed.

(* (1) the votes of the bundle are exactly the node's own stored votes for later (retained) slots *)
Lemma own_votes_spec e s ss v :
  In v (own_votes_of_slot e s ss) <-> v_slot v = s /\ v_signer v = own e /\ stored ss (own e) (v_kind v).
Proof.
  unfold own_votes_of_slot. rewrite !in_app_iff, in_map_iff. split.
  - intros [H|[H|[H|[H|H]]]].
    + destruct (memN (own e) (vo_fin (ss_v ss))) eqn:M; [|destruct H]. destruct H as [<-|[]]. cbn. auto.
    + destruct (alookup (own e) (vo_notar (ss_v ss))) as [h|] eqn:A; [|destruct H]. destruct H as [<-|[]]. cbn. auto.
    + destruct H as (h & <- & Hh). cbn. repeat split; auto. apply (proj1 (sset_fold_in _ _)) in Hh. apply in_map_iff in Hh.
      destruct Hh as ([v0 h0] & Eh & Hf). cbn [snd] in Eh. subst h0. apply filter_In in Hf. destruct Hf as [Hf Ev]. cbn [fst] in Ev.
      unfold has_nf_vote. apply existsb_exists. exists (v0, h). split; [exact Hf|]. cbn [fst snd]. rewrite Ev, N.eqb_refl. reflexivity.
    + destruct (memN (own e) (vo_skip (ss_v ss))) eqn:M; [|destruct H]. destruct H as [<-|[]]. cbn. auto.
    + destruct (memN (own e) (vo_sf (ss_v ss))) eqn:M; [|destruct H]. destruct H as [<-|[]]. cbn. auto.
  - destruct v as [s' k u]. cbn [v_slot v_signer v_kind]. intros (-> & -> & St).
    destruct k as [h|h| | |]; cbn [stored] in St.
    + right. left. rewrite St. left. reflexivity.
    + right. right. left. exists h. split; [reflexivity|]. apply (proj2 (sset_fold_in _ _)). apply in_map_iff.
      unfold has_nf_vote in St. apply existsb_exists in St. destruct St as ([v0 h0] & Hin & Hb). cbn [fst snd] in Hb.
      apply andb_prop in Hb. destruct Hb as [B1 B2]. apply N.eqb_eq in B1. apply N.eqb_eq in B2. subst.
      exists (own e, h). split; [reflexivity|]. apply filter_In. split; [exact Hin|]. cbn [fst]. apply N.eqb_refl.
    + right. right. right. left. rewrite St. left. reflexivity.
    + right. right. right. right. rewrite St. left. reflexivity.
    + left. rewrite St. left. reflexivity.
Qed.

Theorem bundle_votes_own : forall e p v,
  INV p -> In v (bundle_votes e p) ->
  v_signer v = own e /\ finalized_slot p < v_slot v /\ stored (p_ss p (v_slot v)) (own e) (v_kind v).
Proof.
  intros e p v [K W L] Hin. unfold bundle_votes in Hin. apply in_flat_map in Hin.
  destruct Hin as ([k ss] & Hk & Hv). cbn [fst snd] in Hv.
  apply (later_slots_spec p k ss K) in Hk. destruct Hk as [Hlt Hl]. apply state_is_entry in Hl. subst ss.
  apply own_votes_spec in Hv. destruct Hv as (-> & Hs & St). auto.
Qed.
Theorem bundle_votes_complete : forall e p s k,
  INV p -> finalized_slot p < s -> stored (p_ss p s) (own e) k -> In (mkVote s k (own e)) (bundle_votes e p).
Proof.
  intros e p s k [K W L] Hlt St. unfold bundle_votes. apply in_flat_map.
  destruct (alookup s (p_slots p)) as [ss|] eqn:E.
  - exists (s, ss). split; [apply later_slots_spec; auto|]. cbn [fst snd]. apply own_votes_spec. cbn.
    rewrite <- (state_is_entry p s ss E). auto.
  - rewrite (no_entry_empty p s E) in St. exfalso. apply (fresh_stored _ _ _ fresh_empty St).
Qed.

(* (1) thresholds: every certificate held by a reachable pool meets its threshold when recounted, provided the
   certificates the pool RECEIVED did (they are ValidatedCert in the implementation); the ones it created do by
   the slot-state invariants *)
Definition op_cert_ok (e : epoch) (op : pool_op) : bool :=
  match op with OpCert c => cert_threshold_ok e c | _ => true end.
Definition cvalid (e : epoch) (p : pool) : Prop :=
  forall s c, In c (certs_of_slot (p_ss p s)) -> cert_threshold_ok e c = true.

Theorem pool_run_cvalid : forall e ops p,
  0 < total_stake e -> pool_inv e p -> INV p -> cvalid e p -> forallb (op_cert_ok e) ops = true ->
  p_panicked (pool_run e p ops) = false -> cvalid e (pool_run e p ops).
Proof.
  intros e ops. induction ops as [|op l IH]; intros p Ht PI I CV Hops Hp; cbn [pool_run] in *; [exact CV|].
  cbn [forallb] in Hops. apply andb_prop in Hops. destruct Hops as [Hop Hl].
  assert (Hp1 : p_panicked (fst (fst (pool_step e p op))) = false).
  { destruct (p_panicked (fst (fst (pool_step e p op)))) eqn:E; [|reflexivity].
    rewrite (panicked_sticky e l _ E) in Hp. discriminate. }
  destruct (pool_step_inv e p op Ht PI Hp1) as [PI1 _].
  destruct (pool_step_INV e p op I) as [I1 T1].
  apply IH; auto.
  intros s c Hin. destruct (T1 s c Hin) as [Hold|Ho]; [apply (CV s c Hold)|].
  destruct op as [vt|c'| | | |]; cbn [cert_origin] in Ho; try contradiction.
  - destruct Ho as (_ & Adm & Hc). destruct (PI (v_slot vt)) as (To & Hd & _).
    pose proof (created_certs_good e _ vt Ht Adm To Hd) as G. rewrite Forall_forall in G.
    destruct (G _ Hc) as (c0 & E0 & _ & Th). injection E0 as <-. exact Th.
  - destruct Ho as [-> _]. exact Hop.
Qed.

Theorem bundle_certs_valid : forall e ops c,
  0 < total_stake e -> forallb (op_cert_ok e) ops = true ->
  let p := pool_run e pool_init ops in
  p_panicked p = false -> In c (bundle_certs p) -> cert_threshold_ok e c = true.
Proof.
  intros e ops c Ht Hops p Hp Hin.
  assert (I : INV p) by (apply pool_run_INV; apply INV_init).
  destruct (bundle_certs_held p c I Hin) as [Hh _].
  apply (pool_run_cvalid e ops pool_init Ht (pool_init_inv e Ht) INV_init) with (s := c_slot c); auto.
  intros s c0 H0. cbn in H0. contradiction.
Qed.

(* ================= Part G: a fresh receiver fed the bundle's certificates ================= *)
(* what the sender's invariants say about any set of certificates it holds at or above its watermark *)
Definition fin_hash (c : cert) : option hash :=
  match c_kind c with CNotar h | CFastFinal h => Some h | _ => None end.
Record Xok (f : slot) (X : cert -> Prop) : Prop := {
  x_cons : forall c1 c2 h1 h2, X c1 -> X c2 -> c_slot c1 = c_slot c2 ->
           fin_hash c1 = Some h1 -> fin_hash c2 = Some h2 -> h1 = h2;
  x_zero : forall c h, X c -> c_slot c = 0 -> fin_hash c = Some h -> h = 0;
  x_ff : forall c h, X c -> c_kind c = CFastFinal h -> c_slot c <= f;
  x_fn : forall c1 c2 h, X c1 -> X c2 -> c_slot c1 = c_slot c2 -> c_kind c1 = CFinal -> c_kind c2 = CNotar h -> c_slot c1 <= f
}.

Lemma held_view p c : INV p -> In c (certs_of_slot (p_ss p (c_slot c))) -> first_unpruned p <= c_slot c ->
  slot_link (c_slot c) (st_of (p_ft p) (c_slot c)) (vff (p_ss p (c_slot c))) (vnt (p_ss p (c_slot c))) (vfn (p_ss p (c_slot c))) /\
  match c_kind c with
  | CFastFinal h => vff (p_ss p (c_slot c)) = Some h
  | CNotar h => vnt (p_ss p (c_slot c)) = Some h
  | CFinal => vfn (p_ss p (c_slot c)) = true
  | _ => True
  end.
Proof.
  intros [K W L] Hin Hf. split; [apply (lk_slot _ _ _ L); exact Hf|].
  destruct (W (c_slot c)) as [Kd _]. pose proof (field_of _ c Kd Hin) as F. destruct (c_kind c); auto.
Qed.

Theorem sender_Xok : forall p, INV p -> Xok (finalized_slot p) (fun c => In c (bundle_certs p)).
Proof.
  intros p I.
  assert (Hv : forall c, In c (bundle_certs p) ->
            slot_link (c_slot c) (st_of (p_ft p) (c_slot c)) (vff (p_ss p (c_slot c))) (vnt (p_ss p (c_slot c))) (vfn (p_ss p (c_slot c))) /\
            match c_kind c with
            | CFastFinal h => vff (p_ss p (c_slot c)) = Some h
            | CNotar h => vnt (p_ss p (c_slot c)) = Some h
            | CFinal => vfn (p_ss p (c_slot c)) = true
            | _ => True
            end).
  { intros c Hc. destruct (bundle_certs_held p c I Hc) as [Hh Hle]. apply held_view; auto.
    pose proof (lk_fh _ _ _ (inv_link _ I)). unfold first_unpruned, finalized_slot in *. lia. }
  assert (Hfirst : forall c, In c (bundle_certs p) -> ft_first (p_ft p) <= c_slot c).
  { intros c Hc. destruct (bundle_certs_held p c I Hc) as [_ Hle].
    pose proof (lk_fh _ _ _ (inv_link _ I)). unfold finalized_slot in *. lia. }
  assert (Hle : forall c, In c (bundle_certs p) -> finalized_slot p <= c_slot c).
  { intros c Hc. apply (bundle_certs_held p c I Hc). }
  (* a notarization certificate of the bundle for the finalized slot: that slot has no fast-finalization certificate *)
  assert (NoFF : forall c a, In c (bundle_certs p) -> c_kind c = CNotar a -> c_slot c = finalized_slot p ->
            vff (p_ss p (finalized_slot p)) = None).
  { intros c a Hc Kc Sc. destruct I as [K W L].
    assert (Hg : In c (get_final_certs p (finalized_slot p))).
    { unfold bundle_certs in Hc. apply in_app_or in Hc. destruct Hc as [Hc|Hc]; [exact Hc|]. exfalso.
      apply in_flat_map in Hc. destruct Hc as ([k ss] & Hk & Hin). cbn [snd] in Hin.
      apply (later_slots_spec p k ss K) in Hk. destruct Hk as [Hlt Hl]. apply state_is_entry in Hl. subst ss.
      destruct (W k) as (_ & Sl & _). rewrite (Sl c Hin) in Sc. lia. }
    rewrite get_final_certs_ss in Hg. unfold vff.
    destruct (ce_ff (ss_c (p_ss p (finalized_slot p)))) as [c0|] eqn:Ef; [|reflexivity].
    destruct Hg as [<-|[]]. destruct (W (finalized_slot p)) as ((_ & K2 & _) & _). destruct (K2 c0 Ef) as [h' Kh]. congruence. }
  assert (FFatF : forall c a, In c (bundle_certs p) -> c_kind c = CFastFinal a -> c_slot c = finalized_slot p).
  { intros c a Hc Kc. destruct (Hv c Hc) as [[A1 _ _ _ _ _] V1]. rewrite Kc in V1. specialize (A1 _ V1).
    assert (c_slot c <= finalized_slot p); [|specialize (Hle c Hc); lia].
    apply (LINK_dec _ _ _ (inv_link _ I) (Hfirst c Hc)). destruct A1 as [-> | ->]; reflexivity. }
  split.
  - intros c1 c2 h1 h2 H1 H2 Es F1 F2. destruct (Hv c1 H1) as [S1 V1]. destruct (Hv c2 H2) as [S2 V2].
    rewrite <- Es in S2, V2. clear S2 S1. unfold fin_hash in F1, F2.
    destruct (c_kind c1) as [a|a| |a|] eqn:K1; try discriminate; injection F1 as ->;
      destruct (c_kind c2) as [b|b| |b|] eqn:K2; try discriminate; injection F2 as ->; try congruence; exfalso.
    + pose proof (eq_trans Es (FFatF c2 h2 H2 K2)) as E1. rewrite E1 in V2.
      rewrite (NoFF c1 h1 H1 K1 E1) in V2. discriminate.
    + pose proof (FFatF c1 h1 H1 K1) as E1. rewrite E1 in V1.
      rewrite (NoFF c2 h2 H2 K2 (eq_trans (eq_sym Es) E1)) in V1. discriminate.
  - intros c h H1 Z F1. destruct (Hv c H1) as [[A1 A2 _ _ _ _] V1]. unfold fin_hash in F1.
    pose proof (Hle c H1) as Hf0. pose proof (lk_fh _ _ _ (inv_link _ I)) as Fh.
    assert (Ez : finalized_slot p = 0) by lia.
    destruct (lk_zero _ _ _ (inv_link _ I)) as [Z0|[Z0|Z0]]; [unfold finalized_slot in *; lia | | | unfold finalized_slot in *; lia];
      rewrite Z in *.
    + destruct (c_kind c) as [a|a| |a|] eqn:Kc; try discriminate; injection F1 as ->.
      * specialize (A2 _ V1). destruct A2 as [E|[E|[[h' [E _]]|[[h' E]|E]]]]; rewrite Z0 in E; congruence.
      * specialize (A1 _ V1). destruct A1 as [E|E]; rewrite Z0 in E; congruence.
    + destruct (c_kind c) as [a|a| |a|] eqn:Kc; try discriminate; injection F1 as ->.
      * specialize (A2 _ V1). destruct A2 as [E|[E|[[h' [E Ef]]|[[h' E]|E]]]]; rewrite Z0 in E; try congruence.
        exfalso. rewrite <- Ez in Ef at 1. rewrite (NoFF c h H1 Kc (eq_trans Z (eq_sym Ez))) in Ef. discriminate.
      * specialize (A1 _ V1). destruct A1 as [E|E]; rewrite Z0 in E; congruence.
  - intros c h H1 Kc. rewrite (FFatF c h H1 Kc). lia.
  - intros c1 c2 h H1 H2 Es K1 K2. destruct (Hv c1 H1) as [[_ A2 A3 _ _ _] V1]. destruct (Hv c2 H2) as [_ V2].
    rewrite <- Es in V2. rewrite K1 in V1. rewrite K2 in V2. specialize (A2 _ V2). specialize (A3 V1).
    apply (LINK_dec _ _ _ (inv_link _ I) (Hfirst c1 H1)).
    destruct A2 as [E|[E|[[h' [E _]]|[[h' E]|E]]]]; rewrite E in *; try reflexivity; destruct A3 as [E'|[[x E']|[x E']]]; discriminate.
Qed.

(* what a pool holding only certificates from such a set can have finalized *)
Lemma recv_upper f X q :
  Xok f X -> INV q -> (forall s c, In c (certs_of_slot (p_ss q s)) -> X c) -> finalized_slot q <= f.
Proof.
  intros [_ _ Xf Xn] [K W L] Src. unfold finalized_slot. set (fq := ft_highest (p_ft q)).
  destruct (lk_hi _ _ _ L) as [Z|[h Hh]]; [unfold fq; lia|]. fold fq in Hh.
  pose proof (lk_slot _ _ _ L fq (lk_fh _ _ _ L)) as Sl. unfold slot_link_ss in Sl.
  destruct (W fq) as (Kd & Sf & _). destruct (view_has_cert _ Kd) as (H1 & H2 & H3).
  destruct (sl_F _ _ _ _ _ Sl h Hh) as [Hff|[Hfn [Hnt|[Hs0 _]]]].
  - destruct (H1 h Hff) as (c & Ec & Kc). assert (Hin : In c (certs_of_slot (p_ss q fq))) by (apply in_certs_of_slot; auto).
    rewrite <- (Sf c Hin). apply (Xf c h); [apply (Src fq); exact Hin | exact Kc].
  - destruct (H3 Hfn) as (cf & Ef & Kf). destruct (H2 h Hnt) as (cn & En & Kn).
    assert (Hf : In cf (certs_of_slot (p_ss q fq))) by (apply in_certs_of_slot; auto).
    assert (Hn : In cn (certs_of_slot (p_ss q fq))) by (apply in_certs_of_slot; auto).
    rewrite <- (Sf cf Hf). apply (Xn cf cn h); auto; [apply (Src fq); exact Hf | apply (Src fq); exact Hn | rewrite (Sf cf Hf), (Sf cn Hn); reflexivity].
  - lia.
Qed.

(* ---- trackers that never learnt a parent link ---- *)
Definition plain (t : ftracker) : Prop :=
  ft_parents t = [] /\ forall s, st_of t s <> Some FImplSkipped /\ forall h, st_of t s <> Some (FImplFinalized h).
Definition plain_status (v : fstatus) : Prop := v <> FImplSkipped /\ forall h, v <> FImplFinalized h.

Lemma plain_set t s v : plain t -> plain_status v -> plain (ft_set_status t s v).
Proof.
  intros [P N] [V1 V2]. split; [exact P|]. intros s'. rewrite st_of_set. destruct (s' =? s); [|apply N].
  split; [congruence | intros h; congruence].
Qed.
Lemma plain_prune t : plain t -> plain (ft_prune t).
Proof.
  intros [P N]. split; [unfold ft_prune; cbn [ft_parents]; rewrite P; reflexivity|].
  intros s. rewrite st_of_prune. destruct (_ <=? s); [apply N | split; [discriminate | intros h; discriminate]].
Qed.
Lemma hfb_plain t b ev : plain t ->
  exists t' ev', ft_handle_finalized_block t b ev = Some (t', ev') /\ plain t'.
Proof.
  intros [P N]. unfold ft_handle_finalized_block. cbn [ft_parents]. rewrite P. cbn [blookup].
  eexists _, _. split; [reflexivity|]. apply plain_prune. split; [reflexivity|]. exact N.
Qed.
Lemma plain_N h : plain_status (FNotarized h). Proof. split; [discriminate | intros; discriminate]. Qed.
Lemma plain_F h : plain_status (FFinalized h). Proof. split; [discriminate | intros; discriminate]. Qed.
Lemma plain_P : plain_status FFinalPendingNotar. Proof. split; [discriminate | intros; discriminate]. Qed.

Lemma plain_notar t s h : plain t ->
  (forall h0, st_of t s = Some (FNotarized h0) -> h0 = h) -> (forall h0, st_of t s = Some (FFinalized h0) -> h0 = h) ->
  exists t' ev, ft_mark_notarized t (s, h) = Some (t', ev) /\ plain t'.
Proof.
  intros Pl C1 C2. unfold ft_mark_notarized. cbn [fst snd]. destruct (s <? ft_first t); [eauto|].
  fold (st_of t s). destruct Pl as [P N]. destruct (N s) as [N1 N2].
  destruct (st_of t s) as [[h0| |h0|h0|]|] eqn:Old.
  - rewrite (C1 h0 eq_refl), N.eqb_refl. eexists _, _. split; [reflexivity|]. apply plain_set; [split; assumption | apply plain_N].
  - apply hfb_plain. apply plain_set; [apply plain_set; [split; assumption | apply plain_N] | apply plain_F].
  - rewrite (C2 h0 eq_refl), N.eqb_refl. eexists _, _. split; [reflexivity|].
    apply plain_set; [apply plain_set; [split; assumption | apply plain_N] | apply plain_F].
  - exfalso. apply (N2 h0). reflexivity.
  - exfalso. apply N1. reflexivity.
  - eexists _, _. split; [reflexivity|]. apply plain_set; [split; assumption | apply plain_N].
Qed.
Lemma plain_fast t s h : plain t ->
  (forall h0, st_of t s = Some (FNotarized h0) -> h0 = h) -> (forall h0, st_of t s = Some (FFinalized h0) -> h0 = h) ->
  exists t' ev, ft_mark_fast_finalized t (s, h) = Some (t', ev) /\ plain t'.
Proof.
  intros Pl C1 C2. unfold ft_mark_fast_finalized. cbn [fst snd]. destruct (s <? ft_first t); [eauto|].
  fold (st_of t s). destruct Pl as [P N]. destruct (N s) as [N1 N2].
  assert (Pl1 : plain (ft_set_status t s (FFinalized h))) by (apply plain_set; [split; assumption | apply plain_F]).
  destruct (st_of t s) as [[h0| |h0|h0|]|] eqn:Old.
  - rewrite (C1 h0 eq_refl), N.eqb_refl. apply hfb_plain. exact Pl1.
  - apply hfb_plain. exact Pl1.
  - rewrite (C2 h0 eq_refl), N.eqb_refl. eauto.
  - exfalso. apply (N2 h0). reflexivity.
  - exfalso. apply N1. reflexivity.
  - apply hfb_plain. exact Pl1.
Qed.
Lemma plain_final t s : plain t -> exists t' ev, ft_mark_finalized t s = Some (t', ev) /\ plain t'.
Proof.
  intros Pl. unfold ft_mark_finalized. destruct (s <? ft_first t); [eauto|].
  fold (st_of t s). destruct Pl as [P N]. destruct (N s) as [N1 N2].
  assert (Pl1 : plain (ft_set_status t s FFinalPendingNotar)) by (apply plain_set; [split; assumption | apply plain_P]).
  destruct (st_of t s) as [[h0| |h0|h0|]|] eqn:Old.
  - apply hfb_plain. apply plain_set; [exact Pl1 | apply plain_F].
  - eauto.
  - eexists _, _. split; [reflexivity|]. apply plain_set; [exact Pl1 | apply plain_F].
  - exfalso. apply (N2 h0). reflexivity.
  - exfalso. apply N1. reflexivity.
  - eauto.
Qed.

(* ---- add_valid_cert makes progress when the tracker calls do and nobody waits for a parent ---- *)
Lemma hf_frame p ev p' o : pool_handle_finalization p ev = Some (p', o) ->
  p_waiting p' = p_waiting p /\ p_panicked p' = p_panicked p /\ p_ft p' = p_ft p.
Proof.
  unfold pool_handle_finalization. destruct (pt_handle_finalization (p_prt p) ev) as [[[t prs] wk]|]; [|discriminate].
  intros H. injection H as <- _. auto.
Qed.
Lemma hf_progress p ev tops : Feeds p tops -> pool_handle_finalization p ev <> None.
Proof.
  intros F. unfold pool_handle_finalization.
  pose proof (Feeds_no_panic p tops (TFinalize ev) F) as Np. cbn [pt_step] in Np.
  destruct (pt_handle_finalization (p_prt p) ev) as [[[t prs] wk]|]; [discriminate|].
  exfalso. apply Np; [intros r Hr; discriminate | intros s Hs; discriminate | reflexivity].
Qed.
Lemma nw_empty e p b : p_waiting p = [] ->
  notify_waiting_children e p b = Some (mkPool (p_slots p) (p_prt p) (p_ft p) [] (p_panicked p), po_empty).
Proof. intros H. unfold notify_waiting_children, notify_waiting_children_gen. rewrite H. reflexivity. Qed.

Lemma avc_progress e p c tops :
  Feeds p tops -> p_waiting p = [] ->
  match c_kind c with
  | CNotar h => ft_mark_notarized (p_ft p) (c_slot c, h) <> None
  | CFastFinal h => ft_mark_fast_finalized (p_ft p) (c_slot c, h) <> None
  | CFinal => ft_mark_finalized (p_ft p) (c_slot c) <> None
  | _ => True
  end ->
  exists p' o, add_valid_cert e p c = Some (p', o) /\ p_waiting p' = [] /\ p_panicked p' = p_panicked p.
Proof.
  intros F Wt Hft. unfold add_valid_cert. fold (stored_cert p c). set (p0 := stored_cert p c). set (s := c_slot c) in *.
  assert (F0 : Feeds p0 tops) by (apply (Feeds_ext p); [reflexivity | cbn; lia | exact F]).
  assert (W0 : p_waiting p0 = []) by exact Wt.
  assert (P0 : p_panicked p0 = p_panicked p) by reflexivity.
  change (p_ft p0) with (p_ft p).
  assert (NF : forall p1 tops1 b, Feeds p1 tops1 -> pt_mark_notar_fallback (p_prt p1) b <> None).
  { intros p1 tops1 b F1 Hn. apply (Feeds_no_panic p1 tops1 (TNotarFb b) F1); [intros r Hr; discriminate | intros x Hx; discriminate | exact Hn]. }
  destruct (c_kind c) as [h|h| |h|] eqn:K.
  - destruct (ft_mark_notarized (p_ft p) (s, h)) as [[t ev]|] eqn:MN; [|congruence].
    pose proof (ft_mark_notarized_first _ _ _ _ MN) as Mono.
    assert (F1 : Feeds (pool_with_ft p0 t) tops) by (apply (Feeds_ext p0); [reflexivity | cbn; exact Mono | exact F0]).
    destruct (pool_handle_finalization (pool_with_ft p0 t) ev) as [[p1 o1]|] eqn:HF; [|exfalso; apply (hf_progress _ ev _ F1 HF)].
    destruct (pool_handle_finalization_feeds _ _ _ _ _ HF F1) as [F2 _].
    destruct (hf_frame _ _ _ _ HF) as (W1 & Pn1 & _). cbn [pool_with_ft p_waiting p_panicked] in W1, Pn1.
    rewrite (nw_empty e p1 (s, h)) by congruence.
    set (p2 := mkPool (p_slots p1) (p_prt p1) (p_ft p1) [] (p_panicked p1)).
    assert (F3 : Feeds p2 _) by (apply (Feeds_frame p1 p2 _ eq_refl eq_refl F2)).
    destruct (pt_mark_notar_fallback (p_prt p2) (s, h)) as [[[t2 prs] wk]|] eqn:MF; [|exfalso; apply (NF _ _ _ F3 MF)].
    eexists _, _. split; [reflexivity|]. cbn. split; [reflexivity | congruence].
  - rewrite (nw_empty e p0 (s, h)) by exact W0.
    set (p2 := mkPool (p_slots p0) (p_prt p0) (p_ft p0) [] (p_panicked p0)).
    assert (F3 : Feeds p2 tops) by (apply (Feeds_frame p0 p2 _ eq_refl eq_refl F0)).
    destruct (pt_mark_notar_fallback (p_prt p2) (s, h)) as [[[t2 prs] wk]|] eqn:MF; [|exfalso; apply (NF _ _ _ F3 MF)].
    eexists _, _. split; [reflexivity|]. cbn. split; reflexivity.
  - destruct (pt_mark_skipped (p_prt p0) s) as [[[t2 prs] wk]|] eqn:MS.
    + eexists _, _. split; [reflexivity|]. cbn. split; [exact Wt | reflexivity].
    + exfalso. apply (Feeds_no_panic p0 tops (TSkip s) F0); [intros r Hr; discriminate | intros x Hx; discriminate | exact MS].
  - destruct (ft_mark_fast_finalized (p_ft p) (s, h)) as [[t ev]|] eqn:MN; [|congruence].
    pose proof (ft_mark_fast_finalized_first _ _ _ _ MN) as Mono.
    assert (F1 : Feeds (pool_with_ft p0 t) tops) by (apply (Feeds_ext p0); [reflexivity | cbn; exact Mono | exact F0]).
    destruct (pool_handle_finalization (pool_with_ft p0 t) ev) as [[p1 o1]|] eqn:HF; [|exfalso; apply (hf_progress _ ev _ F1 HF)].
    destruct (hf_frame _ _ _ _ HF) as (W1 & Pn1 & _). cbn [pool_with_ft p_waiting p_panicked] in W1, Pn1.
    rewrite (nw_empty e p1 (s, h)) by congruence.
    eexists _, _. split; [reflexivity|]. cbn. split; [reflexivity | congruence].
  - destruct (ft_mark_finalized (p_ft p) s) as [[t ev]|] eqn:MN; [|congruence].
    pose proof (ft_mark_finalized_first _ _ _ _ MN) as Mono.
    assert (F1 : Feeds (pool_with_ft p0 t) tops) by (apply (Feeds_ext p0); [reflexivity | cbn; exact Mono | exact F0]).
    destruct (pool_handle_finalization (pool_with_ft p0 t) ev) as [[p1 o1]|] eqn:HF; [|exfalso; apply (hf_progress _ ev _ F1 HF)].
    destruct (hf_frame _ _ _ _ HF) as (W1 & Pn1 & _). cbn [pool_with_ft p_waiting p_panicked] in W1, Pn1.
    eexists _, _. split; [reflexivity|]. split; congruence.
Qed.

(* ---- the receiver ---- *)
Record RQ (X : cert -> Prop) (q : pool) : Prop := {
  rq_inv : INV q;
  rq_plain : plain (p_ft q);
  rq_wait : p_waiting q = [];
  rq_src : forall s c, In c (certs_of_slot (p_ss q s)) -> X c;
  rq_feeds : exists tops, Feeds q tops;
  rq_ok : p_panicked q = false
}.

Lemma RQ_init X : RQ X pool_init.
Proof.
  split.
  - apply INV_init.
  - split; [reflexivity|]. intros s. unfold st_of. cbn [pool_init p_ft]. unfold ft_init. cbn [ft_status alookup].
    destruct (s =? 0); split; try discriminate; intros h; discriminate.
  - reflexivity.
  - intros s c H. cbn in H. contradiction.
  - exists []. split; [reflexivity|]. split; [exists [], []; reflexivity | cbn; lia].
  - reflexivity.
Qed.

Lemma dup_has_class ss c : cert_duplicate ss c = true -> has_class ss (class_of (c_kind c)).
Proof.
  unfold cert_duplicate. destruct (c_kind c) as [h|h| |h|]; cbn [class_of has_class]; try (destruct (_ (ss_c ss)); [discriminate | congruence]).
  auto.
Qed.

Lemma recv_ft_ok f X q c :
  Xok f X -> INV q -> plain (p_ft q) -> (forall s c', In c' (certs_of_slot (p_ss q s)) -> X c') -> X c ->
  first_unpruned q <= c_slot c -> cert_duplicate (p_ss q (c_slot c)) c = false ->
  match c_kind c with
  | CNotar h => exists t' ev, ft_mark_notarized (p_ft q) (c_slot c, h) = Some (t', ev) /\ plain t'
  | CFastFinal h => exists t' ev, ft_mark_fast_finalized (p_ft q) (c_slot c, h) = Some (t', ev) /\ plain t'
  | CFinal => exists t' ev, ft_mark_finalized (p_ft q) (c_slot c) = Some (t', ev) /\ plain t'
  | _ => True
  end.
Proof.
  intros [Xc Xz _ _] [K W L] Pl Src Hc Hf Dup. set (s := c_slot c) in *.
  pose proof (lk_slot _ _ _ L s Hf) as Sl. unfold slot_link_ss in Sl. destruct Sl as [A1 A2 A3 A4 A5 A6].
  destruct (W s) as (Kd & Sf & _). destruct (view_has_cert _ Kd) as (H1 & H2 & H3).
  assert (Hff : forall h0, vff (p_ss q s) = Some h0 -> exists c', X c' /\ c_slot c' = s /\ fin_hash c' = Some h0).
  { intros h0 E. destruct (H1 h0 E) as (c' & Ec & Kc). assert (Hin : In c' (certs_of_slot (p_ss q s))) by (apply in_certs_of_slot; auto).
    exists c'. split; [apply (Src s); exact Hin|]. split; [apply Sf; exact Hin|]. unfold fin_hash. rewrite Kc. reflexivity. }
  assert (Hnt : forall h0, vnt (p_ss q s) = Some h0 -> exists c', X c' /\ c_slot c' = s /\ fin_hash c' = Some h0).
  { intros h0 E. destruct (H2 h0 E) as (c' & Ec & Kc). assert (Hin : In c' (certs_of_slot (p_ss q s))) by (apply in_certs_of_slot; auto).
    exists c'. split; [apply (Src s); exact Hin|]. split; [apply Sf; exact Hin|]. unfold fin_hash. rewrite Kc. reflexivity. }
  assert (Same : forall h h0, fin_hash c = Some h ->
            (exists c', X c' /\ c_slot c' = s /\ fin_hash c' = Some h0) -> h0 = h).
  { intros h h0 Fh (c' & Xc' & Sc' & Fh'). apply (Xc c' c h0 h); auto. }
  unfold cert_duplicate in Dup.
  destruct (c_kind c) as [h|h| |h|] eqn:Kc; auto.
  - assert (Fh : fin_hash c = Some h) by (unfold fin_hash; rewrite Kc; reflexivity).
    assert (Nn : vnt (p_ss q s) = None) by (unfold vnt; destruct (ce_notar (ss_c (p_ss q s))); [discriminate | reflexivity]).
    apply plain_notar; [exact Pl| |].
    + intros h0 E. destruct (A6 h0 E) as [E'|[Z ->]]; [congruence|]. symmetry. apply (Xz c h); auto.
    + intros h0 E. destruct (A4 h0 E) as [E'|[_ [E'|[Z ->]]]]; [apply (Same h h0 Fh (Hff h0 E')) | congruence | symmetry; apply (Xz c h); auto].
  - assert (Fh : fin_hash c = Some h) by (unfold fin_hash; rewrite Kc; reflexivity).
    assert (Nn : vff (p_ss q s) = None) by (unfold vff; destruct (ce_ff (ss_c (p_ss q s))); [discriminate | reflexivity]).
    apply plain_fast; [exact Pl| |].
    + intros h0 E. destruct (A6 h0 E) as [E'|[Z ->]]; [apply (Same h h0 Fh (Hnt h0 E')) | symmetry; apply (Xz c h); auto].
    + intros h0 E. destruct (A4 h0 E) as [E'|[_ [E'|[Z ->]]]]; [congruence | apply (Same h h0 Fh (Hnt h0 E')) | symmetry; apply (Xz c h); auto].
  - apply plain_final. exact Pl.
Qed.

Lemma recv_step e f X q c :
  Xok f X -> RQ X q -> X c ->
  let q' := fst (fst (pool_step e q (OpCert c))) in
  RQ X q' /\ pool_ext q q' /\
  (out_of_bounds q (c_slot c) = false -> has_class (p_ss q' (c_slot c)) (class_of (c_kind c)) \/ c_slot c < first_unpruned q').
Proof.
  intros XO R Hc. cbv zeta. destruct R as [I Pl Wt Src [tops Fd] Ok].
  unfold pool_step. rewrite Ok. unfold pool_add_cert.
  destruct (out_of_bounds q (c_slot c)) eqn:OB.
  { cbn [fst]. split; [split; eauto|]. split; [apply pool_ext_refl | discriminate]. }
  set (s := c_slot c) in *. set (q0 := p_touch q s).
  assert (F0 : p_ft q0 = p_ft q) by (unfold q0, p_touch; destruct (alookup _ _); reflexivity).
  assert (P0 : p_prt q0 = p_prt q) by (unfold q0, p_touch; destruct (alookup _ _); reflexivity).
  assert (W0 : p_waiting q0 = []) by (unfold q0, p_touch; destruct (alookup _ _); exact Wt).
  assert (Ok0 : p_panicked q0 = false) by (unfold q0, p_touch; destruct (alookup _ _); exact Ok).
  assert (I0 : INV q0) by (apply (INV_same_ft q); [exact I | apply cext_touch | exact F0]).
  assert (Src0 : forall s' c', In c' (certs_of_slot (p_ss q0 s')) -> X c').
  { intros s' c'. unfold q0. rewrite p_ss_touch. apply Src. }
  assert (Fd0 : Feeds q0 tops) by (apply (Feeds_frame q); assumption).
  assert (R0 : RQ X q0) by (split; eauto; rewrite F0; exact Pl).
  destruct (cert_duplicate (p_ss q0 s) c) eqn:Dup.
  { cbn [fst]. split; [exact R0|]. split; [apply pool_ext_touch|]. intros _. left. apply dup_has_class. exact Dup. }
  assert (Hf : first_unpruned q0 <= s).
  { unfold out_of_bounds in OB. apply orb_false_elim in OB. destruct OB as [OB _]. apply N.ltb_ge in OB.
    unfold first_unpruned in *. rewrite F0. exact OB. }
  assert (Pl0 : plain (p_ft q0)) by (rewrite F0; exact Pl).
  pose proof (recv_ft_ok f X q0 c XO I0 Pl0 Src0 Hc Hf Dup) as Hft. fold s in Hft.
  destruct (avc_progress e q0 c tops Fd0 W0) as (q1 & o & AV & W1 & Pn1).
  { fold s. destruct (c_kind c) as [h|h| |h|]; auto; destruct Hft as (t' & ev & E & _); congruence. }
  rewrite AV. cbn [fst].
  destruct (add_valid_cert_INV e q0 c q1 o I0 AV) as [I1 T1].
  pose proof (add_valid_cert_ft e q0 c q1 o AV) as Ft. fold s in Ft.
  destruct (add_valid_cert_ext e q0 c q1 o AV) as (E1 & C1 & _).
  split; [|split].
  - split.
    + exact I1.
    + destruct (c_kind c) as [h|h| |h|].
      * destruct Hft as (t' & ev & E & Pt). destruct Ft as [ev' Ft]. rewrite E in Ft. injection Ft as <- _. exact Pt.
      * rewrite Ft. exact Pl0.
      * rewrite Ft. exact Pl0.
      * destruct Hft as (t' & ev & E & Pt). destruct Ft as [ev' Ft]. rewrite E in Ft. injection Ft as <- _. exact Pt.
      * destruct Hft as (t' & ev & E & Pt). destruct Ft as [ev' Ft]. rewrite E in Ft. injection Ft as <- _. exact Pt.
    + exact W1.
    + intros s' c' Hin. destruct (T1 s' c' Hin) as [->|Hp]; [exact Hc | apply (Src0 s' c' Hp)].
    + destruct (add_valid_cert_feeds e q0 c q1 o tops AV Fd0) as [more Fm]. eauto.
    + congruence.
  - eapply pool_ext_trans; [apply pool_ext_touch | exact E1].
  - intros _. fold s in C1. destruct C1 as [C1|[_ C1]]; auto.
Qed.

Definition feed (e : epoch) (q : pool) (l : list cert) : pool := pool_run e q (map OpCert l).

Lemma recv_run e f X : Xok f X -> forall l q,
  RQ X q -> (forall c, In c l -> X c /\ c_slot c < 2 * SLOTS_PER_EPOCH) ->
  let q' := feed e q l in
  RQ X q' /\ pool_ext q q' /\
  forall c, In c l -> first_unpruned q' <= c_slot c -> has_class (p_ss q' (c_slot c)) (class_of (c_kind c)).
Proof.
  intros XO. induction l as [|c l IH]; intros q R Hl; cbv zeta; unfold feed; cbn [map pool_run].
  - split; [exact R|]. split; [apply pool_ext_refl | intros c []].
  - destruct (Hl c (or_introl eq_refl)) as [Xc Bc].
    destruct (recv_step e f X q c XO R Xc) as (R1 & E1 & C1). set (q1 := fst (fst (pool_step e q (OpCert c)))) in *.
    destruct (IH q1 R1 (fun c' H => Hl c' (or_intror H))) as (R2 & E2 & C2). fold (feed e q1 l) in *.
    split; [exact R2|]. split; [eapply pool_ext_trans; eassumption|].
    intros c' [<-|Hin] Hfu; [|apply C2; assumption].
    assert (OB : out_of_bounds q (c_slot c) = false).
    { unfold out_of_bounds. apply orb_false_intro; [|apply N.leb_gt; lia].
      apply N.ltb_ge. destruct E1 as [[M1 _] _]. destruct E2 as [[M2 _] _]. unfold first_unpruned in *. lia. }
    destruct (C1 OB) as [Hc|Hlt].
    + destruct (class_after_ext q1 (feed e q1 l) (c_slot c) _ E2 Hc) as [G|[_ G]]; [exact G | lia].
    + destruct E2 as [[M2 _] _]. unfold first_unpruned in *. lia.
Qed.

(* (3) SUFFICIENCY.  p: any pool satisfying the invariants of reachable pools (the sender).  A pool that starts
   empty (any epoch description e': the receiver is another validator) and is fed certificates of the sender's
   bundle, every one of them at least once, in any order, with any repetitions, all of them for slots within
   the window a fresh pool accepts: *)
Theorem bundle_sufficient : forall e' p l,
  INV p ->
  (forall c, In c l -> In c (bundle_certs p)) -> (forall c, In c (bundle_certs p) -> In c l) ->
  (forall c, In c l -> c_slot c < 2 * SLOTS_PER_EPOCH) ->
  let q := feed e' pool_init l in
  p_panicked q = false /\
  finalized_slot q = finalized_slot p /\
  (forall s c, In c (certs_of_slot (p_ss q s)) -> In c (bundle_certs p)) /\
  (forall c, In c (bundle_certs p) -> has_class (p_ss q (c_slot c)) (class_of (c_kind c))).
Proof.
  intros e' p l I Sub Sup Bnd. cbv zeta.
  set (X := fun c => In c (bundle_certs p)). set (f := finalized_slot p).
  pose proof (sender_Xok p I) as XO. fold X f in XO.
  destruct (recv_run e' f X XO l pool_init (RQ_init X)) as (R & _ & Cl).
  { intros c Hc. split; [apply Sub; exact Hc | apply Bnd; exact Hc]. }
  set (q := feed e' pool_init l) in *. destruct R as [Iq Pl Wt Src Fd Ok].
  pose proof (recv_upper f X q XO Iq Src) as Up.
  pose proof (lk_fh _ _ _ (inv_link _ Iq)) as Fq. fold (first_unpruned q) (finalized_slot q) in Fq.
  assert (Held : forall c, In c (bundle_certs p) -> has_class (p_ss q (c_slot c)) (class_of (c_kind c))).
  { intros c Hc. apply Cl; [apply Sup; exact Hc|]. destruct (bundle_certs_held p c I Hc) as [_ Hle]. fold f in Hle. lia. }
  assert (Lo : f <= finalized_slot q).
  { destruct (N.eq_dec f 0) as [Z|Nz]; [lia|].
    destruct (bundle_final_certs p I Nz) as (fc & FP & Hfc). fold f in FP.
    destruct (inv_cwf _ Iq f) as [Kd _]. destruct (class_view _ Kd) as (V1 & V2 & V3).
    pose proof (lk_slot _ _ _ (inv_link _ Iq) f ltac:(unfold first_unpruned in *; lia)) as Sl. unfold slot_link_ss in Sl.
    destruct Sl as [A1 A2 A3 _ _ _].
    assert (Dec : is_decided (st_of (p_ft q) f) = true -> f <= finalized_slot q).
    { apply (LINK_dec _ _ _ (inv_link _ Iq)). unfold first_unpruned in *. lia. }
    destruct FP as [(c & h & -> & Kc & Sc)|(cf & cn & h & -> & Kf & Sf & Kn & Sn)].
    - pose proof (Held c (Hfc c (or_introl eq_refl))) as Hc. rewrite Kc, Sc in Hc. cbn [class_of has_class] in Hc.
      destruct (V1 Hc) as [h' Hv]. apply Dec. destruct (A1 h' Hv) as [-> | ->]; reflexivity.
    - pose proof (Held cf (Hfc cf (or_introl eq_refl))) as Hf. rewrite Kf, Sf in Hf. cbn [class_of has_class] in Hf.
      pose proof (Held cn (Hfc cn (or_intror (or_introl eq_refl)))) as Hn. rewrite Kn, Sn in Hn. cbn [class_of has_class] in Hn.
      destruct (V2 Hn) as [h' Hv]. specialize (A2 h' Hv). specialize (A3 (V3 Hf)). apply Dec.
      destruct A2 as [E|[E|[[h2 [E _]]|[[h2 E]|E]]]]; rewrite E in *; try reflexivity; destruct A3 as [E'|[[x E']|[x E']]]; discriminate. }
  split; [exact Ok|]. split; [fold f; lia|]. split; [exact Src | exact Held].
Qed.

(* ---- exactness: the receiver holds the sender's certificates themselves ---- *)
Lemma same_class_same_cert s ss c1 c2 :
  ss_wf s ss -> In c1 (certs_of_slot ss) -> In c2 (certs_of_slot ss) ->
  class_of (c_kind c1) = class_of (c_kind c2) -> c1 = c2.
Proof.
  intros ((K1 & K2 & K3 & K4 & K5) & _ & Un) H1 H2 E. apply in_certs_of_slot in H1. apply in_certs_of_slot in H2.
  assert (Kd : forall c, (ce_fin (ss_c ss) = Some c -> class_of (c_kind c) = KlFin) /\
                         (ce_ff (ss_c ss) = Some c -> class_of (c_kind c) = KlFF) /\
                         (ce_notar (ss_c ss) = Some c -> class_of (c_kind c) = KlNotar) /\
                         (In c (ce_nf (ss_c ss)) -> exists h, c_kind c = CNotarFb h) /\
                         (ce_skip (ss_c ss) = Some c -> class_of (c_kind c) = KlSkip)).
  { intros c. repeat split; intros H.
    - rewrite (K3 c H). reflexivity.
    - destruct (K2 c H) as [h ->]. reflexivity.
    - destruct (K1 c H) as [h ->]. reflexivity.
    - apply K5. exact H.
    - rewrite (K4 c H). reflexivity. }
  destruct (Kd c1) as (A1 & A2 & A3 & A4 & A5). destruct (Kd c2) as (B1 & B2 & B3 & B4 & B5).
  destruct H1 as [H1|[H1|[H1|[H1|H1]]]]; destruct H2 as [H2|[H2|[H2|[H2|H2]]]];
    try congruence;
    try (specialize (A1 H1)); try (specialize (A2 H1)); try (specialize (A3 H1)); try (specialize (A5 H1));
    try (specialize (B1 H2)); try (specialize (B2 H2)); try (specialize (B3 H2)); try (specialize (B5 H2));
    try (destruct (A4 H1) as [h1 Kh1]; rewrite Kh1 in E; cbn [class_of] in E);
    try (destruct (B4 H2) as [h2 Kh2]; rewrite Kh2 in E; cbn [class_of] in E);
    try congruence.
  apply Un; auto. unfold cert_hash. rewrite Kh1, Kh2. congruence.
Qed.

Lemma opt_some {A} (o : option A) : o <> None -> exists x, o = Some x.
Proof. destruct o; [eauto | congruence]. Qed.
Lemma class_witness ss k : kinds_ok ss -> has_class ss k -> exists c, In c (certs_of_slot ss) /\ class_of (c_kind c) = k.
Proof.
  intros (K1 & K2 & K3 & K4 & K5) H. destruct k as [| |h| |]; cbn [has_class] in H.
  - destruct (opt_some _ H) as [c E]. exists c. split; [apply in_certs_of_slot; auto|].
    destruct (K1 c E) as [h ->]. reflexivity.
  - destruct (opt_some _ H) as [c E]. exists c. split; [apply in_certs_of_slot; auto|].
    destruct (K2 c E) as [h ->]. reflexivity.
  - unfold is_notar_fallback in H. apply existsb_exists in H. destruct H as (c & Hin & Hh).
    exists c. split; [apply in_certs_of_slot; auto|]. destruct (K5 c Hin) as [h' Kc]. unfold cert_hash in Hh. rewrite Kc in Hh.
    apply N.eqb_eq in Hh. subst. rewrite Kc. reflexivity.
  - destruct (opt_some _ H) as [c E]. exists c. split; [apply in_certs_of_slot; auto 6|].
    rewrite (K4 c E). reflexivity.
  - destruct (opt_some _ H) as [c E]. exists c. split; [apply in_certs_of_slot; auto|].
    rewrite (K3 c E). reflexivity.
Qed.

Theorem bundle_sufficient_exact : forall e' p l,
  INV p ->
  (forall c, In c l -> In c (bundle_certs p)) -> (forall c, In c (bundle_certs p) -> In c l) ->
  (forall c, In c l -> c_slot c < 2 * SLOTS_PER_EPOCH) ->
  let q := feed e' pool_init l in
  forall s c, finalized_slot p <= s -> (In c (certs_of_slot (p_ss q s)) <-> In c (bundle_certs p) /\ c_slot c = s).
Proof.
  intros e' p l I Sub Sup Bnd q s c Hs.
  destruct (bundle_sufficient e' p l I Sub Sup Bnd) as (Ok & Fq & Src & Held). fold q in Ok, Fq, Src, Held.
  assert (Iq : INV q) by (apply pool_run_INV; apply INV_init).
  split.
  - intros Hin. split; [apply (Src s c Hin)|]. destruct (inv_cwf _ Iq s) as (_ & Sl & _). apply Sl. exact Hin.
  - intros [Hb <-]. pose proof (Held c Hb) as Hc.
    destruct (inv_cwf _ Iq (c_slot c)) as (Kd & Sl & _).
    destruct (class_witness _ _ Kd Hc) as (c' & Hin' & Ecl).
    pose proof (Src _ _ Hin') as Hb'.
    destruct (bundle_certs_held p c I Hb) as [Hh _]. destruct (bundle_certs_held p c' I Hb') as [Hh' _].
    rewrite (Sl c' Hin') in Hh'.
    assert (Ec : c = c') by apply (same_class_same_cert (c_slot c) (p_ss p (c_slot c)) c c' (inv_cwf _ I (c_slot c)) Hh Hh' (eq_sym Ecl)).
    subst c'. exact Hin'.
Qed.

(* ---- FINDING: beyond the acceptance window the bundle is useless to a fresh node ---- *)
(* Pool::add_cert / add_vote refuse every slot >= finalized_slot + 2 * SLOTS_PER_EPOCH.  A fresh pool has
   finalized slot 0, so once the sender's highest finalized slot is 2 * SLOTS_PER_EPOCH or more, EVERY element
   of its bundle is refused by a fresh pool, in whatever order and however often it is delivered: the receiver
   stays exactly the empty pool. *)
Theorem bundle_refused_beyond_window : forall e' p l,
  INV p -> 2 * SLOTS_PER_EPOCH <= finalized_slot p -> (forall c, In c l -> In c (bundle_certs p)) ->
  feed e' pool_init l = pool_init.
Proof.
  intros e' p l I Far Sub. unfold feed. induction l as [|c l IH]; [reflexivity|]. cbn [map pool_run].
  assert (OB : out_of_bounds pool_init (c_slot c) = true).
  { destruct (bundle_certs_held p c I (Sub c (or_introl eq_refl))) as [_ Hle].
    unfold out_of_bounds. apply orb_true_intro. right. apply N.leb_le. cbn [pool_init finalized_slot p_ft ft_init ft_highest]. lia. }
  assert (E : fst (fst (pool_step e' pool_init (OpCert c))) = pool_init).
  { unfold pool_step. cbn [pool_init p_panicked]. fold pool_init. unfold pool_add_cert. rewrite OB. reflexivity. }
  rewrite E. apply IH. intros c' Hc'. apply Sub. right. exact Hc'.
Qed.

Definition far_epoch := mkEpoch [1] 0.
Definition far_ops : list pool_op :=
  [OpCert (mkCert 35999 (CFastFinal 7) [0] [] 1); OpCert (mkCert 40000 (CFastFinal 9) [0] [] 1)].
Lemma bundle_sufficiency_refuted :
  let p := pool_run far_epoch pool_init far_ops in
  p_panicked p = false /\ finalized_slot p = 40000 /\
  bundle_certs p = [mkCert 40000 (CFastFinal 9) [0] [] 1] /\
  forallb (op_cert_ok far_epoch) far_ops = true /\
  snd (fst (pool_step far_epoch pool_init (OpCert (mkCert 40000 (CFastFinal 9) [0] [] 1)))) = RVerdict VOutOfBounds /\
  finalized_slot (feed far_epoch pool_init (bundle_certs p)) = 0.
Proof. vm_compute. repeat split; reflexivity. Qed.

(* ================= Part H: the statements for every reachable pool ================= *)
Definition in_window (l : list cert) : bool := forallb (fun c => c_slot c <? 2 * SLOTS_PER_EPOCH) l.

Theorem reachable_standstill_total : forall e p,
  pool_reachable e p -> p_panicked p = false ->
  pool_step e p OpStandstill =
  (p, RVerdict VNone, mkPO [EStandstill (finalized_slot p + 1) (bundle_certs p) (bundle_votes e p)] []).
Proof.
  intros e p R Hp. unfold pool_step. rewrite Hp. apply standstill_emits_bundle. apply (reachable_INV e p R).
Qed.
Theorem reachable_standstill_never_panics : forall e p,
  pool_reachable e p -> p_panicked p = false -> snd (fst (pool_step e p OpStandstill)) <> RPanic.
Proof. intros e p R Hp. rewrite (reachable_standstill_total e p R Hp). cbn. discriminate. Qed.

Theorem reachable_bundle_final_certs : forall e p,
  pool_reachable e p -> finalized_slot p <> 0 ->
  exists l, final_proof p (finalized_slot p) l /\ forall c, In c l -> In c (bundle_certs p).
Proof. intros e p R. apply bundle_final_certs. apply (reachable_INV e p R). Qed.
Theorem reachable_bundle_certs_held : forall e p c,
  pool_reachable e p -> In c (bundle_certs p) ->
  In c (certs_of_slot (p_ss p (c_slot c))) /\ finalized_slot p <= c_slot c.
Proof. intros e p c R. apply bundle_certs_held. apply (reachable_INV e p R). Qed.
Theorem reachable_bundle_certs_complete : forall e p s c,
  pool_reachable e p -> finalized_slot p < s -> In c (certs_of_slot (p_ss p s)) -> In c (bundle_certs p).
Proof. intros e p s c R. apply bundle_certs_complete. apply (reachable_INV e p R). Qed.
Theorem reachable_bundle_votes_own : forall e p v,
  pool_reachable e p -> In v (bundle_votes e p) ->
  v_signer v = own e /\ finalized_slot p < v_slot v /\ stored (p_ss p (v_slot v)) (own e) (v_kind v).
Proof. intros e p v R. apply bundle_votes_own. apply (reachable_INV e p R). Qed.
Theorem reachable_bundle_votes_complete : forall e p s k,
  pool_reachable e p -> finalized_slot p < s -> stored (p_ss p s) (own e) k -> In (mkVote s k (own e)) (bundle_votes e p).
Proof. intros e p s k R. apply bundle_votes_complete. apply (reachable_INV e p R). Qed.

Lemma in_window_spec l : in_window l = true -> forall c, In c l -> c_slot c < 2 * SLOTS_PER_EPOCH.
Proof. unfold in_window. rewrite forallb_forall. intros H c Hc. apply N.ltb_lt. apply H. exact Hc. Qed.

Theorem reachable_bundle_sufficient : forall e e' p l,
  pool_reachable e p -> incl l (bundle_certs p) -> incl (bundle_certs p) l -> in_window l = true ->
  let q := feed e' pool_init l in
  p_panicked q = false /\
  finalized_slot q = finalized_slot p /\
  (forall s c, finalized_slot p <= s -> (In c (certs_of_slot (p_ss q s)) <-> In c (bundle_certs p) /\ c_slot c = s)) /\
  (forall s c, In c (certs_of_slot (p_ss q s)) -> In c (bundle_certs p)).
Proof.
  intros e e' p l R Sub Sup W. cbv zeta. pose proof (reachable_INV e p R) as I. pose proof (in_window_spec l W) as Bnd.
  destruct (bundle_sufficient e' p l I Sub Sup Bnd) as (Ok & Fq & Src & _).
  split; [exact Ok|]. split; [exact Fq|]. split; [|exact Src].
  intros s c Hs. apply (bundle_sufficient_exact e' p l I Sub Sup Bnd s c Hs).
Qed.

Theorem reachable_bundle_refused_beyond_window : forall e e' p l,
  pool_reachable e p -> 2 * SLOTS_PER_EPOCH <= finalized_slot p -> incl l (bundle_certs p) ->
  feed e' pool_init l = pool_init.
Proof. intros e e' p l R. apply bundle_refused_beyond_window. apply (reachable_INV e p R). Qed.
