(* C14: responder completeness and progress of the requester. *)
From Coq Require Import List NArith Bool Arith Lia ZifyBool ZifyNat ZifyN.
From AG Require Import Gen.Params Model.Pool Model.Blockstore Model.BlockstoreSpec Model.Repair Model.RepairSpec
  Proofs.SlotStateProofs Proofs.BlockstoreProofs Proofs.BlockstoreOrderProofs Proofs.RepairProofs.
Import ListNotations.
Open Scope N_scope.

(* ====================================================================================================
   R2: responder completeness - a block data that completed the honest block serves every request
   ==================================================================================================== *)
Lemma listN_eqb_refl : forall a, listN_eqb a a = true.
Proof. induction a as [|x a IH]; cbn [listN_eqb]; [reflexivity|]. rewrite N.eqb_refl, IH. reflexivity. Qed.

Lemma full_slice_head hb i : exists rest, full_slice hb i = (0, hshred hb i 0) :: rest.
Proof.
  unfold full_slice. assert (E : N.to_nat TOTAL_SHREDS = S (N.to_nat (TOTAL_SHREDS - 1))) by (pose proof total_pos; lia).
  rewrite E, seqN_S. cbn [map]. eexists. reflexivity.
Qed.

Section Complete.
Variables (slot : N) (ct : content) (hb : hblock).
Hypothesis Hok : hb_ok slot ct hb = true.
Let K := hb_len hb.

(* what a block data holds once every slice of the honest block is ready *)
Lemma complete_data l d : Inv ct hb l d -> block_ready hb l = true ->
  (exists parent, hb_parent ct hb = Some parent /\ fst parent < slot /\ bd_completed d = Some (hb_hash hb, parent)) /\
  bd_last d = Some (K - 1) /\
  (forall s, s < K -> alookup s (bd_shreds d) = Some (full_slice hb s)).
Proof.
  intros HI B. pose proof (completed_spec ct hb l d HI) as Hc. rewrite B in Hc.
  destruct (hb_parent_some slot ct hb Hok) as [parent [Hpar Hs]].
  pose proof (proj1 (block_ready_iff slot ct hb Hok l) B) as Hall.
  destruct HI as [_ [HL [[_ [_ Hst]] _]]]. split; [|split].
  - exists parent. split; [exact Hpar|]. split; [exact Hs|]. rewrite Hc. unfold hb_result. rewrite Hpar. reflexivity.
  - unfold LastOk in HL. fold K in HL. pose proof (K_pos slot ct hb Hok) as HK. fold K in HK.
    destruct (touched l (K - 1)) eqn:T; [exact HL|]. exfalso.
    pose proof (untouched_not_ready slot ct hb Hok l (K - 1) T) as R. rewrite Hall in R by (fold K; lia). discriminate.
  - intros s Hsk. specialize (Hst s Hsk). unfold SliceState in Hst. rewrite (Hall s Hsk) in Hst.
    unfold aget in Hst. destruct (alookup s (bd_shreds d)) as [shs|]; [rewrite Hst; reflexivity|].
    exfalso. symmetry in Hst. exact (full_slice_not_nil slot ct hb Hok s Hst).
Qed.

Lemma answers_of_complete_data sd key_hash b l d :
  responder_data sd b (key_hash b) = Some d -> Inv ct hb l d -> block_ready hb l = true ->
  answer sd key_hash (RLast b) = ALast (K - 1) (hb_root hb (K - 1)) /\
  (forall s, s < K -> answer sd key_hash (RRoot b s) = ARoot (hb_root hb s)) /\
  (forall s i, s < K -> i < TOTAL_SHREDS -> answer sd key_hash (RShred b s i) = AShred (hshred hb s i)).
Proof.
  intros Hrd HI B. destruct (complete_data l d HI B) as [[parent [_ [_ Hc]]] [Hl Hsh]].
  pose proof (K_pos slot ct hb Hok) as HK. fold K in HK.
  assert (Hroot : forall s, s < K -> slice_root_of d s = Some (hb_root hb s)).
  { intros s Hs. unfold slice_root_of. rewrite (Hsh s Hs). destruct (full_slice_head hb s) as [rest ->]. reflexivity. }
  split; [|split].
  - cbn [answer]. rewrite Hrd, Hl, (Hroot (K - 1)) by lia. rewrite Hc. reflexivity.
  - intros s Hs. cbn [answer]. rewrite Hrd, (Hroot s Hs), Hc. reflexivity.
  - intros s i Hs Hi. cbn [answer]. rewrite Hrd, (Hsh s Hs), (full_slice_lookup slot ct hb Hok).
    replace (i <? TOTAL_SHREDS) with true by lia. reflexivity.
Qed.
End Complete.

(* the responder that completed the honest block from dissemination (any order, any subset that makes every
   slice ready, duplicates) serves: the last slice index with its root, every slice root, every shred *)
Theorem responder_complete : forall slot ct hb l key_hash b,
  hb_ok slot ct hb = true -> forallb (honest_shred hb) l = true -> block_ready hb l = true ->
  key_hash b = hb_hash hb ->
  let sd := fst (bs_dissem_run ct slot l) in
  answer sd key_hash (RLast b) = ALast (hb_len hb - 1) (hb_root hb (hb_len hb - 1)) /\
  (forall s, s < hb_len hb -> answer sd key_hash (RRoot b s) = ARoot (hb_root hb s)) /\
  (forall s i, s < hb_len hb -> i < TOTAL_SHREDS -> answer sd key_hash (RShred b s i) = AShred (hshred hb s i)).
Proof.
  intros slot ct hb l key_hash b Hok Hl B Hk.
  destruct (run_honest slot ct hb Hok l (honest_list slot ct hb l Hok Hl)) as [sd [E [_ [_ HI]]]].
  rewrite E. cbn [fst]. apply (answers_of_complete_data slot ct hb Hok sd key_hash b l (sd_dissem sd)); [|exact HI | exact B].
  destruct (complete_data slot ct hb Hok l _ HI B) as [[parent [_ [_ Hc]]] _].
  unfold responder_data. rewrite Hc, Hk, listN_eqb_refl. reflexivity.
Qed.

(* on the wire: the honest responder's answer to a well-formed request is the correct response *)
Theorem responder_answers_correctly : forall slot ct hb l key_hash r,
  hb_ok slot ct hb = true -> forallb (honest_shred hb) l = true -> block_ready hb l = true ->
  key_hash (req_key r) = hb_hash hb ->
  (match r with RLast _ => True | RRoot _ s => s < hb_len hb | RShred _ s i => s < hb_len hb /\ i < TOTAL_SHREDS end) ->
  resp_of_answer r (answer (fst (bs_dissem_run ct slot l)) key_hash r) = correct_resp hb r.
Proof.
  intros slot ct hb l key_hash r Hok Hl B Hk Hwf.
  destruct r as [b|b s|b s i]; cbn [req_key] in Hk;
    destruct (responder_complete slot ct hb l key_hash b Hok Hl B Hk) as [H1 [H2 H3]].
  - rewrite H1. reflexivity.
  - rewrite (H2 s Hwf). reflexivity.
  - destruct Hwf as [A C]. rewrite (H3 s i A C). reflexivity.
Qed.

(* ====================================================================================================
   R3: progress of the requester for an honest block under sound, fair response streams
   ==================================================================================================== *)
Lemma rresp_eqb_eq : forall p q, rresp_eqb p q = true -> p = q.
Proof.
  intros p q. destruct p, q; cbn [rresp_eqb]; intros H; try discriminate;
  repeat match goal with H : _ && _ = true |- _ => apply andb_true_iff in H; destruct H end;
  repeat match goal with
         | H : rreq_eqb _ _ = true |- _ => apply rreq_eqb_eq in H; subst
         | H : (_ =? _) = true |- _ => apply N.eqb_eq in H; subst
         | H : Bool.eqb _ _ = true |- _ => apply eqb_prop in H; subst
         | H : bshred_eqb _ _ = true |- _ => apply bshred_eqb_eq in H; subst
         end; reflexivity.
Qed.

Lemma root_lookup_insert : forall k k' v m,
  root_lookup k (root_insert k' v m) = if (fst k =? fst k') && (snd k =? snd k') then Some v else root_lookup k m.
Proof.
  intros k k' v m. unfold root_insert. cbn [root_lookup fst snd].
  destruct ((fst k =? fst k') && (snd k =? snd k')) eqn:E; [reflexivity|].
  apply root_lookup_filter_other. rewrite (N.eqb_sym (fst k')), (N.eqb_sym (snd k')). exact E.
Qed.

Lemma existsb_map_inv {A} (f : A -> rreq) x l : existsb (rreq_eqb x) (map f l) = true <-> exists a, In a l /\ x = f a.
Proof.
  rewrite existsb_exists. split.
  - intros [y [Hin He]]. apply in_map_iff in Hin. destruct Hin as [a [<- Ha]]. apply rreq_eqb_eq in He. eauto.
  - intros [a [Ha ->]]. exists (f a). split; [apply in_map; exact Ha | apply rreq_eqb_refl].
Qed.

Section Progress.
Variables (slot : N) (ct : content) (hb : hblock) (k : N) (expected : N -> blockhash).
Hypothesis Hok : hb_ok slot ct hb = true.
Hypothesis Hexp : expected k = hb_hash hb.
Local Notation K := (hb_len hb).

(* the repaired data filed under the key, and the three kinds of accepted facts *)
Definition rdata (rp : repair) : bdata := aget bd_empty k (sd_repaired (rp_store rp)).
Definition last_known (rp : repair) : Prop := alookup k (rp_lasts rp) = Some (K - 1).
Definition root_known (rp : repair) (s : N) : Prop := root_lookup (k, s) (rp_roots rp) = Some (hb_root hb s).
Definition stored (rp : repair) (s i : N) : Prop :=
  alookup i (aget [] s (bd_shreds (rdata rp))) = Some (hshred hb s i).

Definition wf_req (rp : repair) (r : rreq) : Prop :=
  match r with
  | RLast b => b = k
  | RRoot b s => b = k /\ s < K /\ last_known rp
  | RShred b s i => b = k /\ s < K /\ i < TOTAL_SHREDS /\ root_known rp s /\ last_known rp
  end.
Definition bounds (r : rreq) : Prop :=
  match r with
  | RLast b => b = k
  | RRoot b s => b = k /\ s < K
  | RShred b s i => b = k /\ s < K /\ i < TOTAL_SHREDS
  end.

(* what has been achieved once the request of a phase is answered: everything below it is either still
   requested or done *)
Definition Q2 (rp : repair) (s : N) : Prop :=
  root_known rp s /\ forall i, i < TOTAL_SHREDS -> has_req rp (RShred k s i) = true \/ stored rp s i.
Definition Q1 (rp : repair) : Prop :=
  last_known rp /\ forall s, s < K -> has_req rp (RRoot k s) = true \/ Q2 rp s.
Definition replaced (rp : repair) (r : rreq) : Prop :=
  match r with RLast _ => Q1 rp | RRoot _ s => Q2 rp s | RShred _ s i => stored rp s i end.

Definition PInv (rp : repair) : Prop :=
  rp_panicked rp = false /\ sd_panicked (rp_store rp) = false /\
  (exists l, Forall (honestP hb) l /\ Inv ct hb l (rdata rp)) /\
  (forall x, alookup k (rp_lasts rp) = Some x -> x = K - 1) /\
  (forall s root, root_lookup (k, s) (rp_roots rp) = Some root -> root = hb_root hb s) /\
  (forall r, has_req rp r = true -> wf_req rp r) /\
  (has_req rp (RLast k) = true \/ Q1 rp).

Lemma wf_bounds rp r : wf_req rp r -> bounds r.
Proof. destruct r; cbn [wf_req bounds]; tauto. Qed.

(* one generic transition: some requests dropped (each replaced by what it stood for), well-formed ones added,
   known facts only grow *)
Definition Mono (rp rp' : repair) : Prop :=
  (Q1 rp -> Q1 rp') /\ (forall s, s < K -> Q2 rp s -> Q2 rp' s) /\
  (forall s i, s < K -> i < TOTAL_SHREDS -> stored rp s i -> stored rp' s i) /\
  (forall x, has_req rp x = true -> has_req rp' x = true \/ replaced rp' x).

Lemma trans rp rp' (keep added : rreq -> bool) :
  PInv rp ->
  rp_panicked rp' = false -> sd_panicked (rp_store rp') = false ->
  (forall x, has_req rp' x = has_req rp x && keep x || added x) ->
  (forall x, alookup k (rp_lasts rp') = Some x -> x = K - 1) ->
  (last_known rp -> last_known rp') ->
  (forall s root, root_lookup (k, s) (rp_roots rp') = Some root -> root = hb_root hb s) ->
  (forall s, root_known rp s -> root_known rp' s) ->
  (exists l, Forall (honestP hb) l /\ Inv ct hb l (rdata rp')) ->
  (forall s i, s < K -> i < TOTAL_SHREDS -> stored rp s i -> stored rp' s i) ->
  (forall x, added x = true -> wf_req rp' x) ->
  (forall x, has_req rp x = true -> keep x = false -> replaced rp' x) ->
  PInv rp' /\ Mono rp rp'.
Proof.
  intros [Hp [Hsp [Hinv [Hla [Hro [Hwf HJ]]]]]] Hp' Hsp' Hreq Hla' Hlk Hro' Hrk Hinv' Hst Hadd Hrep.
  assert (Hkeep : forall x, has_req rp x = true -> has_req rp' x = true \/ replaced rp' x).
  { intros x Hx. rewrite Hreq, Hx. destruct (keep x) eqn:Ek; [left; reflexivity | right; apply Hrep; assumption]. }
  assert (M2 : forall s, s < K -> Q2 rp s -> Q2 rp' s).
  { intros s Hs [A B]. split; [apply Hrk; exact A|]. intros i Hi. destruct (B i Hi) as [C|C].
    - destruct (Hkeep _ C) as [D|D]; [left; exact D | right; exact D].
    - right. apply Hst; assumption. }
  assert (M1 : Q1 rp -> Q1 rp').
  { intros [A B]. split; [apply Hlk; exact A|]. intros s Hs. destruct (B s Hs) as [C|C].
    - destruct (Hkeep _ C) as [D|D]; [left; exact D | right; exact D].
    - right. apply M2; assumption. }
  split; [|split; [exact M1 | split; [exact M2 | split; [exact Hst | exact Hkeep]]]].
  split; [exact Hp'|]. split; [exact Hsp'|]. split; [exact Hinv'|]. split; [exact Hla'|]. split; [exact Hro'|]. split.
  - intros r Hr. rewrite Hreq in Hr. apply orb_true_iff in Hr. destruct Hr as [Hr|Hr]; [|apply Hadd; exact Hr].
    apply andb_true_iff in Hr. destruct Hr as [Hr _]. specialize (Hwf r Hr).
    destruct r as [b|b s|b s i]; cbn [wf_req] in *.
    + exact Hwf.
    + destruct Hwf as [A [B C]]. auto.
    + destruct Hwf as [A [B [C [D E]]]]. auto 6.
  - destruct HJ as [HJ|HJ]; [|right; apply M1; exact HJ].
    destruct (Hkeep _ HJ) as [D|D]; [left; exact D | right; exact D].
Qed.

Lemma mono_refl rp : Mono rp rp.
Proof. split; [auto|]. split; [auto|]. split; [auto|]. intros x Hx. left. exact Hx. Qed.

(* ---------- the state transitions of handle_response (keep-until-accepted requester) ---------- *)
Definition step (rp : repair) (o : rop) : repair := fst (repair_step true ct slot expected rp o).
Definition t_nack (rp : repair) (r : rreq) : repair :=
  fst (send_all (mkRepair (del_req (rp_outstanding rp) r) (rp_roots rp) (rp_lasts rp) (rp_store rp) false) [r]).
Definition t_last (rp : repair) (b last root : N) : repair :=
  fst (send_all (mkRepair (del_req (rp_outstanding rp) (RLast b)) (root_insert (b, last) root (rp_roots rp))
                          (ainsert b last (rp_lasts rp)) (rp_store rp) false)
                (map (fun s => RRoot b s) (seqN 0 (N.to_nat (last + 1))))).
Definition t_root (rp : repair) (b s root : N) : repair :=
  fst (send_all (mkRepair (del_req (rp_outstanding rp) (RRoot b s)) (root_insert (b, s) root (rp_roots rp))
                          (rp_lasts rp) (rp_store rp) false)
                (map (fun i => RShred b s i) (seqN 0 (N.to_nat TOTAL_SHREDS)))).
Definition t_shred (rp : repair) (b s i : N) (sd : slotdata) (pn : bool) : repair :=
  mkRepair (del_req (rp_outstanding rp) (RShred b s i)) (rp_roots rp) (rp_lasts rp) sd pn.
Definition ret_panics (r : bs_ret) : bool := match r with BRPanic => true | _ => false end.

Lemma hr_nack rp r : rp_panicked rp = false -> has_req rp r = true ->
  fst (handle_response true ct slot expected rp (PNack r)) = t_nack rp r.
Proof.
  intros Hp Hh. unfold handle_response, handle_response_gen. rewrite Hp. cbn [resp_req]. rewrite Hh. reflexivity.
Qed.
Lemma hr_last_acc rp b last root : rp_panicked rp = false -> has_req rp (RLast b) = true ->
  fst (handle_response true ct slot expected rp (PLast (RLast b) last root true)) = t_last rp b last root.
Proof.
  intros Hp Hh. unfold handle_response, handle_response_gen. rewrite Hp. cbn [resp_req]. rewrite Hh. reflexivity.
Qed.
Lemma hr_root_acc rp b s root : rp_panicked rp = false -> has_req rp (RRoot b s) = true ->
  fst (handle_response true ct slot expected rp (PRoot (RRoot b s) root true)) = t_root rp b s root.
Proof.
  intros Hp Hh. unfold handle_response, handle_response_gen. rewrite Hp. cbn [resp_req]. rewrite Hh. reflexivity.
Qed.
Lemma hr_shred_acc rp b s i slot_ok sh :
  rp_panicked rp = false -> has_req rp (RShred b s i) = true ->
  slot_ok && (b_slice sh =? s) && (b_index sh =? i) = true ->
  shred_tag_ok sh = true ->
  Bool.eqb (b_last sh) (is_last_slice rp b s) = true ->
  root_lookup (b, s) (rp_roots rp) = Some (b_root sh) ->
  fst (handle_response true ct slot expected rp (PShred (RShred b s i) slot_ok sh true)) =
  t_shred rp b s i (fst (fst (bs_step true ct slot (rp_store rp) (BRepair b (expected b) sh))))
          (ret_panics (snd (fst (bs_step true ct slot (rp_store rp) (BRepair b (expected b) sh))))).
Proof.
  intros Hp Hh H1 Ht H2 H3. unfold handle_response, handle_response_gen. rewrite Hp. cbn [resp_req]. rewrite Hh.
  cbn [negb]. rewrite H1, Ht, H2, H3, N.eqb_refl. cbn [negb andb].
  cbn [rp_store rp_outstanding rp_roots rp_lasts rp_panicked].
  destruct (bs_step true ct slot (rp_store rp) (BRepair b (expected b) sh)) as [[sd ret] ev].
  destruct ret as [[[h par]|]| |]; reflexivity.
Qed.

Lemma has_req_upd o ro la st pn r0 adds x :
  has_req (fst (send_all (mkRepair (del_req o r0) ro la st pn) adds)) x =
  existsb (rreq_eqb x) o && negb (rreq_eqb r0 x) || existsb (rreq_eqb x) adds.
Proof. rewrite has_req_send_all. unfold has_req. cbn [rp_outstanding]. rewrite existsb_del. reflexivity. Qed.

Lemma keep_false r0 x : negb (rreq_eqb r0 x) = false -> x = r0.
Proof. intros H. apply negb_false_iff in H. apply rreq_eqb_eq in H. auto. Qed.

(* NACK: re-sent, nothing changes *)
Lemma tr_nack rp r : PInv rp -> has_req rp r = true -> PInv (t_nack rp r) /\ Mono rp (t_nack rp r).
Proof.
  intros HI Hh. pose proof HI as [Hp [Hsp [Hinv [Hla [Hro [Hwf HJ]]]]]].
  apply (trans rp (t_nack rp r) (fun _ => true) (fun _ => false)); try assumption; auto.
  - intros x. unfold t_nack. rewrite has_req_upd. cbn [existsb]. fold (has_req rp x).
    rewrite andb_true_r, !orb_false_r. destruct (rreq_eqb x r) eqn:E.
    + apply rreq_eqb_eq in E. subst x. rewrite Hh. apply orb_true_r.
    + rewrite (rreq_eqb_sym r x), E. destruct (has_req rp x); reflexivity.
  - intros x H. discriminate.
  - intros x _ H. discriminate.
Qed.

(* the last-slice root is accepted: every slice root is requested *)
Lemma tr_last rp : PInv rp -> has_req rp (RLast k) = true ->
  PInv (t_last rp k (K - 1) (hb_root hb (K - 1))) /\ Mono rp (t_last rp k (K - 1) (hb_root hb (K - 1))) /\
  Q1 (t_last rp k (K - 1) (hb_root hb (K - 1))).
Proof.
  intros HI Hh. pose proof HI as [Hp [Hsp [Hinv [Hla [Hro [Hwf HJ]]]]]].
  pose proof (K_pos slot ct hb Hok) as HK.
  set (rp' := t_last rp k (K - 1) (hb_root hb (K - 1))).
  assert (Hreq : forall x, has_req rp' x = has_req rp x && negb (rreq_eqb (RLast k) x)
                             || existsb (rreq_eqb x) (map (fun s => RRoot k s) (seqN 0 (N.to_nat (K - 1 + 1))))).
  { intros x. unfold rp', t_last. rewrite has_req_upd. reflexivity. }
  assert (Hadded : forall x, existsb (rreq_eqb x) (map (fun s => RRoot k s) (seqN 0 (N.to_nat (K - 1 + 1)))) = true <->
                             exists s, s < K /\ x = RRoot k s).
  { intros x. rewrite existsb_map_inv. split; intros [s [A B]]; exists s; (split; [|exact B]).
    - apply seqN_in in A. lia.
    - apply seqN_in. lia. }
  assert (Hlk : last_known rp') by (unfold last_known, rp', t_last; cbn [send_all fst rp_lasts]; apply alookup_ainsert_same).
  assert (Hroots : forall s, root_lookup (k, s) (rp_roots rp') =
                             if s =? K - 1 then Some (hb_root hb (K - 1)) else root_lookup (k, s) (rp_roots rp)).
  { intros s. unfold rp', t_last. cbn [send_all fst rp_roots]. rewrite root_lookup_insert. cbn [fst snd].
    rewrite N.eqb_refl. reflexivity. }
  assert (HQ : Q1 rp').
  { split; [exact Hlk|]. intros s Hs. left. rewrite Hreq. apply orb_true_iff. right. apply Hadded. eauto. }
  assert (Hgoal : PInv rp' /\ Mono rp rp'); [|destruct Hgoal; auto].
  apply (trans rp rp' (fun x => negb (rreq_eqb (RLast k) x))
               (fun x => existsb (rreq_eqb x) (map (fun s => RRoot k s) (seqN 0 (N.to_nat (K - 1 + 1)))))); try assumption.
  - reflexivity.
  - intros x Hx. unfold last_known in Hlk. rewrite Hlk in Hx. injection Hx as <-. reflexivity.
  - intros _. exact Hlk.
  - intros s root. rewrite Hroots. destruct (s =? K - 1) eqn:E; [|apply Hro].
    apply N.eqb_eq in E. subst s. intros H. injection H as <-. reflexivity.
  - intros s. unfold root_known. rewrite Hroots. destruct (s =? K - 1) eqn:E; [|auto].
    apply N.eqb_eq in E. subst s. reflexivity.
  - auto.
  - intros x Hx. apply Hadded in Hx. destruct Hx as [s [Hs ->]]. cbn [wf_req]. auto.
  - intros x _ Hx. apply keep_false in Hx. subst x. exact HQ.
Qed.

(* a slice root is accepted: every shred of the slice is requested *)
Lemma tr_root rp s : PInv rp -> has_req rp (RRoot k s) = true ->
  PInv (t_root rp k s (hb_root hb s)) /\ Mono rp (t_root rp k s (hb_root hb s)) /\ Q2 (t_root rp k s (hb_root hb s)) s.
Proof.
  intros HI Hh. pose proof HI as [Hp [Hsp [Hinv [Hla [Hro [Hwf HJ]]]]]].
  destruct (Hwf _ Hh) as [_ [Hs Hlast]].
  set (rp' := t_root rp k s (hb_root hb s)).
  assert (Hreq : forall x, has_req rp' x = has_req rp x && negb (rreq_eqb (RRoot k s) x)
                             || existsb (rreq_eqb x) (map (fun i => RShred k s i) (seqN 0 (N.to_nat TOTAL_SHREDS)))).
  { intros x. unfold rp', t_root. rewrite has_req_upd. reflexivity. }
  assert (Hadded : forall x, existsb (rreq_eqb x) (map (fun i => RShred k s i) (seqN 0 (N.to_nat TOTAL_SHREDS))) = true <->
                             exists i, i < TOTAL_SHREDS /\ x = RShred k s i).
  { intros x. rewrite existsb_map_inv. split; intros [i [A B]]; exists i; (split; [|exact B]).
    - apply seqN_in in A. lia.
    - apply seqN_in. lia. }
  assert (Hroots : forall s', root_lookup (k, s') (rp_roots rp') =
                              if s' =? s then Some (hb_root hb s) else root_lookup (k, s') (rp_roots rp)).
  { intros s'. unfold rp', t_root. cbn [send_all fst rp_roots]. rewrite root_lookup_insert. cbn [fst snd].
    rewrite N.eqb_refl. reflexivity. }
  assert (Hrk : root_known rp' s) by (unfold root_known; rewrite Hroots, N.eqb_refl; reflexivity).
  assert (HQ : Q2 rp' s).
  { split; [exact Hrk|]. intros i Hi. left. rewrite Hreq. apply orb_true_iff. right. apply Hadded. eauto. }
  assert (Hgoal : PInv rp' /\ Mono rp rp'); [|destruct Hgoal; auto].
  apply (trans rp rp' (fun x => negb (rreq_eqb (RRoot k s) x))
               (fun x => existsb (rreq_eqb x) (map (fun i => RShred k s i) (seqN 0 (N.to_nat TOTAL_SHREDS))))); try assumption.
  - reflexivity.
  - auto.
  - intros s' root. rewrite Hroots. destruct (s' =? s) eqn:E; [|apply Hro].
    apply N.eqb_eq in E. subst s'. intros H. injection H as <-. reflexivity.
  - intros s'. unfold root_known. rewrite Hroots. destruct (s' =? s) eqn:E; [|auto].
    apply N.eqb_eq in E. subst s'. reflexivity.
  - auto.
  - intros x Hx. apply Hadded in Hx. destruct Hx as [i [Hi ->]]. cbn [wf_req]. auto 6.
  - intros x _ Hx. apply keep_false in Hx. subst x. exact HQ.
Qed.


(* ---------- a shred of the honest block filed by repair ---------- *)
Lemma stored_inv l d s i x : Inv ct hb l d -> s < K ->
  alookup i (aget [] s (bd_shreds d)) = Some x -> slice_ready l s = true \/ In i (idxs l s).
Proof.
  intros [_ [_ [[_ [_ Hst]] _]]] Hs Hx. specialize (Hst s Hs). unfold SliceState in Hst.
  destruct (slice_ready l s); [left; reflexivity|]. right. destruct Hst as [_ [_ Hiff]].
  apply Hiff, alookup_in_keys. congruence.
Qed.

Lemma repair_store_step sd l sh : sd_panicked sd = false -> Inv ct hb l (aget bd_empty k (sd_repaired sd)) -> honestP hb sh ->
  exists sd' ret ev, bs_step true ct slot sd (BRepair k (expected k) sh) = (sd', ret, ev) /\
    ret_panics ret = false /\ sd_panicked sd' = false /\ sd_dissem sd' = sd_dissem sd /\
    Inv ct hb (l ++ [sh]) (aget bd_empty k (sd_repaired sd')).
Proof.
  intros Hp HI Hs. destruct (add_honest slot ct hb Hok l _ sh HI Hs) as [d' [E HI']].
  destruct (hb_parent_some slot ct hb Hok) as [parent [Hpar _]].
  assert (Ht : shred_tag_ok sh = true).
  { destruct Hs as [i [j [_ [_ ->]]]]. unfold shred_tag_ok, hshred. cbn [b_index b_is_data]. apply eqb_reflx. }
  rewrite (bs_step_tag_ok true ct slot sd (BRepair k (expected k) sh) Ht). unfold bs_step_gen. rewrite Hp. cbn [andb].
  rewrite E. unfold expected_res. rewrite Hpar, Hexp.
  destruct (is_dup l sh); [|destruct (is_nilb l); [|destruct (block_ready hb (l ++ [sh]))]];
    rewrite ?listN_eqb_refl; cbn [negb ret_of_event];
    (eexists _, _, _; split; [reflexivity|]; cbn [sd_panicked sd_dissem sd_repaired]; rewrite aget_ainsert_same';
     split; [reflexivity|]; split; [reflexivity|]; split; [reflexivity | exact HI']).
Qed.

Lemma tr_shred rp s i : PInv rp -> has_req rp (RShred k s i) = true ->
  let res := bs_step true ct slot (rp_store rp) (BRepair k (expected k) (hshred hb s i)) in
  let rp' := t_shred rp k s i (fst (fst res)) (ret_panics (snd (fst res))) in
  PInv rp' /\ Mono rp rp' /\ stored rp' s i.
Proof.
  intros HI Hh. pose proof HI as [Hp [Hsp [[l [Hl Hinv]] [Hla [Hro [Hwf HJ]]]]]].
  destruct (Hwf _ Hh) as [_ [Hs [Hi [Hrk Hlast]]]].
  assert (Hhon : honestP hb (hshred hb s i)) by (exists s, i; auto).
  destruct (repair_store_step (rp_store rp) l (hshred hb s i) Hsp Hinv Hhon) as [sd' [ret [ev [E [Hnp [Hsp' [_ HI']]]]]]].
  rewrite E. cbn [fst snd]. rewrite Hnp. set (rp' := t_shred rp k s i sd' false).
  assert (Hav : forall s' i', s' < K -> i' < TOTAL_SHREDS ->
            slice_ready (l ++ [hshred hb s i]) s' = true \/ In i' (idxs (l ++ [hshred hb s i]) s') -> stored rp' s' i').
  { intros s' i' Hs' Hi' Hd. exact (available slot ct hb Hok _ _ s' i' HI' Hs' Hi' Hd). }
  assert (Hst : stored rp' s i).
  { apply Hav; [exact Hs | exact Hi|]. right. rewrite idxs_h_same. apply in_app_iff. right. left. reflexivity. }
  assert (Hgoal : PInv rp' /\ Mono rp rp'); [|destruct Hgoal; auto].
  apply (trans rp rp' (fun x => negb (rreq_eqb (RShred k s i) x)) (fun _ => false)); try assumption; auto.
  - intros x. unfold rp', t_shred, has_req. cbn [rp_outstanding]. rewrite existsb_del, orb_false_r. reflexivity.
  - exists (l ++ [hshred hb s i]). split; [|exact HI']. apply Forall_app. split; [exact Hl | constructor; [exact Hhon | constructor]].
  - intros s' i' Hs' Hi' Hx. apply Hav; [exact Hs' | exact Hi'|].
    destruct (stored_inv l _ s' i' _ Hinv Hs' Hx) as [A|A].
    + left. apply slice_ready_mono. exact A.
    + right. rewrite idxs_app. apply in_app_iff. left. exact A.
  - intros x H. discriminate.
  - intros x _ Hx. apply keep_false in Hx. subst x. exact Hst.
Qed.


(* ---------- one operation of a sound stream ---------- *)
Lemma is_last_known rp s : last_known rp -> is_last_slice rp k s = (K - 1 =? s).
Proof. intros H. unfold is_last_slice. unfold last_known in H. rewrite H. reflexivity. Qed.

Lemma step_ok rp o : PInv rp -> sound_op hb k o = true -> PInv (step rp o) /\ Mono rp (step rp o).
Proof.
  intros HI Hs. pose proof HI as [Hp [Hsp [Hinv [Hla [Hro [Hwf HJ]]]]]].
  assert (Hsame : PInv rp /\ Mono rp rp) by (split; [exact HI | apply mono_refl]).
  destruct o as [k'|p|r]; unfold step; cbn [repair_step].
  - (* repair_block again for the same key *)
    cbn [sound_op] in Hs. apply N.eqb_eq in Hs. subst k'. unfold repair_block. rewrite Hp.
    destruct (have_block (rp_store rp) k); [exact Hsame|].
    apply (trans rp _ (fun _ => true) (fun x => existsb (rreq_eqb x) [RLast k])); try assumption; auto.
    + intros x. rewrite has_req_send_all, andb_true_r. reflexivity.
    + intros x Hx. cbn [existsb] in Hx. rewrite orb_false_r in Hx. apply rreq_eqb_eq in Hx. subst x. reflexivity.
    + intros x _ Hx. discriminate.
  - (* a response *)
    cbn [sound_op] in Hs. destruct (rejected rp p) eqn:R.
    { rewrite (rejected_response_is_harmless ct slot expected rp p Hp R). exact Hsame. }
    unfold rejected in R. apply orb_false_iff in R. destruct R as [Rh R]. apply negb_false_iff in Rh.
    destruct p as [r|r last root ok|r root ok|r slot_ok sh sig_ok]; cbn [resp_req] in *.
    + rewrite (hr_nack rp r Hp Rh). apply tr_nack; assumption.
    + destruct r as [b| |]; try discriminate. apply negb_false_iff in R. subst ok.
      pose proof (Hwf _ Rh) as Hb. cbn [wf_req] in Hb. subst b.
      cbn [sound_resp] in Hs. rewrite N.eqb_refl in Hs. cbn [andb implb] in Hs.
      apply andb_true_iff in Hs. destruct Hs as [A B]. apply N.eqb_eq in A, B. subst last root.
      rewrite (hr_last_acc rp k _ _ Hp Rh). destruct (tr_last rp HI Rh) as [H1 [H2 _]]. auto.
    + destruct r as [|b s|]; try discriminate. apply negb_false_iff in R. subst ok.
      pose proof (Hwf _ Rh) as Hb. cbn [wf_req] in Hb. destruct Hb as [-> _].
      cbn [sound_resp] in Hs. rewrite N.eqb_refl in Hs. cbn [andb implb] in Hs. apply N.eqb_eq in Hs. subst root.
      rewrite (hr_root_acc rp k s _ Hp Rh). destruct (tr_root rp s HI Rh) as [H1 [H2 _]]. auto.
    + destruct r as [| |b s i]; try discriminate.
      pose proof (Hwf _ Rh) as Hb. cbn [wf_req] in Hb. destruct Hb as [-> [Hsk [Hi [Hrk Hlast]]]].
      apply orb_false_iff in R. destruct R as [R Rc]. apply orb_false_iff in R. destruct R as [R Rb].
      apply orb_false_iff in R. destruct R as [Ra Rt].
      apply negb_false_iff in Ra, Rb, Rt. unfold root_known in Hrk. rewrite Hrk in Rc.
      apply orb_false_iff in Rc. destruct Rc as [Rc Rd]. apply negb_false_iff in Rc, Rd. subst sig_ok.
      assert (Hsh : sh = hshred hb s i).
      { apply bshred_eqb_eq. cbn [sound_resp] in Hs.
        pose proof Ra as Ra'. apply andb_true_iff in Ra'. destruct Ra' as [Ra' A3]. apply andb_true_iff in Ra'. destruct Ra' as [_ A2].
        rewrite N.eqb_refl, A2, A3, Rc, Rt in Hs. cbn [andb] in Hs.
        rewrite (is_last_known rp s Hlast) in Rb. apply eqb_prop in Rb.
        unfold hb_is_last in Hs. rewrite Rb, (N.eqb_sym (K - 1) s), eqb_reflx in Hs. exact Hs. }
      apply N.eqb_eq in Rc.
      rewrite (hr_shred_acc rp k s i slot_ok sh Hp Rh Ra Rt Rb) by (rewrite Rc; exact Hrk).
      subst sh. destruct (tr_shred rp s i HI Rh) as [H1 [H2 _]]. auto.
  - unfold timeout. rewrite Hp. destruct (has_req rp r); exact Hsame.
Qed.

(* the correct response to an outstanding request is accepted and achieves what the request stood for *)
Lemma step_correct rp r : PInv rp -> has_req rp r = true -> replaced (step rp (OResp (correct_resp hb r))) r.
Proof.
  intros HI Hh. pose proof HI as [Hp [Hsp [Hinv [Hla [Hro [Hwf HJ]]]]]].
  pose proof (Hwf _ Hh) as Hb. unfold step. cbn [repair_step].
  destruct r as [b|b s|b s i]; cbn [wf_req] in Hb; cbn [correct_resp replaced].
  - subst b. rewrite (hr_last_acc rp k _ _ Hp Hh). apply (tr_last rp HI Hh).
  - destruct Hb as [-> _]. rewrite (hr_root_acc rp k s _ Hp Hh). apply (tr_root rp s HI Hh).
  - destruct Hb as [-> [Hsk [Hi [Hrk Hlast]]]].
    rewrite (hr_shred_acc rp k s i true (hshred hb s i) Hp Hh).
    + apply (tr_shred rp s i HI Hh).
    + cbn [hshred b_slice b_index]. rewrite !N.eqb_refl. reflexivity.
    + unfold shred_tag_ok, hshred. cbn [b_index b_is_data]. apply eqb_reflx.
    + rewrite (is_last_known rp s Hlast). cbn [hshred b_last]. unfold hb_is_last. rewrite (N.eqb_sym (K - 1) s). apply eqb_reflx.
    + exact Hrk.
Qed.


(* ---------- runs ---------- *)
Definition run (rp : repair) (ops : list rop) : repair := run_ops true ct slot expected rp ops.
Lemma run_cons rp o ops : run rp (o :: ops) = run (step rp o) ops.
Proof. reflexivity. Qed.
Lemma run_app rp a b : run rp (a ++ b) = run (run rp a) b.
Proof. unfold run, run_ops. apply fold_left_app. Qed.

Lemma replaced_mono rp rp' r : Mono rp rp' -> bounds r -> replaced rp r -> replaced rp' r.
Proof.
  intros [M1 [M2 [M3 _]]] Hb H. destruct r as [b|b s|b s i]; cbn [bounds replaced] in *.
  - auto.
  - destruct Hb as [_ Hs]. auto.
  - destruct Hb as [_ [Hs Hi]]. auto.
Qed.

Lemma run_ok : forall ops rp, PInv rp -> forallb (sound_op hb k) ops = true ->
  PInv (run rp ops) /\ forall r, bounds r -> replaced rp r -> replaced (run rp ops) r.
Proof.
  induction ops as [|o t IH]; intros rp HI Hs; [split; [exact HI | auto]|].
  cbn [forallb] in Hs. apply andb_true_iff in Hs. destruct Hs as [Ho Ht].
  destruct (step_ok rp o HI Ho) as [HI1 M]. destruct (IH _ HI1 Ht) as [HI2 Hm]. rewrite run_cons.
  split; [exact HI2|]. intros r Hb Hr. apply Hm; [exact Hb|]. exact (replaced_mono rp _ r M Hb Hr).
Qed.

(* a request that is outstanding (or already answered) is answered once its correct response has passed *)
Lemma run_reach : forall ops rp r, PInv rp -> forallb (sound_op hb k) ops = true -> bounds r ->
  has_req rp r = true \/ replaced rp r ->
  existsb (is_resp (correct_resp hb r)) ops = true -> replaced (run rp ops) r.
Proof.
  induction ops as [|o t IH]; intros rp r HI Hs Hb H Hex; [discriminate|].
  cbn [forallb] in Hs. apply andb_true_iff in Hs. destruct Hs as [Ho Ht].
  destruct (step_ok rp o HI Ho) as [HI1 M]. rewrite run_cons.
  destruct H as [Hh|Hr].
  - cbn [existsb] in Hex. destruct (is_resp (correct_resp hb r) o) eqn:E.
    + destruct o as [|p|]; try discriminate. cbn [is_resp] in E. apply rresp_eqb_eq in E. subst p.
      apply (run_ok t _ HI1 Ht); [exact Hb|]. apply step_correct; assumption.
    + cbn [orb] in Hex. apply IH; try assumption. destruct M as [_ [_ [_ M4]]]. exact (M4 r Hh).
  - apply (run_ok t _ HI1 Ht); [exact Hb|]. exact (replaced_mono rp _ r M Hb Hr).
Qed.

Lemma covers_spec rp l r : covers hb rp l = true -> has_req rp r = true ->
  existsb (is_resp (correct_resp hb r)) l = true.
Proof.
  unfold covers, has_req. rewrite forallb_forall. intros Hc Hh. apply existsb_exists in Hh.
  destruct Hh as [r' [Hin He]]. apply rreq_eqb_eq in He. subst r'. apply Hc. exact Hin.
Qed.

(* the three phases *)
Lemma round_last rp l : PInv rp -> forallb (sound_op hb k) l = true -> covers hb rp l = true ->
  PInv (run rp l) /\ Q1 (run rp l).
Proof.
  intros HI Hs Hc. split; [apply run_ok; assumption|].
  pose proof HI as [_ [_ [_ [_ [_ [_ HJ]]]]]].
  destruct HJ as [Hh|HQ].
  - apply (run_reach l rp (RLast k) HI Hs); [reflexivity | left; exact Hh | exact (covers_spec rp l _ Hc Hh)].
  - apply (proj2 (run_ok l rp HI Hs) (RLast k)); [reflexivity | exact HQ].
Qed.
Lemma round_roots rp l : PInv rp -> Q1 rp -> forallb (sound_op hb k) l = true -> covers hb rp l = true ->
  PInv (run rp l) /\ forall s, s < K -> Q2 (run rp l) s.
Proof.
  intros HI [_ HQ] Hs Hc. split; [apply run_ok; assumption|]. intros s Hsk.
  destruct (HQ s Hsk) as [Hh|H2].
  - apply (run_reach l rp (RRoot k s) HI Hs); [split; [reflexivity | exact Hsk] | left; exact Hh | exact (covers_spec rp l _ Hc Hh)].
  - apply (proj2 (run_ok l rp HI Hs) (RRoot k s)); [split; [reflexivity | exact Hsk] | exact H2].
Qed.
Lemma round_shreds rp l : PInv rp -> (forall s, s < K -> Q2 rp s) -> forallb (sound_op hb k) l = true -> covers hb rp l = true ->
  PInv (run rp l) /\ forall s i, s < K -> i < TOTAL_SHREDS -> stored (run rp l) s i.
Proof.
  intros HI HQ Hs Hc. split; [apply run_ok; assumption|]. intros s i Hsk Hi.
  destruct (HQ s Hsk) as [_ H3]. destruct (H3 i Hi) as [Hh|Hst].
  - apply (run_reach l rp (RShred k s i) HI Hs); [split; [reflexivity | split; assumption] | left; exact Hh | exact (covers_spec rp l _ Hc Hh)].
  - apply (proj2 (run_ok l rp HI Hs) (RShred k s i)); [split; [reflexivity | split; assumption] | exact Hst].
Qed.

(* once every shred of every slice is stored the block is complete, under the requested hash *)
Definition done (rp : repair) : Prop :=
  rp_panicked rp = false /\ have_block (rp_store rp) k = true /\
  exists d p, alookup k (sd_repaired (rp_store rp)) = Some d /\ bd_completed d = Some (hb_hash hb, p) /\ fst p < slot.

Lemma dcount_seqN n : dcount (seqN 0 n) = N.of_nat n.
Proof. symmetry. rewrite <- (seqN_len 0 n) at 1. apply dcount_keys; [apply seqN_nodup | reflexivity]. Qed.

Lemma all_stored_done rp : PInv rp -> (forall s i, s < K -> i < TOTAL_SHREDS -> stored rp s i) -> done rp.
Proof.
  intros [Hp [_ [[l [_ HI]] _]]] Hall.
  assert (B : block_ready hb l = true).
  { apply (block_ready_iff slot ct hb Hok). intros s Hs. destruct (slice_ready l s) eqn:R; [reflexivity|]. exfalso.
    assert (Hincl : incl (seqN 0 (N.to_nat TOTAL_SHREDS)) (idxs l s)).
    { intros i Hi. apply seqN_in in Hi. assert (Hi' : i < TOTAL_SHREDS) by lia.
      destruct (stored_inv l _ s i _ HI Hs (Hall s i Hs Hi')) as [A|A]; [congruence | exact A]. }
    apply dcount_incl in Hincl. rewrite dcount_seqN in Hincl.
    unfold slice_ready, cnt in R. fold (dcount (idxs l s)) in R. pose proof data_gt_1.
    assert (DATA_SHREDS <= TOTAL_SHREDS) by (vm_compute; discriminate). lia. }
  destruct (complete_data slot ct hb Hok l _ HI B) as [[parent [_ [Hsl Hc]]] _].
  unfold done. split; [exact Hp|]. unfold rdata, aget in Hc. unfold have_block.
  destruct (alookup k (sd_repaired (rp_store rp))) as [d|]; [|discriminate].
  rewrite Hc. split; [reflexivity|]. exists d, parent. auto.
Qed.

Lemma fair_done : forall rounds rp, PInv rp ->
  forallb (forallb (sound_op hb k)) rounds = true ->
  fair_rounds hb ct slot expected rp rounds = true -> (3 <= length rounds)%nat ->
  done (run rp (concat rounds)).
Proof.
  intros rounds rp HI Hs Hf Hlen.
  destruct rounds as [|l1 [|l2 [|l3 rest]]]; cbn [length] in Hlen; try lia.
  cbn [forallb] in Hs. apply andb_true_iff in Hs. destruct Hs as [S1 Hs].
  apply andb_true_iff in Hs. destruct Hs as [S2 Hs]. apply andb_true_iff in Hs. destruct Hs as [S3 Srest].
  cbn [fair_rounds] in Hf. apply andb_true_iff in Hf. destruct Hf as [C1 Hf].
  apply andb_true_iff in Hf. destruct Hf as [C2 Hf]. apply andb_true_iff in Hf. destruct Hf as [C3 _].
  fold (run rp l1) in C2, C3. fold (run (run rp l1) l2) in C3.
  destruct (round_last rp l1 HI S1 C1) as [HI1 HQ1].
  destruct (round_roots _ l2 HI1 HQ1 S2 C2) as [HI2 HQ2].
  destruct (round_shreds _ l3 HI2 HQ2 S3 C3) as [HI3 HQ3].
  cbn [concat]. rewrite !run_app.
  assert (Srest' : forallb (sound_op hb k) (concat rest) = true).
  { clear -Srest. induction rest as [|a t IH]; [reflexivity|]. cbn [forallb concat] in *.
    apply andb_true_iff in Srest. destruct Srest as [A B]. rewrite forallb_app, A. apply IH. exact B. }
  destruct (run_ok (concat rest) _ HI3 Srest') as [HI4 Hm].
  apply all_stored_done; [exact HI4|]. intros s i Hsk Hi.
  apply (Hm (RShred k s i)); [split; [reflexivity | split; assumption]|]. apply HQ3; assumption.
Qed.

Lemma pinv_start : PInv (run repair_init [OStart k]).
Proof.
  unfold run, run_ops. cbn [fold_left repair_step]. unfold repair_block. cbn [repair_init rp_panicked rp_store].
  replace (have_block sd_empty k) with false by reflexivity.
  split; [reflexivity|]. split; [reflexivity|]. split.
  { exists []. split; [constructor|]. exact (inv_empty slot ct hb Hok). }
  split; [intros x H; discriminate|]. split; [intros s root H; discriminate|].
  assert (Hreq : forall x, has_req (fst (send_all (mkRepair [] [] [] sd_empty false) [RLast k])) x = rreq_eqb x (RLast k)).
  { intros x. rewrite has_req_send_all. cbn [has_req rp_outstanding existsb]. rewrite orb_false_r. reflexivity. }
  split.
  - intros r Hr. rewrite Hreq in Hr. apply rreq_eqb_eq in Hr. subst r. reflexivity.
  - left. rewrite Hreq. apply rreq_eqb_refl.
Qed.


(* ---------- the phase lemmas: the correct response to an outstanding request is accepted, removes exactly
   that request, records what it proves and issues exactly the next phase's requests ---------- *)
Lemma correct_last_accepted rp : PInv rp -> has_req rp (RLast k) = true ->
  let rp' := fst (handle_response true ct slot expected rp (correct_resp hb (RLast k))) in
  PInv rp' /\ alookup k (rp_lasts rp') = Some (K - 1) /\
  (forall x, has_req rp' x = has_req rp x && negb (rreq_eqb (RLast k) x)
                             || existsb (rreq_eqb x) (map (fun s => RRoot k s) (seqN 0 (N.to_nat K)))) /\
  rp_store rp' = rp_store rp.
Proof.
  intros HI Hh. cbn [correct_resp]. pose proof HI as [Hp _]. rewrite (hr_last_acc rp k _ _ Hp Hh).
  destruct (tr_last rp HI Hh) as [H1 [_ [H3 _]]]. split; [exact H1|]. split; [exact H3|]. split; [|reflexivity].
  intros x. unfold t_last. rewrite has_req_upd. pose proof (K_pos slot ct hb Hok).
  replace (K - 1 + 1) with K by lia. reflexivity.
Qed.

Lemma correct_root_accepted rp s : PInv rp -> has_req rp (RRoot k s) = true ->
  let rp' := fst (handle_response true ct slot expected rp (correct_resp hb (RRoot k s))) in
  PInv rp' /\ root_lookup (k, s) (rp_roots rp') = Some (hb_root hb s) /\
  (forall x, has_req rp' x = has_req rp x && negb (rreq_eqb (RRoot k s) x)
                             || existsb (rreq_eqb x) (map (fun i => RShred k s i) (seqN 0 (N.to_nat TOTAL_SHREDS)))) /\
  rp_store rp' = rp_store rp /\ rp_lasts rp' = rp_lasts rp.
Proof.
  intros HI Hh. cbn [correct_resp]. pose proof HI as [Hp _]. rewrite (hr_root_acc rp k s _ Hp Hh).
  destruct (tr_root rp s HI Hh) as [H1 [_ [H3 _]]]. split; [exact H1|]. split; [exact H3|].
  split; [|split; reflexivity]. intros x. unfold t_root. rewrite has_req_upd. reflexivity.
Qed.

Lemma correct_shred_accepted rp s i : PInv rp -> has_req rp (RShred k s i) = true ->
  let rp' := fst (handle_response true ct slot expected rp (correct_resp hb (RShred k s i))) in
  PInv rp' /\ stored rp' s i /\
  (forall x, has_req rp' x = has_req rp x && negb (rreq_eqb (RShred k s i) x)) /\
  (forall s' i', s' < K -> i' < TOTAL_SHREDS -> stored rp s' i' -> stored rp' s' i') /\
  rp_roots rp' = rp_roots rp /\ rp_lasts rp' = rp_lasts rp.
Proof.
  intros HI Hh. cbn [correct_resp]. pose proof HI as [Hp [_ [_ [_ [_ [Hwf _]]]]]].
  destruct (Hwf _ Hh) as [_ [Hsk [Hi [Hrk Hlast]]]].
  rewrite (hr_shred_acc rp k s i true (hshred hb s i) Hp Hh).
  - destruct (tr_shred rp s i HI Hh) as [H1 [[_ [_ [M3 _]]] H3]]. split; [exact H1|]. split; [exact H3|].
    split; [|split; [exact M3 | split; reflexivity]].
    intros x. unfold t_shred, has_req. cbn [rp_outstanding]. apply existsb_del.
  - cbn [hshred b_slice b_index]. rewrite !N.eqb_refl. reflexivity.
  - unfold shred_tag_ok, hshred. cbn [b_index b_is_data]. apply eqb_reflx.
  - rewrite (is_last_known rp s Hlast). cbn [hshred b_last]. unfold hb_is_last. rewrite (N.eqb_sym (K - 1) s). apply eqb_reflx.
  - exact Hrk.
Qed.

(* the invariant holds in every state a sound stream can reach after the block was requested *)
Lemma sound_stream_inv ops : forallb (sound_op hb k) ops = true -> PInv (run repair_init (OStart k :: ops)).
Proof. intros Hs. rewrite run_cons. apply run_ok; [exact pinv_start | exact Hs]. Qed.


(* ---------- the same with an actual peer that holds the block ---------- *)
Lemma bounds_shape r : bounds r ->
  req_key r = k /\ match r with RLast _ => True | RRoot _ s => s < K | RShred _ s i => s < K /\ i < TOTAL_SHREDS end.
Proof. destruct r; cbn [bounds req_key]; tauto. Qed.

Lemma peer_covers_covers psd rp l : PInv rp ->
  (forall r, bounds r -> resp_of_answer r (answer psd expected r) = correct_resp hb r) ->
  peer_covers psd expected rp l = true -> covers hb rp l = true.
Proof.
  intros HI Hpeer. unfold peer_covers, covers. rewrite !forallb_forall. intros H r Hin.
  assert (Hh : has_req rp r = true) by (apply existsb_exists; exists r; split; [exact Hin | apply rreq_eqb_refl]).
  destruct HI as [_ [_ [_ [_ [_ [Hwf _]]]]]]. rewrite <- (Hpeer r (wf_bounds rp r (Hwf r Hh))). apply H. exact Hin.
Qed.

Lemma peer_rounds_fair psd : (forall r, bounds r -> resp_of_answer r (answer psd expected r) = correct_resp hb r) ->
  forall rounds rp, PInv rp -> forallb (forallb (sound_op hb k)) rounds = true ->
  peer_rounds psd ct slot expected rp rounds = true -> fair_rounds hb ct slot expected rp rounds = true.
Proof.
  intros Hpeer. induction rounds as [|l t IH]; intros rp HI Hs Hf; [reflexivity|].
  cbn [forallb] in Hs. apply andb_true_iff in Hs. destruct Hs as [Sl St].
  cbn [peer_rounds] in Hf. apply andb_true_iff in Hf. destruct Hf as [Cl Ct]. cbn [fair_rounds].
  rewrite (peer_covers_covers psd rp l HI Hpeer Cl). cbn [andb]. apply IH; [|exact St | exact Ct].
  exact (proj1 (run_ok l rp HI Sl)).
Qed.

End Progress.

(* ---------- a block that becomes stored is announced to the pool (any stream, no honesty needed) ---------- *)
Lemma have_block_ainsert sd key b d mis pan :
  have_block (mkSD (sd_dissem sd) (ainsert b d (sd_repaired sd)) mis pan) key =
  if key =? b then match bd_completed d with Some _ => true | None => false end else have_block sd key.
Proof.
  unfold have_block. cbn [sd_repaired]. destruct (key =? b) eqn:E.
  - apply N.eqb_eq in E. subst. rewrite alookup_ainsert_same. reflexivity.
  - apply N.eqb_neq in E. rewrite alookup_ainsert_other by exact E. reflexivity.
Qed.

Lemma bs_repair_have_block chk ct slot sd b e s sd' ret evs key :
  bs_step chk ct slot sd (BRepair b e s) = (sd', ret, evs) ->
  have_block sd key = false -> have_block sd' key = true ->
  b = key /\ exists h p, ret = BROk (Some (h, p)).
Proof.
  intros H H0 H1.
  destruct (bs_step_cases chk ct slot sd (BRepair b e s)) as [E|[_ [_ E]]]; rewrite E in H; clear E;
    [|injection H as <- <- <-; congruence].
  unfold bs_step_gen in H. destruct (sd_panicked sd); [injection H as <- <- <-; congruence|]. cbn [andb] in H.
  destruct (bd_add_shred chk ct slot (aget bd_empty b (sd_repaired sd)) s) as [d r] eqn:Ea.
  pose proof (add_shred_completed_spec _ _ _ _ _ _ _ Ea) as Hc.
  assert (Hold : key = b -> bd_completed (aget bd_empty b (sd_repaired sd)) = None).
  { intros ->. unfold have_block in H0. unfold aget. destruct (alookup b (sd_repaired sd)) as [d0|]; [|reflexivity].
    destruct (bd_completed d0); [discriminate | reflexivity]. }
  assert (Hins : forall mis pan, have_block (mkSD (sd_dissem sd) (ainsert b d (sd_repaired sd)) mis pan) key = true ->
                 b = key /\ exists h p, r = AOk (Some (BBlock h p))).
  { intros mis pan Hb. rewrite have_block_ainsert in Hb. destruct (key =? b) eqn:E; [|congruence].
    apply N.eqb_eq in E. split; [auto|]. destruct Hc as [[h [p [Hr _]]]|[_ Hcd]]; [eauto|].
    rewrite Hcd, (Hold E) in Hb. discriminate. }
  assert (Hflag : forall sdx sdy ev, flag_misbehaviour sdx = (sdy, ev) -> have_block sdy key = have_block sdx key).
  { intros sdx sdy ev E. unfold flag_misbehaviour in E. destruct (sd_misbehaved sdx); injection E as <- _; reflexivity. }
  destruct (match r with AOk (Some (BBlock h _)) => negb (listN_eqb h e) | _ => false end).
  - injection H as <- <- <-. exfalso. unfold have_block in H1. cbn [sd_repaired] in H1. rewrite alookup_filter_key in H1.
    destruct (key =? b); [discriminate|]. unfold have_block in H0. congruence.
  - destruct r as [ev|er|].
    + injection H as <- <- <-. destruct (Hins _ _ H1) as [A [h [p B]]]. split; [exact A|]. injection B as ->. cbn [ret_of_event]. eauto.
    + destruct er.
      * injection H as <- <- <-. destruct (Hins _ _ H1) as [_ [h [p B]]]. discriminate.
      * destruct (flag_misbehaviour _) as [sd2 e2] eqn:Ef. injection H as <- <- <-. rewrite (Hflag _ _ _ Ef) in H1.
        destruct (Hins _ _ H1) as [_ [h [p B]]]. discriminate.
      * destruct (flag_misbehaviour _) as [sd2 e2] eqn:Ef. injection H as <- <- <-. rewrite (Hflag _ _ _ Ef) in H1.
        destruct (Hins _ _ H1) as [_ [h [p B]]]. discriminate.
    + injection H as <- <- <-. destruct (Hins _ _ H1) as [_ [h [p B]]]. discriminate.
Qed.

Theorem stored_block_is_announced : forall keep ct slot expected rp o key,
  have_block (rp_store rp) key = false ->
  have_block (rp_store (fst (repair_step keep ct slot expected rp o))) key = true ->
  exists h p, In (OBlockToPool key h p) (snd (repair_step keep ct slot expected rp o)).
Proof.
  intros keep ct slot expected rp o key H0 H1. destruct o as [k0|p|r]; cbn [repair_step] in *.
  - exfalso. unfold repair_block in H1. destruct (rp_panicked rp); [cbn [fst] in H1; congruence|].
    destruct (have_block (rp_store rp) k0); cbn [fst send_all rp_store] in H1; congruence.
  - unfold handle_response, handle_response_gen in *. destruct (rp_panicked rp); [cbn [fst] in H1; congruence|].
    destruct (negb (has_req rp (resp_req p))); [cbn [fst] in H1; congruence|].
    assert (Hign : forall pn, have_block (rp_store (fst (if keep then (rp, @nil rout)
                     else (mkRepair (del_req (rp_outstanding rp) (resp_req p)) (rp_roots rp) (rp_lasts rp) (rp_store rp) pn, [])))) key = true -> False).
    { intros pn. destruct keep; cbn [fst rp_store]; congruence. }
    destruct p as [r|r last root ok|r root ok|r slot_ok s sig_ok]; cbn [resp_req] in *.
    + exfalso. cbn [fst send_all rp_store] in H1. congruence.
    + exfalso. destruct r; try exact (Hign _ H1). destruct ok; [|exact (Hign _ H1)]. cbn [fst send_all rp_store] in H1. congruence.
    + exfalso. destruct r; try exact (Hign _ H1). destruct ok; [|exact (Hign _ H1)]. cbn [fst send_all rp_store] in H1. congruence.
    + destruct r as [| |b sl ix]; try (exfalso; exact (Hign _ H1)).
      destruct (negb (slot_ok && (b_slice s =? sl) && (b_index s =? ix))); [exfalso; exact (Hign _ H1)|].
      destruct (negb (shred_tag_ok s)); [exfalso; exact (Hign _ H1)|].
      destruct (true && negb (Bool.eqb (b_last s) (is_last_slice rp b sl))); [exfalso; exact (Hign _ H1)|].
      destruct (root_lookup (b, sl) (rp_roots rp)) as [root|]; [|exfalso; cbn [fst rp_store] in H1; congruence].
      destruct (negb (b_root s =? root)); [exfalso; exact (Hign _ H1)|]. destruct (negb sig_ok); [exfalso; exact (Hign _ H1)|].
      cbn [rp_store rp_outstanding rp_roots rp_lasts rp_panicked] in *.
      destruct (bs_step true ct slot (rp_store rp) (BRepair b (expected b) s)) as [[sd ret] evs] eqn:Hs.
      assert (Hsd : have_block sd key = true) by (destruct ret as [[[h par]|]| |]; cbn [fst rp_store] in H1; exact H1).
      destruct (bs_repair_have_block _ _ _ _ _ _ _ _ _ _ _ Hs H0 Hsd) as [-> [h [par ->]]].
      exists h, par. left. reflexivity.
  - exfalso. unfold timeout in H1. destruct (rp_panicked rp); [cbn [fst] in H1; congruence|]. destruct (has_req rp r); cbn [fst] in H1; congruence.
Qed.

Lemma run_outs_announced : forall keep ct slot expected key ops rp,
  have_block (rp_store rp) key = false -> have_block (rp_store (run_ops keep ct slot expected rp ops)) key = true ->
  exists h p, In (OBlockToPool key h p) (run_outs keep ct slot expected rp ops).
Proof.
  intros keep ct slot expected key. induction ops as [|o t IH]; intros rp H0 H1; [cbn in H1; congruence|].
  cbn [run_ops fold_left] in H1. cbn [run_outs].
  destruct (have_block (rp_store (fst (repair_step keep ct slot expected rp o))) key) eqn:E.
  - destruct (stored_block_is_announced keep ct slot expected rp o key H0 E) as [h [p Hin]].
    exists h, p. apply in_app_iff. left. exact Hin.
  - destruct (IH _ E H1) as [h [p Hin]]. exists h, p. apply in_app_iff. right. exact Hin.
Qed.

Lemma run_outs_hash : forall keep ct slot expected ops rp, store_ok expected (rp_store rp) ->
  forall key h p, In (OBlockToPool key h p) (run_outs keep ct slot expected rp ops) -> h = expected key.
Proof.
  intros keep ct slot expected. induction ops as [|o t IH]; intros rp Hst key h p Hin; [destruct Hin|].
  cbn [run_outs] in Hin. destruct (store_ok_step keep ct slot expected rp o Hst) as [Hst' Hout].
  apply in_app_iff in Hin. destruct Hin as [Hin|Hin]; [exact (Hout _ _ _ Hin) | exact (IH _ Hst' _ _ _ Hin)].
Qed.

(* ---------- R3, closed statements ---------- *)
(* PROGRESS: for an honest block requested under its own hash, any stream of at least three rounds in which
   every response is sound (proof booleans true only for the true root at the true position; validly signed
   shreds with the proven root / flag / indices are the leader's) and every round contains - anywhere,
   interleaved with anything - the correct response to each request outstanding at its start, ends with the
   block stored under the requested key with the requested hash and announced to the pool under it,
   and without a panic *)
Theorem repair_completes : forall slot ct hb k expected rounds,
  hb_ok slot ct hb = true -> expected k = hb_hash hb ->
  forallb (forallb (sound_op hb k)) rounds = true ->
  fair_rounds hb ct slot expected (repair_run true ct slot expected [OStart k]) rounds = true ->
  (3 <= length rounds)%nat ->
  let rp := repair_run true ct slot expected (OStart k :: concat rounds) in
  rp_panicked rp = false /\ have_block (rp_store rp) k = true /\
  (exists d p, alookup k (sd_repaired (rp_store rp)) = Some d /\ bd_completed d = Some (hb_hash hb, p) /\ fst p < slot) /\
  (exists p, In (OBlockToPool k (hb_hash hb) p) (run_outs true ct slot expected repair_init (OStart k :: concat rounds))).
Proof.
  intros slot ct hb k expected rounds Hok Hexp Hs Hf Hlen.
  destruct (fair_done slot ct hb k expected Hok Hexp rounds _ (pinv_start slot ct hb k expected Hok) Hs Hf Hlen) as [A [B C]].
  split; [exact A|]. split; [exact B|]. split; [exact C|].
  destruct (run_outs_announced true ct slot expected k (OStart k :: concat rounds) repair_init eq_refl B) as [h [p Hin]].
  exists p. rewrite <- Hexp.
  assert (Hst : store_ok expected (rp_store repair_init)) by (intros key d h' p' E; discriminate E).
  rewrite <- (run_outs_hash true ct slot expected _ _ Hst _ _ _ Hin). exact Hin.
Qed.

(* ... in particular when the responses come from a peer that completed the block from dissemination and
   answers with the model's responder ([answer]) *)
Theorem repair_completes_with_honest_peer : forall slot ct hb k expected lp rounds,
  hb_ok slot ct hb = true -> expected k = hb_hash hb ->
  forallb (honest_shred hb) lp = true -> block_ready hb lp = true ->
  forallb (forallb (sound_op hb k)) rounds = true ->
  peer_rounds (fst (bs_dissem_run ct slot lp)) ct slot expected (repair_run true ct slot expected [OStart k]) rounds = true ->
  (3 <= length rounds)%nat ->
  let rp := repair_run true ct slot expected (OStart k :: concat rounds) in
  rp_panicked rp = false /\ have_block (rp_store rp) k = true /\
  (exists d p, alookup k (sd_repaired (rp_store rp)) = Some d /\ bd_completed d = Some (hb_hash hb, p) /\ fst p < slot) /\
  (exists p, In (OBlockToPool k (hb_hash hb) p) (run_outs true ct slot expected repair_init (OStart k :: concat rounds))).
Proof.
  intros slot ct hb k expected lp rounds Hok Hexp Hlp Hready Hs Hf Hlen.
  apply repair_completes; try assumption.
  apply (peer_rounds_fair slot ct hb k expected Hok Hexp (fst (bs_dissem_run ct slot lp))); [|exact (pinv_start slot ct hb k expected Hok) | exact Hs | exact Hf].
  intros r Hb. destruct (bounds_shape hb k r Hb) as [Hk Hshape].
  apply (responder_answers_correctly slot ct hb lp expected r Hok Hlp Hready); [rewrite Hk; exact Hexp | exact Hshape].
Qed.

(* ---------- the phase lemmas for every state a sound stream can reach ---------- *)
Theorem reach_last_accepted : forall slot ct hb k expected ops,
  hb_ok slot ct hb = true -> expected k = hb_hash hb -> forallb (sound_op hb k) ops = true ->
  let rp := repair_run true ct slot expected (OStart k :: ops) in
  has_req rp (RLast k) = true ->
  let rp' := fst (handle_response true ct slot expected rp (correct_resp hb (RLast k))) in
  rp_panicked rp' = false /\ alookup k (rp_lasts rp') = Some (hb_len hb - 1) /\
  (forall x, has_req rp' x = has_req rp x && negb (rreq_eqb (RLast k) x)
                             || existsb (rreq_eqb x) (map (fun s => RRoot k s) (seqN 0 (N.to_nat (hb_len hb))))) /\
  rp_store rp' = rp_store rp.
Proof.
  intros slot ct hb k expected ops Hok Hexp Hs rp Hh.
  pose proof (sound_stream_inv slot ct hb k expected Hok Hexp ops Hs) as HI.
  destruct (correct_last_accepted slot ct hb k expected Hok rp HI Hh) as [[Hp _] [A [B C]]]. auto.
Qed.

Theorem reach_root_accepted : forall slot ct hb k expected ops s,
  hb_ok slot ct hb = true -> expected k = hb_hash hb -> forallb (sound_op hb k) ops = true ->
  let rp := repair_run true ct slot expected (OStart k :: ops) in
  has_req rp (RRoot k s) = true ->
  let rp' := fst (handle_response true ct slot expected rp (correct_resp hb (RRoot k s))) in
  rp_panicked rp' = false /\ root_lookup (k, s) (rp_roots rp') = Some (hb_root hb s) /\
  (forall x, has_req rp' x = has_req rp x && negb (rreq_eqb (RRoot k s) x)
                             || existsb (rreq_eqb x) (map (fun i => RShred k s i) (seqN 0 (N.to_nat TOTAL_SHREDS)))) /\
  rp_store rp' = rp_store rp /\ rp_lasts rp' = rp_lasts rp.
Proof.
  intros slot ct hb k expected ops s Hok Hexp Hs rp Hh.
  pose proof (sound_stream_inv slot ct hb k expected Hok Hexp ops Hs) as HI.
  destruct (correct_root_accepted slot ct hb k expected Hok rp s HI Hh) as [[Hp _] [A [B C]]]. auto.
Qed.

Theorem reach_shred_accepted : forall slot ct hb k expected ops s i,
  hb_ok slot ct hb = true -> expected k = hb_hash hb -> forallb (sound_op hb k) ops = true ->
  let rp := repair_run true ct slot expected (OStart k :: ops) in
  has_req rp (RShred k s i) = true ->
  let rp' := fst (handle_response true ct slot expected rp (correct_resp hb (RShred k s i))) in
  let shreds_of x := bd_shreds (aget bd_empty k (sd_repaired (rp_store x))) in
  rp_panicked rp' = false /\
  alookup i (aget [] s (shreds_of rp')) = Some (hshred hb s i) /\
  (forall x, has_req rp' x = has_req rp x && negb (rreq_eqb (RShred k s i) x)) /\
  (forall s' i', s' < hb_len hb -> i' < TOTAL_SHREDS ->
     alookup i' (aget [] s' (shreds_of rp)) = Some (hshred hb s' i') ->
     alookup i' (aget [] s' (shreds_of rp')) = Some (hshred hb s' i')) /\
  rp_roots rp' = rp_roots rp /\ rp_lasts rp' = rp_lasts rp.
Proof.
  intros slot ct hb k expected ops s i Hok Hexp Hs rp Hh.
  pose proof (sound_stream_inv slot ct hb k expected Hok Hexp ops Hs) as HI.
  destruct (correct_shred_accepted slot ct hb k expected Hok Hexp rp s i HI Hh) as [[Hp _] [A [B [C D]]]].
  split; [exact Hp|]. split; [exact A|]. split; [exact B|]. split; [exact C | exact D].
Qed.

(* whatever a sound stream delivers, the requester does not panic, and every request it has outstanding is
   for the requested block, within its slice / shred range, and a shred is requested only under the block's
   true slice root *)
Theorem reach_sound_stream_safe : forall slot ct hb k expected ops,
  hb_ok slot ct hb = true -> expected k = hb_hash hb -> forallb (sound_op hb k) ops = true ->
  let rp := repair_run true ct slot expected (OStart k :: ops) in
  rp_panicked rp = false /\ sd_panicked (rp_store rp) = false /\
  (forall r, has_req rp r = true ->
     match r with
     | RLast b => b = k
     | RRoot b s => b = k /\ s < hb_len hb
     | RShred b s i => b = k /\ s < hb_len hb /\ i < TOTAL_SHREDS /\ root_lookup (k, s) (rp_roots rp) = Some (hb_root hb s)
     end).
Proof.
  intros slot ct hb k expected ops Hok Hexp Hs rp.
  destruct (sound_stream_inv slot ct hb k expected Hok Hexp ops Hs) as [Hp [Hsp [_ [_ [_ [Hwf _]]]]]].
  split; [exact Hp|]. split; [exact Hsp|]. intros r Hr. specialize (Hwf r Hr).
  destruct r as [b|b s|b s i]; cbn [wf_req] in Hwf; [exact Hwf | tauto | tauto].
Qed.
