(* Key arithmetic for the execution-state trie: chunk_at yields the base-32 digits of the address read
   as a big-endian number (padded with four zero bits), hence
     - two 32-byte keys with the same 52 chunks are equal,
     - the first differing chunk decides the lexicographic byte order. *)
From Coq Require Import List NArith Bool Lia ZifyBool ZifyNat ZifyN.
From AG Require Import Model.ExecState Proofs.ExecWinProofs.
Import ListNotations.
Open Scope N_scope.

Definition kwf (k : key) : Prop := length k = KEY_LEN /\ Forall (fun b => b < 256) k.

(* ---------- bytes_eqb / bytes_ltb ---------- *)
Lemma bytes_eqb_eq : forall a b, bytes_eqb a b = true <-> a = b.
Proof.
  induction a as [|x a IH]; destruct b as [|y b]; cbn [bytes_eqb]; try (split; congruence).
  rewrite andb_true_iff, N.eqb_eq, IH. split; [intros [-> ->]; reflexivity | intros E; injection E; auto].
Qed.
Lemma bytes_eqb_refl : forall a, bytes_eqb a a = true.
Proof. intros; apply bytes_eqb_eq; reflexivity. Qed.
Lemma bytes_eqb_neq : forall a b, bytes_eqb a b = false <-> a <> b.
Proof.
  intros a b. destruct (bytes_eqb a b) eqn:E.
  - apply bytes_eqb_eq in E. split; [discriminate | intros; contradiction].
  - split; [intros _ X; apply bytes_eqb_eq in X; congruence | reflexivity].
Qed.
Lemma bytes_eqb_sym : forall a b, bytes_eqb a b = bytes_eqb b a.
Proof.
  intros a b. destruct (bytes_eqb a b) eqn:E.
  - apply bytes_eqb_eq in E; subst; symmetry; apply bytes_eqb_refl.
  - symmetry. apply bytes_eqb_neq. apply bytes_eqb_neq in E. congruence.
Qed.

(* ---------- big-endian value ---------- *)
Fixpoint be_acc (l : list N) (a : N) : N := match l with [] => a | b :: t => be_acc t (a * 256 + b) end.
Definition be (l : list N) : N := be_acc l 0.

Lemma be_acc_spec : forall l a, be_acc l a = a * 256 ^ N.of_nat (length l) + be_acc l 0.
Proof.
  induction l as [|b l IH]; intros a; cbn [be_acc length].
  - cbn. lia.
  - rewrite IH, (IH (0 * 256 + b)). rewrite Nat2N.inj_succ, N.pow_succ_r'. lia.
Qed.
Lemma be_cons : forall b l, be (b :: l) = b * 256 ^ N.of_nat (length l) + be l.
Proof. intros. unfold be. cbn [be_acc]. rewrite be_acc_spec. f_equal. Qed.
Lemma be_app : forall a b, be (a ++ b) = be a * 256 ^ N.of_nat (length b) + be b.
Proof.
  induction a as [|x a IH]; intros b.
  - cbn [app]. unfold be at 2. cbn. lia.
  - cbn [app]. rewrite !be_cons, IH, app_length, Nat2N.inj_add, N.pow_add_r. lia.
Qed.
Lemma be_bound : forall l, Forall (fun b => b < 256) l -> be l < 256 ^ N.of_nat (length l).
Proof.
  induction 1 as [|b l Hb Hl IH].
  - cbn. lia.
  - rewrite be_cons. cbn [length]. rewrite Nat2N.inj_succ, N.pow_succ_r'. nia.
Qed.

Lemma be_lt_lex : forall a b, length a = length b -> Forall (fun x => x < 256) a -> Forall (fun x => x < 256) b ->
  (bytes_ltb a b = true <-> be a < be b).
Proof.
  induction a as [|x a IH]; destruct b as [|y b]; cbn [length bytes_ltb]; intros L Fa Fb; try discriminate.
  - unfold be; cbn. split; [discriminate | lia].
  - inversion Fa; inversion Fb; subst. rewrite !be_cons.
    assert (La : length a = length b) by lia.
    pose proof (be_bound a H2) as Ba. pose proof (be_bound b H6) as Bb. rewrite La in Ba. try rewrite La.
    set (P := 256 ^ N.of_nat (length b)) in *.
    destruct (x <? y) eqn:E1; [split; [intros _; nia | reflexivity]|].
    destruct (y <? x) eqn:E2; [split; [discriminate | intros; nia]|].
    assert (x = y) by lia. subst. rewrite (IH b La H2 H6). lia.
Qed.
Lemma be_inj : forall a b, length a = length b -> Forall (fun x => x < 256) a -> Forall (fun x => x < 256) b ->
  be a = be b -> a = b.
Proof.
  induction a as [|x a IH]; destruct b as [|y b]; cbn [length]; intros L Fa Fb E; try discriminate; auto.
  inversion Fa; inversion Fb; subst. rewrite !be_cons in E.
  assert (La : length a = length b) by lia.
  pose proof (be_bound a H2) as Ba. pose proof (be_bound b H6) as Bb. rewrite La in Ba. rewrite La in E.
  set (P := 256 ^ N.of_nat (length b)) in *.
  assert (~ x < y) by (intro; assert ((x + 1) * P <= y * P) by (apply N.mul_le_mono_r; lia); lia).
  assert (~ y < x) by (intro; assert ((y + 1) * P <= x * P) by (apply N.mul_le_mono_r; lia); lia).
  assert (x = y) by lia. subst. f_equal. apply IH; auto. lia.
Qed.

(* ---------- chunk_at = base-32 digit of (be k * 16) ---------- *)
Definition keynum (k : key) : N := be k * 16.
Definition digit (M j : N) : N := (M / 32 ^ (51 - j)) mod 32.

Lemma nth_error_split : forall (A : Type) (l : list A) i x, nth_error l i = Some x ->
  l = firstn i l ++ x :: skipn (S i) l.
Proof.
  induction l as [|a l IH]; intros [|i] x E; cbn in *; try discriminate.
  - congruence.
  - f_equal. apply IH; auto.
Qed.

Lemma skipn_nth_error : forall (A : Type) (l : list A) i x, nth_error l i = Some x ->
  skipn i l = x :: skipn (S i) l.
Proof.
  induction l as [|a l IH]; intros [|i] x E; cbn in *; try discriminate.
  - congruence.
  - apply IH; auto.
Qed.

Lemma chunk_at_digit : forall k d, kwf k -> d < 52 -> chunk_at k d = Ok (digit (keynum k) d).
Proof.
  intros k d [Lk Fk] Hd. unfold chunk_at, BITS_PER_LEVEL, KEY_LEN in *.
  set (bit := d * 5). set (i := bit / 8). set (r := bit mod 8).
  assert (Hbit : bit = 8 * i + r) by (unfold i, r; apply N.div_mod; lia).
  assert (Hr : r < 8) by (unfold r; apply N.mod_lt; lia).
  assert (Hi : i <= 31) by (unfold i; transitivity (255 / 8); [apply N.div_le_mono; lia | vm_compute; discriminate]).
  set (k' := k ++ [0]).
  assert (Lk' : length k' = 33%nat) by (unfold k'; rewrite app_length; cbn; lia).
  assert (Fk' : Forall (fun b => b < 256) k') by (unfold k'; apply Forall_app; split; auto; constructor; [lia | constructor]).
  destruct (nth_error k (N.to_nat i)) as [b0|] eqn:E0.
  2:{ apply nth_error_None in E0. lia. }
  assert (E0' : nth_error k' (N.to_nat i) = Some b0).
  { unfold k'. rewrite nth_error_app1; auto. apply nth_error_Some. congruence. }
  assert (exists b1, nth_error k' (S (N.to_nat i)) = Some b1 /\
            match nth_error k (N.to_nat (i + 1)) with Some b => b | None => 0 end = b1) as [b1 [E1' E1]].
  { replace (N.to_nat (i + 1)) with (S (N.to_nat i)) by lia.
    destruct (nth_error k (S (N.to_nat i))) as [b|] eqn:E.
    - exists b. split; auto. unfold k'. rewrite nth_error_app1; auto. apply nth_error_Some. congruence.
    - exists 0. split; auto. apply nth_error_None in E. unfold k'. rewrite nth_error_app2 by lia.
      replace (S (N.to_nat i) - length k)%nat with 0%nat by lia. reflexivity. }
  rewrite E1.
  assert (B0 : b0 < 256) by (eapply Forall_forall in Fk'; [exact Fk' | eapply nth_error_In; exact E0']).
  assert (B1 : b1 < 256) by (eapply Forall_forall in Fk'; [exact Fk' | eapply nth_error_In; exact E1']).
  rewrite win_chunk_spec by auto. f_equal. unfold win_spec, digit, keynum.
  (* decompose k' around positions i, i+1 *)
  assert (S0 : k' = firstn (N.to_nat i) k' ++ b0 :: b1 :: skipn (S (S (N.to_nat i))) k').
  { rewrite <- (skipn_nth_error _ k' _ _ E1'), <- (skipn_nth_error _ k' _ _ E0'). symmetry. apply firstn_skipn. }
  set (pre := firstn (N.to_nat i) k') in *. set (post := skipn (S (S (N.to_nat i))) k') in *.
  assert (Lpost : N.of_nat (length post) = 31 - i) by (unfold post; rewrite skipn_length; lia).
  assert (Fpost : Forall (fun b => b < 256) post).
  { apply Forall_forall. intros x Hx. eapply Forall_forall in Fk'; [exact Fk'|]. rewrite S0.
    apply in_or_app. right. right. right. exact Hx. }
  assert (V : be k * 256 = (be pre * 65536 + (b0 * 256 + b1)) * 256 ^ (31 - i) + be post).
  { transitivity (be k').
    - unfold k'. rewrite be_app. cbn [length]. unfold be at 3. cbn. lia.
    - rewrite S0, be_app, !be_cons. cbn [length]. rewrite !Nat2N.inj_succ, Lpost, !N.pow_succ_r'.
      set (P := 256 ^ (31 - i)). lia. }
  pose proof (be_bound post Fpost) as Bp. rewrite Lpost in Bp.
  (* be k * 16 / 32^(51-d) = be k * 256 / (256^(31-i) * 2^(11-r)) *)
  assert (P1 : 16 * 32 ^ (51 - d) = 256 ^ (31 - i) * 2 ^ (11 - r)).
  { change 32 with (2 ^ 5). change 256 with (2 ^ 8). change 16 with (2 ^ 4).
    rewrite <- !N.pow_mul_r, <- !N.pow_add_r. f_equal. unfold bit in Hbit. lia. }
  assert (Q : be k * 16 / 32 ^ (51 - d) = (be pre * 65536 + (b0 * 256 + b1)) / 2 ^ (11 - r)).
  { rewrite <- (N.div_mul_cancel_l (be k * 16) (32 ^ (51 - d)) 16) by (try apply N.pow_nonzero; lia).
    replace (16 * (be k * 16)) with (be k * 256) by lia. rewrite P1, <- N.div_div by (apply N.pow_nonzero; lia).
    f_equal. rewrite V. rewrite N.div_add_l by (apply N.pow_nonzero; lia). rewrite N.div_small by exact Bp. lia. }
  rewrite Q.
  assert (P2 : 65536 = 2 ^ (5 + r) * 2 ^ (11 - r)).
  { rewrite <- N.pow_add_r. replace (5 + r + (11 - r)) with 16 by lia. reflexivity. }
  rewrite P2. rewrite N.mul_assoc, N.div_add_l by (apply N.pow_nonzero; lia).
  rewrite N.pow_add_r. change (2 ^ 5) with 32.
  replace (be pre * (32 * 2 ^ r) + (b0 * 256 + b1) / 2 ^ (11 - r))
    with ((b0 * 256 + b1) / 2 ^ (11 - r) + (be pre * 2 ^ r) * 32) by lia.
  rewrite N.mod_add by lia. reflexivity.
Qed.

Lemma keynum_bound : forall k, kwf k -> keynum k < 32 ^ 52.
Proof.
  intros k [Lk Fk]. unfold keynum. pose proof (be_bound k Fk) as B. rewrite Lk in B. unfold KEY_LEN in B.
  change (256 ^ N.of_nat 32) with (2 ^ 256) in B. change (32 ^ 52) with (2 ^ 256 * 16). lia.
Qed.
Lemma digit_lt : forall M j, digit M j < 32.
Proof. intros. unfold digit. apply N.mod_lt. lia. Qed.

(* top d = the number formed by the first d digits *)
Definition top (M d : N) : N := M / 32 ^ (52 - d).
Lemma top_succ : forall M d, d < 52 -> top M (d + 1) = top M d * 32 + digit M d.
Proof.
  intros M d Hd. unfold top, digit. replace (52 - (d + 1)) with (51 - d) by lia.
  replace (52 - d) with (51 - d + 1) by lia. rewrite N.pow_add_r, N.pow_1_r.
  rewrite <- N.div_div by (try apply N.pow_nonzero; lia).
  pose proof (N.div_mod (M / 32 ^ (51 - d)) 32). lia.
Qed.
Lemma top_eq : forall M1 M2, M1 < 32 ^ 52 -> M2 < 32 ^ 52 -> forall d, d <= 52 ->
  (forall j, j < d -> digit M1 j = digit M2 j) -> top M1 d = top M2 d.
Proof.
  intros M1 M2 B1 B2. induction d as [|d IH] using N.peano_ind; intros Hd E.
  - unfold top. rewrite !N.div_small; auto.
  - rewrite <- N.add_1_r, !top_succ by lia. rewrite IH by (try lia; intros; apply E; lia).
    rewrite (E d) by lia. reflexivity.
Qed.

Lemma digits_inj : forall M1 M2, M1 < 32 ^ 52 -> M2 < 32 ^ 52 ->
  (forall j, j < 52 -> digit M1 j = digit M2 j) -> M1 = M2.
Proof.
  intros M1 M2 B1 B2 E. pose proof (top_eq M1 M2 B1 B2 52 (N.le_refl _) E) as T.
  unfold top in T. change (32 ^ (52 - 52)) with 1 in T. rewrite !N.div_1_r in T. exact T.
Qed.
Lemma digits_lt : forall M1 M2 d, M1 < 32 ^ 52 -> M2 < 32 ^ 52 -> d < 52 ->
  (forall j, j < d -> digit M1 j = digit M2 j) -> digit M1 d < digit M2 d -> M1 < M2.
Proof.
  intros M1 M2 d B1 B2 Hd E L.
  pose proof (top_eq M1 M2 B1 B2 d (N.lt_le_incl _ _ Hd) E) as T.
  assert (T' : top M1 (d + 1) < top M2 (d + 1)) by (rewrite !top_succ by lia; lia).
  unfold top in T'. set (P := 32 ^ (52 - (d + 1))) in *.
  assert (P <> 0) by (apply N.pow_nonzero; lia).
  destruct (N.lt_ge_cases M1 M2); auto.
  pose proof (N.div_le_mono M2 M1 P). lia.
Qed.

(* ---------- what the trie proofs use ---------- *)
Definition chunk (k : key) (d : N) : N := digit (keynum k) d.

Lemma chunk_at_ok : forall k d, kwf k -> d < 52 -> chunk_at k d = Ok (chunk k d).
Proof. exact chunk_at_digit. Qed.
Lemma chunk_lt : forall k d, chunk k d < 32.
Proof. intros; apply digit_lt. Qed.
Lemma chunks_inj : forall k1 k2, kwf k1 -> kwf k2 -> (forall d, d < 52 -> chunk k1 d = chunk k2 d) -> k1 = k2.
Proof.
  intros k1 k2 W1 W2 E.
  assert (keynum k1 = keynum k2) by (apply digits_inj; auto using keynum_bound).
  unfold keynum in *. destruct W1 as [L1 F1], W2 as [L2 F2]. apply be_inj; auto; try congruence. lia.
Qed.
Lemma chunks_lt : forall k1 k2 d, kwf k1 -> kwf k2 -> d < 52 ->
  (forall j, j < d -> chunk k1 j = chunk k2 j) -> chunk k1 d < chunk k2 d -> bytes_ltb k1 k2 = true.
Proof.
  intros k1 k2 d W1 W2 Hd E L.
  assert (keynum k1 < keynum k2) by (eapply digits_lt; eauto using keynum_bound).
  destruct W1 as [L1 F1], W2 as [L2 F2]. apply be_lt_lex; auto; try congruence. unfold keynum in *. lia.
Qed.
Lemma bytes_ltb_irrefl : forall a, bytes_ltb a a = false.
Proof. induction a as [|x a IH]; cbn [bytes_ltb]; auto. rewrite N.ltb_irrefl. exact IH. Qed.
Lemma bytes_ltb_trans : forall a b c, bytes_ltb a b = true -> bytes_ltb b c = true -> bytes_ltb a c = true.
Proof.
  induction a as [|x a IH]; destruct b as [|y b]; destruct c as [|z c]; cbn [bytes_ltb]; try congruence.
  intros H1 H2.
  destruct (x <? y) eqn:Exy.
  - destruct (y <? z) eqn:Eyz.
    + assert (x <? z = true) as -> by lia. reflexivity.
    + destruct (z <? y) eqn:Ezy; [discriminate|]. assert (y = z) by lia. subst. rewrite Exy. reflexivity.
  - destruct (y <? x) eqn:Eyx; [discriminate|]. assert (x = y) by lia. subst.
    destruct (y <? z) eqn:Eyz; auto. destruct (z <? y) eqn:Ezy; [discriminate|]. eapply IH; eauto.
Qed.
Lemma bytes_ltb_asym : forall a b, bytes_ltb a b = true -> bytes_ltb b a = false.
Proof.
  intros a b H. destruct (bytes_ltb b a) eqn:E; auto.
  pose proof (bytes_ltb_trans _ _ _ H E) as X. rewrite bytes_ltb_irrefl in X. discriminate.
Qed.
Lemma bytes_ltb_neq : forall a b, bytes_ltb a b = true -> bytes_eqb a b = false.
Proof.
  intros a b H. apply bytes_eqb_neq. intros ->. rewrite bytes_ltb_irrefl in H. discriminate.
Qed.
Lemma bytes_trichotomy : forall a b, bytes_ltb a b = false -> bytes_eqb a b = false -> length a = length b ->
  bytes_ltb b a = true.
Proof.
  induction a as [|x a IH]; destruct b as [|y b]; cbn [bytes_ltb bytes_eqb length]; try congruence; try discriminate.
  intros H1 H2 L. destruct (x <? y) eqn:Exy; [discriminate|]. destruct (y <? x) eqn:Eyx; auto.
  assert (x = y) by lia. subst. rewrite N.eqb_refl in H2. cbn in H2. apply IH; auto.
Qed.
