(* The ParentReady chain (C02, clause P3; completeness half of C07) over the parent-ready tracker model
   (Model/Pool.v, ParentReadyTracker): whenever a block is marked notarized(-fallback) and every slot between
   it and a later window start is marked skipped - in ANY order of arrival of those marks, interleaved with
   finalization handling, pruning and waiter registrations - the block is a ready parent of that window.
   Stated as an invariant [ready_complete] kept by every tracker operation that does not panic, and lifted
   to every pool operation. *)
From Coq Require Import List NArith Bool Lia ZifyBool ZifyNat ZifyN.
From AG Require Import Gen.Params Model.Pool Model.PoolSpec Proofs.SlotStateProofs Proofs.TrackerProofs
  Proofs.VotorProgressProofs Proofs.PoolProgressProofs.
Import ListNotations.
Open Scope N_scope.

Definition ready_complete (t : prtracker) : Prop :=
  forall sb h w, pt_root t <= sb -> sb < w -> is_window_start w = true ->
    In h (pr_nfs (pt_get t sb)) -> (forall k, sb < k < w -> pr_skip (pt_get t k) = true) ->
    In (sb, h) (pt_parents_ready t w).

(* ---------- accessors ---------- *)
Lemma pt_get_set t s st s' : pt_get (pt_set t s st) s' = if s' =? s then st else pt_get t s'.
Proof.
  unfold pt_get, pt_set, aget. cbn [pt_states]. destruct (s' =? s) eqn:E.
  - apply N.eqb_eq in E. subst. rewrite alookup_ainsert_same. reflexivity.
  - rewrite alookup_ainsert_other by (apply N.eqb_neq; exact E). reflexivity.
Qed.
Lemma ready_of_get t w : pt_parents_ready t w = match pr_ready (pt_get t w) with Some ids => ids | None => [] end.
Proof. symmetry. apply pt_get_ready. Qed.

(* same marks, ready lists only grow *)
Definition same_marks (t t' : prtracker) : Prop :=
  pt_root t' = pt_root t /\
  (forall k, pr_skip (pt_get t' k) = pr_skip (pt_get t k) /\ pr_nfs (pt_get t' k) = pr_nfs (pt_get t k)) /\
  (forall w x, In x (pt_parents_ready t w) -> In x (pt_parents_ready t' w)).
Lemma same_marks_refl t : same_marks t t. Proof. unfold same_marks. auto. Qed.
Lemma same_marks_trans a b c : same_marks a b -> same_marks b c -> same_marks a c.
Proof.
  intros (R1 & M1 & G1) (R2 & M2 & G2). split; [congruence|]. split; [|auto].
  intros k. destruct (M1 k), (M2 k). split; congruence.
Qed.

Lemma add_ready_marks t s id t' w : pr_add_to_ready t s id = Some (t', w) ->
  same_marks t t' /\ In id (pt_parents_ready t' s).
Proof.
  intros H. destruct (add_to_ready_once t s id t' w H) as (_ & Rs & Ro).
  unfold pr_add_to_ready in H.
  assert (M : pt_root t' = pt_root t /\ forall k, pr_skip (pt_get t' k) = pr_skip (pt_get t k) /\ pr_nfs (pt_get t' k) = pr_nfs (pt_get t k)).
  { destruct (pr_ready (pt_get t s)) as [ids|].
    - destruct (existsb (bid_eqb id) ids); [discriminate|]. injection H as <- _. split; [reflexivity|].
      intros k. rewrite pt_get_set. destruct (k =? s) eqn:E; [apply N.eqb_eq in E; subst; auto | auto].
    - injection H as <- _. split; [reflexivity|].
      intros k. rewrite pt_get_set. destruct (k =? s) eqn:E; [apply N.eqb_eq in E; subst; auto | auto]. }
  destruct M as [R M]. split; [|rewrite Rs; apply in_or_app; right; left; reflexivity].
  split; [exact R|]. split; [exact M|].
  intros w' x Hx. destruct (N.eq_dec w' s) as [->|Hn]; [rewrite Rs; apply in_or_app; left; exact Hx | rewrite Ro by exact Hn; exact Hx].
Qed.

Definition add_fold (s : slot) :=
  (fun (r : ptres) (p : blockid) =>
     match r with
     | None => None
     | Some (t', acc', wk') =>
       match pr_add_to_ready t' s p with
       | None => None
       | Some (t'', w) => Some (t'', acc' ++ [(s, p)], wk' ++ w)
       end
     end).
Lemma add_fold_none s parents : fold_left (add_fold s) parents None = None.
Proof. induction parents; [reflexivity | exact IHparents]. Qed.
Lemma add_fold_spec s : forall parents t acc wk t' acc' wk',
  fold_left (add_fold s) parents (Some (t, acc, wk)) = Some (t', acc', wk') ->
  same_marks t t' /\ (forall p, In p parents -> In p (pt_parents_ready t' s)).
Proof.
  induction parents as [|p l IH]; intros t acc wk t' acc' wk' H; cbn [fold_left] in H.
  - injection H as <- _ _. split; [apply same_marks_refl | intros p []].
  - unfold add_fold at 2 in H. destruct (pr_add_to_ready t s p) as [[t1 w]|] eqn:A; [|rewrite add_fold_none in H; discriminate].
    destruct (add_ready_marks _ _ _ _ _ A) as [M1 I1]. destruct (IH _ _ _ _ _ _ H) as [M2 I2].
    split; [eapply same_marks_trans; eassumption|].
    intros q [<-|Hq]; [destruct M2 as (_ & _ & G); apply G; exact I1 | apply I2; exact Hq].
Qed.

(* ---------- propagation ---------- *)
Lemma propagate_unfold f t s parents acc wk :
  pt_propagate (S f) t s parents acc wk =
  match (if is_window_start s then fold_left (add_fold s) parents (Some (t, acc, wk)) else Some (t, acc, wk)) with
  | None => None
  | Some (t1, acc1, wk1) => if pr_skip (pt_get t1 s) then pt_propagate f t1 (s + 1) parents acc1 wk1 else Some (t1, acc1, wk1)
  end.
Proof. reflexivity. Qed.
Lemma propagate_spec : forall fuel t s parents acc wk t' acc' wk',
  pt_propagate fuel t s parents acc wk = Some (t', acc', wk') ->
  same_marks t t' /\
  forall w, s <= w -> is_window_start w = true -> (forall k, s <= k < w -> pr_skip (pt_get t k) = true) ->
    forall p, In p parents -> In p (pt_parents_ready t' w).
Proof.
  induction fuel as [|f IH]; intros t s parents acc wk t' acc' wk' H; [discriminate|].
  rewrite propagate_unfold in H.
  destruct (is_window_start s) eqn:Ws.
  - destruct (fold_left (add_fold s) parents (Some (t, acc, wk))) as [[[t1 acc1] wk1]|] eqn:F; [|discriminate].
    destruct (add_fold_spec _ _ _ _ _ _ _ _ F) as [M1 I1].
    destruct (pr_skip (pt_get t1 s)) eqn:Sk.
    + destruct (IH _ _ _ _ _ _ _ _ H) as [M2 C2]. split; [eapply same_marks_trans; eassumption|].
      intros w Hw Hws Hchain p Hp. destruct (N.eq_dec w s) as [->|Hn].
      * destruct M2 as (_ & _ & G). apply G. apply I1. exact Hp.
      * apply C2; auto; [lia|]. intros k Hk. destruct M1 as (_ & Mk & _). destruct (Mk k) as [E _]. rewrite E. apply Hchain. lia.
    + injection H as <- _ _. split; [exact M1|].
      intros w Hw Hws Hchain p Hp. destruct (N.eq_dec w s) as [->|Hn]; [apply I1; exact Hp|].
      exfalso. destruct M1 as (_ & Mk & _). destruct (Mk s) as [E _]. rewrite E in Sk.
      rewrite (Hchain s) in Sk by lia. discriminate.
  - destruct (pr_skip (pt_get t s)) eqn:Sk.
    + destruct (IH _ _ _ _ _ _ _ _ H) as [M2 C2]. split; [exact M2|].
      intros w Hw Hws Hchain p Hp. destruct (N.eq_dec w s) as [->|Hn]; [congruence|].
      apply C2; auto; [lia|]. intros k Hk. apply Hchain. lia.
    + injection H as <- _ _. split; [apply same_marks_refl|].
      intros w Hw Hws Hchain p Hp. destruct (N.eq_dec w s) as [->|Hn]; [congruence|].
      exfalso. rewrite (Hchain s) in Sk by lia. discriminate.
Qed.

Lemma complete_same_marks t t' : same_marks t t' -> ready_complete t -> ready_complete t'.
Proof.
  intros (R & M & G) C sb h w Hr Hlt Hws Hnf Hchain. apply G. apply C; auto.
  - rewrite <- R. exact Hr.
  - destruct (M sb) as [_ E]. rewrite <- E. exact Hnf.
  - intros k Hk. destruct (M k) as [E _]. rewrite <- E. apply Hchain. exact Hk.
Qed.

(* ---------- a block becomes notarized(-fallback) ---------- *)
Theorem mark_nf_complete : forall t id t' prs wk,
  pt_mark_notar_fallback t id = Some (t', prs, wk) -> ready_complete t -> ready_complete t'.
Proof.
  intros t [s h] t' prs wk H C. unfold pt_mark_notar_fallback in H.
  destruct (s <? pt_root t); [injection H as <- _ _; exact C|].
  destruct (memN h (pr_nfs (pt_get t s))) eqn:Mem; [injection H as <- _ _; exact C|].
  set (st := pt_get t s) in *.
  set (t1 := pt_set t s (mkPR (pr_skip st) (pr_nfs st ++ [h]) (pr_ready st) (pr_waiting st))) in *.
  destruct (propagate_spec _ _ _ _ _ _ _ _ _ H) as [(R & M & G) P].
  intros sb hb w Hr Hlt Hws Hnf Hchain.
  assert (Sk1 : forall k, pr_skip (pt_get t1 k) = pr_skip (pt_get t k)).
  { intros k. unfold t1. rewrite pt_get_set. destruct (k =? s) eqn:E; [apply N.eqb_eq in E; subst; reflexivity | reflexivity]. }
  assert (Rd1 : forall w', pt_parents_ready t1 w' = pt_parents_ready t w').
  { intros w'. rewrite !ready_of_get. unfold t1. rewrite pt_get_set. destruct (w' =? s) eqn:E; [apply N.eqb_eq in E; subst; reflexivity | reflexivity]. }
  destruct (M sb) as [_ En]. rewrite En in Hnf.
  assert (Hch1 : forall k, sb < k < w -> pr_skip (pt_get t1 k) = true).
  { intros k Hk. destruct (M k) as [E _]. rewrite <- E. apply Hchain. exact Hk. }
  unfold t1 in Hnf. rewrite pt_get_set in Hnf. destruct (sb =? s) eqn:Es.
  - apply N.eqb_eq in Es. subst sb. cbn [pr_nfs] in Hnf. apply in_app_or in Hnf. destruct Hnf as [Hold|[<-|[]]].
    + apply G. rewrite Rd1. apply C; auto.
      * rewrite R in Hr. exact Hr.
      * intros k Hk. rewrite <- Sk1. apply Hch1. exact Hk.
    + apply (P w); [lia | exact Hws | intros k Hk; apply Hch1; lia | left; reflexivity].
  - apply G. rewrite Rd1. apply C; auto.
    + rewrite R in Hr. exact Hr.
    + intros k Hk. rewrite <- Sk1. apply Hch1. exact Hk.
Qed.

(* ---------- a slot becomes skipped ---------- *)
Lemma collect_mono t m : forall l acc x, In x acc -> In x (pt_collect t m l acc).
Proof.
  induction l as [|s l IH]; intros acc x Hx; cbn [pt_collect]; [exact Hx|].
  destruct (negb (pr_skip (pt_get t s))).
  - destruct (s =? m); [exact Hx | apply in_or_app; left; exact Hx].
  - apply IH. apply in_or_app. left. destruct (s =? m); [exact Hx | apply in_or_app; left; exact Hx].
Qed.

Fixpoint desc (l : list N) : Prop := match l with [] => True | a :: t => (forall b, In b t -> b < a) /\ desc t end.
Fixpoint asc (l : list N) : Prop := match l with [] => True | a :: t => (forall b, In b t -> a < b) /\ asc t end.
Lemma asc_seqN lo len : asc (seqN lo len).
Proof.
  unfold seqN. generalize 0%nat. induction len as [|n IH]; intros st; cbn [seq map asc]; [exact I|].
  split; [|apply IH]. intros b Hb. apply in_map_iff in Hb. destruct Hb as [i [<- Hi]]. apply in_seq in Hi. lia.
Qed.
Lemma asc_filter f l : asc l -> asc (filter f l).
Proof.
  induction l as [|a l IH]; cbn [filter asc]; [auto|]. intros [H1 H2].
  destruct (f a); cbn [asc]; [split; [|apply IH; exact H2] | apply IH; exact H2].
  intros b Hb. apply filter_In in Hb. apply H1. apply Hb.
Qed.
Lemma desc_snoc l a : desc l -> (forall b, In b l -> a < b) -> desc (l ++ [a]).
Proof.
  induction l as [|x l IH]; cbn [app desc]; intros D H; [split; [intros b []|exact I]|].
  destruct D as [D1 D2]. split; [|apply IH; [exact D2 | intros b Hb; apply H; right; exact Hb]].
  intros b Hb. apply in_app_or in Hb. destruct Hb as [Hb|[<-|[]]]; [apply D1; exact Hb | apply H; left; reflexivity].
Qed.
Lemma asc_rev_desc l : asc l -> desc (rev l).
Proof.
  induction l as [|a l IH]; cbn [rev asc]; [auto|]. intros [H1 H2].
  apply desc_snoc; [apply IH; exact H2|]. intros b Hb. apply in_rev in Hb. apply H1. exact Hb.
Qed.

(* walking down from the marked slot: a certified block below it, with every slot in between (and the marked
   slot) skipped, is collected; and so are the ready parents of the lowest slot if everything down to it is skipped *)
Lemma collect_block t m : forall l acc sb h,
  desc l -> In sb l -> sb <> m -> In h (pr_nfs (pt_get t sb)) ->
  (forall k, In k l -> sb < k -> pr_skip (pt_get t k) = true) ->
  In (sb, h) (pt_collect t m l acc).
Proof.
  induction l as [|a l IH]; intros acc sb h D Hin Hne Hnf Hsk; [destruct Hin|]. cbn [pt_collect].
  destruct D as [D1 D2]. destruct Hin as [->|Hin].
  - apply N.eqb_neq in Hne. rewrite Hne.
    assert (Hx : In (sb, h) (acc ++ map (fun h0 => (sb, h0)) (pr_nfs (pt_get t sb)))).
    { apply in_or_app. right. apply in_map_iff. exists h. auto. }
    destruct (negb (pr_skip (pt_get t sb))); [exact Hx|]. apply collect_mono. apply in_or_app. left. exact Hx.
  - assert (Ha : sb < a) by (apply D1; exact Hin).
    rewrite (Hsk a (or_introl eq_refl) Ha). cbn [negb].
    apply IH; auto. intros k Hk. apply Hsk. right. exact Hk.
Qed.
Lemma collect_ready t m : forall l acc lo x,
  desc l -> In lo l -> (forall k, In k l -> lo <= k) ->
  (forall k, In k l -> pr_skip (pt_get t k) = true) ->
  In x (pt_parents_ready t lo) -> In x (pt_collect t m l acc).
Proof.
  induction l as [|a l IH]; intros acc lo x D Hin Hlo Hsk Hx; [destruct Hin|]. cbn [pt_collect].
  destruct D as [D1 D2]. rewrite (Hsk a (or_introl eq_refl)). cbn [negb].
  destruct Hin as [->|Hin].
  - apply collect_mono. apply in_or_app. right. rewrite ready_of_get in Hx. exact Hx.
  - apply IH with (lo := lo); auto.
    + intros k Hk. apply Hlo. right. exact Hk.
    + intros k Hk. apply Hsk. right. exact Hk.
Qed.

Lemma window_first_spec s : window_first s <= s /\ s < window_first s + SLOTS_PER_WINDOW /\ is_window_start (window_first s) = true.
Proof.
  split; [apply window_first_le|]. split; [|apply window_first_is_start].
  unfold window_first. pose proof (N.mod_upper_bound s SLOTS_PER_WINDOW spw_nonzero).
  pose proof (N.div_mod s SLOTS_PER_WINDOW spw_nonzero). lia.
Qed.
(* a window start strictly above a slot is at or above the end of that slot's window *)
Lemma next_window_start s w : s < w -> is_window_start w = true -> window_first s + SLOTS_PER_WINDOW <= w.
Proof.
  intros Hlt Hw. unfold is_window_start in Hw. apply N.eqb_eq in Hw. unfold window_first.
  pose proof (N.div_mod w SLOTS_PER_WINDOW spw_nonzero) as Dw. pose proof (N.div_mod s SLOTS_PER_WINDOW spw_nonzero) as Ds.
  pose proof (N.mod_upper_bound s SLOTS_PER_WINDOW spw_nonzero) as Ms.
  assert (s / SLOTS_PER_WINDOW < w / SLOTS_PER_WINDOW) by nia. nia.
Qed.
Lemma window_start_le s w : w <= s -> is_window_start w = true -> w <= window_first s.
Proof.
  intros Hle Hw. unfold is_window_start in Hw. apply N.eqb_eq in Hw. unfold window_first.
  pose proof (N.div_mod w SLOTS_PER_WINDOW spw_nonzero) as Dw. pose proof (N.div_mod s SLOTS_PER_WINDOW spw_nonzero) as Ds.
  pose proof (N.mod_upper_bound s SLOTS_PER_WINDOW spw_nonzero) as Ms.
  assert (w / SLOTS_PER_WINDOW <= s / SLOTS_PER_WINDOW) by (apply N.div_le_mono; [exact spw_nonzero | exact Hle]). nia.
Qed.

Theorem mark_skipped_complete : forall t marked t' prs wk,
  pt_mark_skipped t marked = Some (t', prs, wk) -> ready_complete t -> ready_complete t'.
Proof.
  intros t m t' prs wk H C. unfold pt_mark_skipped in H.
  destruct (m <? pt_root t) eqn:Rm; [injection H as <- _ _; exact C|]. apply N.ltb_ge in Rm.
  destruct (pr_skip (pt_get t m)) eqn:Skm; [injection H as <- _ _; exact C|].
  set (st := pt_get t m) in *.
  set (t1 := pt_set t m (mkPR true (pr_nfs st) (pr_ready st) (pr_waiting st))) in *.
  set (wf := window_first m) in *.
  set (l := rev (filter (fun s => (s <=? m) && (pt_root t1 <=? s)) (seqN wf (N.to_nat SLOTS_PER_WINDOW)))) in *.
  destruct (propagate_spec _ _ _ _ _ _ _ _ _ H) as [(R & M & G) P].
  assert (Sk1 : forall k, pr_skip (pt_get t1 k) = if k =? m then true else pr_skip (pt_get t k)).
  { intros k. unfold t1. rewrite pt_get_set. destruct (k =? m); reflexivity. }
  assert (Nf1 : forall k, pr_nfs (pt_get t1 k) = pr_nfs (pt_get t k)).
  { intros k. unfold t1. rewrite pt_get_set. destruct (k =? m) eqn:E; [apply N.eqb_eq in E; subst; reflexivity | reflexivity]. }
  assert (Rd1 : forall w', pt_parents_ready t1 w' = pt_parents_ready t w').
  { intros w'. rewrite !ready_of_get. unfold t1. rewrite pt_get_set. destruct (w' =? m) eqn:E; [apply N.eqb_eq in E; subst; reflexivity | reflexivity]. }
  assert (Dl : desc l) by (apply asc_rev_desc; apply asc_filter; apply asc_seqN).
  assert (Inl : forall k, In k l <-> wf <= k <= m /\ pt_root t <= k).
  { intros k. unfold l. rewrite <- in_rev, filter_In, in_seqN. destruct (window_first_spec m) as (W1 & W2 & _). fold wf in W1, W2.
    change (pt_root t1) with (pt_root t). split.
    - intros [A B]. apply andb_prop in B. destruct B as [B1 B2]. apply N.leb_le in B1. apply N.leb_le in B2. lia.
    - intros [A B]. split; [lia|]. apply andb_true_intro. split; apply N.leb_le; lia. }
  intros sb hb w Hr Hlt Hws Hnf Hchain.
  rewrite R in Hr. change (pt_root t1) with (pt_root t) in Hr.
  destruct (M sb) as [_ En]. rewrite En, Nf1 in Hnf.
  assert (Hch1 : forall k, sb < k < w -> pr_skip (pt_get t1 k) = true).
  { intros k Hk. destruct (M k) as [E _]. rewrite <- E. apply Hchain. exact Hk. }
  destruct (N.lt_ge_cases sb m) as [Hsm|Hsm]; [destruct (N.lt_ge_cases m w) as [Hmw|Hmw]|].
  - (* the newly skipped slot lies strictly inside the chain *)
    destruct (window_first_spec m) as (W1 & W2 & W3). fold wf in W1, W2, W3.
    assert (Hp : In (sb, hb) (pt_collect t1 m l [])).
    { destruct (N.lt_ge_cases sb wf) as [Hlow|Hin].
      - (* the block lies in an earlier window: it is a ready parent of this window's first slot *)
        apply (collect_ready t1 m l [] wf); auto.
        + apply Inl. lia.
        + intros k Hk. apply Inl in Hk. lia.
        + intros k Hk. apply Inl in Hk. apply Hch1. lia.
        + rewrite Rd1. apply C; auto.
          intros k Hk. specialize (Hch1 k). rewrite Sk1 in Hch1. assert ((k =? m) = false) by (apply N.eqb_neq; lia).
          rewrite H0 in Hch1. apply Hch1. lia.
      - apply (collect_block t1 m l [] sb hb); auto.
        + apply Inl. lia.
        + lia.
        + rewrite Nf1. exact Hnf.
        + intros k Hk Hgt. apply Inl in Hk. apply Hch1. lia. }
    apply (P w); auto; [lia|]. intros k Hk. apply Hch1. lia.
  - (* the skipped slot is at or above w: the chain was complete before *)
    apply G. rewrite Rd1. apply C; auto.
    intros k Hk. specialize (Hch1 k Hk). rewrite Sk1 in Hch1. assert ((k =? m) = false) by (apply N.eqb_neq; lia).
    rewrite H0 in Hch1. exact Hch1.
  - (* the skipped slot is at or below the block *)
    apply G. rewrite Rd1. apply C; auto.
    intros k Hk. specialize (Hch1 k Hk). rewrite Sk1 in Hch1. assert ((k =? m) = false) by (apply N.eqb_neq; lia).
    rewrite H0 in Hch1. exact Hch1.
Qed.

(* ---------- finalization handling, pruning, waiters, the initial state ---------- *)
Definition fin_step (r : ptres) (f : prtracker -> ptres) : ptres :=
  match r with
  | None => None
  | Some (t', acc, wk) => match f t' with None => None | Some (t'', a, w) => Some (t'', acc ++ a, wk ++ w) end
  end.

Definition hf_r3 (t : prtracker) (ev : fin_event) : ptres :=
  fold_left (fun r s => fin_step r (fun t' => pt_mark_skipped t' s)) (fe_impl_skipped ev)
    (fold_left (fun r b => fin_step r (fun t' => pt_mark_notar_fallback t' b)) (fe_impl_final ev)
       (match fe_final ev with
        | Some b => fin_step (Some (t, [], [])) (fun t' => pt_mark_notar_fallback t' b)
        | None => Some (t, [], [])
        end)).
Lemma hf_unfold t ev :
  pt_handle_finalization t ev =
  match hf_r3 t ev with
  | None => None
  | Some (t', acc, wk) =>
    Some (t', match fold_left (fun (b : option (slot * blockid)) x =>
                                 match b with None => Some x | Some y => if fst y <=? fst x then Some x else Some y end) acc None
              with Some x => [x] | None => [] end, wk)
  end.
Proof. reflexivity. Qed.

(* any property of the tracker kept by the two marking operations is kept by finalization handling *)
Lemma hf_preserves (Q : prtracker -> Prop) :
  (forall b t0 t1 a w, pt_mark_notar_fallback t0 b = Some (t1, a, w) -> Q t0 -> Q t1) ->
  (forall s t0 t1 a w, pt_mark_skipped t0 s = Some (t1, a, w) -> Q t0 -> Q t1) ->
  forall t ev t' prs wk, pt_handle_finalization t ev = Some (t', prs, wk) -> Q t -> Q t'.
Proof.
  intros Fn Fs t ev t' prs wk H Qt. rewrite hf_unfold in H.
  assert (S : forall (r : ptres) f, (forall t0 t1 a w, f t0 = Some (t1, a, w) -> Q t0 -> Q t1) ->
             (forall tt a w, r = Some (tt, a, w) -> Q tt) ->
             forall tt a w, fin_step r f = Some (tt, a, w) -> Q tt).
  { intros r f Hf Hr tt a w E. unfold fin_step in E. destruct r as [[[t0 a0] w0]|]; [|discriminate].
    destruct (f t0) as [[[t1 a1] w1]|] eqn:F; [|discriminate]. injection E as <- _ _.
    apply (Hf _ _ _ _ F). apply (Hr _ _ _ eq_refl). }
  assert (H3 : forall tt a w, hf_r3 t ev = Some (tt, a, w) -> Q tt).
  { unfold hf_r3.
    assert (H1 : forall tt a w, (match fe_final ev with
        | Some b => fin_step (Some (t, [], [])) (fun t' => pt_mark_notar_fallback t' b)
        | None => Some (t, [], []) end) = Some (tt, a, w) -> Q tt).
    { destruct (fe_final ev) as [b|].
      - apply (S _ _ (Fn b)). intros tt a w E. injection E as <- _ _. exact Qt.
      - intros tt a w E. injection E as <- _ _. exact Qt. }
    revert H1. generalize (match fe_final ev with
        | Some b => fin_step (Some (t, [], [])) (fun t' => pt_mark_notar_fallback t' b)
        | None => Some (t, [], []) end). intros r1 H1.
    assert (H2 : forall tt a w, fold_left (fun r b => fin_step r (fun t' => pt_mark_notar_fallback t' b)) (fe_impl_final ev) r1 = Some (tt, a, w) -> Q tt).
    { revert r1 H1. induction (fe_impl_final ev) as [|b l IH]; intros r1 H1; cbn [fold_left]; [exact H1|].
      apply IH. apply (S _ _ (Fn b)). exact H1. }
    revert H2. generalize (fold_left (fun r b => fin_step r (fun t' => pt_mark_notar_fallback t' b)) (fe_impl_final ev) r1). intros r2 H2.
    revert r2 H2. induction (fe_impl_skipped ev) as [|b l IH]; intros r2 H2; cbn [fold_left]; [exact H2|].
    apply IH. apply (S _ _ (Fs b)). exact H2. }
  destruct (hf_r3 t ev) as [[[t3 a3] w3]|] eqn:E3; [|discriminate]. injection H as <- _ _. apply (H3 _ _ _ eq_refl).
Qed.

Theorem handle_finalization_complete : forall t ev t' prs wk,
  pt_handle_finalization t ev = Some (t', prs, wk) -> ready_complete t -> ready_complete t'.
Proof.
  apply (hf_preserves ready_complete).
  - intros b t0 t1 a w E. apply (mark_nf_complete _ _ _ _ _ E).
  - intros s t0 t1 a w E. apply (mark_skipped_complete _ _ _ _ _ E).
Qed.

Lemma mark_nf_root b t0 t1 a w : pt_mark_notar_fallback t0 b = Some (t1, a, w) -> pt_root t1 = pt_root t0.
Proof.
  destruct b as [s h]. intros E. unfold pt_mark_notar_fallback in E.
  destruct (s <? pt_root t0); [injection E as <- _ _; reflexivity|].
  destruct (memN h (pr_nfs (pt_get t0 s))); [injection E as <- _ _; reflexivity|].
  destruct (propagate_spec _ _ _ _ _ _ _ _ _ E) as [(R & _) _]. exact R.
Qed.
Lemma mark_skipped_root s t0 t1 a w : pt_mark_skipped t0 s = Some (t1, a, w) -> pt_root t1 = pt_root t0.
Proof.
  intros E. unfold pt_mark_skipped in E.
  destruct (s <? pt_root t0); [injection E as <- _ _; reflexivity|].
  destruct (pr_skip (pt_get t0 s)); [injection E as <- _ _; reflexivity|].
  destruct (propagate_spec _ _ _ _ _ _ _ _ _ E) as [(R & _) _]. exact R.
Qed.
Lemma handle_finalization_root t ev t' prs wk : pt_handle_finalization t ev = Some (t', prs, wk) -> pt_root t' = pt_root t.
Proof.
  intros H. apply (hf_preserves (fun x => pt_root x = pt_root t)) with (t := t) (ev := ev) (prs := prs) (wk := wk); auto.
  - intros b t0 t1 a w E Q. rewrite (mark_nf_root _ _ _ _ _ E). exact Q.
  - intros s t0 t1 a w E Q. rewrite (mark_skipped_root _ _ _ _ _ E). exact Q.
Qed.

Theorem prune_complete : forall t r, pt_root t <= r -> ready_complete t -> ready_complete (pt_prune t r).
Proof.
  intros t r Hr C sb h w Hroot Hlt Hws Hnf Hchain. cbn [pt_prune pt_root] in Hroot.
  assert (G : forall k, r <= k -> pt_get (pt_prune t r) k = pt_get t k).
  { intros k Hk. unfold pt_get, pt_prune, aget. cbn [pt_states].
    rewrite (alookup_filter_key (fun x => r <=? x)). apply N.leb_le in Hk. rewrite Hk. reflexivity. }
  rewrite ready_of_get, G by lia. rewrite <- ready_of_get. apply C; auto; [lia | rewrite <- G by lia; exact Hnf|].
  intros k Hk. rewrite <- G by lia. apply Hchain. exact Hk.
Qed.

Lemma in_bid_insert x y l : In x (bid_insert_sorted y l) <-> x = y \/ In x l.
Proof.
  induction l as [|z l IH]; cbn [bid_insert_sorted]; [cbn; intuition congruence|].
  destruct (bid_ltb z y); cbn [In]; [rewrite IH|]; intuition congruence.
Qed.
Lemma in_bid_sort x l : In x (bid_sort l) <-> In x l.
Proof.
  unfold bid_sort. induction l as [|z l IH]; cbn [fold_right]; [tauto|]. rewrite in_bid_insert, IH. cbn. intuition congruence.
Qed.
Theorem wait_complete : forall t s t' r, pt_wait t s = Some (t', r) -> ready_complete t -> ready_complete t'.
Proof.
  intros t s t' r H C. unfold pt_wait in H.
  assert (Hs : forall st', pr_skip st' = pr_skip (pt_get t s) -> pr_nfs st' = pr_nfs (pt_get t s) ->
             (forall x, In x (match pr_ready (pt_get t s) with Some ids => ids | None => [] end) ->
                        In x (match pr_ready st' with Some ids => ids | None => [] end)) ->
             ready_complete (pt_set t s st')).
  { intros st' E1 E2 E3. apply (complete_same_marks t); [|exact C]. split; [reflexivity|]. split.
    - intros k. rewrite pt_get_set. destruct (k =? s) eqn:E; [apply N.eqb_eq in E; subst; auto | auto].
    - intros w x Hx. rewrite ready_of_get in *. rewrite pt_get_set. destruct (w =? s) eqn:E; [apply N.eqb_eq in E; subst; apply E3; exact Hx | exact Hx]. }
  destruct (pr_ready (pt_get t s)) as [ids|] eqn:Rd.
  - injection H as <- _. apply Hs; auto. cbn [pr_ready]. intros x Hx. apply in_bid_sort. exact Hx.
  - destruct (pr_waiting (pt_get t s)); [discriminate|]. injection H as <- _. apply Hs; auto.
Qed.

Lemma init_complete : ready_complete pt_init.
Proof.
  intros sb h w Hr Hlt Hws Hnf Hchain. exfalso.
  (* only genesis is marked; no slot is skipped, and a window start above genesis leaves room for slot sb+1 *)
  assert (Hsb : sb = 0).
  { destruct (N.eq_dec sb 0) as [E|E]; [exact E|]. exfalso. unfold pt_get, pt_init, aget in Hnf. cbn [pt_states alookup] in Hnf.
    apply N.eqb_neq in E. rewrite E in Hnf. destruct Hnf. }
  subst sb. assert (Hw : 1 < w).
  { unfold is_window_start in Hws. apply N.eqb_eq in Hws. pose proof (N.div_mod w SLOTS_PER_WINDOW spw_nonzero) as Hd.
    assert (Hs : 1 < SLOTS_PER_WINDOW) by (vm_compute; reflexivity). rewrite Hws in Hd.
    set (q := w / SLOTS_PER_WINDOW) in *. assert (q <> 0) by (intros E; rewrite E in Hd; lia).
    assert (SLOTS_PER_WINDOW * 1 <= SLOTS_PER_WINDOW * q) by (apply N.mul_le_mono_l; lia). lia. }
  specialize (Hchain 1 ltac:(lia)). unfold pt_get, pt_init, aget in Hchain. cbn in Hchain. discriminate.
Qed.

(* ---------- lifting to the pool ---------- *)
Definition pool_ready_complete (p : pool) : Prop := ready_complete (p_prt p) /\ pt_root (p_prt p) <= first_unpruned p.

Lemma handle_finalization_prt p ev p' o :
  pool_handle_finalization p ev = Some (p', o) -> pt_root (p_prt p) <= first_unpruned p -> ready_complete (p_prt p) -> pool_ready_complete p'.
Proof.
  unfold pool_handle_finalization. destruct (pt_handle_finalization (p_prt p) ev) as [[[t prs] wk]|] eqn:HF; [|discriminate].
  intros H Hr C. injection H as <- _. unfold pool_ready_complete, pool_prune. cbn [p_prt p_ft first_unpruned pt_prune pt_root].
  split; [|unfold first_unpruned; cbn; lia].
  apply prune_complete; [|apply (handle_finalization_complete _ _ _ _ _ HF C)].
  rewrite (handle_finalization_root _ _ _ _ _ HF). exact Hr.
Qed.

Lemma prc_same p p' : p_prt p' = p_prt p -> p_ft p' = p_ft p -> pool_ready_complete p -> pool_ready_complete p'.
Proof. intros E1 E2 [C R]. unfold pool_ready_complete, first_unpruned in *. rewrite E1, E2. auto. Qed.
Lemma prc_ft p t : ft_mono (p_ft p) t -> pool_ready_complete p -> pool_ready_complete (pool_with_ft p t).
Proof. intros [M _] [C R]. unfold pool_ready_complete, first_unpruned in *. cbn [p_prt p_ft pool_with_ft]. split; [exact C | lia]. Qed.

Lemma notify_children_same e : forall children p acc p' o,
  notify_children e p children acc = Some (p', o) -> p_prt p' = p_prt p /\ p_ft p' = p_ft p.
Proof.
  unfold notify_children.
  induction children as [|[cs ch] l IH]; intros p acc p' o H; cbn [notify_children_gen andb] in H.
  - injection H as <- _. auto.
  - destruct (cs <? first_unpruned p); [exact (IH _ _ _ _ H)|].
    destruct (notify_parent_certified e cs (p_ss (p_touch p cs) cs) ch) as [[[ss' evs] rps]|]; [|discriminate].
    apply IH in H. destruct H as [H1 H2]. rewrite H1, H2. cbn [p_set_ss p_prt p_ft].
    unfold p_touch. destruct (alookup cs (p_slots p)); auto.
Qed.
Lemma notify_waiting_same e p b p' o : notify_waiting_children e p b = Some (p', o) -> p_prt p' = p_prt p /\ p_ft p' = p_ft p.
Proof. unfold notify_waiting_children, notify_waiting_children_gen. intros H. apply notify_children_same in H. exact H. Qed.
Lemma touch_same p s : p_prt (p_touch p s) = p_prt p /\ p_ft (p_touch p s) = p_ft p.
Proof. unfold p_touch. destruct (alookup s (p_slots p)); auto. Qed.

Lemma prc_mark_nf p b t prs wk : pt_mark_notar_fallback (p_prt p) b = Some (t, prs, wk) ->
  pool_ready_complete p -> pool_ready_complete (pool_with_prt p t).
Proof.
  intros E [C R]. unfold pool_ready_complete, first_unpruned in *. cbn [p_prt p_ft pool_with_prt].
  split; [apply (mark_nf_complete _ _ _ _ _ E C) | rewrite (mark_nf_root _ _ _ _ _ E); exact R].
Qed.
Lemma prc_mark_skipped p s t prs wk : pt_mark_skipped (p_prt p) s = Some (t, prs, wk) ->
  pool_ready_complete p -> pool_ready_complete (pool_with_prt p t).
Proof.
  intros E [C R]. unfold pool_ready_complete, first_unpruned in *. cbn [p_prt p_ft pool_with_prt].
  split; [apply (mark_skipped_complete _ _ _ _ _ E C) | rewrite (mark_skipped_root _ _ _ _ _ E); exact R].
Qed.
Lemma prc_finalization p t ev p' o : ft_mono (p_ft p) t ->
  pool_handle_finalization (pool_with_ft p t) ev = Some (p', o) -> pool_ready_complete p -> pool_ready_complete p'.
Proof.
  intros M H PC. destruct (prc_ft p t M PC) as [C R]. apply (handle_finalization_prt _ _ _ _ H R C).
Qed.

Theorem add_valid_cert_ready : forall e p c p' o,
  add_valid_cert e p c = Some (p', o) -> pool_ready_complete p -> pool_ready_complete p'.
Proof.
  intros e p c p' o H PC. unfold add_valid_cert in H.
  set (s := c_slot c) in *. set (p0 := p_set_ss p s (ss_add_cert (p_ss p s) c)) in *.
  assert (P0 : pool_ready_complete p0) by (apply (prc_same p); auto).
  destruct (c_kind c) as [h|h| |h|].
  - destruct (ft_mark_notarized (p_ft p0) (s, h)) as [[t ev]|] eqn:MN; [|discriminate].
    destruct (pool_handle_finalization (pool_with_ft p0 t) ev) as [[p1 o1]|] eqn:HF; [|discriminate].
    destruct (notify_waiting_children e p1 (s, h)) as [[p2 o2]|] eqn:NW; [|discriminate].
    destruct (pt_mark_notar_fallback (p_prt p2) (s, h)) as [[[t2 prs] wk]|] eqn:MF; [|discriminate].
    injection H as <- _.
    pose proof (prc_finalization p0 t ev p1 o1 (ft_mark_notarized_mono _ _ _ _ MN) HF P0) as P1.
    destruct (notify_waiting_same _ _ _ _ _ NW) as [E1 E2].
    apply (prc_mark_nf p2 _ _ _ _ MF). apply (prc_same p1); auto.
  - destruct (notify_waiting_children e p0 (s, h)) as [[p2 o2]|] eqn:NW; [|discriminate].
    destruct (pt_mark_notar_fallback (p_prt p2) (s, h)) as [[[t2 prs] wk]|] eqn:MF; [|discriminate].
    injection H as <- _. destruct (notify_waiting_same _ _ _ _ _ NW) as [E1 E2].
    apply (prc_mark_nf p2 _ _ _ _ MF). apply (prc_same p0); auto.
  - destruct (pt_mark_skipped (p_prt p0) s) as [[[t2 prs] wk]|] eqn:MS; [|discriminate].
    injection H as <- _. apply (prc_mark_skipped p0 _ _ _ _ MS P0).
  - destruct (ft_mark_fast_finalized (p_ft p0) (s, h)) as [[t ev]|] eqn:MN; [|discriminate].
    destruct (pool_handle_finalization (pool_with_ft p0 t) ev) as [[p1 o1]|] eqn:HF; [|discriminate].
    destruct (notify_waiting_children e p1 (s, h)) as [[p2 o2]|] eqn:NW; [|discriminate].
    injection H as <- _.
    pose proof (prc_finalization p0 t ev p1 o1 (ft_mark_fast_finalized_mono _ _ _ _ MN) HF P0) as P1.
    destruct (notify_waiting_same _ _ _ _ _ NW) as [E1 E2]. apply (prc_same p1); auto.
  - destruct (ft_mark_finalized (p_ft p0) s) as [[t ev]|] eqn:MN; [|discriminate].
    destruct (pool_handle_finalization (pool_with_ft p0 t) ev) as [[p1 o1]|] eqn:HF; [|discriminate].
    injection H as <- _.
    apply (prc_finalization p0 t ev p1 o1 (ft_mark_finalized_mono _ _ _ _ MN) HF P0).
Qed.

Lemma add_certs_ready e : forall cs p acc p' o, add_certs e p cs acc = Some (p', o) -> pool_ready_complete p -> pool_ready_complete p'.
Proof.
  induction cs as [|oc l IH]; intros p acc p' o H PC; cbn [add_certs] in H.
  - injection H as <- _. exact PC.
  - destruct oc as [c|]; [|discriminate]. destruct (add_valid_cert e p c) as [[p1 o1]|] eqn:AV; [|discriminate].
    apply (IH _ _ _ _ H). apply (add_valid_cert_ready _ _ _ _ _ AV PC).
Qed.

(* P3 for the pool: the invariant holds in every pool state reachable without a panic *)
Theorem pool_step_ready : forall e p op,
  pool_ready_complete p -> p_panicked (fst (fst (pool_step e p op))) = false ->
  pool_ready_complete (fst (fst (pool_step e p op))).
Proof.
  intros e p op PC. unfold pool_step. destruct (p_panicked p) eqn:Pp; [cbn; intros; congruence|].
  destruct op as [vt|c|b par| |s|].
  - unfold pool_add_vote, pool_add_vote_gen.
    destruct (out_of_bounds p (v_slot vt)); [cbn; auto|].
    destruct (touch_same p (v_slot vt)) as [T1 T2].
    assert (P0 : pool_ready_complete (p_touch p (v_slot vt))) by (apply (prc_same p); auto).
    destruct (check_slashable _ vt); [cbn; auto|]. destruct (should_ignore _ vt); [cbn; auto|].
    destruct (ss_add_vote_gen true e _ vt) as [ss' out].
    destruct (add_certs e _ (o_certs out) po_empty) as [[p2 o]|] eqn:AC; [|cbn; intros; congruence].
    cbn. intros _. apply (add_certs_ready _ _ _ _ _ _ AC). apply (prc_same (p_touch p (v_slot vt))); auto.
  - unfold pool_add_cert.
    destruct (out_of_bounds p (c_slot c)); [cbn; auto|].
    destruct (touch_same p (c_slot c)) as [T1 T2].
    assert (P0 : pool_ready_complete (p_touch p (c_slot c))) by (apply (prc_same p); auto).
    destruct (cert_duplicate _ c); [cbn; auto|].
    destruct (add_valid_cert e _ c) as [[p1 o]|] eqn:AV; [|cbn; intros; congruence].
    cbn. intros _. apply (add_valid_cert_ready _ _ _ _ _ AV P0).
  - unfold pool_add_block, pool_add_block_gen.
    destruct (negb (fst par <? fst b)); [cbn; intros; congruence|].
    destruct (fst b <? first_unpruned p); [cbn; auto|].
    destruct (ft_add_parent (p_ft p) b par) as [[t ev]|] eqn:AP; [|cbn; intros; congruence].
    destruct (pool_handle_finalization (pool_with_ft p t) ev) as [[p1 o1]|] eqn:HF; [|cbn; intros; congruence].
    pose proof (prc_finalization p t ev p1 o1 (ft_add_parent_mono _ _ _ _ _ AP) HF PC) as P1.
    destruct (fst b <? first_unpruned p1); [cbn; auto|].
    set (p2 := p_set_ss p1 (fst b) (notify_parent_known (p_ss p1 (fst b)) (snd b))).
    assert (P2 : pool_ready_complete p2) by (apply (prc_same p1); auto).
    match goal with |- context [if ?c then _ else _] => destruct c end.
    + destruct (notify_parent_certified e (fst b) (p_ss p2 (fst b)) (snd b)) as [[[ss' evs] rps]|]; [|cbn; intros; congruence].
      destruct evs; destruct rps; cbn [fst]; intros _; apply (prc_same p2); auto.
    + cbn. intros _. apply (prc_same p2); auto.
  - unfold pool_standstill, pool_standstill_gen.
    destruct (get_final_certs p (finalized_slot p)); [destruct (true && (finalized_slot p =? 0))|]; cbn; intros; try congruence; exact PC.
  - unfold pool_wait. destruct (pt_wait (p_prt p) s) as [[t r]|] eqn:W; cbn; intros; try congruence.
    destruct PC as [C R]. unfold pool_ready_complete, first_unpruned in *. cbn [p_prt p_ft pool_with_prt].
    split; [apply (wait_complete _ _ _ _ W C)|].
    assert (Rt : pt_root t = pt_root (p_prt p)).
    { unfold pt_wait in W. destruct (pr_ready (pt_get (p_prt p) s)); [injection W as <- _; reflexivity|].
      destruct (pr_waiting (pt_get (p_prt p) s)); [discriminate | injection W as <- _; reflexivity]. }
    rewrite Rt. exact R.
  - cbn. auto.
Qed.

Lemma pool_init_ready : pool_ready_complete pool_init.
Proof. split; [apply init_complete | cbn; lia]. Qed.

Theorem pool_run_ready : forall e ops p,
  pool_ready_complete p -> p_panicked (pool_run e p ops) = false -> pool_ready_complete (pool_run e p ops).
Proof.
  intros e ops. induction ops as [|op l IH]; intros p PC Hp; cbn [pool_run] in *; [exact PC|].
  apply IH; [|exact Hp]. apply pool_step_ready; [exact PC|].
  destruct (p_panicked (fst (fst (pool_step e p op)))) eqn:E; [|reflexivity].
  rewrite (panicked_sticky e l _ E) in Hp. discriminate.
Qed.

(* the statement exported as C02_parent_ready_chain *)
Definition parent_ready_chain_statement : Prop :=
  forall e p sb h w,
    pool_reachable e p -> p_panicked p = false ->
    pt_root (p_prt p) <= sb -> sb < w -> is_window_start w = true ->
    In h (pr_nfs (pt_get (p_prt p) sb)) ->                               (* block (sb, h) marked notarized(-fallback) / finalized *)
    (forall k, sb < k < w -> pr_skip (pt_get (p_prt p) k) = true) ->     (* every slot in between marked skipped *)
    In (sb, h) (pt_parents_ready (p_prt p) w).                           (* => it is a ready parent of window w *)

Theorem parent_ready_chain : parent_ready_chain_statement.
Proof.
  intros e p sb h w [ops ->] Hp. destruct (pool_run_ready e ops pool_init pool_init_ready Hp) as [C _]. apply C.
Qed.

(* ---------- certificates set the marks (at the step that adds them) ---------- *)
Lemma mark_nf_marks t s h t' prs wk :
  pt_mark_notar_fallback t (s, h) = Some (t', prs, wk) -> pt_root t <= s -> In h (pr_nfs (pt_get t' s)).
Proof.
  unfold pt_mark_notar_fallback. intros H Hr. apply N.ltb_ge in Hr. rewrite Hr in H.
  destruct (memN h (pr_nfs (pt_get t s))) eqn:Mem; [injection H as <- _ _; apply memN_true; exact Mem|].
  destruct (propagate_spec _ _ _ _ _ _ _ _ _ H) as [(_ & M & _) _]. destruct (M s) as [_ E]. rewrite E.
  rewrite pt_get_set, N.eqb_refl. cbn [pr_nfs]. apply in_or_app. right. left. reflexivity.
Qed.
Lemma mark_skipped_marks t s t' prs wk :
  pt_mark_skipped t s = Some (t', prs, wk) -> pt_root t <= s -> pr_skip (pt_get t' s) = true.
Proof.
  unfold pt_mark_skipped. intros H Hr. apply N.ltb_ge in Hr. rewrite Hr in H.
  destruct (pr_skip (pt_get t s)) eqn:Sk; [injection H as <- _ _; exact Sk|].
  destruct (propagate_spec _ _ _ _ _ _ _ _ _ H) as [(_ & M & _) _]. destruct (M s) as [E _]. rewrite E.
  rewrite pt_get_set, N.eqb_refl. reflexivity.
Qed.

(* a notarization / notar-fallback certificate entering the pool marks its block, a skip certificate its slot
   (for slots at or above the tracker's root) *)
Theorem cert_sets_mark : forall e p c p' o,
  add_valid_cert e p c = Some (p', o) -> pt_root (p_prt p') <= c_slot c ->
  match c_kind c with
  | CNotar h | CNotarFb h => In h (pr_nfs (pt_get (p_prt p') (c_slot c)))
  | CSkip => pr_skip (pt_get (p_prt p') (c_slot c)) = true
  | _ => True
  end.
Proof.
  intros e p c p' o H Hr. unfold add_valid_cert in H.
  set (s := c_slot c) in *. set (p0 := p_set_ss p s (ss_add_cert (p_ss p s) c)) in *.
  destruct (c_kind c) as [h|h| |h|]; [| | |exact I|exact I].
  - destruct (ft_mark_notarized (p_ft p0) (s, h)) as [[t ev]|]; [|discriminate].
    destruct (pool_handle_finalization (pool_with_ft p0 t) ev) as [[p1 o1]|]; [|discriminate].
    destruct (notify_waiting_children e p1 (s, h)) as [[p2 o2]|]; [|discriminate].
    destruct (pt_mark_notar_fallback (p_prt p2) (s, h)) as [[[t2 prs] wk]|] eqn:MF; [|discriminate].
    injection H as <- _. cbn [p_prt pool_with_prt] in *. rewrite (mark_nf_root _ _ _ _ _ MF) in Hr.
    apply (mark_nf_marks _ _ _ _ _ _ MF Hr).
  - destruct (notify_waiting_children e p0 (s, h)) as [[p2 o2]|]; [|discriminate].
    destruct (pt_mark_notar_fallback (p_prt p2) (s, h)) as [[[t2 prs] wk]|] eqn:MF; [|discriminate].
    injection H as <- _. cbn [p_prt pool_with_prt] in *. rewrite (mark_nf_root _ _ _ _ _ MF) in Hr.
    apply (mark_nf_marks _ _ _ _ _ _ MF Hr).
  - destruct (pt_mark_skipped (p_prt p0) s) as [[[t2 prs] wk]|] eqn:MS; [|discriminate].
    injection H as <- _. cbn [p_prt pool_with_prt] in *. rewrite (mark_skipped_root _ _ _ _ _ MS) in Hr.
    apply (mark_skipped_marks _ _ _ _ _ MS Hr).
Qed.
