(* C10: Votor with u64 slot arithmetic (Model/Node64.v).
   Current tree: no u64 overflow is reachable - votor_step64 is votor_step, every slot try_skip_window touches fits
   u64 for every u64 input, so Votor never panics for any event sequence whose ParentReady events name window starts,
   including every slot up to 2^64-1.
   Pinned tree: exactly one more way to panic - try_skip_window on the last leader window of the u64 range. *)
From Coq Require Import List NArith ZArith Bool Lia ZifyBool ZifyN.
From AG Require Import Gen.Params Model.Pool Model.Votor Model.Node64 Proofs.NoPanicBlockstore Proofs.NoPanicVotor.
Import ListNotations.
Open Scope N_scope.

(* ---------------- current tree ---------------- *)
Theorem votor_step64_is_votor_step : forall own t i, votor_step64 own t i = votor_step own t i.
Proof.
  intros own t i. unfold votor_step64, votor_step64_gen. destruct (vt_panicked t) eqn:P; [unfold votor_step; rewrite P; reflexivity|].
  destruct (skip_window_target t i); reflexivity.
Qed.

(* the slots the fixed Slot::slots_in_window yields (start + 0 .. start + SLOTS_PER_WINDOW - 1) fit u64 for every u64 slot *)
Module U64Arith.
  Ltac Zify.zify_post_hook ::= Z.div_mod_to_equations.
  Lemma window_slots_fit_u64 s s' : s <= U64_MAX -> In s' (seqN (window_first s) (N.to_nat SLOTS_PER_WINDOW)) -> s' <= U64_MAX.
  Proof.
    intros Hs Hin. apply seqN_in in Hin. unfold window_first, U64_MAX in *. change SLOTS_PER_WINDOW with 4 in *.
    change (N.of_nat (N.to_nat 4)) with 4 in Hin. lia.
  Qed.
  Lemma window_first_fits s : s <= U64_MAX -> window_first s <= U64_MAX.
  Proof. intros Hs. unfold window_first, U64_MAX in *. change SLOTS_PER_WINDOW with 4. lia. Qed.
End U64Arith.
Export U64Arith.

Definition votor_run64 (own : vidx) (ins : list vin) : votor :=
  fold_left (fun t i => fst (fst (votor_step64 own t i))) ins votor_init.

Lemma votor_run64_is_votor_run own ins : votor_run64 own ins = votor_run own ins.
Proof.
  unfold votor_run64, votor_run. generalize votor_init. induction ins as [|i ins IH]; intros t; cbn [fold_left]; [reflexivity|].
  rewrite votor_step64_is_votor_step. apply IH.
Qed.

(* every event sequence - any slots up to 2^64-1 - whose ParentReady events name window starts *)
Theorem votor64_never_panics : forall own ins,
  forallb parent_ready_on_window_start ins = true ->
  vt_panicked (votor_run64 own ins) = false.
Proof. intros own ins H. rewrite votor_run64_is_votor_run. apply votor_never_panics, H. Qed.

Theorem votor_step64_panics_iff : forall own t i, vinv t -> vt_panicked t = false ->
  snd (votor_step64 own t i) = bad_parent_ready t i.
Proof. intros own t i I P. rewrite votor_step64_is_votor_step. apply (votor_step_panics_iff own t i I P). Qed.

(* ---------------- pinned tree ---------------- *)
Theorem votor_step64_pinned_agrees : forall own t i,
  (forall s, skip_window_target t i = Some s -> window_overflows s = false) ->
  votor_step64_pinned own t i = votor_step own t i.
Proof.
  intros own t i H. unfold votor_step64_pinned, votor_step64_gen. destruct (vt_panicked t) eqn:P; [unfold votor_step; rewrite P; reflexivity|].
  destruct (skip_window_target t i) as [s|]; [|reflexivity]. rewrite (H s eq_refl). reflexivity.
Qed.

Lemma target_slot t i s : skip_window_target t i = Some s -> vin_slot i = s.
Proof.
  destruct i as [e|s'|s'|s' h p|s'|s']; cbn [skip_window_target vin_slot]; try discriminate.
  - destruct (v_should_ignore t e); [discriminate|]. destruct e as [| [s0 h0] | s0 | | |]; try discriminate; intros H; injection H as <-; reflexivity.
  - destruct (v_old t s'); [discriminate|]. intros H; injection H as <-; reflexivity.
  - destruct (v_old t s'); [discriminate|]. destruct (v_voted t s'); [discriminate|]. intros H; injection H as <-; reflexivity.
  - destruct (v_old t s'); [discriminate|]. destruct (_ && _); [|discriminate]. intros H; injection H as <-; reflexivity.
Qed.

Definition below_last_window (i : vin) : bool := negb (window_overflows (vin_slot i)).
Definition votor_run64_pinned (own : vidx) (ins : list vin) : votor :=
  fold_left (fun t i => fst (fst (votor_step64_pinned own t i))) ins votor_init.

Theorem votor64_pinned_never_panics_below_last_window : forall own ins,
  forallb parent_ready_on_window_start ins = true -> forallb below_last_window ins = true ->
  vt_panicked (votor_run64_pinned own ins) = false.
Proof.
  intros own ins H1 H2.
  assert (E : votor_run64_pinned own ins = votor_run own ins).
  { unfold votor_run64_pinned, votor_run. generalize votor_init. induction ins as [|i ins IH]; intros t; cbn [fold_left]; [reflexivity|].
    cbn [forallb] in H1, H2. apply andb_true_iff in H1. apply andb_true_iff in H2. destruct H1 as [_ H1]. destruct H2 as [Hi H2].
    rewrite votor_step64_pinned_agrees.
    - apply IH; assumption.
    - intros s Hs. apply target_slot in Hs. unfold below_last_window in Hi. rewrite Hs in Hi. destruct (window_overflows s); [discriminate|reflexivity]. }
  rewrite E. apply votor_never_panics. exact H1.
Qed.

Theorem votor_step64_pinned_panics_iff : forall own t i, vinv t -> vt_panicked t = false ->
  snd (votor_step64_pinned own t i) =
  (bad_parent_ready t i || match skip_window_target t i with Some s => window_overflows s | None => false end).
Proof.
  intros own t i I P. unfold votor_step64_pinned, votor_step64_gen. rewrite P.
  destruct (votor_step_panics_iff own t i I P) as [H _].
  destruct (skip_window_target t i) as [s|] eqn:Et.
  - cbn [andb]. destruct (window_overflows s); [cbn; rewrite orb_true_r; reflexivity|]. rewrite H, orb_false_r. reflexivity.
  - rewrite H, orb_false_r. reflexivity.
Qed.

(* the pinned defect: an InvalidBlock (or time-out) event for a slot of the last u64 window; the current tree skips
   the window (four skip votes, slots 2^64-4 .. 2^64-1) *)
Theorem votor64_pinned_last_window_refuted :
  snd (votor_step64_pinned 0 votor_init (VInvalidBlock U64_MAX)) = true /\
  snd (votor_step64_pinned 0 votor_init (VInvalidBlock (U64_MAX - 3))) = true /\
  snd (votor_step64_pinned 0 votor_init (VInvalidBlock (U64_MAX - 4))) = false /\
  snd (votor_step64 0 votor_init (VInvalidBlock U64_MAX)) = false /\
  snd (fst (votor_step64 0 votor_init (VInvalidBlock U64_MAX))) =
    map (fun s => VBVote (mkVote s KSkip 0)) [U64_MAX - 3; U64_MAX - 2; U64_MAX - 1; U64_MAX].
Proof. vm_compute. repeat split; reflexivity. Qed.
