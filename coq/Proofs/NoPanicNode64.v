(* C10: Votor with u64 slot arithmetic (Model/Node64.v): exactly one more way to panic - try_skip_window
   on the last leader window of the u64 range - and none for slots below it. *)
From Coq Require Import List NArith ZArith Bool Lia ZifyBool ZifyN.
From AG Require Import Gen.Params Model.Pool Model.Votor Model.Node64 Proofs.NoPanicVotor.
Import ListNotations.
Open Scope N_scope.

Theorem votor_step64_agrees : forall own t i,
  (forall s, skip_window_target t i = Some s -> window_overflows s = false) ->
  votor_step64 own t i = votor_step own t i.
Proof.
  intros own t i H. unfold votor_step64. destruct (vt_panicked t) eqn:P; [unfold votor_step; rewrite P; reflexivity|].
  destruct (skip_window_target t i) as [s|]; [|reflexivity]. rewrite (H s eq_refl). reflexivity.
Qed.

Lemma target_slot t i s : skip_window_target t i = Some s -> vin_slot i = s.
Proof.
  destruct i as [e|s'|s'|s' h p|s'|s']; cbn [skip_window_target vin_slot]; try discriminate.
  - destruct (v_should_ignore t e); [discriminate|]. destruct e as [| [s0 h0] | s0 | | |]; try discriminate; intros H; injection H as <-; reflexivity.
  - destruct (v_old t s'); [discriminate|]. intros H; injection H as <-; reflexivity.
  - destruct (v_old t s'); [discriminate|]. destruct (v_voted t s'); [discriminate|]. intros H; injection H as <-; reflexivity.
  - destruct (v_old t s'); [discriminate|]. destruct (_ && _); [|discriminate]. intros H; injection H as <-; reflexivity.
Qed.

(* slots of every window below the last one are safe *)
Definition below_last_window (i : vin) : bool := negb (window_overflows (vin_slot i)).

Definition votor_run64 (own : vidx) (ins : list vin) : votor :=
  fold_left (fun t i => fst (fst (votor_step64 own t i))) ins votor_init.

Theorem votor64_never_panics_below_last_window : forall own ins,
  forallb parent_ready_on_window_start ins = true -> forallb below_last_window ins = true ->
  vt_panicked (votor_run64 own ins) = false.
Proof.
  intros own ins H1 H2.
  assert (E : votor_run64 own ins = votor_run own ins).
  { unfold votor_run64, votor_run. generalize votor_init. induction ins as [|i ins IH]; intros t; cbn [fold_left]; [reflexivity|].
    cbn [forallb] in H1, H2. apply andb_true_iff in H1. apply andb_true_iff in H2. destruct H1 as [_ H1]. destruct H2 as [Hi H2].
    rewrite votor_step64_agrees.
    - apply IH; assumption.
    - intros s Hs. apply target_slot in Hs. unfold below_last_window in Hi. rewrite Hs in Hi. destruct (window_overflows s); [discriminate|reflexivity]. }
  rewrite E. apply votor_never_panics. exact H1.
Qed.

(* the defect: an InvalidBlock (or timeout) event for a slot of the last u64 window *)
Theorem votor64_last_window_refuted :
  snd (votor_step64 0 votor_init (VInvalidBlock U64_MAX)) = true /\
  snd (votor_step64 0 votor_init (VInvalidBlock (U64_MAX - 3))) = true /\
  snd (votor_step64 0 votor_init (VInvalidBlock (U64_MAX - 4))) = false.
Proof. vm_compute. repeat split; reflexivity. Qed.

(* and exactly then: in a reachable, unpanicked state the u64 step panics iff the unbounded step does
   or try_skip_window is entered for a slot of the last window *)
Theorem votor_step64_panics_iff : forall own t i, vinv t -> vt_panicked t = false ->
  snd (votor_step64 own t i) =
  (bad_parent_ready t i || match skip_window_target t i with Some s => window_overflows s | None => false end).
Proof.
  intros own t i I P. unfold votor_step64. rewrite P.
  destruct (votor_step_panics_iff own t i I P) as [H _].
  destruct (skip_window_target t i) as [s|] eqn:Et.
  - destruct (window_overflows s); [cbn; rewrite orb_true_r; reflexivity|]. rewrite H, orb_false_r. reflexivity.
  - rewrite H, orb_false_r. reflexivity.
Qed.
