(* C07: the parent-ready tracker (Model/Pool.v, the pt_ functions) is equivalent to its certificate-level
   specification (Model/TrackerSpec.v) for every operation sequence from the initial tracker.
   Part 1: association-list view, add_to_ready / propagation / backward collection. *)
From Coq Require Import List NArith PeanoNat Bool Lia ZifyBool ZifyNat ZifyN Permutation.
From AG Require Import Gen.Params Model.Pool Model.TrackerSpec Proofs.SlotStateProofs.
Import ListNotations.
Open Scope N_scope.

Ltac nlia := unfold blockid, slot, hash in *; lia.

(* ---------------- generic list facts ---------------- *)
Lemma bid_eqb_eq a b : bid_eqb a b = true <-> a = b.
Proof.
  unfold bid_eqb. destruct a as [a1 a2], b as [b1 b2]. cbn [fst snd].
  rewrite andb_true_iff, !N.eqb_eq. split; [intros [-> ->]; reflexivity | intros E; injection E; auto].
Qed.
Lemma bmemb_true b l : bmemb b l = true <-> In b l.
Proof.
  unfold bmemb. rewrite existsb_exists. split.
  - intros [y [Hy E]]. apply bid_eqb_eq in E. subst. exact Hy.
  - intros H. exists b. split; [exact H | apply bid_eqb_eq; reflexivity].
Qed.
Lemma bmemb_false b l : bmemb b l = false <-> ~ In b l.
Proof. rewrite <- bmemb_true. destruct (bmemb b l); split; intros; congruence. Qed.
Lemma memN_false x l : memN x l = false <-> ~ In x l.
Proof. rewrite <- memN_true. destruct (memN x l); split; intros; congruence. Qed.

Lemma NoDup_app_iff {A} (a b : list A) :
  NoDup (a ++ b) <-> NoDup a /\ NoDup b /\ (forall x, In x a -> ~ In x b).
Proof.
  induction a as [|x a IH]; cbn [app].
  - split; [intros H; repeat split; [constructor | exact H | intros x []] | intros [_ [H _]]; exact H].
  - split.
    + intros H. inversion H as [|? ? Hx Hn]; subst. apply IH in Hn. destruct Hn as [Ha [Hb Hd]].
      repeat split; [constructor; [intros Hi; apply Hx, in_or_app; left; exact Hi | exact Ha] | exact Hb |].
      intros y [->|Hy]; [intros Hi; apply Hx, in_or_app; right; exact Hi | apply Hd; exact Hy].
    + intros [Ha [Hb Hd]]. inversion Ha as [|? ? Hx Hn]; subst. constructor.
      * intros Hi. apply in_app_or in Hi. destruct Hi as [Hi|Hi]; [exact (Hx Hi) | exact (Hd x (or_introl eq_refl) Hi)].
      * apply IH. repeat split; [exact Hn | exact Hb | intros y Hy; apply Hd; right; exact Hy].
Qed.

Lemma NoDup_map_inj {A B} (f : A -> B) l : (forall x y, f x = f y -> x = y) -> NoDup l -> NoDup (map f l).
Proof.
  intros Hinj H. induction H as [|x l Hx Hn IH]; cbn [map]; constructor; [|exact IH].
  intros Hi. apply in_map_iff in Hi. destruct Hi as [y [E Hy]]. apply Hinj in E. subst. exact (Hx Hy).
Qed.

Lemma seqN_S a n : seqN a (S n) = a :: seqN (a + 1) n.
Proof.
  unfold seqN. cbn [seq map]. f_equal; [lia|].
  rewrite <- seq_shift, map_map. apply map_ext. intros i. lia.
Qed.
Lemma seqN_snoc a n : seqN a (S n) = seqN a n ++ [a + N.of_nat n].
Proof. unfold seqN. rewrite seq_S, map_app. reflexivity. Qed.
Lemma in_seqN x a n : In x (seqN a n) <-> a <= x < a + N.of_nat n.
Proof.
  unfold seqN. rewrite in_map_iff. split.
  - intros [i [E Hi]]. apply in_seq in Hi. lia.
  - intros H. exists (N.to_nat (x - a)). split; [lia | apply in_seq; lia].
Qed.
Lemma NoDup_seqN a n : NoDup (seqN a n).
Proof.
  unfold seqN. apply NoDup_map_inj; [intros x y E; lia | apply seq_NoDup].
Qed.
Lemma in_between x a s : In x (between a s) <-> a < x < s.
Proof. unfold between. rewrite in_seqN. lia. Qed.

Lemma filter_seqN_range lo hi : forall n a,
  filter (fun s => (s <=? hi) && (lo <=? s)) (seqN a n) =
  seqN (N.max a lo) (N.to_nat (N.min (a + N.of_nat n) (hi + 1) - N.max a lo)).
Proof.
  induction n as [|n IH]; intros a.
  - replace (N.to_nat _) with O by lia. reflexivity.
  - rewrite seqN_S. cbn [filter]. rewrite IH.
    destruct ((a <=? hi) && (lo <=? a)) eqn:E.
    + replace (N.to_nat (N.min (a + N.of_nat (S n)) (hi + 1) - N.max a lo))
        with (S (N.to_nat (N.min (a + 1 + N.of_nat n) (hi + 1) - N.max (a + 1) lo))) by lia.
      rewrite seqN_S. f_equal; [lia|]. f_equal; lia.
    + assert (a < lo \/ hi < a) as [H|H] by lia.
      * f_equal; lia.
      * replace (N.to_nat (N.min (a + 1 + N.of_nat n) (hi + 1) - N.max (a + 1) lo)) with O by lia.
        replace (N.to_nat (N.min (a + N.of_nat (S n)) (hi + 1) - N.max a lo)) with O by lia.
        reflexivity.
Qed.

(* windows *)
Lemma window_facts_gen W m : W <> 0 ->
  ((m / W) * W) mod W = 0 /\ (m / W) * W <= m < (m / W) * W + W /\
  (forall s, s mod W = 0 -> (m / W) * W <= s <= m -> s = (m / W) * W).
Proof.
  intros HW. repeat split.
  - apply N.mod_mul. exact HW.
  - rewrite N.mul_comm. apply N.mul_div_le. exact HW.
  - pose proof (N.div_mod m W HW) as D. pose proof (N.mod_lt m W HW) as L. lia.
  - intros s Hs [H1 H2].
    pose proof (N.div_mod s W HW) as D. rewrite Hs in D.
    pose proof (N.div_mod m W HW) as Dm. pose proof (N.mod_lt m W HW) as L.
    assert (s / W = m / W) as E; [|rewrite <- E; lia].
    assert (~ s / W < m / W) by nia. assert (~ m / W < s / W) by nia. lia.
Qed.
Lemma SPW_nz : SLOTS_PER_WINDOW <> 0.
Proof. discriminate. Qed.
Lemma window_first_start m : is_window_start (window_first m) = true.
Proof. unfold is_window_start, window_first. apply N.eqb_eq. apply (window_facts_gen _ m SPW_nz). Qed.
Lemma window_first_bounds m : window_first m <= m < window_first m + SLOTS_PER_WINDOW.
Proof. unfold window_first. apply (window_facts_gen _ m SPW_nz). Qed.
Lemma window_start_unique m s : is_window_start s = true -> window_first m <= s <= m -> s = window_first m.
Proof.
  unfold is_window_start, window_first. intros H. apply N.eqb_eq in H.
  apply (window_facts_gen _ m SPW_nz); exact H.
Qed.

(* ---------------- the tracker as a function slot -> state ---------------- *)
Definition ready_list (st : prstate) : list blockid := match pr_ready st with Some ids => ids | None => [] end.
Definition rdy (t : prtracker) (s : slot) : list blockid := ready_list (pt_get t s).

Lemma rdy_parents_ready t s : rdy t s = pt_parents_ready t s.
Proof. unfold rdy, ready_list, pt_get, pt_parents_ready, aget. destruct (alookup s (pt_states t)); reflexivity. Qed.

Lemma pt_get_set t s st x : pt_get (pt_set t s st) x = if x =? s then st else pt_get t x.
Proof.
  unfold pt_get, pt_set, aget. cbn [pt_states]. destruct (x =? s) eqn:E.
  - apply N.eqb_eq in E. subst. rewrite alookup_ainsert_same. reflexivity.
  - apply N.eqb_neq in E. rewrite alookup_ainsert_other by exact E. reflexivity.
Qed.
Lemma pt_root_set t s st : pt_root (pt_set t s st) = pt_root t.
Proof. reflexivity. Qed.

Lemma alookup_filter_key {V} (f : N -> bool) x (l : list (N * V)) :
  alookup x (filter (fun kv => f (fst kv)) l) = if f x then alookup x l else None.
Proof.
  induction l as [|[k v] l IH]; cbn [filter alookup fst].
  - destruct (f x); reflexivity.
  - destruct (f k) eqn:Ek; cbn [alookup].
    + destruct (x =? k) eqn:Ex; [|exact IH]. apply N.eqb_eq in Ex. subst. rewrite Ek. reflexivity.
    + destruct (x =? k) eqn:Ex; [|exact IH]. apply N.eqb_eq in Ex. subst. rewrite Ek in IH. rewrite Ek. exact IH.
Qed.
Lemma pt_get_prune t r x : pt_get (pt_prune t r) x = if r <=? x then pt_get t x else pr_default.
Proof.
  unfold pt_get, pt_prune, aget. cbn [pt_states].
  rewrite (alookup_filter_key (fun k => r <=? k)). destruct (r <=? x); reflexivity.
Qed.

(* ---------------- add_to_ready, repeated ---------------- *)
(* state of slot s after the parents P have been added *)
Definition upd_state (st : prstate) (P : list blockid) : prstate :=
  match P with
  | [] => st
  | _ :: _ => mkPR (pr_skip st) (pr_nfs st) (Some (ready_list st ++ P))
                   (match pr_ready st with None => false | Some _ => pr_waiting st end)
  end.
Definition wk_of (st : prstate) (s : slot) (P : list blockid) : list pevent :=
  match P with
  | [] => []
  | p :: _ => if pr_waiting st && match pr_ready st with None => true | Some _ => false end
              then [EWaiterWoken s p] else []
  end.

Lemma existsb_bid_false id l : existsb (bid_eqb id) l = false <-> ~ In id l.
Proof. exact (bmemb_false id l). Qed.

Lemma add_to_ready_spec t s id : ~ In id (rdy t s) ->
  exists t', pr_add_to_ready t s id = Some (t', wk_of (pt_get t s) s [id]) /\
             pt_root t' = pt_root t /\
             pt_get t' s = upd_state (pt_get t s) [id] /\
             (forall x, x <> s -> pt_get t' x = pt_get t x).
Proof.
  intros Hn. unfold pr_add_to_ready, rdy, ready_list in *. unfold upd_state, wk_of, ready_list.
  destruct (pr_ready (pt_get t s)) as [ids|] eqn:E.
  - apply existsb_bid_false in Hn. rewrite Hn. rewrite andb_false_r.
    eexists. split; [reflexivity|]. split; [reflexivity|]. split.
    + rewrite pt_get_set, N.eqb_refl. reflexivity.
    + intros x Hx. rewrite pt_get_set. apply N.eqb_neq in Hx. rewrite Hx. reflexivity.
  - rewrite andb_true_r. eexists. split; [reflexivity|]. split; [reflexivity|]. split.
    + rewrite pt_get_set, N.eqb_refl. reflexivity.
    + intros x Hx. rewrite pt_get_set. apply N.eqb_neq in Hx. rewrite Hx. reflexivity.
Qed.

Definition add_all_f (s : slot) : ptres -> blockid -> ptres :=
  fun (r : ptres) p =>
    match r with
    | None => None
    | Some (t', acc', wk') =>
      match pr_add_to_ready t' s p with
      | None => None
      | Some (t'', w) => Some (t'', acc' ++ [(s, p)], wk' ++ w)
      end
    end.

Lemma upd_state_cons st p P : upd_state (upd_state st [p]) P = upd_state st (p :: P).
Proof.
  destruct P as [|q P]; [reflexivity|].
  unfold upd_state, ready_list. cbn [pr_skip pr_nfs pr_ready pr_waiting].
  rewrite <- app_assoc. reflexivity.
Qed.
Lemma wk_of_after st s p P : wk_of (upd_state st [p]) s P = [].
Proof. destruct P; [reflexivity|]. unfold wk_of, upd_state. cbn [pr_ready pr_waiting]. rewrite andb_false_r. reflexivity. Qed.

Lemma add_all_spec s : forall P t acc wk, NoDup P -> (forall p, In p P -> ~ In p (rdy t s)) ->
  exists t', fold_left (add_all_f s) P (Some (t, acc, wk)) =
               Some (t', acc ++ map (fun p => (s, p)) P, wk ++ wk_of (pt_get t s) s P) /\
             pt_root t' = pt_root t /\
             pt_get t' s = upd_state (pt_get t s) P /\
             (forall x, x <> s -> pt_get t' x = pt_get t x).
Proof.
  induction P as [|p P IH]; intros t acc wk Hnd Hfresh.
  - exists t. cbn [fold_left map wk_of upd_state]. rewrite !app_nil_r. repeat split; reflexivity.
  - inversion Hnd as [|? ? Hp HndP]; subst.
    destruct (add_to_ready_spec t s p (Hfresh p (or_introl eq_refl))) as [t1 [E1 [R1 [G1 O1]]]].
    cbn [fold_left]. unfold add_all_f at 2. rewrite E1.
    destruct (IH t1 (acc ++ [(s, p)]) (wk ++ wk_of (pt_get t s) s [p]) HndP) as [t' [E [R [G O]]]].
    { intros q Hq Hin. unfold rdy in Hin. rewrite G1 in Hin. unfold upd_state, ready_list in Hin.
      cbn [pr_ready] in Hin. apply in_app_or in Hin. destruct Hin as [Hin|[->|[]]].
      - apply (Hfresh q (or_intror Hq)). exact Hin.
      - exact (Hp Hq). }
    exists t'. split; [|split; [congruence|split]].
    + rewrite E. rewrite G1, wk_of_after, app_nil_r. cbn [map]. rewrite <- !app_assoc. reflexivity.
    + rewrite G, G1. apply upd_state_cons.
    + intros x Hx. rewrite O, O1 by exact Hx. reflexivity.
Qed.

(* ---------------- forward propagation ---------------- *)
Definition fw_target (t : prtracker) (s0 s' : slot) : Prop :=
  is_window_start s' = true /\ s0 <= s' /\ forall x, s0 <= x < s' -> pr_skip (pt_get t x) = true.

Definition wsel (x : slot) (w : list pevent) : list pevent := filter (woken_for x) w.
Lemma wsel_app x a b : wsel x (a ++ b) = wsel x a ++ wsel x b.
Proof. apply filter_app. Qed.
Lemma wsel_wk_of_same st s P : wsel s (wk_of st s P) = wk_of st s P.
Proof.
  destruct P as [|p P]; [reflexivity|]. unfold wk_of.
  destruct (pr_waiting st && _); [|reflexivity]. cbn [wsel filter woken_for]. rewrite N.eqb_refl. reflexivity.
Qed.
Lemma wsel_wk_of_other st s x P : x <> s -> wsel x (wk_of st s P) = [].
Proof.
  intros Hx. destruct P as [|p P]; [reflexivity|]. unfold wk_of.
  destruct (pr_waiting st && _); [|reflexivity]. cbn [wsel filter woken_for].
  assert (s =? x = false) as -> by (apply N.eqb_neq; congruence). reflexivity.
Qed.

Lemma upd_state_skip st P : pr_skip (upd_state st P) = pr_skip st.
Proof. destruct P; reflexivity. Qed.
Lemma upd_state_nfs st P : pr_nfs (upd_state st P) = pr_nfs st.
Proof. destruct P; reflexivity. Qed.
Lemma upd_state_ready st P : ready_list (upd_state st P) = ready_list st ++ P.
Proof. destruct P; [rewrite app_nil_r; reflexivity | reflexivity]. Qed.

Lemma propagate_spec P : NoDup P -> forall f t s0 acc wk,
  (forall s', fw_target t s0 s' -> forall p, In p P -> ~ In p (rdy t s')) ->
  (exists k : nat, (k < f)%nat /\ pr_skip (pt_get t (s0 + N.of_nat k)) = false) ->
  exists t' new w,
    pt_propagate f t s0 P acc wk = Some (t', acc ++ new, wk ++ w) /\
    pt_root t' = pt_root t /\
    (forall x, (~ fw_target t s0 x /\ pt_get t' x = pt_get t x /\ wsel x w = []) \/
               (fw_target t s0 x /\ pt_get t' x = upd_state (pt_get t x) P /\ wsel x w = wk_of (pt_get t x) x P)) /\
    (forall s' p, In (s', p) new <-> fw_target t s0 s' /\ In p P) /\
    NoDup new.
Proof.
  intros HndP. induction f as [|f IH]; intros t s0 acc wk Hfresh [k [Hk Hns]]; [lia|].
  cbn [pt_propagate]. fold (add_all_f s0).
  (* the step at s0 *)
  assert (exists t1 new1 w1,
            (if is_window_start s0 then fold_left (add_all_f s0) P (Some (t, acc, wk)) else Some (t, acc, wk))
            = Some (t1, acc ++ new1, wk ++ w1) /\ pt_root t1 = pt_root t /\
            pt_get t1 s0 = (if is_window_start s0 then upd_state (pt_get t s0) P else pt_get t s0) /\
            (forall x, x <> s0 -> pt_get t1 x = pt_get t x) /\
            new1 = (if is_window_start s0 then map (fun p => (s0, p)) P else []) /\
            w1 = (if is_window_start s0 then wk_of (pt_get t s0) s0 P else [])) as [t1 [new1 [w1 [E1 [R1 [G1 [O1 [N1 W1]]]]]]]].
  { destruct (is_window_start s0) eqn:Ews.
    - destruct (add_all_spec s0 P t acc wk HndP) as [t1 [E [R [G O]]]].
      { apply Hfresh. split; [exact Ews|]. split; [lia | intros x Hx; lia]. }
      exists t1, (map (fun p => (s0, p)) P), (wk_of (pt_get t s0) s0 P). repeat split; assumption.
    - exists t, [], []. rewrite !app_nil_r. repeat split; reflexivity. }
  rewrite E1.
  assert (Hskip1 : forall x, pr_skip (pt_get t1 x) = pr_skip (pt_get t x)).
  { intros x. destruct (N.eq_dec x s0) as [->|Hx]; [|rewrite O1 by exact Hx; reflexivity].
    rewrite G1. destruct (is_window_start s0); [apply upd_state_skip | reflexivity]. }
  rewrite Hskip1.
  destruct (pr_skip (pt_get t s0)) eqn:Es0.
  - (* continue at s0 + 1 *)
    assert (Htgt : forall x, fw_target t1 (s0 + 1) x <-> fw_target t s0 x /\ x <> s0).
    { intros x. unfold fw_target. split.
      - intros [A [B C]]. split; [|lia]. split; [exact A|]. split; [lia|].
        intros y Hy. destruct (N.eq_dec y s0) as [->|Hne]; [exact Es0|]. rewrite <- Hskip1. apply C. lia.
      - intros [[A [B C]] D]. split; [exact A|]. split; [lia|]. intros y Hy. rewrite Hskip1. apply C. lia. }
    destruct (IH t1 (s0 + 1) (acc ++ new1) (wk ++ w1)) as [t' [new [w [E [R [G [Nw Nd]]]]]]].
    { intros s' Ht p Hp. apply Htgt in Ht. destruct Ht as [Ht Hne].
      unfold rdy. rewrite O1 by exact Hne. apply (Hfresh s' Ht p Hp). }
    { destruct k as [|k]; [replace (s0 + N.of_nat 0) with s0 in Hns by lia; congruence|].
      exists k. split; [lia|]. rewrite Hskip1. replace (s0 + 1 + N.of_nat k) with (s0 + N.of_nat (S k)) by lia. exact Hns. }
    exists t', (new1 ++ new), (w1 ++ w). rewrite E, <- !app_assoc. split; [reflexivity|]. split; [congruence|].
    split; [|split].
    + intros x. destruct (N.eq_dec x s0) as [->|Hne].
      * (* x = s0: not a target of the continuation *)
        destruct (G s0) as [[Hnt [Gx Wx]]|[Ht _]]; [|apply Htgt in Ht; destruct Ht as [_ Ht]; congruence].
        rewrite wsel_app, Wx, app_nil_r, Gx, G1, W1.
        destruct (is_window_start s0) eqn:Ews.
        -- right. split; [split; [exact Ews | split; [lia | intros y Hy; lia]]|]. split; [reflexivity | apply wsel_wk_of_same].
        -- left. split; [intros [A _]; congruence|]. split; reflexivity.
      * assert (wsel x w1 = []) as Hw1.
        { rewrite W1. destruct (is_window_start s0); [apply wsel_wk_of_other; exact Hne | reflexivity]. }
        rewrite wsel_app, Hw1. cbn [app].
        destruct (G x) as [[Hnt [Gx Wx]]|[Ht [Gx Wx]]].
        -- left. split; [intros Ht; apply Hnt, Htgt; split; assumption|]. rewrite Gx, O1 by exact Hne. split; [reflexivity | exact Wx].
        -- right. apply Htgt in Ht. destruct Ht as [Ht _]. split; [exact Ht|]. rewrite Gx, Wx, O1 by exact Hne. split; reflexivity.
    + intros s' p. rewrite in_app_iff, Nw, Htgt, N1. split.
      * intros [Hin|[[Ht _] Hp]]; [|split; assumption].
        destruct (is_window_start s0) eqn:Ews; [|destruct Hin].
        apply in_map_iff in Hin. destruct Hin as [q [Eq Hq]]. injection Eq as <- <-.
        split; [split; [exact Ews | split; [lia | intros y Hy; lia]] | exact Hq].
      * intros [Ht Hp]. destruct (N.eq_dec s' s0) as [->|Hne]; [|right; split; [split|]; assumption].
        left. destruct Ht as [Ews _]. rewrite Ews. apply in_map. exact Hp.
    + apply NoDup_app_iff. split; [|split; [exact Nd|]].
      * rewrite N1. destruct (is_window_start s0); [|constructor].
        apply NoDup_map_inj; [intros a b Eab; congruence | exact HndP].
      * intros [s' p] Hin1 Hin2. apply Nw in Hin2. destruct Hin2 as [Ht _]. apply Htgt in Ht.
        rewrite N1 in Hin1. destruct (is_window_start s0); [|destruct Hin1].
        apply in_map_iff in Hin1. destruct Hin1 as [q [Eq _]]. injection Eq as <- _. destruct Ht as [_ Ht]. congruence.
  - (* stop at s0 *)
    assert (Htgt : forall x, fw_target t s0 x -> x = s0).
    { intros x [A [B C]]. destruct (N.eq_dec x s0) as [->|Hne]; [reflexivity|].
      specialize (C s0). rewrite Es0 in C. assert (false = true) by (apply C; lia). discriminate. }
    exists t1, new1, w1. split; [reflexivity|]. split; [exact R1|]. split; [|split].
    + intros x. destruct (N.eq_dec x s0) as [->|Hne].
      * rewrite G1, W1. destruct (is_window_start s0) eqn:Ews.
        -- right. split; [split; [exact Ews | split; [lia | intros y Hy; lia]]|]. split; [reflexivity | apply wsel_wk_of_same].
        -- left. split; [intros [A _]; congruence|]. split; reflexivity.
      * left. split; [intros Ht; apply Htgt in Ht; congruence|]. split; [apply O1; exact Hne|].
        rewrite W1. destruct (is_window_start s0); [apply wsel_wk_of_other; exact Hne | reflexivity].
    + intros s' p. rewrite N1. split.
      * intros Hin. destruct (is_window_start s0) eqn:Ews; [|destruct Hin].
        apply in_map_iff in Hin. destruct Hin as [q [Eq Hq]]. injection Eq as <- <-.
        split; [split; [exact Ews | split; [lia | intros y Hy; lia]] | exact Hq].
      * intros [Ht Hp]. pose proof (Htgt _ Ht) as ->. destruct Ht as [Ews _]. rewrite Ews. apply in_map. exact Hp.
    + rewrite N1. destruct (is_window_start s0); [|constructor].
      apply NoDup_map_inj; [intros a b Eab; congruence | exact HndP].
Qed.

(* ---------------- backward collection ---------------- *)
Definition down (lo : slot) (k : nat) : list slot := rev (seqN lo k).
Lemma down_S lo k : down lo (S k) = (lo + N.of_nat k) :: down lo k.
Proof. unfold down. rewrite seqN_snoc, rev_app_distr. reflexivity. Qed.

Definition nf_here (t : prtracker) (m s : slot) (p : blockid) : Prop :=
  s <> m /\ exists h, p = (s, h) /\ In h (pr_nfs (pt_get t s)).

Lemma collect_acc1_in t m s acc p :
  In p (if s =? m then acc else acc ++ map (fun h => (s, h)) (pr_nfs (pt_get t s))) <-> In p acc \/ nf_here t m s p.
Proof.
  unfold nf_here. destruct (s =? m) eqn:E.
  - apply N.eqb_eq in E. split; [auto | intros [H|[H _]]; [exact H | congruence]].
  - apply N.eqb_neq in E. rewrite in_app_iff, in_map_iff. split.
    + intros [H|[h [<- Hh]]]; [left; exact H | right; split; [exact E | exists h; auto]].
    + intros [H|[_ [h [-> Hh]]]]; [left; exact H | right; exists h; auto].
Qed.

Lemma collect_in t m lo : forall k acc p,
  In p (pt_collect t m (down lo k) acc) <->
  In p acc \/ exists s, lo <= s < lo + N.of_nat k /\
                        (forall x, s < x < lo + N.of_nat k -> pr_skip (pt_get t x) = true) /\
                        (nf_here t m s p \/ (pr_skip (pt_get t s) = true /\ In p (rdy t s))).
Proof.
  induction k as [|k IH]; intros acc p.
  - cbn [down seqN seq map rev pt_collect]. split; [auto | intros [H|[s [Hs _]]]; [exact H | lia]].
  - rewrite down_S. cbn [pt_collect]. set (s0 := lo + N.of_nat k).
    destruct (pr_skip (pt_get t s0)) eqn:Es; cbn [negb].
    + change (match pr_ready (pt_get t s0) with Some ids => ids | None => [] end) with (rdy t s0).
      rewrite IH, in_app_iff, collect_acc1_in. split.
      * intros [[[H|H]|H]|[s [Hs [Hx Hd]]]].
        -- left; exact H.
        -- right. exists s0. split; [lia|]. split; [intros x Hx; lia | left; exact H].
        -- right. exists s0. split; [lia|]. split; [intros x Hx; lia | right; split; assumption].
        -- right. exists s. split; [lia|]. split; [|exact Hd].
           intros x Hx'. destruct (N.eq_dec x s0) as [->|Hne]; [exact Es | apply Hx; lia].
      * intros [H|[s [Hs [Hx Hd]]]]; [left; left; left; exact H|].
        destruct (N.eq_dec s s0) as [->|Hne].
        -- destruct Hd as [Hd|[_ Hd]]; [left; left; right; exact Hd | left; right; exact Hd].
        -- right. exists s. split; [lia|]. split; [intros x Hx'; apply Hx; lia | exact Hd].
    + rewrite collect_acc1_in. split.
      * intros [H|H]; [left; exact H|]. right. exists s0. split; [lia|]. split; [intros x Hx; lia | left; exact H].
      * intros [H|[s [Hs [Hx Hd]]]]; [left; exact H|].
        destruct (N.eq_dec s s0) as [->|Hne].
        -- destruct Hd as [Hd|[Hd _]]; [right; exact Hd | congruence].
        -- assert (pr_skip (pt_get t s0) = true) by (apply Hx; lia). congruence.
Qed.

Lemma collect_nodup t m lo :
  (forall s, NoDup (pr_nfs (pt_get t s))) -> NoDup (rdy t lo) -> (forall p, In p (rdy t lo) -> fst p < lo) ->
  forall k acc, NoDup acc -> (forall p, In p acc -> lo + N.of_nat k <= fst p) ->
                (forall s, lo < s < lo + N.of_nat k -> rdy t s = []) ->
                NoDup (pt_collect t m (down lo k) acc).
Proof.
  intros Hnfs Hrl Hrlo. induction k as [|k IH]; intros acc Hnd Hacc Hempty.
  - exact Hnd.
  - rewrite down_S. cbn [pt_collect]. set (s0 := lo + N.of_nat k).
    set (acc1 := if s0 =? m then acc else acc ++ map (fun h => (s0, h)) (pr_nfs (pt_get t s0))).
    assert (Hnd1 : NoDup acc1).
    { unfold acc1. destruct (s0 =? m); [exact Hnd|]. apply NoDup_app_iff. split; [exact Hnd|]. split.
      - apply NoDup_map_inj; [intros a b E; congruence | apply Hnfs].
      - intros p Hp Hin. apply in_map_iff in Hin. destruct Hin as [h [<- _]]. apply Hacc in Hp. cbn [fst] in Hp. lia. }
    assert (Hacc1 : forall p, In p acc1 -> lo + N.of_nat k <= fst p).
    { intros p Hp. apply collect_acc1_in in Hp. destruct Hp as [Hp|[_ [h [-> _]]]]; [apply Hacc in Hp; lia | cbn [fst]; lia]. }
    destruct (pr_skip (pt_get t s0)); cbn [negb]; [|exact Hnd1].
    change (match pr_ready (pt_get t s0) with Some ids => ids | None => [] end) with (rdy t s0).
    destruct k as [|k].
    + cbn [down seqN seq map rev pt_collect]. replace (rdy t s0) with (rdy t lo) by (f_equal; unfold s0; lia).
      apply NoDup_app_iff. split; [exact Hnd1|]. split; [exact Hrl|].
      intros p Hp Hin. apply Hacc1 in Hp. apply Hrlo in Hin. unfold blockid, slot, hash in *. lia.
    + rewrite (Hempty s0) by (unfold s0; lia). rewrite app_nil_r.
      apply IH; [exact Hnd1 | exact Hacc1 | intros s Hs; apply Hempty; lia].
Qed.

(* ---------------- fuel of the propagation loop ---------------- *)
Lemma bsearch (f : nat -> bool) n :
  (exists k, (k <= n)%nat /\ f k = false) \/ (forall k, (k <= n)%nat -> f k = true).
Proof.
  induction n as [|n IH].
  - destruct (f O) eqn:E; [right; intros k Hk; replace k with O by lia; exact E | left; exists O; split; [lia | exact E]].
  - destruct IH as [[k [Hk E]]|IH]; [left; exists k; split; [lia | exact E]|].
    destruct (f (S n)) eqn:E; [|left; exists (S n); split; [lia | exact E]].
    right. intros k Hk. destruct (Nat.eq_dec k (S n)) as [->|Hne]; [exact E | apply IH; lia].
Qed.
Lemma alookup_in_keys {V} x (l : list (N * V)) v : alookup x l = Some v -> In x (map fst l).
Proof.
  induction l as [|[k w] l IH]; cbn [alookup map fst]; [discriminate|].
  destruct (x =? k) eqn:E; [apply N.eqb_eq in E; left; congruence | intros H; right; apply IH; exact H].
Qed.
(* the loop always meets a slot that is not skip-certified within |states| + 1 steps *)
Lemma skip_run_bounded t s0 :
  exists k : nat, (k <= length (pt_states t))%nat /\ pr_skip (pt_get t (s0 + N.of_nat k)) = false.
Proof.
  destruct (bsearch (fun k => pr_skip (pt_get t (s0 + N.of_nat k))) (length (pt_states t))) as [H|H]; [exact H|].
  exfalso.
  assert (incl (seqN s0 (S (length (pt_states t)))) (map fst (pt_states t))) as Hincl.
  { intros x Hx. apply in_seqN in Hx. specialize (H (N.to_nat (x - s0))). cbv beta in H.
    replace (s0 + N.of_nat (N.to_nat (x - s0))) with x in H by lia.
    assert (pr_skip (pt_get t x) = true) as Hs by (apply H; lia).
    unfold pt_get, aget in Hs. destruct (alookup x (pt_states t)) eqn:E; [|discriminate].
    apply alookup_in_keys in E. exact E. }
  apply NoDup_incl_length in Hincl; [|apply NoDup_seqN].
  unfold seqN in Hincl. rewrite !map_length, seq_length in Hincl. lia.
Qed.
Lemma fuel_enough t s0 : exists k : nat, (k < pt_fuel t)%nat /\ pr_skip (pt_get t (s0 + N.of_nat k)) = false.
Proof. destruct (skip_run_bounded t s0) as [k [Hk E]]. exists k. unfold pt_fuel. split; [lia | exact E]. Qed.

(* ---------------- the specification predicate ---------------- *)
Lemma ready_spec_iff m s p : ready_spec_m m s p = true <->
  is_window_start s = true /\ fst p < s /\ In p (mk_nf m) /\ forall x, fst p < x < s -> In x (mk_skip m).
Proof.
  unfold ready_spec_m. rewrite !andb_true_iff, forallb_forall, N.ltb_lt, bmemb_true. split.
  - intros [[[A B] C] D]. repeat split; try assumption. intros x Hx. apply memN_true, D, in_between. exact Hx.
  - intros [A [B [C D]]]. repeat split; try assumption. intros x Hx. apply memN_true, D, in_between. exact Hx.
Qed.
Lemma ready_spec_mono m m' s p : incl (mk_nf m) (mk_nf m') -> incl (mk_skip m) (mk_skip m') ->
  ready_spec_m m s p = true -> ready_spec_m m' s p = true.
Proof.
  intros H1 H2 H. apply ready_spec_iff in H. apply ready_spec_iff. destruct H as [A [B [C D]]].
  repeat split; [exact A | exact B | apply H1; exact C | intros x Hx; apply H2, D; exact Hx].
Qed.

Definition b2n (b : bool) : nat := if b then 1%nat else 0%nat.

(* ---------------- the invariant linking tracker state and accumulated marks ---------------- *)
Record Inv (t : prtracker) (m : marks) : Prop := mkInv {
  inv_skip : forall x, pt_root t <= x -> (pr_skip (pt_get t x) = true <-> In x (mk_skip m));
  inv_nf : forall x h, pt_root t <= x -> (In h (pr_nfs (pt_get t x)) <-> In (x, h) (mk_nf m));
  inv_below : forall x, x < pt_root t ->
              pr_skip (pt_get t x) = false /\ pr_nfs (pt_get t x) = [] /\ pr_ready (pt_get t x) = None;
  inv_sound : forall s p, In p (rdy t s) -> ready_spec_m m s p = true;
  inv_complete : forall s p, pt_root t <= fst p -> ready_spec_m m s p = true -> In p (rdy t s);
  inv_nodup : forall s, NoDup (rdy t s);
  inv_nfs_nodup : forall x, NoDup (pr_nfs (pt_get t x));
  inv_some : forall s, pr_ready (pt_get t s) <> Some [];
  inv_wait : forall s, pr_waiting (pt_get t s) = true -> pr_ready (pt_get t s) = None
}.

Lemma pt_get_init x : pt_get pt_init x = if x =? 0 then mkPR false [0] None false else pr_default.
Proof. unfold pt_get, pt_init, aget. cbn [pt_states alookup]. destruct (x =? 0); reflexivity. Qed.

Lemma Inv_init : Inv pt_init marks_init.
Proof.
  constructor; unfold rdy; intros; try rewrite pt_get_init in *; cbn [pt_root pt_init mk_skip mk_nf marks_init] in *.
  - destruct (x =? 0); cbn [pr_skip pr_default]; (split; [discriminate | intros []]).
  - destruct (x =? 0) eqn:E; cbn [pr_nfs pr_default].
    + apply N.eqb_eq in E. subst. split; [intros [<-|[]]; left; reflexivity | intros [E|[]]; injection E as <-; left; reflexivity].
    + apply N.eqb_neq in E. split; [intros [] | intros [E'|[]]; injection E' as E1 _; congruence].
  - lia.
  - destruct (s =? 0); destruct H.
  - exfalso. apply ready_spec_iff in H0. cbn [mk_nf mk_skip marks_init] in H0.
    destruct H0 as [A [B [[<-|[]] D]]]. cbn [fst] in *.
    destruct (N.eq_dec s 1) as [->|Hne]; [discriminate A|]. apply (D 1). lia.
  - destruct (s =? 0); constructor.
  - destruct (x =? 0); cbn [pr_nfs pr_default]; repeat constructor. intros [].
  - destruct (s =? 0); discriminate.
  - destruct (s =? 0); discriminate.
Qed.

Lemma Inv_weaken t m m' : Inv t m ->
  incl (mk_nf m) (mk_nf m') -> incl (mk_skip m) (mk_skip m') ->
  (forall b, In b (mk_nf m') -> pt_root t <= fst b -> In b (mk_nf m)) ->
  (forall x, In x (mk_skip m') -> pt_root t <= x -> In x (mk_skip m)) ->
  Inv t m'.
Proof.
  intros I H1 H2 H3 H4. constructor; try apply I.
  - intros x Hx. rewrite (inv_skip _ _ I x Hx). split; [apply H2 | intros H; apply H4; assumption].
  - intros x h Hx. rewrite (inv_nf _ _ I x h Hx). split; [apply H1 | intros H; apply H3; assumption].
  - intros s p Hp. apply (ready_spec_mono m m'); [exact H1 | exact H2 | apply (inv_sound _ _ I); exact Hp].
  - intros s p Hr Hs. apply (inv_complete _ _ I); [exact Hr|]. apply ready_spec_iff in Hs. apply ready_spec_iff.
    destruct Hs as [A [B [C D]]]. repeat split; [exact A | exact B | apply H3; assumption |].
    intros x Hx. apply H4; [apply D; exact Hx | nlia].
Qed.

(* ---------------- what one mark operation contributes to the trace ---------------- *)
Definition StepFacts (t t' : prtracker) (m : marks) (new : list (slot * blockid)) (w : list pevent) : Prop :=
  (forall s p, In (s, p) new -> ready_spec_m m s p = false /\ In p (rdy t' s)) /\
  NoDup new /\
  (forall x, exists l, rdy t' x = rdy t x ++ l /\ forall p, In p l -> In (x, p) new) /\
  (forall x, (woken_count x w + b2n (pr_waiting (pt_get t' x)) = b2n (pr_waiting (pt_get t x)))%nat) /\
  (forall x p, In (EWaiterWoken x p) w -> rdy t x = [] /\ hd_error (rdy t' x) = Some p).

Lemma StepFacts_refl t m : StepFacts t t m [] [].
Proof.
  repeat split; try (intros; contradiction); try constructor.
  intros x. exists []. rewrite app_nil_r. split; [reflexivity | intros p []].
Qed.

(* result of the forward propagation started from a tracker t1 *)
Definition PropRes (t1 t' : prtracker) (s0 : slot) (P : list blockid) (new : list (slot * blockid)) (w : list pevent) : Prop :=
  pt_root t' = pt_root t1 /\
  (forall x, (~ fw_target t1 s0 x /\ pt_get t' x = pt_get t1 x /\ wsel x w = []) \/
             (fw_target t1 s0 x /\ pt_get t' x = upd_state (pt_get t1 x) P /\ wsel x w = wk_of (pt_get t1 x) x P)) /\
  (forall s' p, In (s', p) new <-> fw_target t1 s0 s' /\ In p P) /\
  NoDup new.

Lemma PR_frame t1 t' s0 P new w x : PropRes t1 t' s0 P new w ->
  pr_skip (pt_get t' x) = pr_skip (pt_get t1 x) /\ pr_nfs (pt_get t' x) = pr_nfs (pt_get t1 x).
Proof.
  intros [_ [G _]]. destruct (G x) as [[_ [E _]]|[_ [E _]]]; rewrite E; [split; reflexivity|].
  rewrite upd_state_skip, upd_state_nfs. split; reflexivity.
Qed.
Lemma PR_rdy t1 t' s0 P new w x : PropRes t1 t' s0 P new w ->
  (~ fw_target t1 s0 x /\ pt_get t' x = pt_get t1 x) \/ (fw_target t1 s0 x /\ rdy t' x = rdy t1 x ++ P).
Proof.
  intros [_ [G _]]. destruct (G x) as [[A [E _]]|[A [E _]]]; [left; split; assumption|].
  right. split; [exact A|]. unfold rdy. rewrite E. apply upd_state_ready.
Qed.
Lemma PR_grow t1 t' s0 P new w x : PropRes t1 t' s0 P new w ->
  exists l, rdy t' x = rdy t1 x ++ l /\ forall p, In p l -> In (x, p) new.
Proof.
  intros H. destruct (PR_rdy _ _ _ _ _ _ x H) as [[_ E]|[A E]].
  - exists []. unfold rdy. rewrite E, app_nil_r. split; [reflexivity | intros p []].
  - exists P. split; [exact E|]. intros p Hp. destruct H as [_ [_ [N _]]]. apply N. split; assumption.
Qed.
Lemma PR_some t1 t' s0 P new w : PropRes t1 t' s0 P new w ->
  (forall s, pr_ready (pt_get t1 s) <> Some []) -> forall s, pr_ready (pt_get t' s) <> Some [].
Proof.
  intros [_ [G _]] H s. destruct (G s) as [[_ [E _]]|[_ [E _]]]; rewrite E; [apply H|].
  destruct P as [|p P]; [apply H|]. unfold upd_state. cbn [pr_ready]. intros E'. injection E' as E'.
  apply app_eq_nil in E'. destruct E' as [_ E']. discriminate.
Qed.
Lemma PR_wait t1 t' s0 P new w : PropRes t1 t' s0 P new w ->
  (forall s, pr_waiting (pt_get t1 s) = true -> pr_ready (pt_get t1 s) = None) ->
  forall s, pr_waiting (pt_get t' s) = true -> pr_ready (pt_get t' s) = None.
Proof.
  intros [_ [G _]] H s. destruct (G s) as [[_ [E _]]|[_ [E _]]]; rewrite E; [apply H|].
  destruct P as [|p P]; [apply H|]. unfold upd_state. cbn [pr_ready pr_waiting].
  destruct (pr_ready (pt_get t1 s)) eqn:Er; [|discriminate]. intros Hw. apply H in Hw. congruence.
Qed.
Lemma PR_balance t1 t' s0 P new w : PropRes t1 t' s0 P new w ->
  (forall s, pr_waiting (pt_get t1 s) = true -> pr_ready (pt_get t1 s) = None) ->
  forall x, (woken_count x w + b2n (pr_waiting (pt_get t' x)) = b2n (pr_waiting (pt_get t1 x)))%nat.
Proof.
  intros [_ [G _]] H x. unfold woken_count. fold (wsel x w).
  destruct (G x) as [[_ [E W]]|[_ [E W]]]; rewrite E, W; [reflexivity|].
  destruct P as [|p P]; [reflexivity|]. unfold upd_state, wk_of. cbn [pr_waiting].
  destruct (pr_ready (pt_get t1 x)) eqn:Er.
  - rewrite andb_false_r. reflexivity.
  - rewrite andb_true_r. destruct (pr_waiting (pt_get t1 x)); reflexivity.
Qed.
Lemma PR_first t1 t' s0 P new w x p : PropRes t1 t' s0 P new w ->
  In (EWaiterWoken x p) w -> rdy t1 x = [] /\ hd_error (rdy t' x) = Some p.
Proof.
  intros [_ [G _]] Hin.
  assert (In (EWaiterWoken x p) (wsel x w)) as Hs.
  { apply filter_In. split; [exact Hin | cbn [woken_for]; apply N.eqb_refl]. }
  destruct (G x) as [[_ [_ W]]|[_ [E W]]]; rewrite W in Hs; [destruct Hs|].
  destruct P as [|q P]; [destruct Hs|]. unfold wk_of in Hs.
  destruct (pr_ready (pt_get t1 x)) eqn:Er; [rewrite andb_false_r in Hs; destruct Hs|].
  destruct (pr_waiting (pt_get t1 x)); [|destruct Hs]. destruct Hs as [Hs|[]]. injection Hs as <-.
  unfold rdy, ready_list. rewrite E, Er. unfold upd_state, ready_list. rewrite Er. split; reflexivity.
Qed.

(* t1 differs from t only in the skip flag / notar-fallback list of one slot s1 at or above the root *)
Definition MarkerUpd (t t1 : prtracker) (s1 : slot) : Prop :=
  pt_root t1 = pt_root t /\
  (forall x, x <> s1 -> pt_get t1 x = pt_get t x) /\
  pr_ready (pt_get t1 s1) = pr_ready (pt_get t s1) /\ pr_waiting (pt_get t1 s1) = pr_waiting (pt_get t s1).

Lemma MU_ready t t1 s1 x : MarkerUpd t t1 s1 -> pr_ready (pt_get t1 x) = pr_ready (pt_get t x).
Proof. intros [_ [O [R _]]]. destruct (N.eq_dec x s1) as [->|H]; [exact R | rewrite O by exact H; reflexivity]. Qed.
Lemma MU_waiting t t1 s1 x : MarkerUpd t t1 s1 -> pr_waiting (pt_get t1 x) = pr_waiting (pt_get t x).
Proof. intros [_ [O [_ R]]]. destruct (N.eq_dec x s1) as [->|H]; [exact R | rewrite O by exact H; reflexivity]. Qed.
Lemma MU_rdy t t1 s1 x : MarkerUpd t t1 s1 -> rdy t1 x = rdy t x.
Proof. intros H. unfold rdy, ready_list. rewrite (MU_ready _ _ _ x H). reflexivity. Qed.

Lemma after_propagate t m t1 s1 t' P new w :
  Inv t m -> MarkerUpd t t1 s1 -> pt_root t <= s1 -> PropRes t1 t' (s1 + 1) P new w ->
  pt_root t' = pt_root t /\
  (forall x, x < pt_root t -> pt_get t' x = pt_get t x) /\
  (forall s, pr_ready (pt_get t' s) <> Some []) /\
  (forall s, pr_waiting (pt_get t' s) = true -> pr_ready (pt_get t' s) = None) /\
  (forall x, (~ fw_target t1 (s1 + 1) x /\ rdy t' x = rdy t x) \/ (fw_target t1 (s1 + 1) x /\ rdy t' x = rdy t x ++ P)) /\
  (forall x, exists l, rdy t' x = rdy t x ++ l /\ forall p, In p l -> In (x, p) new) /\
  (forall x, (woken_count x w + b2n (pr_waiting (pt_get t' x)) = b2n (pr_waiting (pt_get t x)))%nat) /\
  (forall x p, In (EWaiterWoken x p) w -> rdy t x = [] /\ hd_error (rdy t' x) = Some p).
Proof.
  intros I MU Hs1 PR.
  assert (Hw1 : forall s, pr_waiting (pt_get t1 s) = true -> pr_ready (pt_get t1 s) = None).
  { intros s. rewrite (MU_ready _ _ _ s MU), (MU_waiting _ _ _ s MU). apply (inv_wait _ _ I). }
  split; [destruct PR as [R _]; destruct MU as [R1 _]; congruence|].
  split.
  { intros x Hx. destruct (PR_rdy _ _ _ _ _ _ x PR) as [[_ E]|[[_ [A _]] _]]; [|lia].
    rewrite E. destruct MU as [_ [O _]]. apply O. lia. }
  split; [apply (PR_some _ _ _ _ _ _ PR); intros s; rewrite (MU_ready _ _ _ s MU); apply (inv_some _ _ I)|].
  split; [apply (PR_wait _ _ _ _ _ _ PR Hw1)|].
  split.
  { intros x. destruct (PR_rdy _ _ _ _ _ _ x PR) as [[A E]|[A E]].
    - left. split; [exact A|]. unfold rdy at 1. rewrite E. apply (MU_rdy _ _ _ x MU).
    - right. split; [exact A|]. rewrite E, (MU_rdy _ _ _ x MU). reflexivity. }
  split; [intros x; rewrite <- (MU_rdy _ _ _ x MU); apply (PR_grow _ _ _ _ _ _ x PR)|].
  split; [intros x; rewrite <- (MU_waiting _ _ _ x MU); apply (PR_balance _ _ _ _ _ _ PR Hw1)|].
  intros x p Hin. rewrite <- (MU_rdy _ _ _ x MU). apply (PR_first _ _ _ _ _ _ x p PR Hin).
Qed.

(* ---------------- mark_notar_fallback ---------------- *)
Lemma spec_false_of m s p : ~ (is_window_start s = true /\ fst p < s /\ In p (mk_nf m) /\
                               forall x, fst p < x < s -> In x (mk_skip m)) -> ready_spec_m m s p = false.
Proof. intros H. destruct (ready_spec_m m s p) eqn:E; [|reflexivity]. apply ready_spec_iff in E. contradiction. Qed.

Lemma mark_nf_ok t m b : Inv t m ->
  exists t' new w, pt_mark_notar_fallback t b = Some (t', new, w) /\ pt_root t' = pt_root t /\
                   Inv t' (marks_step m (TNotarFb b)) /\ StepFacts t t' m new w.
Proof.
  intros I. destruct b as [s h]. unfold pt_mark_notar_fallback. cbn [marks_step].
  destruct (s <? pt_root t) eqn:Er.
  { exists t, [], []. split; [reflexivity|]. split; [reflexivity|]. split; [|apply StepFacts_refl].
    apply (Inv_weaken t m); cbn [mk_nf mk_skip]; [exact I | apply incl_appl, incl_refl | apply incl_refl | | auto].
    intros b Hb Hr. apply in_app_or in Hb. destruct Hb as [Hb|[<-|[]]]; [exact Hb|]. cbn [fst] in Hr. lia. }
  apply N.ltb_ge in Er.
  destruct (memN h (pr_nfs (pt_get t s))) eqn:Em.
  { exists t, [], []. split; [reflexivity|]. split; [reflexivity|]. split; [|apply StepFacts_refl].
    apply memN_true in Em. apply (inv_nf _ _ I s h Er) in Em.
    apply (Inv_weaken t m); cbn [mk_nf mk_skip]; [exact I | apply incl_appl, incl_refl | apply incl_refl | | auto].
    intros b Hb Hr. apply in_app_or in Hb. destruct Hb as [Hb|[<-|[]]]; [exact Hb | exact Em]. }
  apply memN_false in Em.
  set (st := pt_get t s) in *.
  set (t1 := pt_set t s (mkPR (pr_skip st) (pr_nfs st ++ [h]) (pr_ready st) (pr_waiting st))).
  assert (G1 : forall x, pt_get t1 x = if x =? s then mkPR (pr_skip st) (pr_nfs st ++ [h]) (pr_ready st) (pr_waiting st) else pt_get t x).
  { intros x. unfold t1. apply pt_get_set. }
  assert (MU : MarkerUpd t t1 s).
  { split; [reflexivity|]. split; [intros x Hx; rewrite G1; apply N.eqb_neq in Hx; rewrite Hx; reflexivity|].
    rewrite G1, N.eqb_refl. split; reflexivity. }
  assert (Hsk1 : forall x, pr_skip (pt_get t1 x) = pr_skip (pt_get t x)).
  { intros x. rewrite G1. destruct (x =? s) eqn:E; [apply N.eqb_eq in E; subst; reflexivity | reflexivity]. }
  assert (Hnotin : ~ In (s, h) (mk_nf m)) by (intros Hin; apply Em, (inv_nf _ _ I s h Er); exact Hin).
  assert (Hfresh : forall s', fw_target t1 (s + 1) s' -> forall p, In p [(s, h)] -> ~ In p (rdy t1 s')).
  { intros s' _ p [<-|[]] Hin. rewrite (MU_rdy _ _ _ s' MU) in Hin. apply (inv_sound _ _ I) in Hin.
    apply ready_spec_iff in Hin. destruct Hin as [_ [_ [C _]]]. exact (Hnotin C). }
  destruct (propagate_spec [(s, h)] ltac:(repeat constructor; intros []) (pt_fuel t1) t1 (s + 1) [] [] Hfresh (fuel_enough t1 (s + 1)))
    as [t' [new [w [E PR]]]].
  cbn [app] in E. exists t', new, w. split; [exact E|].
  assert (PRr : PropRes t1 t' (s + 1) [(s, h)] new w) by exact PR.
  destruct (after_propagate t m t1 s t' _ new w I MU Er PRr) as [R [Hbelow [Hsome [Hwait [Hrdy [Hgrow [Hbal Hfirst]]]]]]].
  split; [exact R|].
  assert (Htgt_sk : forall x, fw_target t1 (s + 1) x -> forall y, s < y < x -> In y (mk_skip m)).
  { intros x [_ [_ C]] y Hy. apply (inv_skip _ _ I y); [lia|]. rewrite <- Hsk1. apply C. lia. }
  split; [constructor|].
  - (* skip flags *)
    intros x Hx. rewrite R in Hx. destruct (PR_frame _ _ _ _ _ _ x PRr) as [-> _]. rewrite Hsk1. apply (inv_skip _ _ I x Hx).
  - (* notar-fallback lists *)
    intros x h' Hx. rewrite R in Hx. destruct (PR_frame _ _ _ _ _ _ x PRr) as [_ ->]. rewrite G1. cbn [mk_nf].
    rewrite in_app_iff. destruct (x =? s) eqn:Exs.
    + apply N.eqb_eq in Exs. subst x. cbn [pr_nfs]. rewrite in_app_iff. unfold st.
      rewrite (inv_nf _ _ I s h' Er). split.
      * intros [A|[A|[]]]; [left; exact A | right; left; rewrite A; reflexivity].
      * intros [A|[A|[]]]; [left; exact A | right; left; injection A as A; exact A].
    + apply N.eqb_neq in Exs. rewrite (inv_nf _ _ I x h' Hx). split; [auto | intros [A|[A|[]]]; [exact A | congruence]].
  - intros x Hx. rewrite R in Hx. rewrite (Hbelow x Hx). apply (inv_below _ _ I x Hx).
  - (* soundness *)
    intros s' p Hp.
    destruct (Hrdy s') as [[_ Es']|[Ht Es']]; rewrite Es' in Hp.
    + apply (ready_spec_mono m); cbn [mk_nf mk_skip]; [apply incl_appl, incl_refl | apply incl_refl | apply (inv_sound _ _ I); exact Hp].
    + apply in_app_or in Hp. destruct Hp as [Hp|[<-|[]]].
      * apply (ready_spec_mono m); cbn [mk_nf mk_skip]; [apply incl_appl, incl_refl | apply incl_refl | apply (inv_sound _ _ I); exact Hp].
      * apply ready_spec_iff. cbn [mk_nf mk_skip fst]. destruct Ht as [A [B C]].
        split; [exact A|]. split; [lia|]. split; [apply in_or_app; right; left; reflexivity|].
        apply (Htgt_sk s' (conj A (conj B C))).
  - (* completeness *)
    intros s' p Hr Hs. rewrite R in Hr. apply ready_spec_iff in Hs. cbn [mk_nf mk_skip] in Hs.
    destruct Hs as [A [B [C D]]]. apply in_app_or in C. destruct C as [C|[<-|[]]].
    + destruct (Hgrow s') as [l [-> _]]. apply in_or_app. left. apply (inv_complete _ _ I); [exact Hr|].
      apply ready_spec_iff. repeat split; assumption.
    + cbn [fst] in *. assert (Ht : fw_target t1 (s + 1) s').
      { split; [exact A|]. split; [lia|]. intros y Hy. rewrite Hsk1. apply (inv_skip _ _ I y); [lia | apply D; lia]. }
      destruct (Hrdy s') as [[Hn _]|[_ ->]]; [contradiction | apply in_or_app; right; left; reflexivity].
  - (* no duplicates *)
    intros s'. destruct (Hrdy s') as [[_ ->]|[Ht ->]]; [apply (inv_nodup _ _ I)|].
    apply NoDup_app_iff. split; [apply (inv_nodup _ _ I)|]. split; [repeat constructor; intros []|].
    intros p Hp [<-|[]]. apply (Hfresh s' Ht (s, h) (or_introl eq_refl)). rewrite (MU_rdy _ _ _ s' MU). exact Hp.
  - intros x. destruct (PR_frame _ _ _ _ _ _ x PRr) as [_ ->]. rewrite G1. destruct (x =? s) eqn:Exs; [|apply (inv_nfs_nodup _ _ I)].
    cbn [pr_nfs]. apply NoDup_app_iff. split; [apply (inv_nfs_nodup _ _ I)|]. split; [repeat constructor; intros []|].
    intros y Hy [<-|[]]. exact (Em Hy).
  - exact Hsome.
  - exact Hwait.
  - (* step facts *)
    split; [|split; [destruct PRr as [_ [_ [_ N]]]; exact N | split; [exact Hgrow | split; [exact Hbal | exact Hfirst]]]].
    intros s' p Hin. destruct PRr as [_ [_ [N _]]]. apply N in Hin. destruct Hin as [Ht [<-|[]]]. split.
    + apply spec_false_of. intros [_ [_ [C _]]]. exact (Hnotin C).
    + destruct (Hrdy s') as [[Hn _]|[_ ->]]; [contradiction | apply in_or_app; right; left; reflexivity].
Qed.

(* ---------------- mark_skipped ---------------- *)
Lemma mark_skip_ok t m ms : Inv t m ->
  exists t' new w, pt_mark_skipped t ms = Some (t', new, w) /\ pt_root t' = pt_root t /\
                   Inv t' (marks_step m (TSkip ms)) /\ StepFacts t t' m new w.
Proof.
  intros I. unfold pt_mark_skipped. cbv zeta. cbn [marks_step].
  destruct (ms <? pt_root t) eqn:Er.
  { exists t, [], []. split; [reflexivity|]. split; [reflexivity|]. split; [|apply StepFacts_refl].
    apply (Inv_weaken t m); cbn [mk_nf mk_skip]; [exact I | apply incl_refl | apply incl_appl, incl_refl | auto |].
    intros x Hx Hr. apply in_app_or in Hx. destruct Hx as [Hx|[<-|[]]]; [exact Hx | lia]. }
  apply N.ltb_ge in Er.
  destruct (pr_skip (pt_get t ms)) eqn:Esk.
  { exists t, [], []. split; [reflexivity|]. split; [reflexivity|]. split; [|apply StepFacts_refl].
    apply (inv_skip _ _ I ms Er) in Esk.
    apply (Inv_weaken t m); cbn [mk_nf mk_skip]; [exact I | apply incl_refl | apply incl_appl, incl_refl | auto |].
    intros x Hx Hr. apply in_app_or in Hx. destruct Hx as [Hx|[<-|[]]]; [exact Hx | exact Esk]. }
  set (st := pt_get t ms) in *.
  set (t1 := pt_set t ms (mkPR true (pr_nfs st) (pr_ready st) (pr_waiting st))).
  assert (G1 : forall x, pt_get t1 x = if x =? ms then mkPR true (pr_nfs st) (pr_ready st) (pr_waiting st) else pt_get t x).
  { intros x. unfold t1. apply pt_get_set. }
  assert (MU : MarkerUpd t t1 ms).
  { split; [reflexivity|]. split; [intros x Hx; rewrite G1; apply N.eqb_neq in Hx; rewrite Hx; reflexivity|].
    rewrite G1, N.eqb_refl. split; reflexivity. }
  assert (Hsk1 : forall x, pr_skip (pt_get t1 x) = if x =? ms then true else pr_skip (pt_get t x)).
  { intros x. rewrite G1. destruct (x =? ms); reflexivity. }
  assert (Hnf1 : forall x, pr_nfs (pt_get t1 x) = pr_nfs (pt_get t x)).
  { intros x. rewrite G1. destruct (x =? ms) eqn:E; [apply N.eqb_eq in E; subst; reflexivity | reflexivity]. }
  assert (Hnotin : ~ In ms (mk_skip m)).
  { intros Hin. apply (inv_skip _ _ I ms Er) in Hin. unfold st in Esk. congruence. }
  assert (Hskold : forall x, x <> ms -> pt_root t <= x -> In x (mk_skip m) -> pr_skip (pt_get t1 x) = true).
  { intros x Hne Hx Hin. rewrite Hsk1. apply N.eqb_neq in Hne. rewrite Hne. apply (inv_skip _ _ I x Hx). exact Hin. }
  assert (Hsknew : forall x, x <> ms -> pt_root t <= x -> pr_skip (pt_get t1 x) = true -> In x (mk_skip m)).
  { intros x Hne Hx Hin. rewrite Hsk1 in Hin. apply N.eqb_neq in Hne. rewrite Hne in Hin. apply (inv_skip _ _ I x Hx). exact Hin. }
  (* the slots walked backwards *)
  pose proof (window_first_bounds ms) as Hwb.
  set (lo := N.max (window_first ms) (pt_root t)).
  set (k := N.to_nat (ms - lo)).
  change (pt_root t1) with (pt_root t).
  assert (Hslots : rev (filter (fun s => (s <=? ms) && (pt_root t <=? s))
                               (seqN (window_first ms) (N.to_nat SLOTS_PER_WINDOW))) = down lo (S k)).
  { rewrite filter_seqN_range. unfold down, lo, k. f_equal. f_equal. lia. }
  rewrite Hslots. clear Hslots.
  assert (Hlo1 : pt_root t <= lo) by (unfold lo; lia).
  assert (Hlo2 : window_first ms <= lo) by (unfold lo; lia).
  assert (Hlo3 : lo <= ms) by (unfold lo; lia).
  assert (Hlo4 : lo = window_first ms \/ lo = pt_root t) by (unfold lo; lia).
  assert (Hk : lo + N.of_nat (S k) = ms + 1) by (unfold k; lia).
  clearbody lo k.
  set (P := pt_collect t1 ms (down lo (S k)) []).
  assert (HPin : forall p, In p P <->
            exists s, lo <= s <= ms /\ (forall x, s < x <= ms -> pr_skip (pt_get t1 x) = true) /\
                      (nf_here t1 ms s p \/ (pr_skip (pt_get t1 s) = true /\ In p (rdy t1 s)))).
  { intros p. unfold P. rewrite collect_in. split.
    - intros [[]|[s [Hs [Hx Hd]]]]. exists s. split; [lia|]. split; [intros x Hx'; apply Hx; lia | exact Hd].
    - intros [s [Hs [Hx Hd]]]. right. exists s. split; [lia|]. split; [intros x Hx'; apply Hx; lia | exact Hd]. }
  assert (HPreach : forall p, In p P -> fst p < ms /\ In p (mk_nf m) /\ forall x, fst p < x < ms -> In x (mk_skip m)).
  { intros p Hp. apply HPin in Hp. destruct Hp as [s [Hs [Hx Hd]]].
    assert (Hflag : forall x, s < x < ms -> In x (mk_skip m)).
    { intros x Hx'. apply Hsknew; [lia | lia | apply Hx; lia]. }
    destruct Hd as [[Hne [h [-> Hh]]]|[Hss Hin]].
    - cbn [fst]. split; [lia|]. split; [|exact Hflag]. apply (inv_nf _ _ I s h); [lia|]. rewrite <- Hnf1. exact Hh.
    - rewrite (MU_rdy _ _ _ s MU) in Hin. apply (inv_sound _ _ I), ready_spec_iff in Hin. destruct Hin as [A [B [C D]]].
      split; [nlia|]. split; [exact C|]. intros x Hx'.
      destruct (N.ltb_spec x s) as [Hlt|Hge]; [apply D; nlia|].
      destruct (N.eq_dec x s) as [->|Hne]; [apply Hsknew; [nlia | nlia | exact Hss] | apply Hflag; nlia]. }
  assert (HPnd : NoDup P).
  { unfold P. apply collect_nodup.
    - intros s. rewrite Hnf1. apply (inv_nfs_nodup _ _ I).
    - rewrite (MU_rdy _ _ _ lo MU). apply (inv_nodup _ _ I).
    - intros p Hp. rewrite (MU_rdy _ _ _ lo MU) in Hp. apply (inv_sound _ _ I), ready_spec_iff in Hp. apply Hp.
    - constructor.
    - intros p [].
    - intros s Hs. rewrite (MU_rdy _ _ _ s MU). destruct (rdy t s) as [|b l] eqn:E; [reflexivity|]. exfalso.
      assert (In b (rdy t s)) as Hb by (rewrite E; left; reflexivity).
      apply (inv_sound _ _ I), ready_spec_iff in Hb. destruct Hb as [A _].
      assert (s = window_first ms) as Es by (apply (window_start_unique ms s A); lia). lia. }
  assert (Hfresh : forall s', fw_target t1 (ms + 1) s' -> forall p, In p P -> ~ In p (rdy t1 s')).
  { intros s' [_ [Bt _]] p Hp Hin. rewrite (MU_rdy _ _ _ s' MU) in Hin.
    apply (inv_sound _ _ I), ready_spec_iff in Hin. destruct Hin as [_ [_ [_ D]]].
    apply HPreach in Hp. destruct Hp as [Hlt _]. apply Hnotin, D. nlia. }
  destruct (propagate_spec P HPnd (pt_fuel t1) t1 (ms + 1) [] [] Hfresh (fuel_enough t1 (ms + 1)))
    as [t' [new [w [E PR]]]].
  cbn [app] in E. exists t', new, w. split; [exact E|].
  assert (PRr : PropRes t1 t' (ms + 1) P new w) by exact PR.
  destruct (after_propagate t m t1 ms t' _ new w I MU Er PRr) as [R [Hbelow [Hsome [Hwait [Hrdy [Hgrow [Hbal Hfirst]]]]]]].
  split; [exact R|].
  split; [constructor|].
  - (* skip flags *)
    intros x Hx. rewrite R in Hx. destruct (PR_frame _ _ _ _ _ _ x PRr) as [-> _]. rewrite Hsk1. cbn [mk_skip].
    rewrite in_app_iff. destruct (x =? ms) eqn:Exs.
    + apply N.eqb_eq in Exs. split; [intros _; right; left; congruence | reflexivity].
    + apply N.eqb_neq in Exs. rewrite (inv_skip _ _ I x Hx). split; [auto | intros [A|[A|[]]]; [exact A | congruence]].
  - intros x h Hx. rewrite R in Hx. destruct (PR_frame _ _ _ _ _ _ x PRr) as [_ ->]. rewrite Hnf1. apply (inv_nf _ _ I x h Hx).
  - intros x Hx. rewrite R in Hx. rewrite (Hbelow x Hx). apply (inv_below _ _ I x Hx).
  - (* soundness *)
    intros s' p Hp.
    assert (Hold : In p (rdy t s') -> ready_spec_m (mkMarks (mk_nf m) (mk_skip m ++ [ms]) (mk_root m)) s' p = true).
    { intros H. apply (ready_spec_mono m); cbn [mk_nf mk_skip]; [apply incl_refl | apply incl_appl, incl_refl | apply (inv_sound _ _ I); exact H]. }
    destruct (Hrdy s') as [[_ Es']|[Ht Es']]; rewrite Es' in Hp; [apply Hold; exact Hp|].
    apply in_app_or in Hp. destruct Hp as [Hp|Hp]; [apply Hold; exact Hp|].
    destruct (HPreach p Hp) as [B' [C' D']]. destruct Ht as [A [Bt Ct]].
    apply ready_spec_iff. cbn [mk_nf mk_skip]. split; [exact A|]. split; [nlia|]. split; [exact C'|].
    intros x Hx. apply in_or_app. destruct (N.lt_trichotomy x ms) as [Hlt|[->|Hgt]].
    + left. apply D'. nlia.
    + right. left. reflexivity.
    + left. apply Hsknew; [lia | lia | apply Ct; lia].
  - (* completeness *)
    intros s' p Hr Hs. rewrite R in Hr. apply ready_spec_iff in Hs. cbn [mk_nf mk_skip] in Hs.
    destruct Hs as [A [B [C D]]].
    assert (Dold : forall x, fst p < x < s' -> x <> ms -> In x (mk_skip m)).
    { intros x Hx Hne. specialize (D x Hx). apply in_app_or in D. destruct D as [D|[D|[]]]; [exact D | congruence]. }
    destruct ((fst p <? ms) && (ms <? s')) eqn:Ebt.
    + assert (Ht : fw_target t1 (ms + 1) s').
      { split; [exact A|]. split; [lia|]. intros y Hy. apply Hskold; [lia | lia | apply Dold; nlia]. }
      assert (HpP : In p P).
      { apply HPin. destruct p as [s h]. cbn [fst] in *.
        assert (Hfl : forall x, s < x <= ms -> pr_skip (pt_get t1 x) = true).
        { intros x Hx. destruct (N.eq_dec x ms) as [->|Hne]; [rewrite Hsk1, N.eqb_refl; reflexivity|].
          apply Hskold; [exact Hne | lia | apply Dold; lia]. }
        destruct (N.ltb_spec s (window_first ms)) as [Hlt|Hge].
        - exists (window_first ms). split; [lia|]. split; [intros x Hx; apply Hfl; lia|]. right. split.
          + destruct (N.eq_dec (window_first ms) ms) as [Ew|Hne]; [rewrite Ew, Hsk1, N.eqb_refl; reflexivity|].
            apply Hskold; [exact Hne | lia | apply Dold; lia].
          + rewrite (MU_rdy _ _ _ _ MU). apply (inv_complete _ _ I); [exact Hr|]. apply ready_spec_iff. cbn [fst].
            split; [apply window_first_start|]. split; [exact Hlt|]. split; [exact C|]. intros x Hx. apply Dold; lia.
        - exists s. split; [lia|]. split; [exact Hfl|]. left. split; [lia|]. exists h. split; [reflexivity|].
          rewrite Hnf1. apply (inv_nf _ _ I s h Hr). exact C. }
      destruct (Hrdy s') as [[Hn _]|[_ ->]]; [contradiction | apply in_or_app; right; exact HpP].
    + destruct (Hgrow s') as [l [-> _]]. apply in_or_app. left. apply (inv_complete _ _ I); [exact Hr|].
      apply ready_spec_iff. split; [exact A|]. split; [exact B|]. split; [exact C|].
      intros x Hx. apply Dold; [exact Hx|]. intros ->. nlia.
  - (* no duplicates *)
    intros s'. destruct (Hrdy s') as [[_ ->]|[Ht ->]]; [apply (inv_nodup _ _ I)|].
    apply NoDup_app_iff. split; [apply (inv_nodup _ _ I)|]. split; [exact HPnd|].
    intros p Hp HpP. apply (Hfresh s' Ht p HpP). rewrite (MU_rdy _ _ _ s' MU). exact Hp.
  - intros x. destruct (PR_frame _ _ _ _ _ _ x PRr) as [_ ->]. rewrite Hnf1. apply (inv_nfs_nodup _ _ I).
  - exact Hsome.
  - exact Hwait.
  - (* step facts *)
    split; [|split; [destruct PRr as [_ [_ [_ N]]]; exact N | split; [exact Hgrow | split; [exact Hbal | exact Hfirst]]]].
    intros s' p Hin. destruct PRr as [_ [_ [N _]]]. apply N in Hin. destruct Hin as [Ht HpP]. split.
    + apply spec_false_of. intros [_ [_ [_ D]]]. destruct Ht as [_ [Bt _]]. destruct (HPreach p HpP) as [Hlt _].
      apply Hnotin, D. nlia.
    + destruct (Hrdy s') as [[Hn _]|[_ ->]]; [contradiction | apply in_or_app; right; exact HpP].
Qed.

(* ---------------- prune ---------------- *)
Lemma rdy_prune t r s : rdy (pt_prune t r) s = if r <=? s then rdy t s else [].
Proof. unfold rdy. rewrite pt_get_prune. destruct (r <=? s); reflexivity. Qed.

Lemma Inv_root_irrel t m r : Inv t m -> Inv t (mkMarks (mk_nf m) (mk_skip m) r).
Proof. intros I. apply (Inv_weaken t m); cbn [mk_nf mk_skip]; auto using incl_refl. Qed.

Lemma prune_ok t m r : Inv t m -> pt_root t <= r -> Inv (pt_prune t r) m.
Proof.
  intros I Hr. constructor; cbn [pt_root pt_prune].
  - intros x Hx. rewrite pt_get_prune. assert (r <=? x = true) as -> by lia. apply (inv_skip _ _ I). lia.
  - intros x h Hx. rewrite pt_get_prune. assert (r <=? x = true) as -> by lia. apply (inv_nf _ _ I). lia.
  - intros x Hx. rewrite pt_get_prune. assert (r <=? x = false) as -> by lia. repeat split; reflexivity.
  - intros s p Hp. rewrite rdy_prune in Hp. destruct (r <=? s); [apply (inv_sound _ _ I); exact Hp | destruct Hp].
  - intros s p Hp Hs. rewrite rdy_prune. pose proof Hs as Hs'. apply ready_spec_iff in Hs'. destruct Hs' as [_ [B _]].
    assert (r <=? s = true) as -> by nlia. apply (inv_complete _ _ I); [nlia | exact Hs].
  - intros s. rewrite rdy_prune. destruct (r <=? s); [apply (inv_nodup _ _ I) | constructor].
  - intros x. rewrite pt_get_prune. destruct (r <=? x); [apply (inv_nfs_nodup _ _ I) | constructor].
  - intros s. rewrite pt_get_prune. destruct (r <=? s); [apply (inv_some _ _ I) | discriminate].
  - intros s. rewrite pt_get_prune. destruct (r <=? s); [apply (inv_wait _ _ I) | discriminate].
Qed.

(* ---------------- wait_for_parent_ready ---------------- *)
Lemma bid_insert_perm x l : Permutation (bid_insert_sorted x l) (x :: l).
Proof.
  induction l as [|y l IH]; cbn [bid_insert_sorted]; [reflexivity|].
  destruct (bid_ltb y x); [|reflexivity]. rewrite IH. apply perm_swap.
Qed.
Lemma bid_sort_perm l : Permutation (bid_sort l) l.
Proof.
  induction l as [|x l IH]; cbn [bid_sort fold_right]; [reflexivity|].
  fold (bid_sort l). rewrite bid_insert_perm, IH. reflexivity.
Qed.

Lemma Inv_upd t m s st' : Inv t m ->
  pr_skip st' = pr_skip (pt_get t s) -> pr_nfs st' = pr_nfs (pt_get t s) ->
  Permutation (ready_list st') (rdy t s) ->
  (pr_ready (pt_get t s) = None -> pr_ready st' = None) ->
  (pr_waiting st' = true -> pr_ready st' = None) -> pr_ready st' <> Some [] ->
  Inv (pt_set t s st') m.
Proof.
  intros I Hsk Hnf Hperm Hnone Hw Hsome.
  assert (G : forall x, pt_get (pt_set t s st') x = if x =? s then st' else pt_get t x) by (intros x; apply pt_get_set).
  assert (Gr : forall x, Permutation (rdy (pt_set t s st') x) (rdy t x)).
  { intros x. unfold rdy at 1. rewrite G. destruct (x =? s) eqn:E; [apply N.eqb_eq in E; subst; exact Hperm | reflexivity]. }
  constructor; cbn [pt_root pt_set].
  - intros x Hx. rewrite G. destruct (x =? s) eqn:E; [apply N.eqb_eq in E; subst; rewrite Hsk|]; apply (inv_skip _ _ I); exact Hx.
  - intros x h Hx. rewrite G. destruct (x =? s) eqn:E; [apply N.eqb_eq in E; subst; rewrite Hnf|]; apply (inv_nf _ _ I); exact Hx.
  - intros x Hx. rewrite G. destruct (inv_below _ _ I x Hx) as [A [B C]].
    destruct (x =? s) eqn:E; [|repeat split; assumption]. apply N.eqb_eq in E. subst.
    rewrite Hsk, Hnf. repeat split; [exact A | exact B | apply Hnone; exact C].
  - intros x p Hp. apply (inv_sound _ _ I). apply (Permutation_in _ (Gr x)). exact Hp.
  - intros x p Hr Hs. apply (Permutation_in _ (Permutation_sym (Gr x))). apply (inv_complete _ _ I); assumption.
  - intros x. apply (Permutation_NoDup (Permutation_sym (Gr x))). apply (inv_nodup _ _ I).
  - intros x. rewrite G. destruct (x =? s) eqn:E; [apply N.eqb_eq in E; subst; rewrite Hnf|]; apply (inv_nfs_nodup _ _ I).
  - intros x. rewrite G. destruct (x =? s); [exact Hsome | apply (inv_some _ _ I)].
  - intros x. rewrite G. destruct (x =? s); [exact Hw | apply (inv_wait _ _ I)].
Qed.

Lemma wait_ok t m s : Inv t m ->
  match pt_wait t s with
  | None => pr_waiting (pt_get t s) = true /\ rdy t s = []
  | Some (t', ans) =>
    pt_root t' = pt_root t /\ Inv t' m /\ (forall x, Permutation (rdy t' x) (rdy t x)) /\
    (forall x, x <> s -> pr_waiting (pt_get t' x) = pr_waiting (pt_get t x)) /\
    match ans with
    | Some p => In p (rdy t s) /\ p = hd (0, 0) (bid_sort (rdy t s)) /\
                pr_waiting (pt_get t' s) = pr_waiting (pt_get t s)
    | None => rdy t s = [] /\ pr_waiting (pt_get t s) = false /\ pr_waiting (pt_get t' s) = true
    end
  end.
Proof.
  intros I. unfold pt_wait. unfold rdy, ready_list.
  destruct (pr_ready (pt_get t s)) as [ids|] eqn:Er.
  - set (st' := mkPR (pr_skip (pt_get t s)) (pr_nfs (pt_get t s)) (Some (bid_sort ids)) (pr_waiting (pt_get t s))).
    assert (Hne : ids <> []) by (intros ->; apply (inv_some _ _ I s); exact Er).
    assert (Hperm : Permutation (bid_sort ids) ids) by apply bid_sort_perm.
    split; [reflexivity|]. split; [|split; [|split]].
    + apply Inv_upd; cbn [pr_skip pr_nfs pr_ready pr_waiting ready_list]; try reflexivity; try exact I.
      * unfold rdy, ready_list. rewrite Er. exact Hperm.
      * intros H. congruence.
      * intros H. apply (inv_wait _ _ I) in H. congruence.
      * intros H. injection H as H. rewrite H in Hperm. apply Permutation_nil in Hperm. exact (Hne Hperm).
    + intros x. fold (ready_list (pt_get (pt_set t s st') x)). rewrite pt_get_set.
      destruct (x =? s) eqn:E; [apply N.eqb_eq in E; subst; unfold ready_list; cbn [pr_ready st']; rewrite Er; exact Hperm | reflexivity].
    + intros x Hx. rewrite pt_get_set. apply N.eqb_neq in Hx. rewrite Hx. reflexivity.
    + split; [|split; [reflexivity | rewrite pt_get_set, N.eqb_refl; reflexivity]].
      apply (Permutation_in _ Hperm). destruct (bid_sort ids) as [|b l] eqn:Eb; [|left; reflexivity].
      apply Permutation_nil in Hperm. contradiction.
  - destruct (pr_waiting (pt_get t s)) eqn:Ew; [split; reflexivity|].
    split; [reflexivity|]. split; [|split; [|split]].
    + apply Inv_upd; cbn [pr_skip pr_nfs pr_ready pr_waiting ready_list]; try reflexivity; try exact I.
      * unfold rdy, ready_list. rewrite Er. reflexivity.
      * discriminate.
    + intros x. fold (ready_list (pt_get (pt_set t s (mkPR (pr_skip (pt_get t s)) (pr_nfs (pt_get t s)) None true)) x)).
      rewrite pt_get_set. destruct (x =? s) eqn:E; [apply N.eqb_eq in E; subst; unfold ready_list; cbn [pr_ready]; rewrite Er; reflexivity | reflexivity].
    + intros x Hx. rewrite pt_get_set. apply N.eqb_neq in Hx. rewrite Hx. reflexivity.
    + split; [reflexivity|]. split; [reflexivity|]. rewrite pt_get_set, N.eqb_refl. reflexivity.
Qed.

(* ---------------- sequences of marks; handle_finalization ---------------- *)
Lemma woken_count_app x a b : woken_count x (a ++ b) = (woken_count x a + woken_count x b)%nat.
Proof. unfold woken_count. rewrite filter_app, app_length. reflexivity. Qed.

Lemma StepFacts_trans t t1 t2 m m1 new1 w1 new2 w2 :
  StepFacts t t1 m new1 w1 -> StepFacts t1 t2 m1 new2 w2 -> Inv t1 m1 ->
  (forall s p, ready_spec_m m s p = true -> ready_spec_m m1 s p = true) ->
  StepFacts t t2 m (new1 ++ new2) (w1 ++ w2).
Proof.
  intros [A1 [B1 [C1 [D1 E1]]]] [A2 [B2 [C2 [D2 E2]]]] I1 Hmono.
  split; [|split; [|split; [|split]]].
  - intros s p Hin. apply in_app_or in Hin. destruct Hin as [Hin|Hin].
    + destruct (A1 s p Hin) as [F G]. split; [exact F|]. destruct (C2 s) as [l [-> _]]. apply in_or_app. left. exact G.
    + destruct (A2 s p Hin) as [F G]. split; [|exact G].
      destruct (ready_spec_m m s p) eqn:Es; [|reflexivity]. apply Hmono in Es. congruence.
  - apply NoDup_app_iff. split; [exact B1|]. split; [exact B2|].
    intros [s p] H1 H2. destruct (A1 s p H1) as [_ G]. destruct (A2 s p H2) as [F _].
    apply (inv_sound _ _ I1) in G. congruence.
  - intros x. destruct (C1 x) as [l1 [E1' L1]]. destruct (C2 x) as [l2 [E2' L2]].
    exists (l1 ++ l2). split; [rewrite E2', E1', app_assoc; reflexivity|].
    intros p Hp. apply in_app_or in Hp. apply in_or_app. destruct Hp as [Hp|Hp]; [left; apply L1 | right; apply L2]; exact Hp.
  - intros x. rewrite woken_count_app. specialize (D1 x). specialize (D2 x). lia.
  - intros x p Hin. apply in_app_or in Hin. destruct Hin as [Hin|Hin].
    + destruct (E1 x p Hin) as [F G]. split; [exact F|]. destruct (C2 x) as [l [-> _]].
      destruct (rdy t1 x); [discriminate G | exact G].
    + destruct (E2 x p Hin) as [F G]. split; [|exact G]. destruct (C1 x) as [l [El _]]. rewrite El in F.
      apply app_eq_nil in F. apply F.
Qed.

Definition is_mark (op : ptop) : Prop := match op with TNotarFb _ | TSkip _ => True | _ => False end.

Lemma marks_step_mono m op s p : ready_spec_m m s p = true -> ready_spec_m (marks_step m op) s p = true.
Proof.
  apply ready_spec_mono; destruct op; cbn [marks_step mk_nf mk_skip]; try apply incl_refl; apply incl_appl, incl_refl.
Qed.
Lemma marks_fold_mono ops : forall m s p, ready_spec_m m s p = true -> ready_spec_m (fold_left marks_step ops m) s p = true.
Proof. induction ops as [|op ops IH]; intros m s p H; [exact H|]. cbn [fold_left]. apply IH, marks_step_mono, H. Qed.

Lemma pt_run_from_snoc t ops op : pt_run_from t (ops ++ [op]) = pt_run_step (pt_run_from t ops) op.
Proof. unfold pt_run_from. rewrite fold_left_app. reflexivity. Qed.

Lemma marks_run_ok ops : Forall is_mark ops -> forall t m, Inv t m ->
  exists t' new w, pt_run_from t ops = Some (t', new, w) /\ pt_root t' = pt_root t /\
                   Inv t' (fold_left marks_step ops m) /\ StepFacts t t' m new w.
Proof.
  induction ops as [|op ops IH] using rev_ind; intros Hall t m I.
  - exists t, [], []. split; [reflexivity|]. split; [reflexivity|]. split; [exact I | apply StepFacts_refl].
  - apply Forall_app in Hall. destruct Hall as [Hall Hop]. inversion Hop as [|? ? Hm _]; subst.
    destruct (IH Hall t m I) as [t1 [new1 [w1 [E1 [R1 [I1 F1]]]]]].
    rewrite pt_run_from_snoc, E1, fold_left_app. cbn [fold_left pt_run_step].
    set (m1 := fold_left marks_step ops m) in *.
    assert (exists t' new w, pt_step t1 op = Some (t', new, w) /\ pt_root t' = pt_root t1 /\
                             Inv t' (marks_step m1 op) /\ StepFacts t1 t' m1 new w) as [t' [new [w [E [R [I' F]]]]]].
    { destruct op; try contradiction; cbn [pt_step]; [apply mark_nf_ok | apply mark_skip_ok]; exact I1. }
    rewrite E. exists t', (new1 ++ new), (w1 ++ w). split; [reflexivity|]. split; [congruence|]. split; [exact I'|].
    apply (StepFacts_trans t t1 t' m m1 new1 w1 new w F1 F I1). intros s p. apply marks_fold_mono.
Qed.

Definition fin_ops (ev : fin_event) : list ptop := map TNotarFb (fin_blocks ev) ++ map TSkip (fe_impl_skipped ev).
Definition best_of (acc : list (slot * blockid)) : option (slot * blockid) :=
  fold_left (fun (b : option (slot * blockid)) x =>
               match b with None => Some x | Some y => if fst y <=? fst x then Some x else Some y end) acc None.

Lemma fold_left_map {A B C} (f : A -> B -> A) (g : C -> B) l a :
  fold_left f (map g l) a = fold_left (fun a x => f a (g x)) l a.
Proof. revert a. induction l as [|x l IH]; intros a; [reflexivity | cbn [map fold_left]; apply IH]. Qed.

Lemma handle_finalization_run t ev :
  pt_handle_finalization t ev =
  match pt_run_from t (fin_ops ev) with
  | None => None
  | Some (t', acc, wk) => Some (t', match best_of acc with Some x => [x] | None => [] end, wk)
  end.
Proof.
  unfold pt_handle_finalization, pt_run_from, fin_ops, fin_blocks, best_of. cbv zeta.
  rewrite !fold_left_app, !fold_left_map.
  destruct (fe_final ev) as [b|]; reflexivity.
Qed.

Lemma best_of_in acc : match best_of acc with Some x => In x acc | None => True end.
Proof.
  unfold best_of.
  assert (forall l b0, match b0 with Some x => In x acc | None => True end -> incl l acc ->
            match fold_left (fun (b : option (slot * blockid)) x =>
                               match b with None => Some x | Some y => if fst y <=? fst x then Some x else Some y end) l b0
            with Some x => In x acc | None => True end) as H.
  { induction l as [|x l IH]; intros b0 Hb Hl; [exact Hb|]. cbn [fold_left]. apply IH.
    - destruct b0 as [y|]; [destruct (_ <=? _); [apply Hl; left; reflexivity | exact Hb] | apply Hl; left; reflexivity].
    - intros z Hz. apply Hl. right. exact Hz. }
  apply (H acc None I). apply incl_refl.
Qed.

Lemma fin_marks_fold m ev :
  fold_left marks_step (fin_ops ev) m = marks_step m (TFinalize ev).
Proof.
  assert (Hnf : forall bs m0, fold_left marks_step (map TNotarFb bs) m0 = mkMarks (mk_nf m0 ++ bs) (mk_skip m0) (mk_root m0)).
  { induction bs as [|b bs IH]; intros m0; [destruct m0; cbn; rewrite app_nil_r; reflexivity|].
    cbn [map fold_left]. rewrite IH. cbn [marks_step mk_nf mk_skip mk_root]. rewrite <- app_assoc. reflexivity. }
  assert (Hsk : forall ss m0, fold_left marks_step (map TSkip ss) m0 = mkMarks (mk_nf m0) (mk_skip m0 ++ ss) (mk_root m0)).
  { induction ss as [|s ss IH]; intros m0; [destruct m0; cbn; rewrite app_nil_r; reflexivity|].
    cbn [map fold_left]. rewrite IH. cbn [marks_step mk_nf mk_skip mk_root]. rewrite <- app_assoc. reflexivity. }
  unfold fin_ops. rewrite fold_left_app, Hnf, Hsk. reflexivity.
Qed.

Lemma fin_ops_marks ev : Forall is_mark (fin_ops ev).
Proof.
  unfold fin_ops. apply Forall_app. split; apply Forall_forall; intros op Hop; apply in_map_iff in Hop;
    destruct Hop as [? [<- _]]; exact I.
Qed.

(* ---------------- one operation of the pool on a tracker satisfying the invariant ---------------- *)
Definition is_markish (op : ptop) : Prop :=
  match op with TNotarFb _ | TSkip _ | TFinalize _ => True | _ => False end.
Definition BigFacts (t t' : prtracker) (m : marks) (a : list (slot * blockid)) (w : list pevent) (op : ptop) : Prop :=
  (forall s p, In (s, p) a -> ready_spec_m m s p = false /\ In p (rdy t' s)) /\
  NoDup a /\
  (forall x, (woken_count x w + b2n (pr_waiting (pt_get t' x))
              <= b2n (pr_waiting (pt_get t x)) + match op with TWait y => if N.eqb y x then 1 else 0 | _ => 0 end)%nat) /\
  (forall x p, In (EWaiterWoken x p) w -> rdy t x = [] /\ hd_error (rdy t' x) = Some p) /\
  (is_markish op -> forall x, (woken_count x w + b2n (pr_waiting (pt_get t' x)) = b2n (pr_waiting (pt_get t x)))%nat) /\
  (is_markish op -> forall x, exists l, rdy t' x = rdy t x ++ l /\
                                        match op with TFinalize _ => True | _ => forall p, In p l -> In (x, p) a end).

Lemma StepFacts_big t t' m new w op a :
  StepFacts t t' m new w -> incl a new -> NoDup a -> is_markish op ->
  match op with TFinalize _ => True | _ => incl new a end ->
  BigFacts t t' m a w op.
Proof.
  intros [A [B [C [D E]]]] Hincl Hnd Hop Hback. split; [|split; [exact Hnd|split; [|split; [exact E|split]]]].
  - intros s p Hin. apply A, Hincl, Hin.
  - intros x. specialize (D x). destruct op; try contradiction; lia.
  - intros _. exact D.
  - intros _ x. destruct (C x) as [l [El Hl]]. exists l. split; [exact El|].
    destruct op; try exact Logic.I; intros p Hp; apply Hback, Hl, Hp.
Qed.

Lemma step_ok t m op : Inv t m -> (forall r, op = TPrune r -> pt_root t <= r) ->
  match pt_step t op with
  | None => exists s, op = TWait s /\ pr_waiting (pt_get t s) = true /\ rdy t s = []
  | Some (t', a, w) =>
    Inv t' (marks_step m op) /\ pt_root t' = match op with TPrune r => r | _ => pt_root t end /\
    BigFacts t t' m a w op
  end.
Proof.
  intros I Hr. destruct op as [b|s|ev|r|s]; cbn [pt_step].
  - destruct (mark_nf_ok t m b I) as [t' [new [w [E [R [I' F]]]]]]. rewrite E. split; [exact I'|]. split; [exact R|].
    apply (StepFacts_big _ _ _ new); [exact F | apply incl_refl | apply F | exact Logic.I | apply incl_refl].
  - destruct (mark_skip_ok t m s I) as [t' [new [w [E [R [I' F]]]]]]. rewrite E. split; [exact I'|]. split; [exact R|].
    apply (StepFacts_big _ _ _ new); [exact F | apply incl_refl | apply F | exact Logic.I | apply incl_refl].
  - rewrite handle_finalization_run.
    destruct (marks_run_ok (fin_ops ev) (fin_ops_marks ev) t m I) as [t' [new [w [E [R [I' F]]]]]]. rewrite E.
    rewrite fin_marks_fold in I'. split; [exact I'|]. split; [exact R|].
    apply (StepFacts_big _ _ _ new); [exact F | | | exact Logic.I | exact Logic.I].
    + pose proof (best_of_in new) as Hb. destruct (best_of new); [intros x [<-|[]]; exact Hb | intros x []].
    + destruct (best_of new); repeat constructor. intros [].
  - specialize (Hr r eq_refl). split; [apply Inv_root_irrel, prune_ok; assumption|]. split; [reflexivity|].
    split; [intros s p []|]. split; [constructor|]. split; [|split; [intros x p []|split; intros []]].
    intros x. rewrite pt_get_prune. destruct (r <=? x); cbn; lia.
  - pose proof (wait_ok t m s I) as Hw. destruct (pt_wait t s) as [[t' ans]|].
    + destruct Hw as [R [I' [_ [Ho Ha]]]]. split; [exact I'|]. split; [exact R|].
      split; [intros s' p []|]. split; [constructor|]. split; [|split; [intros x p []|split; intros []]].
      intros x. destruct (s =? x) eqn:Exs.
      * apply N.eqb_eq in Exs. subst x. destruct (pr_waiting (pt_get t' s)), (pr_waiting (pt_get t s)); cbn; lia.
      * apply N.eqb_neq in Exs. rewrite Ho by congruence. cbn. lia.
    + exists s. split; [reflexivity | exact Hw].
Qed.

(* ---------------- every run from the initial tracker ---------------- *)
Lemma pt_run_snoc ops op : pt_run (ops ++ [op]) = pt_run_step (pt_run ops) op.
Proof. apply pt_run_from_snoc. Qed.
Lemma marks_of_snoc ops op : marks_of (ops ++ [op]) = marks_step (marks_of ops) op.
Proof. unfold marks_of. rewrite fold_left_app. reflexivity. Qed.
Lemma roots_fold_snd ops : snd (fold_left roots_step ops (true, 0)) = mk_root (marks_of ops).
Proof.
  induction ops as [|op ops IH] using rev_ind; [reflexivity|].
  rewrite marks_of_snoc, fold_left_app. cbn [fold_left]. destruct op; cbn [roots_step marks_step mk_root snd]; try exact IH. reflexivity.
Qed.
Lemma roots_mono_snoc ops op : roots_mono (ops ++ [op]) = true ->
  roots_mono ops = true /\ forall r, op = TPrune r -> mk_root (marks_of ops) <= r.
Proof.
  unfold roots_mono. rewrite fold_left_app. cbn [fold_left]. rewrite <- roots_fold_snd.
  destruct op; cbn [roots_step fst]; intros H; try (split; [exact H | intros r' Hr'; discriminate]).
  apply andb_true_iff in H. destruct H as [H1 H2]. split; [exact H1|]. intros r' Hr'. injection Hr' as <-. lia.
Qed.
Lemma wait_count_snoc x ops op :
  wait_count x (ops ++ [op]) = (wait_count x ops + match op with TWait y => if N.eqb y x then 1 else 0 | _ => 0 end)%nat.
Proof.
  unfold wait_count. rewrite filter_app, app_length. f_equal. cbn [filter].
  destruct op; try reflexivity. destruct (s =? x); reflexivity.
Qed.

Record TraceInv (ops : list ptop) (t : prtracker) (ann : list (slot * blockid)) (wk : list pevent) : Prop := mkTI {
  ti_inv : Inv t (marks_of ops);
  ti_root : pt_root t = mk_root (marks_of ops);
  ti_ann : forall s p, In (s, p) ann -> ready_spec_m (marks_of ops) s p = true;
  ti_nodup : NoDup ann;
  ti_wk : forall x, (woken_count x wk + b2n (pr_waiting (pt_get t x)) <= wait_count x ops)%nat
}.

Lemma mk_root_step m op : mk_root (marks_step m op) = match op with TPrune r => r | _ => mk_root m end.
Proof. destruct op; reflexivity. Qed.

Theorem run_inv ops : forall t ann wk, roots_mono ops = true -> pt_run ops = Some (t, ann, wk) -> TraceInv ops t ann wk.
Proof.
  induction ops as [|op ops IH] using rev_ind; intros t' ann' wk' Hm Hrun.
  - injection Hrun as <- <- <-. constructor.
    + exact Inv_init.
    + reflexivity.
    + intros s p [].
    + constructor.
    + intros x. rewrite pt_get_init. destruct (x =? 0); cbn; lia.
  - apply roots_mono_snoc in Hm. destruct Hm as [Hm Hr].
    rewrite pt_run_snoc in Hrun. destruct (pt_run ops) as [[[t ann] wk]|] eqn:E; [|discriminate].
    specialize (IH t ann wk Hm eq_refl). destruct IH as [I R A N W]. cbn [pt_run_step] in Hrun.
    pose proof (step_ok t (marks_of ops) op I) as Hs. rewrite R in Hs. specialize (Hs Hr).
    destruct (pt_step t op) as [[[t1 a] w]|]; [|discriminate]. injection Hrun as <- <- <-.
    destruct Hs as [I' [R' [B1 [B2 [B3 _]]]]]. constructor; rewrite ?marks_of_snoc.
    + exact I'.
    + rewrite R', mk_root_step. destruct op; try exact R; reflexivity.
    + intros s p Hin. apply in_app_or in Hin. destruct Hin as [Hin|Hin].
      * apply marks_step_mono, A, Hin.
      * apply (inv_sound _ _ I'), B1, Hin.
    + apply NoDup_app_iff. split; [exact N|]. split; [exact B2|].
      intros [s p] H1 H2. apply A in H1. apply B1 in H2. destruct H2 as [H2 _]. congruence.
    + intros x. rewrite woken_count_app, wait_count_snoc. specialize (B3 x). specialize (W x). lia.
Qed.

(* (0) no reachable mark / finalization / prune operation panics: the only panic is a second waiter *)
Theorem run_step_total ops op t ann wk :
  roots_mono (ops ++ [op]) = true -> pt_run ops = Some (t, ann, wk) -> pt_step t op = None ->
  exists s, op = TWait s /\ pr_waiting (pt_get t s) = true /\ pt_parents_ready t s = [].
Proof.
  intros Hm Hrun Hstep. apply roots_mono_snoc in Hm. destruct Hm as [Hm Hr].
  destruct (run_inv ops t ann wk Hm Hrun) as [I R _ _ _].
  pose proof (step_ok t (marks_of ops) op I) as Hs. rewrite R in Hs. specialize (Hs Hr). rewrite Hstep in Hs.
  destruct Hs as [s [E [W Rd]]]. exists s. rewrite <- rdy_parents_ready. auto.
Qed.
Theorem run_never_panics ops :
  roots_mono ops = true -> (forall s, ~ In (TWait s) ops) -> pt_run ops <> None.
Proof.
  induction ops as [|op ops IH] using rev_ind; intros Hm Hnw; [discriminate|].
  pose proof Hm as Hm'. apply roots_mono_snoc in Hm'. destruct Hm' as [Hm' _].
  assert (pt_run ops <> None) as Hrun by (apply IH; [exact Hm' | intros s Hin; apply (Hnw s), in_or_app; left; exact Hin]).
  rewrite pt_run_snoc. destruct (pt_run ops) as [[[t ann] wk]|] eqn:E; [|congruence]. cbn [pt_run_step].
  destruct (pt_step t op) as [[[t1 a] w]|] eqn:Es; [discriminate|]. exfalso.
  destruct (run_step_total ops op t ann wk Hm E Es) as [s [-> _]]. apply (Hnw s), in_or_app. right. left. reflexivity.
Qed.

(* (1)+(2) soundness and completeness of the ready lists *)
Theorem ready_sound ops t ann wk : roots_mono ops = true -> pt_run ops = Some (t, ann, wk) ->
  forall s p, In p (pt_parents_ready t s) -> ready_spec_m (marks_of ops) s p = true.
Proof. intros Hm Hrun s p. rewrite <- rdy_parents_ready. apply (inv_sound _ _ (ti_inv _ _ _ _ (run_inv ops t ann wk Hm Hrun))). Qed.
Theorem ready_complete ops t ann wk : roots_mono ops = true -> pt_run ops = Some (t, ann, wk) ->
  forall s p, retained (marks_of ops) (fst p) = true -> ready_spec_m (marks_of ops) s p = true ->
              In p (pt_parents_ready t s).
Proof.
  intros Hm Hrun s p Hr. rewrite <- rdy_parents_ready. destruct (run_inv ops t ann wk Hm Hrun) as [I R _ _ _].
  apply (inv_complete _ _ I). rewrite R. unfold retained in Hr. nlia.
Qed.
Theorem ready_nodup ops t ann wk : roots_mono ops = true -> pt_run ops = Some (t, ann, wk) ->
  forall s, NoDup (pt_parents_ready t s).
Proof. intros Hm Hrun s. rewrite <- rdy_parents_ready. apply (inv_nodup _ _ (ti_inv _ _ _ _ (run_inv ops t ann wk Hm Hrun))). Qed.
Theorem tracker_root ops t ann wk : roots_mono ops = true -> pt_run ops = Some (t, ann, wk) ->
  pt_root t = mk_root (marks_of ops).
Proof. intros Hm Hrun. apply (ti_root _ _ _ _ (run_inv ops t ann wk Hm Hrun)). Qed.

Definition bid_dec (a b : blockid) : {a = b} + {a <> b}.
Proof. decide equality; apply N.eq_dec. Defined.

(* 'ready list = filter spec' on the unpruned parents *)
Theorem ready_list_is_filter ops t ann wk : roots_mono ops = true -> pt_run ops = Some (t, ann, wk) ->
  forall s, let m := marks_of ops in
  Permutation (filter (fun p => retained m (fst p)) (pt_parents_ready t s))
              (filter (fun p => retained m (fst p) && ready_spec_m m s p) (nodup bid_dec (mk_nf m))).
Proof.
  intros Hm Hrun s m. apply NoDup_Permutation.
  - apply NoDup_filter, (ready_nodup ops t ann wk Hm Hrun).
  - apply NoDup_filter, NoDup_nodup.
  - intros p. rewrite !filter_In, nodup_In, andb_true_iff. split.
    + intros [Hin Hr]. pose proof (ready_sound ops t ann wk Hm Hrun s p Hin) as Hs. fold m in Hs.
      split; [|split; assumption]. apply ready_spec_iff in Hs. apply Hs.
    + intros [_ [Hr Hs]]. split; [|exact Hr]. apply (ready_complete ops t ann wk Hm Hrun s p Hr Hs).
Qed.

(* (3) every announced pair is justified and announced once over the whole run *)
Theorem announced_once ops t ann wk : roots_mono ops = true -> pt_run ops = Some (t, ann, wk) ->
  NoDup ann /\ forall s p, In (s, p) ann -> ready_spec_m (marks_of ops) s p = true.
Proof. intros Hm Hrun. destruct (run_inv ops t ann wk Hm Hrun) as [_ _ A N _]. split; assumption. Qed.

(* one further step of a reachable tracker: announcements are new, justified only now, and in the query *)
Theorem step_announcements ops op t ann wk t' a w :
  roots_mono (ops ++ [op]) = true -> pt_run ops = Some (t, ann, wk) -> pt_step t op = Some (t', a, w) ->
  NoDup a /\
  forall s p, In (s, p) a ->
    ~ In p (pt_parents_ready t s) /\ In p (pt_parents_ready t' s) /\
    ready_spec_m (marks_of ops) s p = false /\ ready_spec_m (marks_of (ops ++ [op])) s p = true.
Proof.
  intros Hm Hrun Hstep. pose proof Hm as Hm'. apply roots_mono_snoc in Hm'. destruct Hm' as [Hm' Hr].
  destruct (run_inv ops t ann wk Hm' Hrun) as [I R _ _ _].
  pose proof (step_ok t (marks_of ops) op I) as Hs. rewrite R in Hs. specialize (Hs Hr). rewrite Hstep in Hs.
  destruct Hs as [I' [_ [B1 [B2 _]]]]. split; [exact B2|]. intros s p Hin. destruct (B1 s p Hin) as [F G].
  rewrite <- !rdy_parents_ready, marks_of_snoc. split; [|split; [exact G | split; [exact F | apply (inv_sound _ _ I'), G]]].
  intros Hc. apply (inv_sound _ _ I) in Hc. congruence.
Qed.

(* marks never remove a ready parent; for a certificate mark the newly ready pairs are exactly the announced ones *)
Theorem step_query_agrees ops op t ann wk t' a w :
  roots_mono (ops ++ [op]) = true -> pt_run ops = Some (t, ann, wk) -> pt_step t op = Some (t', a, w) ->
  is_markish op ->
  forall s, exists l, pt_parents_ready t' s = pt_parents_ready t s ++ l /\
                      match op with TFinalize _ => True | _ => forall p, In p l <-> In (s, p) a end.
Proof.
  intros Hm Hrun Hstep Hop s. pose proof Hm as Hm'. apply roots_mono_snoc in Hm'. destruct Hm' as [Hm' Hr].
  destruct (run_inv ops t ann wk Hm' Hrun) as [I R _ _ _].
  pose proof (step_ok t (marks_of ops) op I) as Hs. rewrite R in Hs. specialize (Hs Hr). rewrite Hstep in Hs.
  destruct Hs as [I' [_ [B1 [_ [_ [_ [_ B6]]]]]]]. destruct (B6 Hop s) as [l [El Hl]].
  exists l. rewrite <- !rdy_parents_ready. split; [exact El|].
  assert (Hback : forall p, In (s, p) a -> In p l).
  { intros p Hin. destruct (B1 s p Hin) as [F G]. rewrite El in G. apply in_app_or in G. destruct G as [G|G]; [|exact G].
    apply (inv_sound _ _ I) in G. congruence. }
  destruct op; try exact Logic.I; intros p; (split; [apply Hl | apply Hback]).
Qed.

(* (5) pruning: retained windows keep exactly their ready parents, nothing is announced or woken *)
Theorem step_prune t r : pt_step t (TPrune r) = Some (pt_prune t r, [], []) /\
  forall s, pt_parents_ready (pt_prune t r) s = if r <=? s then pt_parents_ready t s else [].
Proof. split; [reflexivity|]. intros s. rewrite <- !rdy_parents_ready. apply rdy_prune. Qed.

(* (4) waiters *)
Lemma woken_count_pos x p w : In (EWaiterWoken x p) w -> (1 <= woken_count x w)%nat.
Proof.
  intros Hin. unfold woken_count.
  assert (In (EWaiterWoken x p) (filter (woken_for x) w)) as H by (apply filter_In; split; [exact Hin | cbn; apply N.eqb_refl]).
  destruct (filter (woken_for x) w); [destruct H | cbn; lia].
Qed.
Lemma woken_count_one x w : woken_count x w = 1%nat -> exists p, In (EWaiterWoken x p) w.
Proof.
  unfold woken_count. intros H. destruct (filter (woken_for x) w) as [|e l] eqn:E; [discriminate|].
  assert (In e (filter (woken_for x) w)) as Hin by (rewrite E; left; reflexivity).
  apply filter_In in Hin. destruct Hin as [Hin Hf]. destruct e; try discriminate Hf. cbn in Hf. apply N.eqb_eq in Hf. subst.
  eexists. exact Hin.
Qed.

Theorem waiter_invariant ops t ann wk : roots_mono ops = true -> pt_run ops = Some (t, ann, wk) ->
  (forall s, pr_waiting (pt_get t s) = true -> pt_parents_ready t s = []) /\
  (forall x, (woken_count x wk + b2n (pr_waiting (pt_get t x)) <= wait_count x ops)%nat).
Proof.
  intros Hm Hrun. destruct (run_inv ops t ann wk Hm Hrun) as [I _ _ _ W]. split; [|exact W].
  intros s Hw. rewrite <- rdy_parents_ready. unfold rdy, ready_list. rewrite (inv_wait _ _ I s Hw). reflexivity.
Qed.

Theorem step_waiters ops op t ann wk t' a w :
  roots_mono (ops ++ [op]) = true -> pt_run ops = Some (t, ann, wk) -> pt_step t op = Some (t', a, w) ->
  (* a woken waiter was registered, had no ready parent, receives the first ready parent, once *)
  (forall x p, In (EWaiterWoken x p) w ->
     pr_waiting (pt_get t x) = true /\ pr_waiting (pt_get t' x) = false /\ woken_count x w = 1%nat /\
     pt_parents_ready t x = [] /\ hd_error (pt_parents_ready t' x) = Some p) /\
  (* a registered waiter is woken in the very step that makes a parent ready *)
  (is_markish op -> forall x, pr_waiting (pt_get t x) = true -> pt_parents_ready t' x <> [] ->
     exists p, In (EWaiterWoken x p) w) /\
  (* and stays registered otherwise *)
  (is_markish op -> forall x, pr_waiting (pt_get t x) = true -> pt_parents_ready t' x = [] ->
     pr_waiting (pt_get t' x) = true /\ woken_count x w = 0%nat).
Proof.
  intros Hm Hrun Hstep. pose proof Hm as Hm'. apply roots_mono_snoc in Hm'. destruct Hm' as [Hm' Hr].
  destruct (run_inv ops t ann wk Hm' Hrun) as [I R _ _ _].
  pose proof (step_ok t (marks_of ops) op I) as Hs. rewrite R in Hs. specialize (Hs Hr). rewrite Hstep in Hs.
  destruct Hs as [I' [_ [_ [_ [B3 [B4 [B5 _]]]]]]]. split; [|split].
  - intros x p Hin. destruct (B4 x p Hin) as [F G]. rewrite <- !rdy_parents_ready.
    pose proof (woken_count_pos x p w Hin) as Hc. specialize (B3 x).
    assert (match op with TWait _ => False | _ => True end) as Hnw.
    { destruct op; try exact Logic.I. cbn [pt_step] in Hstep. destruct (pt_wait t s) as [[? ?]|]; [|discriminate].
      injection Hstep as _ _ <-. destruct Hin. }
    destruct op; try contradiction;
      destruct (pr_waiting (pt_get t x)), (pr_waiting (pt_get t' x)); cbn [b2n] in B3; repeat split; try assumption; lia.
  - intros Hop x Hw Hne. specialize (B5 Hop x). rewrite Hw in B5.
    destruct (pr_waiting (pt_get t' x)) eqn:Hw'.
    + exfalso. apply Hne. rewrite <- rdy_parents_ready. unfold rdy, ready_list. rewrite (inv_wait _ _ I' x Hw'). reflexivity.
    + cbn [b2n] in B5. apply woken_count_one. lia.
  - intros Hop x Hw He. specialize (B5 Hop x). rewrite Hw in B5.
    destruct (woken_count x w) as [|n] eqn:Ec.
    + destruct (pr_waiting (pt_get t' x)); cbn [b2n] in B5; [split; reflexivity | lia].
    + exfalso. destruct (pr_waiting (pt_get t' x)); cbn [b2n] in B5; [lia|]. assert (n = O) by lia. subst.
      destruct (woken_count_one x w Ec) as [p Hin]. destruct (B4 x p Hin) as [_ G].
      rewrite rdy_parents_ready, He in G. discriminate.
Qed.

(* wait_for_parent_ready on a reachable tracker: immediate answer = minimal ready parent, iff one exists *)
Theorem wait_answer ops t ann wk s : roots_mono ops = true -> pt_run ops = Some (t, ann, wk) ->
  match pt_wait t s with
  | None => pr_waiting (pt_get t s) = true /\ pt_parents_ready t s = []
  | Some (t', Some p) => In p (pt_parents_ready t s) /\ p = hd (0, 0) (bid_sort (pt_parents_ready t s)) /\
                         forall x, Permutation (pt_parents_ready t' x) (pt_parents_ready t x)
  | Some (t', None) => pt_parents_ready t s = [] /\ pr_waiting (pt_get t s) = false /\ pr_waiting (pt_get t' s) = true /\
                       forall x, Permutation (pt_parents_ready t' x) (pt_parents_ready t x)
  end.
Proof.
  intros Hm Hrun. destruct (run_inv ops t ann wk Hm Hrun) as [I _ _ _ _].
  pose proof (wait_ok t (marks_of ops) s I) as H. destruct (pt_wait t s) as [[t' [p|]]|].
  - destruct H as [_ [_ [Hp [_ [A [B _]]]]]]. rewrite <- !rdy_parents_ready. split; [exact A|]. split; [exact B|].
    intros x. rewrite <- !rdy_parents_ready. apply Hp.
  - destruct H as [_ [_ [Hp [_ [A [B C]]]]]]. rewrite <- !rdy_parents_ready. repeat split; try assumption.
    intros x. rewrite <- !rdy_parents_ready. apply Hp.
  - rewrite <- rdy_parents_ready. exact H.
Qed.

(* ---------------- the two restrictions are necessary ---------------- *)
Definition wit_pruned_ops : list ptop :=
  [TWait 4; TNotarFb (1, 7); TSkip 3; TSkip 2; TSkip 1;
   TFinalize (mkFE (Some (5, 9)) [(4, 8)] [6; 7]); TPrune 5; TSkip 5; TWait 8; TNotarFb (2, 3); TSkip 4].
Lemma pruned_parent_witness : exists ops t ann wk p,
  roots_mono ops = true /\ pt_run ops = Some (t, ann, wk) /\
  ready_spec_m (marks_of ops) 8 p = true /\ retained (marks_of ops) (fst p) = false /\
  ~ In p (pt_parents_ready t 8).
Proof.
  exists wit_pruned_ops. eexists _, _, _, (4, 8).
  split; [vm_compute; reflexivity|]. split; [vm_compute; reflexivity|].
  split; [vm_compute; reflexivity|]. split; [vm_compute; reflexivity|].
  vm_compute. intros [H|[]]. discriminate H.
Qed.

Definition wit_regress_ops : list ptop :=
  [TSkip 1; TSkip 2; TSkip 3; TSkip 4; TSkip 5; TSkip 6; TSkip 7; TPrune 6; TPrune 0;
   TNotarFb (0, 0); TSkip 1; TSkip 2; TSkip 3; TSkip 4; TSkip 5].
Lemma root_regression_witness : exists ops,
  (forall s, ~ In (TWait s) ops) /\ roots_mono ops = false /\ pt_run ops = None.
Proof.
  exists wit_regress_ops. split; [|split; vm_compute; reflexivity].
  intros s Hin. unfold wit_regress_ops in Hin. cbn [In] in Hin.
  repeat (destruct Hin as [Hin|Hin]; [discriminate Hin|]). exact Hin.
Qed.
