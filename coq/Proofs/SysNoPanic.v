(* C01 / C10, global composition: the pool of a correct node does not panic in a system run.
   The panics of the pool model (Model/Pool.v, result None / RPanic) are
     - the finality tracker's "consensus safety violation" assertions and its fuel,
     - two parents for one block, parent slot not below the child's slot (add_block),
     - the duplicate assert of the parent-ready tracker, an empty certificate,
     - 'parent not known' when waiting children are notified,
     - a second waiter (wait_for_parent_ready) and recover_from_standstill without certificates.
   With the invariants of Proofs/SysPool.v (every tracker status is justified by the votes cast) the
   safety theorems T1-T3 exclude every one of the first four groups in every system run.
   (The tracker used to assert, in addition, that a Notarized status names the implicitly finalized
   block of its slot - which is NOT a safety violation, Proofs/SystemExamples.v
   notarized_block_off_the_finalized_chain; repaired by "fix: allow a notarized block other than the
   implicitly finalized one in a slot".  The two proof branches concerned are marked below.)
   recover_from_standstill never panics by C18 (Proofs/StandstillProofs.v: the highest finalized slot keeps
   its finalization proof).  What remains is the block producer's contract "one waiter per window":
   wait_for_parent_ready panics iff a waiter is already registered for the slot and no parent is ready.
   THEOREM sys_no_pool_panic: in EVERY system run in which no such second waiter is registered
   ([waits_ok], a decidable condition on the run), no correct node's pool ever panics. *)
From Coq Require Import List NArith Bool Lia ZifyBool ZifyNat ZifyN.
From AG Require Import Gen.Params Model.Pool Model.PoolSpec Model.SafeToSpec Model.TrackerSpec Model.Votor Model.Node
  Model.Safety Model.NodeRules Model.System
  Proofs.SlotStateProofs Proofs.SafeToProofs Proofs.SafeToComplete Proofs.StakeSets Proofs.SafetyProofs Proofs.SafetyLink Proofs.SafeToPool
  Proofs.NodeProofs Proofs.StandstillProofs Proofs.OwnVotesNode Proofs.SysSlot Proofs.SysFinality Proofs.SysReady Proofs.SysPool Proofs.SystemProofs.
Import ListNotations.
Open Scope N_scope.

Ltac nl := unfold blockid, slot, hash, vidx in *; lia.

(* ---------- fuel of the tracker's walk ---------- *)
Definition mu (t : ftracker) (m : slot) : nat := length (filter (fun kv => fst (fst kv) <? m) (ft_parents t)).

Lemma filter_length_le {A} (f : A -> bool) l : (length (filter f l) <= length l)%nat.
Proof. induction l as [|a l IH]; cbn [filter length]; [lia|]. destruct (f a); cbn [length]; lia. Qed.

Lemma filter_length_lt_strict {A} (f g : A -> bool) l x :
  (forall a, f a = true -> g a = true) -> In x l -> f x = false -> g x = true ->
  (length (filter f l) < length (filter g l))%nat.
Proof.
  intros Sub. induction l as [|a l IH]; intros I Fx Gx; [destruct I|].
  cbn [filter]. destruct I as [->|I].
  - rewrite Fx, Gx. cbn [length].
    assert (length (filter f l) <= length (filter g l))%nat.
    { clear -Sub. induction l as [|b l IH]; cbn [filter length]; [lia|].
      destruct (f b) eqn:Fb; [rewrite (Sub b Fb); cbn [length]; lia|]. destruct (g b); cbn [length]; lia. }
    lia.
  - specialize (IH I Fx Gx). destruct (f a) eqn:Fa; [rewrite (Sub a Fa); cbn [length]; lia|].
    destruct (g a); cbn [length]; lia.
Qed.

Lemma blookup_in_local {V} k (v : V) m : blookup k m = Some v -> In (k, v) m.
Proof.
  induction m as [|[k' v'] m IH]; cbn [blookup]; [discriminate|].
  destruct (bid_eqb k k') eqn:E.
  - intros X. injection X as <-. apply SysFinality.bid_eqb_eq in E. subst. left. reflexivity.
  - intros X. right. apply IH. exact X.
Qed.

Lemma mu_step t b p m : blookup b (ft_parents t) = Some p -> fst b < m -> (mu t (fst b) < mu t m)%nat.
Proof.
  intros L Lt. unfold mu. apply (filter_length_lt_strict _ _ _ (b, p)).
  - intros a Fa. apply N.ltb_lt in Fa. apply N.ltb_lt. nl.
  - apply blookup_in_local. exact L.
  - cbn [fst]. apply N.ltb_ge. nl.
  - cbn [fst]. apply N.ltb_lt. exact Lt.
Qed.

Lemma skip_between_parents : forall slots t ev t' ev' fl,
  ft_skip_between t ev slots = Some (t', ev', fl) -> ft_parents t' = ft_parents t.
Proof.
  induction slots as [|s rest IH]; intros t ev t' ev' fl R; cbn [ft_skip_between] in R.
  - injection R as <- _ _. reflexivity.
  - destruct (alookup s (ft_status t)) as [[h| |h|h|]|]; try discriminate R;
      try (apply IH in R; exact R). injection R as <- _ _. reflexivity.
Qed.

Section NoPanic.
Variable W : world.
Hypothesis WO : world_ok W.
Variable H : list vote.
Hypothesis K : hist_ok W H.

Let TR := hist_ok_trules W H WO K.

(* ---------- consequences of T1-T3 for justified statuses ---------- *)
Lemma fin_just_fin b : fin_just W H b -> finalized W H b = true.
Proof. intros [F|[_ F]]; [exact F|]. rewrite (no_final_cert_genesis W WO H K) in F. discriminate. Qed.

Lemma ifin_unique b1 b2 : ifin W H b1 -> ifin W H b2 -> fst b1 = fst b2 -> b1 = b2.
Proof.
  intros I1 I2 E. destruct (ifin_finalized W WO H b1 K I1) as [f1 [F1 A1]]. destruct (ifin_finalized W WO H b2 K I2) as [f2 [F2 A2]].
  apply (safety_one_block_per_slot W H f1 f2 b1 b2 WO K F1 F2 A1 A2 E).
Qed.

Lemma iskip_not_ifin s b : iskip W H s -> ifin W H b -> fst b = s -> False.
Proof.
  intros [f2 [a [a' [F2 [A2 [Pa [L1 L2]]]]]]] I1 E. apply fin_just_fin in F2.
  destruct (ifin_finalized W WO H b K I1) as [f1 [F1 A1]].
  destruct (safety_one_chain W H f1 f2 b a WO K F1 F2 A1 A2) as [X|X].
  - assert (Hne : b <> a) by (intros ->; nl).
    pose proof (anc_eq_below_parent W b a a' X Hne Pa) as Y. destruct (anc_eq_slot W WO _ _ Y) as [L _]. nl.
  - destruct (anc_eq_slot W WO _ _ X) as [L _]. nl.
Qed.

Lemma final_cert_fin s : final_cert W H s = true -> exists h, finalized W H (s, h) = true.
Proof.
  intros F. pose proof F as F0. apply quorum_iff in F. unfold final_stake in F.
  destruct (cpart_ex W WO (cast H s KFinal)) as [u [E C]].
  { pose proof WO as [P _]. unfold wtotal in P. change (total_stake (wep W)) with (wtotal W) in *. unfold wtotal in *. lia. }
  destruct (tr2 W H TR _ _ C E) as [[h [_ Nc]] _]. exists h. unfold finalized. cbn [fst]. rewrite F0, Nc. apply orb_true_r.
Qed.

Lemma iskip_not_final s : iskip W H s -> final_cert W H s = true -> False.
Proof.
  intros Sk F. destruct (final_cert_fin s F) as [h Fh].
  apply (iskip_not_ifin s (s, h) Sk); [apply fin_ifin; left; exact Fh | reflexivity].
Qed.

Lemma fin_notar_same b h : finalized W H b = true -> notar_cert W H (fst b, h) = true -> h = snd b.
Proof.
  intros F N. destruct (N.eq_dec h (snd b)) as [E|Hne]; [exact E|]. exfalso.
  pose proof (notar_cert_nf W H _ N) as X. rewrite (safety_T2_other W H b h WO K F Hne) in X. discriminate.
Qed.

Lemma no_notar_cert_slot0 h : notar_cert W H (0, h) = false.
Proof.
  apply quorum_false_iff. unfold notar_stake. cbn [fst snd].
  assert (M : stk W (cast H 0 (KNotar h)) <= stk W (byz W)).
  { apply stk_mono. intros z Ez. destruct (byz W z) eqn:B; [reflexivity|]. exfalso.
    rewrite (no_notar_genesis W H z h K) in Ez; [discriminate | unfold correct; rewrite B; reflexivity]. }
  pose proof WO as [P [B _]]. apply weakest_false_iff in B. unfold wtotal in P. lia.
Qed.

Lemma fin_slot_positive b : finalized W H b = true -> 0 < fst b.
Proof. apply (fin_slot_pos W WO H TR). Qed.

(* ---------- the tracker never panics on justified input ---------- *)
Lemma skip_between_total : forall slots t ev,
  FJ W H t -> (forall s, In s slots -> iskip W H s) -> ft_skip_between t ev slots <> None.
Proof.
  induction slots as [|s rest IH]; intros t ev J Sk; cbn [ft_skip_between]; [discriminate|].
  assert (Ss : iskip W H s) by (apply Sk; left; reflexivity).
  assert (J1 : FJ W H (ft_set_status t s FImplSkipped)) by (apply FJ_set; assumption).
  assert (Sk' : forall x, In x rest -> iskip W H x) by (intros x Ix; apply Sk; right; exact Ix).
  destruct (alookup s (ft_status t)) as [[h| |h|h|]|] eqn:L.
  - apply IH; assumption.
  - exfalso. apply (iskip_not_final s Ss). apply (fj_st _ _ _ J _ _ L).
  - exfalso. apply (iskip_not_ifin s (s, h) Ss); [apply fin_ifin; apply (fj_st _ _ _ J _ _ L) | reflexivity].
  - exfalso. apply (iskip_not_ifin s (s, h) Ss); [apply (fj_st _ _ _ J _ _ L) | reflexivity].
  - discriminate.
  - apply IH; assumption.
Qed.

Lemma handle_impl_total : forall fuel t source b ev,
  FJ W H t -> evj W H ev ->
  (exists c, ifin W H c /\ w_parent W c = Some b /\ fst c = source) ->
  (mu t source < fuel)%nat -> ft_handle_impl fuel t source b ev <> None.
Proof.
  induction fuel as [|f IH]; intros t source b ev J E [c [Fc [Pc Sc]]] Fu; [lia|].
  cbn [ft_handle_impl].
  assert (Lt : fst b < source) by (rewrite <- Sc; pose proof WO as [_ [_ P]]; apply P; exact Pc).
  assert (Lb : (fst b <? source) = true) by (apply N.ltb_lt; exact Lt). rewrite Lb. cbn [negb].
  destruct (fst b <? ft_first t); [discriminate|].
  assert (Fb : ifin W H b) by (eapply ifin_parent; eassumption).
  assert (Sk : forall s, In s (seqN (fst b + 1) (N.to_nat (source - fst b - 1))) -> iskip W H s).
  { intros s Is. unfold seqN in Is. apply in_map_iff in Is. destruct Is as [i [<- Ii]]. apply in_seq in Ii.
    destruct Fc as [f0 [F0 A0]]. exists f0, c, b. split; [exact F0|]. split; [exact A0|]. split; [exact Pc|]. nl. }
  destruct (ft_skip_between t ev _) as [[[t1 ev1] early]|] eqn:Esk; [|exfalso; exact (skip_between_total _ t ev J Sk Esk)].
  destruct (skip_between_just W H _ _ _ _ _ _ J E Sk Esk) as [J1 E1].
  pose proof (skip_between_parents _ _ _ _ _ _ Esk) as Pp.
  destruct early; [discriminate|]. cbv zeta.
  assert (Jb : st_just W H (fst b) (FImplFinalized (snd b))) by (cbn [st_just]; destruct b; exact Fb).
  set (t2 := ft_set_status t1 (fst b) (FImplFinalized (snd b))).
  assert (J2 : FJ W H t2) by (apply FJ_set; assumption).
  assert (Cont : match blookup b (ft_parents t2) with
                 | Some p => ft_handle_impl f t2 (fst b) p (mkFE (fe_final ev1) (fe_impl_final ev1 ++ [b]) (fe_impl_skipped ev1))
                 | None => Some (t2, mkFE (fe_final ev1) (fe_impl_final ev1 ++ [b]) (fe_impl_skipped ev1))
                 end <> None).
  { assert (E2 : evj W H (mkFE (fe_final ev1) (fe_impl_final ev1 ++ [b]) (fe_impl_skipped ev1))).
    { destruct E1 as (A & B & C). split; [exact A|]. split; [|exact C]. cbn [fe_impl_final].
      intros x Ix. apply in_app_or in Ix. destruct Ix as [Ix|[<-|[]]]; [apply B; exact Ix | exact Fb]. }
    destruct (blookup b (ft_parents t2)) as [p|] eqn:Lp; [|discriminate].
    apply IH; [exact J2 | exact E2 | |].
    - exists b. split; [exact Fb|]. split; [apply (fj_par _ _ _ J2); exact Lp | reflexivity].
    - assert (Lp' : blookup b (ft_parents t) = Some p) by (rewrite <- Pp; exact Lp).
      pose proof (mu_step t b p source Lp' Lt) as M.
      assert (Em : mu t2 (fst b) = mu t (fst b)) by (unfold mu, t2; cbn [ft_set_status ft_parents]; rewrite Pp; reflexivity).
      lia. }
  destruct (alookup (fst b) (ft_status t1)) as [[h| |h|h|]|] eqn:Lo.
  - (* Notarized(h), any h: overwritten (the pinned tracker asserted h = snd b here) *)
    exact Cont.
  - exact Cont.
  - pose proof (fj_st _ _ _ J1 _ _ Lo) as Jn. cbn [st_just] in Jn.
    assert (Eh : (fst b, h) = b) by (apply ifin_unique; [apply fin_ifin; exact Jn | exact Fb | reflexivity]).
    assert (Q : (h =? snd b) = true) by (apply N.eqb_eq; rewrite <- Eh; reflexivity). rewrite Q. discriminate.
  - pose proof (fj_st _ _ _ J1 _ _ Lo) as Jn. cbn [st_just] in Jn.
    assert (Eh : (fst b, h) = b) by (apply ifin_unique; [exact Jn | exact Fb | reflexivity]).
    assert (Q : (h =? snd b) = true) by (apply N.eqb_eq; rewrite <- Eh; reflexivity). rewrite Q. discriminate.
  - exfalso. apply (iskip_not_ifin (fst b) b); [apply (fj_st _ _ _ J1 _ _ Lo) | exact Fb | reflexivity].
  - exact Cont.
Qed.

Lemma mu_lt_fuel t m : (mu t m < ft_fuel t)%nat.
Proof. unfold mu, ft_fuel. apply PeanoNat.Nat.lt_succ_r. apply PeanoNat.Nat.le_le_succ_r. apply filter_length_le. Qed.

Lemma hfb_total t b ev : FJ W H t -> evj W H ev -> fin_just W H b -> ft_handle_finalized_block t b ev <> None.
Proof.
  intros J E Fb. unfold ft_handle_finalized_block. cbv zeta.
  set (t1 := mkFT (ft_status t) (ft_parents t) (N.max (fst b) (ft_highest t)) (ft_first t)).
  assert (J1 : FJ W H t1) by (apply FJ_highest; exact J).
  assert (E1 : evj W H (mkFE (Some b) (fe_impl_final ev) (fe_impl_skipped ev))).
  { destruct E as (A & B & C). split; [|split; assumption]. cbn [fe_final]. intros x Ex. injection Ex as <-. exact Fb. }
  destruct (blookup b (ft_parents t1)) as [p|] eqn:Lp; [|discriminate].
  destruct (ft_handle_impl (ft_fuel t1) t1 (fst b) p _) as [[t2 ev2]|] eqn:Eh; [discriminate|]. exfalso.
  revert Eh. apply handle_impl_total; [exact J1 | exact E1 | | apply mu_lt_fuel].
  exists b. split; [apply fin_ifin; exact Fb|]. split; [apply (fj_par _ _ _ J1); exact Lp | reflexivity].
Qed.

Theorem add_parent_total : forall t b p, FJ W H t -> w_parent W b = Some p -> ft_add_parent t b p <> None.
Proof.
  intros t b p J Pb. unfold ft_add_parent.
  assert (Lt : (fst p <? fst b) = true) by (apply N.ltb_lt; pose proof WO as [_ [_ P]]; apply P; exact Pb). rewrite Lt. cbn [negb].
  destruct (fst b <? ft_first t); [discriminate|].
  destruct (blookup b (ft_parents t)) as [p'|] eqn:Lp.
  { pose proof (fj_par _ _ _ J _ _ Lp) as X. rewrite Pb in X. injection X as <-.
    assert (Q : bid_eqb p p = true) by (apply SysFinality.bid_eqb_eq; reflexivity). rewrite Q. discriminate. }
  cbv zeta.
  set (t1 := mkFT (ft_status t) (binsert b p (ft_parents t)) (ft_highest t) (ft_first t)).
  assert (J1 : FJ W H t1).
  { destruct J as [P S]. constructor; [|exact S]. intros x q L. unfold t1 in L. cbn [ft_parents] in L.
    destruct (bid_eqb x b) eqn:Ex.
    - apply SysFinality.bid_eqb_eq in Ex. subst x. rewrite SysFinality.blookup_binsert_same in L. injection L as <-. exact Pb.
    - rewrite SysFinality.blookup_binsert_other in L; [apply P; exact L|]. intros ->.
      assert (bid_eqb b b = true) by (apply SysFinality.bid_eqb_eq; reflexivity). congruence. }
  assert (Walk : forall h, ifin W H (fst b, h) ->
            (if h =? snd b
             then match ft_handle_impl (ft_fuel t1) t1 (fst b) p fe_empty with
                  | Some (t2, ev0) => Some (ft_prune t2, ev0)
                  | None => None
                  end
             else Some (t1, fe_empty)) <> None).
  { intros h Fh. destruct (h =? snd b) eqn:Eh; [|discriminate]. apply N.eqb_eq in Eh. subst h.
    destruct (ft_handle_impl (ft_fuel t1) t1 (fst b) p fe_empty) as [[t2 ev0]|] eqn:Ei; [discriminate|]. exfalso.
    revert Ei. apply handle_impl_total; [exact J1 | apply evj_empty | | apply mu_lt_fuel].
    exists b. split; [destruct b; exact Fh|]. split; [exact Pb | reflexivity]. }
  change (ft_status t1) with (ft_status t).
  destruct (alookup (fst b) (ft_status t)) as [[h| |h|h|]|] eqn:Lo; try discriminate.
  - apply (Walk h). apply fin_ifin. apply (fj_st _ _ _ J _ _ Lo).
  - apply (Walk h). apply (fj_st _ _ _ J _ _ Lo).
Qed.

Theorem mark_fast_finalized_total : forall t b, FJ W H t -> ff_cert W H b = true -> ft_mark_fast_finalized t b <> None.
Proof.
  intros t b J Fc. unfold ft_mark_fast_finalized.
  destruct (fst b <? ft_first t); [discriminate|]. cbv zeta.
  assert (Ff : finalized W H b = true) by (unfold finalized; rewrite Fc; reflexivity).
  assert (Fb : fin_just W H b) by (left; exact Ff).
  assert (J1 : FJ W H (ft_set_status t (fst b) (FFinalized (snd b)))).
  { apply FJ_set; [exact J|]. cbn [st_just]. destruct b; exact Fb. }
  pose proof (hfb_total _ b fe_empty J1 (evj_empty W H) Fb) as Hf.
  destruct (alookup (fst b) (ft_status t)) as [[h| |h|h|]|] eqn:Lo; try exact Hf.
  - pose proof (fj_st _ _ _ J _ _ Lo) as Jn. cbn [st_just] in Jn.
    assert (Eh : h = snd b).
    { destruct Jn as [Nc|G]; [apply fin_notar_same; assumption|]. exfalso.
      pose proof (fin_slot_positive b Ff) as P. unfold genesis in G. injection G as G _. nl. }
    assert (Q : (h =? snd b) = true) by (apply N.eqb_eq; exact Eh). rewrite Q. exact Hf.
  - pose proof (fj_st _ _ _ J _ _ Lo) as Jn. cbn [st_just] in Jn.
    assert (Eh : (fst b, h) = b) by (apply ifin_unique; [apply fin_ifin; exact Jn | apply fin_ifin; exact Fb | reflexivity]).
    assert (Q : (h =? snd b) = true) by (apply N.eqb_eq; rewrite <- Eh; reflexivity). rewrite Q. discriminate.
  - pose proof (fj_st _ _ _ J _ _ Lo) as Jn. cbn [st_just] in Jn.
    assert (Eh : (fst b, h) = b) by (apply ifin_unique; [exact Jn | apply fin_ifin; exact Fb | reflexivity]).
    assert (Q : (h =? snd b) = true) by (apply N.eqb_eq; rewrite <- Eh; reflexivity). rewrite Q. discriminate.
  - exfalso. apply (iskip_not_ifin (fst b) b); [apply (fj_st _ _ _ J _ _ Lo) | apply fin_ifin; exact Fb | reflexivity].
Qed.

Theorem mark_notarized_total : forall t b, FJ W H t -> notar_cert W H b = true -> ft_mark_notarized t b <> None.
Proof.
  intros t b J Nc. unfold ft_mark_notarized.
  destruct (fst b <? ft_first t); [discriminate|]. cbv zeta.
  assert (Nb : notar_cert W H (fst b, snd b) = true) by (destruct b; exact Nc).
  assert (J1 : FJ W H (ft_set_status t (fst b) (FNotarized (snd b)))).
  { apply FJ_set; [exact J|]. cbn [st_just]. left. exact Nb. }
  destruct (alookup (fst b) (ft_status t)) as [[h| |h|h|]|] eqn:Lo.
  - pose proof (fj_st _ _ _ J _ _ Lo) as Jn. cbn [st_just] in Jn.
    assert (Eh : h = snd b).
    { destruct Jn as [N2|G]; [apply (notar_cert_unique W H WO TR (fst b)); assumption|]. exfalso.
      unfold genesis in G. injection G as G _. rewrite G in Nb. rewrite no_notar_cert_slot0 in Nb. discriminate. }
    assert (Q : (h =? snd b) = true) by (apply N.eqb_eq; exact Eh). rewrite Q. discriminate.
  - assert (Fb : fin_just W H b).
    { left. unfold finalized. pose proof (fj_st _ _ _ J _ _ Lo) as Fc. cbn [st_just] in Fc. rewrite Fc, Nc. apply orb_true_r. }
    apply hfb_total; [|apply evj_empty | exact Fb]. apply FJ_set; [exact J1|]. cbn [st_just]. destruct b; exact Fb.
  - pose proof (fj_st _ _ _ J _ _ Lo) as Jn. cbn [st_just] in Jn. apply fin_just_fin in Jn.
    assert (Eh : snd b = h) by (apply (fin_notar_same (fst b, h) (snd b) Jn Nb)).
    assert (Q : (h =? snd b) = true) by (apply N.eqb_eq; symmetry; exact Eh). rewrite Q. discriminate.
  - (* ImplicitlyFinalized(h), any h: kept (the pinned tracker asserted h = snd b here) *)
    discriminate.
  - discriminate.
  - discriminate.
Qed.

Theorem mark_finalized_total : forall t s, FJ W H t -> final_cert W H s = true -> ft_mark_finalized t s <> None.
Proof.
  intros t s J Fc. unfold ft_mark_finalized.
  destruct (s <? ft_first t); [discriminate|]. cbv zeta.
  assert (J1 : FJ W H (ft_set_status t s FFinalPendingNotar)) by (apply FJ_set; [exact J | exact Fc]).
  destruct (alookup s (ft_status t)) as [[h| |h|h|]|] eqn:Lo; try discriminate.
  - assert (Fb : fin_just W H (s, h)).
    { pose proof (fj_st _ _ _ J _ _ Lo) as N. cbn [st_just] in N. destruct N as [N|G].
      - left. unfold finalized. cbn [fst]. rewrite Fc, N. apply orb_true_r.
      - right. split; [exact G|]. injection G as -> _. exact Fc. }
    apply hfb_total; [|apply evj_empty | exact Fb]. apply FJ_set; [exact J1 | exact Fb].
  - exfalso. apply (iskip_not_final s); [apply (fj_st _ _ _ J _ _ Lo) | exact Fc].
Qed.
End NoPanic.

(* ---------- the pool ---------- *)
Section PoolNoPanic.
Variable W : world.
Hypothesis WO : world_ok W.
Variable e : epoch.
Hypothesis Est : stakes e = w_stakes W.
Variable H : list vote.
Hypothesis K : hist_ok W H.

Lemma phf_total p ev : PJ W e H p -> pool_handle_finalization p ev <> None.
Proof.
  intros J. unfold pool_handle_finalization.
  destruct (pt_handle_finalization (p_prt p) ev) as [[[t prs] wk]|] eqn:HF; [discriminate|]. exfalso.
  apply (prj_step_total W H (p_prt p) (TFinalize ev) (pj_prt _ _ _ _ J)); [intros r Er; discriminate | intros s Es; discriminate | exact HF].
Qed.

Lemma wait_inv_set_ss p s x : wait_inv p -> wait_inv (p_set_ss p s x).
Proof. intros Wt. apply (wait_inv_fw p); [exact Wt | apply fw_le_same; [reflexivity | auto]]. Qed.

(* what the pool holds after one more ingredient of a successful certificate insertion *)
Record live (p : pool) (ex : option blockid) : Prop := mkLive {
  lv_pj : PJ W e H p;
  lv_link : link_inv p ex;
  lv_wait : wait_inv p }.

Lemma live_after_ft p ex t ev p1 o1 :
  live p ex -> FJ W H t -> evj W H ev -> ft_le (p_ft p) t -> ft_first (p_ft p) <= ft_first t ->
  pool_handle_finalization (pool_with_ft p t) ev = Some (p1, o1) ->
  live p1 ex /\ p_panicked p1 = p_panicked p.
Proof.
  intros [J L Wt] Jt Je Le Lf HF.
  destruct (phf_just W WO e H _ _ _ _ (PJ_with_ft W e H p t J Jt Lf) Je HF) as [J1 _].
  destruct (ft_step e p t ev p1 o1 Le HF) as (_ & K1 & P1 & _).
  split; [|exact P1]. constructor; [exact J1 | apply K1; exact L | apply (wait_inv_fw p); [exact Wt | apply (ft_step_fw e p t ev p1 o1 Le HF)]].
Qed.

Theorem avc_total : forall p c,
  PJ W e H p -> link_inv p None -> wait_inv p -> cert_backed W H c = true -> add_valid_cert e p c <> None.
Proof.
  intros p c J L Wt Bc. pose proof (backed_just W H c Bc) as Jc. unfold add_valid_cert. cbv zeta.
  set (s := c_slot c). set (p0 := p_set_ss p s (ss_add_cert (p_ss p s) c)).
  assert (J0 : PJ W e H p0).
  { apply PJ_set_ss; [exact J|]. apply (SJ_cert W e); [apply (pj_slots _ _ _ _ J) | reflexivity | exact Bc]. }
  assert (K0 : link_inv p0 (cert_block c)).
  { apply (link_inv_set_ss p s _ None (cert_block c)); auto.
    - rewrite add_cert_n. reflexivity.
    - intros h Hh. destruct (add_cert_holds _ _ _ Hh) as [A|A]; [left; exact A|]. right.
      unfold cert_block. rewrite A. reflexivity. }
  assert (L0 : live p0 (cert_block c)) by (constructor; [exact J0 | exact K0 | apply wait_inv_set_ss; exact Wt]).
  assert (Nf : forall p1 b, live p1 (cert_block c) -> nf_cert W H b = true ->
             match notify_waiting_children e p1 b with
             | Some (p2, o2) => match pt_mark_notar_fallback (p_prt p2) b with Some _ => True | None => False end
             | None => False
             end).
  { intros p1 b [J1 K1 W1] Nc.
    destruct (notify_waiting_children e p1 b) as [[p2 o2]|] eqn:NW; [|exact (nwc_no_panic e p1 _ b K1 W1 NW)].
    destruct (nwc_just W e Est H _ _ _ _ J1 Nc NW) as [J2 _].
    destruct (pt_mark_notar_fallback (p_prt p2) b) as [r|] eqn:MF; [exact I|].
    apply (prj_step_total W H (p_prt p2) (TNotarFb b) (pj_prt _ _ _ _ J2)); [intros r Er; discriminate | intros x Ex; discriminate | exact MF]. }
  unfold cert_just in Jc. fold s in Jc.
  destruct (c_kind c) as [h|h| |h|] eqn:Kc.
  - destruct (ft_mark_notarized (p_ft p0) (s, h)) as [[t ev]|] eqn:FT;
      [|exfalso; exact (mark_notarized_total W WO H K _ _ (pj_ft _ _ _ _ J0) Jc FT)].
    destruct (mark_notarized_just W H _ _ _ _ (pj_ft _ _ _ _ J0) Jc FT) as [Jt Je].
    destruct (pool_handle_finalization (pool_with_ft p0 t) ev) as [[p1 o1]|] eqn:HF.
    2:{ exfalso. exact (phf_total _ ev (PJ_with_ft W e H p0 t J0 Jt (PoolTrackerLink.ft_mark_notarized_first _ _ _ _ FT)) HF). }
    destruct (live_after_ft p0 _ t ev p1 o1 L0 Jt Je (ft_le_mark_notarized _ _ _ _ FT) (PoolTrackerLink.ft_mark_notarized_first _ _ _ _ FT) HF) as [L1 _].
    pose proof (Nf p1 (s, h) L1 (notar_cert_nf W H _ Jc)) as X.
    destruct (notify_waiting_children e p1 (s, h)) as [[p2 o2]|]; [|contradiction].
    destruct (pt_mark_notar_fallback (p_prt p2) (s, h)) as [[[t2 prs] wk]|]; [discriminate | contradiction].
  - pose proof (Nf p0 (s, h) L0 Jc) as X.
    destruct (notify_waiting_children e p0 (s, h)) as [[p2 o2]|]; [|contradiction].
    destruct (pt_mark_notar_fallback (p_prt p2) (s, h)) as [[[t2 prs] wk]|]; [discriminate | contradiction].
  - destruct (pt_mark_skipped (p_prt p0) s) as [[[t2 prs] wk]|] eqn:MS; [discriminate|]. exfalso.
    apply (prj_step_total W H (p_prt p0) (TSkip s) (pj_prt _ _ _ _ J0)); [intros r Er; discriminate | intros x Ex; discriminate | exact MS].
  - destruct (ft_mark_fast_finalized (p_ft p0) (s, h)) as [[t ev]|] eqn:FT;
      [|exfalso; exact (mark_fast_finalized_total W WO H K _ _ (pj_ft _ _ _ _ J0) Jc FT)].
    destruct (mark_fast_finalized_just W H _ _ _ _ (pj_ft _ _ _ _ J0) Jc FT) as [Jt Je].
    destruct (pool_handle_finalization (pool_with_ft p0 t) ev) as [[p1 o1]|] eqn:HF.
    2:{ exfalso. exact (phf_total _ ev (PJ_with_ft W e H p0 t J0 Jt (PoolTrackerLink.ft_mark_fast_finalized_first _ _ _ _ FT)) HF). }
    destruct (live_after_ft p0 _ t ev p1 o1 L0 Jt Je (ft_le_mark_fast_finalized _ _ _ _ FT) (PoolTrackerLink.ft_mark_fast_finalized_first _ _ _ _ FT) HF) as [[J1 K1 W1] _].
    destruct (notify_waiting_children e p1 (s, h)) as [[p2 o2]|] eqn:NW; [discriminate|].
    exfalso. exact (nwc_no_panic e p1 _ (s, h) K1 W1 NW).
  - destruct (ft_mark_finalized (p_ft p0) s) as [[t ev]|] eqn:FT;
      [|exfalso; exact (mark_finalized_total W WO H K _ _ (pj_ft _ _ _ _ J0) Jc FT)].
    destruct (mark_finalized_just W H _ _ _ _ (pj_ft _ _ _ _ J0) Jc FT) as [Jt Je].
    destruct (pool_handle_finalization (pool_with_ft p0 t) ev) as [[p1 o1]|] eqn:HF; [discriminate|].
    exfalso. exact (phf_total _ ev (PJ_with_ft W e H p0 t J0 Jt (PoolTrackerLink.ft_mark_finalized_first _ _ _ _ FT)) HF).
Qed.

Lemma add_certs_total : forall cs p acc,
  PJ W e H p -> link_inv p None -> wait_inv p ->
  Forall (fun oc => exists c, oc = Some c /\ cert_backed W H c = true) cs -> add_certs e p cs acc <> None.
Proof.
  induction cs as [|oc l IH]; intros p acc J L Wt Fc; cbn [add_certs]; [discriminate|].
  inversion Fc as [|? ? [c [-> Bc]] Fc']; subst.
  destruct (add_valid_cert e p c) as [[p1 o1]|] eqn:AV; [|exfalso; exact (avc_total p c J L Wt Bc AV)].
  destruct (avc_just W WO e Est H p c p1 o1 J Bc AV) as [J1 _].
  destruct (add_valid_cert_spec e p c p1 o1 AV L) as (L1 & _).
  apply IH; [exact J1 | exact L1 | apply (wait_inv_fw p); [exact Wt | eapply add_valid_cert_fw; exact AV] | exact Fc'].
Qed.

(* wait_for_parent_ready does not panic: a parent is ready, or no waiter is registered yet *)
Definition wait_safe (t : prtracker) (s : slot) : bool :=
  match pr_ready (pt_get t s) with Some _ => true | None => negb (pr_waiting (pt_get t s)) end.
Definition op_safe (p : pool) (op : pool_op) : bool :=
  match op with OpWait s => wait_safe (p_prt p) s | _ => true end.

(* no pool operation other than a second waiter makes a live pool panic *)
Theorem pool_step_total : forall p op,
  p_panicked p = false -> PJ W e H p -> link_inv p None -> wait_inv p -> StandstillProofs.INV p ->
  op_ok W H op -> op_safe p op = true ->
  p_panicked (fst (fst (pool_step e p op))) = false.
Proof.
  intros p op Np J L Wt Iv Ok Q. unfold pool_step. rewrite Np.
  destruct op as [vt|c|b par| |s|]; cbn [op_ok op_safe] in *; [| | | | |exact Np].
  - (* vote *)
    unfold pool_add_vote, pool_add_vote_gen. cbv zeta.
    destruct (out_of_bounds p (v_slot vt)); [exact Np|].
    destruct (p_touch_frame p (v_slot vt)) as (T1 & T2 & _ & T4).
    pose proof (PJ_touch W e H p (v_slot vt) J) as J0.
    destruct (check_slashable _ vt) eqn:Cs; [cbn [fst]; rewrite T4; exact Np|].
    destruct (should_ignore _ vt) eqn:Si; [cbn [fst]; rewrite T4; exact Np|].
    destruct (ss_add_vote_gen true e (p_ss (p_touch p (v_slot vt)) (v_slot vt)) vt) as [ss' out] eqn:AV.
    destruct (SJ_vote W WO e Est H _ vt ss' out (pj_slots _ _ _ _ J0 (v_slot vt)) (conj Cs Si) Ok AV) as (Js & _ & Fc).
    set (p1 := p_set_ss (p_touch p (v_slot vt)) (v_slot vt) ss').
    assert (J1 : PJ W e H p1) by (apply PJ_set_ss; assumption).
    assert (L0 : link_inv (p_touch p (v_slot vt)) None).
    { apply (link_inv_ext p _ None T1); [intros x Hx; rewrite T2; exact Hx | apply p_ss_touch | exact L]. }
    assert (W1 : wait_inv p1).
    { apply wait_inv_set_ss. apply (wait_inv_fw p); [exact Wt | apply fw_le_touch]. }
    destruct (add_vote_chain e _ vt ss' out AV) as (X & _).
    assert (L1 : link_inv p1 None).
    { apply (link_inv_set_ss _ (v_slot vt) ss' None None); auto.
      - rewrite (ex_pa _ _ _ _ _ X). reflexivity.
      - intros h Hh. left. rewrite <- Hh. symmetry. apply nf_or_stronger_ext. rewrite (ex_c _ _ _ _ _ X). reflexivity. }
    destruct (add_certs e p1 (o_certs out) po_empty) as [[p2 o2]|] eqn:AC.
    + cbn [fst]. destruct (add_certs_spec e _ _ _ _ _ AC L1) as (_ & P2 & _). rewrite P2. unfold p1. cbn [p_set_ss p_panicked].
      rewrite T4. exact Np.
    + exfalso. revert AC. apply add_certs_total; [exact J1 | exact L1 | exact W1 |].
      eapply Forall_impl; [|exact Fc]. intros oc [c0 [E0 [_ B]]]. exists c0. split; assumption.
  - (* certificate *)
    unfold pool_add_cert. cbv zeta.
    destruct (out_of_bounds p (c_slot c)); [exact Np|].
    destruct (p_touch_frame p (c_slot c)) as (T1 & T2 & _ & T4).
    pose proof (PJ_touch W e H p (c_slot c) J) as J0.
    destruct (cert_duplicate _ c); [cbn [fst]; rewrite T4; exact Np|].
    assert (L0 : link_inv (p_touch p (c_slot c)) None).
    { apply (link_inv_ext p _ None T1); [intros x Hx; rewrite T2; exact Hx | apply p_ss_touch | exact L]. }
    assert (W0 : wait_inv (p_touch p (c_slot c))) by (apply (wait_inv_fw p); [exact Wt | apply fw_le_touch]).
    destruct (add_valid_cert e (p_touch p (c_slot c)) c) as [[p1 o1]|] eqn:AV.
    + cbn [fst]. destruct (add_valid_cert_spec e _ c p1 o1 AV L0) as (_ & _ & P1). rewrite P1, T4. exact Np.
    + exfalso. exact (avc_total _ c J0 L0 W0 Ok AV).
  - (* block *)
    unfold pool_add_block, pool_add_block_gen.
    assert (Lt : (fst par <? fst b) = true) by (apply N.ltb_lt; pose proof WO as [_ [_ P]]; apply P; exact Ok). rewrite Lt. cbn [negb].
    destruct (fst b <? first_unpruned p); [exact Np|].
    destruct (ft_add_parent (p_ft p) b par) as [[t ev]|] eqn:FT;
      [|exfalso; exact (add_parent_total W WO H K _ _ _ (pj_ft _ _ _ _ J) Ok FT)].
    destruct (add_parent_just W H _ _ _ _ _ (pj_ft _ _ _ _ J) Ok FT) as [Jt Je].
    pose proof (PoolTrackerLink.ft_add_parent_first _ _ _ _ _ FT) as Lf.
    destruct (pool_handle_finalization (pool_with_ft p t) ev) as [[p1 o1]|] eqn:HF;
      [|exfalso; exact (phf_total _ ev (PJ_with_ft W e H p t J Jt Lf) HF)].
    assert (P1 : p_panicked p1 = false).
    { unfold pool_handle_finalization in HF. destruct (pt_handle_finalization _ ev) as [[[t0 prs] wk]|]; [|discriminate].
      injection HF as <- _. exact Np. }
    destruct (fst b <? first_unpruned p1); [exact P1|]. cbv zeta.
    set (p2 := p_set_ss p1 (fst b) (notify_parent_known (p_ss p1 (fst b)) (snd b))).
    match goal with |- context [if ?c then _ else _] => destruct c end; [|exact P1].
    destruct (known_spec (p_ss p1 (fst b)) (snd b)) as (_ & _ & _ & _ & [v Lv]).
    assert (Ev : p_ss p2 (fst b) = notify_parent_known (p_ss p1 (fst b)) (snd b)) by (unfold p2; rewrite p_ss_set, N.eqb_refl; reflexivity).
    unfold notify_parent_certified. rewrite Ev, Lv.
    match goal with |- context [s2n_try ?a ?b0 ?c ?d] => destruct (s2n_try a b0 c d) as [[ss' evs] rps] end.
    destruct evs; [destruct rps|]; exact P1.
  - (* standstill: C18 *)
    pose proof (StandstillProofs.standstill_never_panics e p Iv) as Ns.
    unfold pool_standstill, pool_standstill_gen in *. cbv zeta in *.
    destruct (get_final_certs p (finalized_slot p)); [destruct (true && (finalized_slot p =? 0))|]; cbn [fst snd] in *;
      first [exact Np | exfalso; apply Ns; reflexivity].
  - (* wait: not a second waiter *)
    unfold pool_wait, pt_wait. unfold wait_safe in Q.
    destruct (pr_ready (pt_get (p_prt p) s)); [exact Np|].
    destruct (pr_waiting (pt_get (p_prt p) s)); [discriminate Q | exact Np].
Qed.
End PoolNoPanic.

(* ---------- the system ---------- *)
Section SysNoPanic.
Variable W : world.
Hypothesis WO : world_ok W.

(* the only input that can make a live pool panic: wait_for_parent_ready while a waiter is registered *)
Definition input_safe (nd : node) (i : nin) : bool :=
  match i with NWait s => wait_safe (p_prt (nd_pool nd)) s | _ => true end.
Definition label_safe (S : sys) (l : label) : bool :=
  match l with LNode u i => input_safe (s_node S u) i | LByz _ => true end.
(* every NWait of the run is issued in a state without a pending waiter for that slot *)
Fixpoint waits_ok_from (S : sys) (ls : list label) : bool :=
  match ls with
  | [] => true
  | l :: rest => label_safe S l && match sys_step W S l with Some S' => waits_ok_from S' rest | None => true end
  end.
Definition waits_ok (ls : list label) : bool := waits_ok_from sys_init ls.

Lemma sys_step_hist_grows S l S' : sys_step W S l = Some S' -> incl (s_hist S) (s_hist S').
Proof.
  unfold sys_step. destruct (label_okb W S l); [|discriminate]. intros E. injection E as <-.
  destruct l as [v|u i]; cbn [sys_apply s_hist]; [intros a Ia; right; exact Ia | apply incl_app_hist].
Qed.
Lemma sys_exec_hist_grows : forall ls S S', sys_exec_from W S ls = Some S' -> incl (s_hist S) (s_hist S').
Proof.
  induction ls as [|l ls IH]; intros S S' E; cbn [sys_exec_from] in E.
  - injection E as <-. apply incl_refl.
  - destruct (sys_step W S l) as [S1|] eqn:E1; [|discriminate].
    eapply incl_tran; [eapply sys_step_hist_grows; exact E1 | apply IH; exact E].
Qed.

Definition node_live (H : list vote) (u : vidx) (nd : node) : Prop :=
  node_inv W H u nd /\ p_panicked (nd_pool nd) = false /\ link_inv (nd_pool nd) None /\ wait_inv (nd_pool nd) /\
  StandstillProofs.INV (nd_pool nd).

Lemma node_live_init u : node_live [] u node_init.
Proof.
  split; [apply node_inv_init|]. split; [reflexivity|]. split; [|split; [apply wait_inv_init | apply StandstillProofs.INV_init]].
  destruct (pool_inv_init (node_epoch W u)) as [_ L]. exact L.
Qed.

Lemma node_live_others H u nd n :
  (forall x, In x n -> v_signer x <> u) -> node_live H u nd -> node_live (n ++ H) u nd.
Proof. intros Hn (A & B & C & D & E). split; [apply node_inv_others; assumption|]. auto. Qed.

Lemma input_op_ok H i op : input_okb W H i = true -> nin_pool_op i = Some op -> op_ok W H op.
Proof.
  intros Ok Eo. destruct i; cbn [nin_pool_op] in Eo; try discriminate; injection Eo as <-; cbn [op_ok input_okb] in *;
    try exact Logic.I; try exact Ok. apply parent_is_true. exact Ok.
Qed.

Lemma node_step_live H u nd i :
  node_live H u nd -> input_okb W H i = true -> input_safe nd i = true -> hist_ok W H ->
  let e := node_epoch W u in
  node_live (rev (node_decided e nd i) ++ H) u (fst (node_step e nd i)).
Proof.
  intros (N & Np & L & Wt & Iv) Ok Q K. cbv zeta.
  destruct (node_step_inv W WO H u nd i N Ok) as (N' & _ & _).
  split; [exact N'|].
  assert (Est : stakes (node_epoch W u) = w_stakes W) by reflexivity.
  destruct N as (older & ev & _ & _ & _ & P).
  destruct (nin_cases (node_epoch W u) nd i) as [[op [Eo Es]]|[vi [Eo [Ev Es]]]]; rewrite Es.
  - unfold node_pool_op.
    pose proof (StandstillProofs.pool_step_INV (node_epoch W u) (nd_pool nd) op Iv) as [Iv' _].
    destruct (pool_step (node_epoch W u) (nd_pool nd) op) as [[p' r] o] eqn:Ep.
    destruct (votor_feed _ _ _) as [t' outs]. cbn [fst nd_pool] in *.
    assert (Qo : op_safe (nd_pool nd) op = true).
    { destruct i; cbn [nin_pool_op] in Eo; try discriminate; injection Eo as <-; cbn [op_safe input_safe] in *; try reflexivity. exact Q. }
    pose proof (pool_step_total W WO (node_epoch W u) Est H K (nd_pool nd) op Np P L Wt Iv (input_op_ok H i op Ok Eo) Qo) as Np'.
    rewrite Ep in Np'. cbn [fst] in Np'.
    split; [exact Np'|]. split; [|split; [|exact Iv']].
    + apply (pool_step_spec (node_epoch W u) (nd_pool nd) op p' r o Ep Np' L).
    + apply (pool_step_wait (node_epoch W u) (nd_pool nd) op p' r o Ep Np' Wt).
  - unfold node_votor_in. destruct (votor_step _ _ _) as [[t' outs] pn]. cbn [fst nd_pool]. auto.
Qed.

Definition sys_live (S : sys) : Prop :=
  hist_ok W (s_hist S) /\ forall u, correct W u = true -> node_live (s_hist S) u (s_node S u).

Lemma sys_live_init : sys_live sys_init.
Proof. split; [exact I | intros u _; apply node_live_init]. Qed.

Lemma sys_step_live S l S' :
  sys_live S -> label_safe S l = true -> sys_step W S l = Some S' -> sys_live S'.
Proof.
  intros [K N] Q E.
  assert (K' : hist_ok W (s_hist S')).
  { assert (I0 : sys_inv W S) by (split; [exact K | intros u C; apply (N u C)]).
    apply (sys_step_inv W WO S l S' I0 E). }
  split; [exact K'|].
  unfold sys_step in E. destruct (label_okb W S l) eqn:Ok; [|discriminate]. injection E as <-.
  destruct l as [v|u i]; cbn [label_okb sys_apply label_safe] in *.
  - intros u C. cbn [s_hist s_node]. change (v :: s_hist S) with ([v] ++ s_hist S). apply node_live_others; [|apply N; exact C].
    intros x [<-|[]] Eq. unfold correct in C. rewrite <- Eq, Ok in C. discriminate.
  - apply andb_prop in Ok. destruct Ok as [Ok Oi]. apply andb_prop in Ok. destruct Ok as [Cu _].
    destruct (node_step_inv W WO (s_hist S) u (s_node S u) i (proj1 (N u Cu)) Oi) as (_ & Sg & _).
    intros u' C'. cbn [s_hist s_node]. unfold upd_node. destruct (u' =? u) eqn:Eu.
    + apply N.eqb_eq in Eu. subst u'. apply node_step_live; [apply N; exact Cu | exact Oi | exact Q | exact K].
    + apply node_live_others; [|apply N; exact C'].
      intros x Ix Eq. apply in_rev in Ix. rewrite Forall_forall in Sg. rewrite (Sg x Ix) in Eq. apply N.eqb_neq in Eu. congruence.
Qed.

Lemma sys_exec_from_live : forall ls S S',
  sys_live S -> sys_exec_from W S ls = Some S' -> waits_ok_from S ls = true -> sys_live S'.
Proof.
  induction ls as [|l ls IH]; intros S S' Lv E Q; cbn [sys_exec_from] in E.
  - injection E as <-. exact Lv.
  - cbn [waits_ok_from] in Q. destruct (sys_step W S l) as [S1|] eqn:E1; [|discriminate].
    apply andb_prop in Q. destruct Q as [Ql Q].
    apply (IH S1 S'); [|exact E | exact Q]. apply (sys_step_live S l S1 Lv Ql E1).
Qed.

(* NO POOL PANIC: in every system run in which wait_for_parent_ready is never called for a slot that already
   has a pending waiter, the pool of every correct node is alive - none of the tracker's "consensus safety
   violation" assertions, none of the other asserts / expects of the pool has fired *)
Theorem sys_no_pool_panic : forall ls S,
  sys_exec W ls = Some S -> waits_ok ls = true ->
  forall u, correct W u = true -> p_panicked (nd_pool (s_node S u)) = false.
Proof.
  intros ls S E Q u C. destruct (sys_exec_from_live ls sys_init S sys_live_init E Q) as [_ N].
  destruct (N u C) as (_ & Np & _). exact Np.
Qed.

(* in particular for runs without any waiter registration *)
Definition no_wait_label (l : label) : bool := match l with LNode _ (NWait _) => false | _ => true end.
Lemma no_wait_waits_ok : forall ls S, forallb no_wait_label ls = true -> waits_ok_from S ls = true.
Proof.
  induction ls as [|l ls IH]; intros S Q; [reflexivity|]. cbn [forallb] in Q. apply andb_prop in Q. destruct Q as [Ql Q].
  cbn [waits_ok_from]. apply andb_true_intro. split.
  - destruct l as [v|u i]; [reflexivity|]. destruct i; try reflexivity. discriminate Ql.
  - destruct (sys_step W S l); [apply IH; exact Q | reflexivity].
Qed.
Corollary sys_no_pool_panic_without_waiters : forall ls S,
  sys_exec W ls = Some S -> forallb no_wait_label ls = true ->
  forall u, correct W u = true -> p_panicked (nd_pool (s_node S u)) = false.
Proof. intros ls S E Q. apply (sys_no_pool_panic ls S E). apply no_wait_waits_ok. exact Q. Qed.
End SysNoPanic.

(* ---------- adequacy of the delivery rule: every vote a correct node broadcasts is in the history ---------- *)
(* (the standstill bundle re-broadcasts own votes stored in the pool - Proofs/OwnVotesNode.v pool_step_votes -
   which were cast by the provenance part of PJ; everything else Votor broadcasts is a decided vote, which
   enters the history) *)
Section Broadcasts.
Variable W : world.
Hypothesis WO : world_ok W.

Lemma was_cast_in H v : was_cast H v = true <-> In v H.
Proof. unfold was_cast. destruct v as [s k u]. cbn [v_slot v_kind v_signer]. apply cast_in. Qed.

Definition bundle_cast (H : list vote) (x : pevent) : Prop :=
  match x with EStandstill _ _ vs => forall v, In v vs -> In v H | _ => True end.

Lemma votor_vote_out own t i t' o pan v :
  votor_step own t i = (t', o, pan) -> In (VBVote v) o ->
  In v (decision_votes i o) \/ exists s cs vs, i = VPool (EStandstill s cs vs) /\ In v vs.
Proof.
  intros E Iv. destruct (standstill_or_not i o) as [[s [cs [vs ->]]]|D].
  - right. exists s, cs, vs. split; [reflexivity|]. unfold votor_step in E.
    destruct (vt_panicked t); [injection E as _ <- _; destruct Iv|]. cbn [v_handle_pool v_should_ignore] in E.
    injection E as _ <- _. apply in_app_or in Iv. destruct Iv as [Iv|Iv]; apply in_map_iff in Iv; destruct Iv as [x [Ex Ix]];
      [discriminate | injection Ex as <-; exact Ix].
  - left. rewrite D. unfold vouts_votes. apply in_flat_map. exists (VBVote v). split; [exact Iv | left; reflexivity].
Qed.

Lemma feed_votes_covered own : forall evs t H,
  Forall (bundle_cast H) evs ->
  forall v, In (VBVote v) (snd (votor_feed own t evs)) -> In v (rev (feed_decided own t evs) ++ H).
Proof.
  induction evs as [|x evs IH]; intros t H Fb v Iv; cbn [votor_feed feed_decided] in *; [destruct Iv|].
  inversion Fb as [|? ? Bx Fb']; subst.
  destruct (votor_step own t (VPool x)) as [[t1 o1] pn] eqn:E.
  destruct (votor_feed own t1 evs) as [t2 o2] eqn:E2. cbn [snd] in Iv.
  rewrite rev_app_distr, <- app_assoc. apply in_app_or in Iv. destruct Iv as [Iv|Iv].
  - apply in_or_app. right. destruct (votor_vote_out own t (VPool x) t1 o1 pn v E Iv) as [D|[s [cs [vs [Ex Ivs]]]]].
    + apply in_or_app. left. apply -> in_rev. exact D.
    + injection Ex as ->. apply in_or_app. right. apply (Bx v Ivs).
  - assert (X : In v (rev (feed_decided own t1 evs) ++ (rev (decision_votes (VPool x) o1) ++ H))).
    { apply (IH t1); [|rewrite E2; exact Iv]. eapply Forall_impl; [|exact Fb'].
      intros y By. destruct y; try exact Logic.I. cbn [bundle_cast] in *. intros v0 I0. apply in_or_app. right. apply By. exact I0. }
    exact X.
Qed.

(* the bundle of a justified pool consists of votes really cast *)
Lemma pool_bundle_cast e H p op p' r o :
  PJ W e H p -> StandstillProofs.INV p -> pool_step e p op = (p', r, o) -> Forall (bundle_cast H) (po_events o).
Proof.
  intros J Iv E. destruct (OwnVotesNode.pool_step_votes e p op p' r o E) as [_ B].
  apply Forall_forall. intros x Ix. destruct x as [s0 p0|b|s0|c|s0 cs vs|s0 p0]; try exact Logic.I.
  cbn [bundle_cast]. intros v Ivs.
  destruct op as [vt|c0|b0 par| |s1|]; try (exfalso; exact (B _ Ix)).
  destruct B as [B|[s [cs' [vs' [Eo B]]]]]; [rewrite B in Ix; destruct Ix|].
  rewrite Eo in Ix. destruct Ix as [Ex|[]]. injection Ex as _ _ <-.
  destruct (B v Ivs) as [Es [ss [Iss St]]].
  apply was_cast_in. unfold was_cast. rewrite Es.
  pose proof (StandstillProofs.entry_is_state p (v_slot v) ss (StandstillProofs.inv_keys p Iv) Iss) as Ess.
  apply (sj_votes _ _ _ _ _ (pj_slots _ _ _ _ J (v_slot v))). rewrite Ess. exact St.
Qed.

(* INV (C18) holds of every node's pool in every run *)
Lemma sys_step_INV S l S' : (forall u, StandstillProofs.INV (nd_pool (s_node S u))) -> sys_step W S l = Some S' ->
  forall u, StandstillProofs.INV (nd_pool (s_node S' u)).
Proof.
  intros Iv E. unfold sys_step in E. destruct (label_okb W S l); [|discriminate]. injection E as <-.
  destruct l as [v|u0 i]; cbn [sys_apply s_node]; [exact Iv|]. intros u. unfold upd_node. destruct (u =? u0); [|apply Iv].
  rewrite NodeProofs.node_step_pool. apply (StandstillProofs.pool_step_INV _ _ _ (Iv u0)).
Qed.
Lemma sys_exec_from_INV : forall ls S S', (forall u, StandstillProofs.INV (nd_pool (s_node S u))) ->
  sys_exec_from W S ls = Some S' -> forall u, StandstillProofs.INV (nd_pool (s_node S' u)).
Proof.
  induction ls as [|l ls IH]; intros S S' Iv E; cbn [sys_exec_from] in E; [injection E as <-; exact Iv|].
  destruct (sys_step W S l) as [S1|] eqn:E1; [|discriminate]. apply (IH S1 S'); [eapply sys_step_INV; eassumption | exact E].
Qed.

(* every vote a correct node hands to All2All::broadcast in a step is in the history after the step:
   the delivery rule "any vote of the history" covers everything correct nodes send *)
Theorem sys_broadcast_votes_in_history : forall ls S u i v,
  sys_exec W ls = Some S -> correct W u = true -> input_okb W (s_hist S) i = true ->
  let e := node_epoch W u in
  In (VBVote v) (no_out (snd (node_step e (s_node S u) i))) ->
  In v (rev (node_decided e (s_node S u) i) ++ s_hist S).
Proof.
  intros ls S u i v E C Ok. cbv zeta. intros Iv.
  pose proof (sys_exec_from_INV ls sys_init S (fun _ => StandstillProofs.INV_init) E u) as Inv.
  destruct (sys_reach_inv W WO ls S E) as [_ N]. destruct (N u C) as (older & ev & _ & _ & _ & P).
  unfold node_decided. destruct (nin_cases (node_epoch W u) (s_node S u) i) as [[op [Eo Es]]|[vi [Eo [Ev Es]]]]; rewrite Es in Iv; rewrite Eo; [|rewrite Ev].
  - unfold node_pool_op in Iv.
    destruct (pool_step (node_epoch W u) (nd_pool (s_node S u)) op) as [[p' r] o] eqn:Ep.
    pose proof (pool_bundle_cast (node_epoch W u) (s_hist S) _ op p' r o P Inv Ep) as Fb.
    set (evs := filter (fun x => negb (pe_is_woken x)) (po_events o)) in *.
    assert (Fb' : Forall (bundle_cast (s_hist S)) evs).
    { apply Forall_forall. intros x Ix. apply filter_In in Ix. destruct Ix as [Ix _]. rewrite Forall_forall in Fb. apply (Fb x Ix). }
    pose proof (feed_votes_covered (own (node_epoch W u)) evs (nd_votor (s_node S u)) (s_hist S) Fb' v) as X.
    destruct (votor_feed (own (node_epoch W u)) (nd_votor (s_node S u)) evs) as [t' outs]. cbn [snd no_out] in *. apply X. exact Iv.
  - unfold node_votor_in in Iv. cbn [own node_epoch] in *.
    destruct (votor_step u (nd_votor (s_node S u)) vi) as [[t' outs] pn] eqn:Ev2. cbn [snd no_out] in Iv.
    destruct (votor_vote_out u _ vi t' outs pn v Ev2 Iv) as [D|[s [cs [vs [Ex _]]]]].
    + apply in_or_app. left. apply -> in_rev. exact D.
    + exfalso. destruct i; cbn [nin_votor_in] in Ev; try discriminate; injection Ev as <-; discriminate Ex.
Qed.
End Broadcasts.
