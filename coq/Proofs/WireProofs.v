(* Laws of the wire codecs (property C19): round trip, exact consumption, canonical re-encoding, sizes. *)
From Coq Require Import String Ascii List NArith Bool Lia ZifyBool ZifyNat ZifyN.
From Coq Require Import Init.Byte Strings.Byte.
From AG Require Import Gen.Params Model.Wire.
Import ListNotations.
Open Scope N_scope.

(* ---------- the laws ---------- *)
Definition rt {A} (c : codec A) : Prop :=
  forall a r, wf c a -> dec c (enc c a ++ r) = Some (a, r).
(* whatever decodes is well formed, consumed a prefix, and the outcome depends on that prefix only *)
Definition sound {A} (c : codec A) : Prop :=
  forall b a r, dec c b = Some (a, r) ->
    wf c a /\ exists pre, b = pre ++ r /\ forall r', dec c (pre ++ r') = Some (a, r').
Definition canon {A} (c : codec A) : Prop :=
  forall b a r, dec c b = Some (a, r) -> b = enc c a ++ r.
Definition ok {A} (c : codec A) : Prop := rt c /\ sound c.

(* ---------- bytes and little-endian integers ---------- *)
Lemma to_N_byte_of_N n : Byte.to_N (byte_of_N n) = n mod 256.
Proof.
  unfold byte_of_N. destruct (Byte.of_N (n mod 256)) eqn:E.
  - apply Byte.to_of_N in E. exact E.
  - apply Byte.of_N_None_iff in E. assert (n mod 256 < 256) by (apply N.mod_lt; lia). lia.
Qed.

Lemma byte_of_N_to_N b : byte_of_N (Byte.to_N b) = b.
Proof.
  unfold byte_of_N. pose proof (Byte.to_N_bounded b).
  rewrite N.mod_small by lia. rewrite Byte.of_to_N. reflexivity.
Qed.

Lemma le_enc_length k : forall n, length (le_enc k n) = k.
Proof. induction k; intros; simpl; [reflexivity | rewrite IHk; reflexivity]. Qed.

Lemma le_dec_enc k : forall n, le_dec (le_enc k n) = n mod 256 ^ N.of_nat k.
Proof.
  induction k; intros n.
  - simpl. rewrite N.mod_1_r. reflexivity.
  - cbn [le_enc le_dec]. rewrite to_N_byte_of_N, IHk.
    rewrite Nat2N.inj_succ, N.pow_succ_r by lia.
    rewrite N.mod_mul_r by (try lia; apply N.pow_nonzero; lia). reflexivity.
Qed.

Lemma le_dec_bound bs : le_dec bs < 256 ^ N.of_nat (length bs).
Proof.
  induction bs as [|b r IH].
  - simpl. lia.
  - cbn [le_dec length]. rewrite Nat2N.inj_succ, N.pow_succ_r by lia.
    pose proof (Byte.to_N_bounded b). lia.
Qed.

Lemma le_enc_dec bs : le_enc (length bs) (le_dec bs) = bs.
Proof.
  induction bs as [|b r IH]; [reflexivity|].
  cbn [le_dec length le_enc]. pose proof (Byte.to_N_bounded b).
  assert (E1 : byte_of_N (Byte.to_N b + 256 * le_dec r) = b).
  { unfold byte_of_N. replace ((Byte.to_N b + 256 * le_dec r) mod 256) with (Byte.to_N b) by lia.
    rewrite Byte.of_to_N. reflexivity. }
  assert (E2 : (Byte.to_N b + 256 * le_dec r) / 256 = le_dec r) by lia.
  rewrite E1, E2, IH. reflexivity.
Qed.

Lemma take_spec k : forall b p q, take k b = Some (p, q) -> b = p ++ q /\ length p = k.
Proof.
  induction k; intros b p q H; simpl in H.
  - inversion H; subst. split; reflexivity.
  - destruct b as [|x r]; [discriminate|]. destruct (take k r) as [[p' q']|] eqn:E; [|discriminate].
    inversion H; subst. apply IHk in E. destruct E as [-> <-]. split; reflexivity.
Qed.

Lemma take_app p : forall r, take (length p) (p ++ r) = Some (p, r).
Proof. induction p as [|x p IH]; intros; simpl; [reflexivity | rewrite IH; reflexivity]. Qed.

Lemma take_app_len k p r : length p = k -> take k (p ++ r) = Some (p, r).
Proof. intros <-. apply take_app. Qed.

(* ---------- primitive codecs ---------- *)
Lemma fixed_ok k : ok (c_fixed k).
Proof.
  split.
  - intros a r H. cbn in *. apply take_app_len. exact H.
  - intros b a r H. cbn in H. apply take_spec in H. destruct H as [-> L]. split; [exact L|].
    exists a. split; [reflexivity|]. intros r'. cbn. apply take_app_len. exact L.
Qed.
Lemma fixed_canon k : canon (c_fixed k).
Proof. intros b a r H. cbn in H. apply take_spec in H. destruct H as [-> _]. reflexivity. Qed.

Lemma uint_ok k : ok (c_uint k).
Proof.
  split.
  - intros n r H. cbn in *. rewrite (take_app_len k) by apply le_enc_length.
    rewrite le_dec_enc, N.mod_small by exact H. reflexivity.
  - intros b n r H. cbn in H. destruct (take k b) as [[x q]|] eqn:E; [|discriminate].
    inversion H; subst. apply take_spec in E. destruct E as [-> L]. split.
    + cbn. rewrite <- L. apply le_dec_bound.
    + exists x. split; [reflexivity|]. intros r'. cbn. rewrite (take_app_len k) by exact L. reflexivity.
Qed.
Lemma u_rt k n r : n < 256 ^ N.of_nat k -> dec (c_uint k) (le_enc k n ++ r) = Some (n, r).
Proof. intros H. apply (proj1 (uint_ok k) n r H). Qed.
Lemma uint_canon k : canon (c_uint k).
Proof.
  intros b n r H. cbn in H. destruct (take k b) as [[x q]|] eqn:E; [|discriminate].
  inversion H; subst. apply take_spec in E. destruct E as [-> L]. cbn. rewrite <- L, le_enc_dec. reflexivity.
Qed.

Lemma filter_ok {A} (c : codec A) p : ok c -> ok (c_filter c p).
Proof.
  intros [R S]. split.
  - intros a r [W P]. cbn. rewrite (R a r W), P. reflexivity.
  - intros b a r H. cbn in H. destruct (dec c b) as [[a' r0]|] eqn:E; [|discriminate].
    destruct (p a') eqn:P; [|discriminate]. inversion H; subst.
    destruct (S _ _ _ E) as [W [pre [-> U]]]. split; [split; assumption|].
    exists pre. split; [reflexivity|]. intros r'. cbn. rewrite U, P. reflexivity.
Qed.
Lemma filter_canon {A} (c : codec A) p : canon c -> canon (c_filter c p).
Proof.
  intros C b a r H. cbn in H. destruct (dec c b) as [[a' r0]|] eqn:E; [|discriminate].
  destruct (p a'); [|discriminate]. inversion H; subst. apply (C _ _ _ E).
Qed.

Lemma map_ok {A B} (c : codec A) (f : A -> B) (g : B -> A) :
  (forall b, f (g b) = b) -> (forall a, wf c a -> g (f a) = a) -> ok c -> ok (c_map c f g).
Proof.
  intros R1 R2 [R S]. split.
  - intros b r W. cbn in *. rewrite (R _ r W), R1. reflexivity.
  - intros x b r H. cbn in H. destruct (dec c x) as [[a r0]|] eqn:E; [|discriminate].
    inversion H; subst. destruct (S _ _ _ E) as [W [pre [-> U]]]. split.
    + cbn. rewrite R2 by exact W. exact W.
    + exists pre. split; [reflexivity|]. intros r'. cbn. rewrite U. reflexivity.
Qed.
Lemma map_canon {A B} (c : codec A) (f : A -> B) (g : B -> A) :
  (forall a, wf c a -> g (f a) = a) -> ok c -> canon c -> canon (c_map c f g).
Proof.
  intros R2 [_ S] C x b r H. cbn in H. destruct (dec c x) as [[a r0]|] eqn:E; [|discriminate].
  inversion H; subst. cbn. destruct (S _ _ _ E) as [W _]. rewrite R2 by exact W. apply (C _ _ _ E).
Qed.

Lemma pair_ok {A B} (ca : codec A) (cb : codec B) : ok ca -> ok cb -> ok (c_pair ca cb).
Proof.
  intros [Ra Sa] [Rb Sb]. split.
  - intros [a b] r [Wa Wb]. cbn in *. rewrite <- app_assoc, (Ra _ _ Wa), (Rb _ _ Wb). reflexivity.
  - intros x [a b] r H. cbn in H. destruct (dec ca x) as [[a' r0]|] eqn:Ea; [|discriminate].
    destruct (dec cb r0) as [[b' r1]|] eqn:Eb; [|discriminate]. inversion H; subst.
    destruct (Sa _ _ _ Ea) as [Wa [pa [-> Ua]]]. destruct (Sb _ _ _ Eb) as [Wb [pb [-> Ub]]].
    split; [split; assumption|]. exists (pa ++ pb). split; [rewrite app_assoc; reflexivity|].
    intros r'. cbn. rewrite <- app_assoc, Ua, Ub. reflexivity.
Qed.
Lemma pair_canon {A B} (ca : codec A) (cb : codec B) : canon ca -> canon cb -> canon (c_pair ca cb).
Proof.
  intros Ca Cb x [a b] r H. cbn in H. destruct (dec ca x) as [[a' r0]|] eqn:Ea; [|discriminate].
  destruct (dec cb r0) as [[b' r1]|] eqn:Eb; [|discriminate]. inversion H; subst.
  cbn. rewrite (Ca _ _ _ Ea), (Cb _ _ _ Eb), app_assoc. reflexivity.
Qed.

Lemma option_ok {A} (c : codec A) : ok c -> ok (c_option c).
Proof.
  intros [R S]. destruct (uint_ok 1) as [R8 S8]. split.
  - intros [a|] r W; cbn [enc c_option].
    + rewrite <- app_assoc. cbn [dec c_option]. unfold c_u8. rewrite (u_rt 1 1 _) by (cbn; lia).
      cbn [N.eqb Pos.eqb]. rewrite (R _ _ W). reflexivity.
    + cbn [dec c_option]. unfold c_u8. rewrite (u_rt 1 0 _) by (cbn; lia). reflexivity.
  - intros b o r H. cbn [dec c_option] in H. destruct (dec c_u8 b) as [[t r0]|] eqn:E; [|discriminate].
    destruct (S8 _ _ _ E) as [_ [p0 [-> U0]]].
    destruct (t =? 0) eqn:T0.
    + inversion H; subst. split; [exact I|]. exists p0. split; [reflexivity|].
      intros r'. cbn [dec c_option]. unfold c_u8 in *. rewrite U0, T0. reflexivity.
    + destruct (t =? 1) eqn:T1; [|discriminate].
      destruct (dec c r0) as [[a r1]|] eqn:Ea; [|discriminate]. inversion H; subst.
      destruct (S _ _ _ Ea) as [W [pa [-> Ua]]]. split; [exact W|].
      exists (p0 ++ pa). split; [rewrite app_assoc; reflexivity|].
      intros r'. cbn [dec c_option]. unfold c_u8 in *. rewrite <- app_assoc, U0, T0, T1, Ua. reflexivity.
Qed.
Lemma option_canon {A} (c : codec A) : canon c -> canon (c_option c).
Proof.
  intros C b o r H. cbn [dec c_option] in H. destruct (dec c_u8 b) as [[t r0]|] eqn:E; [|discriminate].
  pose proof (uint_canon 1 _ _ _ E) as Eb. cbn [enc c_uint] in Eb.
  destruct (t =? 0) eqn:T0.
  - inversion H; subst. apply N.eqb_eq in T0. subst t. reflexivity.
  - destruct (t =? 1) eqn:T1; [|discriminate]. destruct (dec c r0) as [[a r1]|] eqn:Ea; [|discriminate].
    inversion H; subst. apply N.eqb_eq in T1. subst t. cbn [enc c_option]. rewrite (C _ _ _ Ea), <- app_assoc. reflexivity.
Qed.

(* ---------- vectors ---------- *)
Lemma many_rt {A} (c : codec A) : rt c -> forall l r, Forall (wf c) l ->
  dec_many c (length l) (flat_map (enc c) l ++ r) = Some (l, r).
Proof.
  intros R l. induction l as [|a l IH]; intros r F; [reflexivity|].
  inversion F; subst. cbn [length flat_map dec_many]. rewrite <- app_assoc, (R _ _ H1), (IH _ H2). reflexivity.
Qed.
Lemma many_sound {A} (c : codec A) : sound c -> forall k b l r, dec_many c k b = Some (l, r) ->
  length l = k /\ Forall (wf c) l /\ exists pre, b = pre ++ r /\ forall r', dec_many c k (pre ++ r') = Some (l, r').
Proof.
  intros S k. induction k; intros b l r H; cbn [dec_many] in H.
  - inversion H; subst. split; [reflexivity|]. split; [constructor|]. exists []. split; reflexivity.
  - destruct (dec c b) as [[a r0]|] eqn:E; [|discriminate].
    destruct (dec_many c k r0) as [[l' r1]|] eqn:E2; [|discriminate]. inversion H; subst.
    destruct (S _ _ _ E) as [W [pa [-> Ua]]]. destruct (IHk _ _ _ E2) as [L [F [pm [-> Um]]]].
    split; [cbn; rewrite L; reflexivity|]. split; [constructor; assumption|].
    exists (pa ++ pm). split; [rewrite app_assoc; reflexivity|].
    intros r'. cbn [dec_many]. rewrite <- app_assoc, Ua, Um. reflexivity.
Qed.
Lemma many_canon {A} (c : codec A) : canon c -> forall k b l r, dec_many c k b = Some (l, r) -> b = flat_map (enc c) l ++ r.
Proof.
  intros C k. induction k; intros b l r H; cbn [dec_many] in H.
  - inversion H; subst. reflexivity.
  - destruct (dec c b) as [[a r0]|] eqn:E; [|discriminate].
    destruct (dec_many c k r0) as [[l' r1]|] eqn:E2; [|discriminate]. inversion H; subst.
    cbn [flat_map]. rewrite (C _ _ _ E), (IHk _ _ _ E2), app_assoc. reflexivity.
Qed.

Lemma vec_ok {A} esize limit (c : codec A) : ok c -> ok (c_vec esize limit c).
Proof.
  intros [R S]. destruct (uint_ok 8) as [R8 S8]. split.
  - intros l r [L1 [L2 F]]. cbn [enc dec c_vec]. rewrite <- app_assoc. unfold c_u64.
    rewrite (u_rt 8 _ _) by exact L2.
    replace (N.of_nat (length l) * esize <=? limit) with true by lia.
    rewrite Nat2N.id. apply many_rt; assumption.
  - intros b l r H. cbn [dec c_vec] in H. destruct (dec c_u64 b) as [[n r0]|] eqn:E; [|discriminate].
    destruct (n * esize <=? limit) eqn:Lm; [|discriminate].
    destruct (S8 _ _ _ E) as [Wn [p0 [-> U0]]].
    destruct (many_sound c S _ _ _ _ H) as [L [F [pm [-> Um]]]].
    assert (Ln : N.of_nat (length l) = n) by (rewrite L; apply N2Nat.id).
    split.
    + cbn [wf c_vec]. rewrite Ln. split; [lia|]. split; [exact Wn | exact F].
    + exists (p0 ++ pm). split; [rewrite app_assoc; reflexivity|].
      intros r'. cbn [dec c_vec]. unfold c_u64 in *. rewrite <- app_assoc, U0, Lm. apply Um.
Qed.
Lemma vec_canon {A} esize limit (c : codec A) : sound c -> canon c -> canon (c_vec esize limit c).
Proof.
  intros S C b l r H. cbn [dec c_vec] in H. destruct (dec c_u64 b) as [[n r0]|] eqn:E; [|discriminate].
  destruct (n * esize <=? limit); [|discriminate].
  pose proof (uint_canon 8 _ _ _ E) as Eb. destruct (many_sound c S _ _ _ _ H) as [L _].
  cbn [enc c_vec]. rewrite L, N2Nat.id, <- app_assoc, <- (many_canon c C _ _ _ _ H). exact Eb.
Qed.

Lemma bytes_vec_ok limit : ok (c_bytes_vec limit).
Proof.
  destruct (uint_ok 8) as [R8 S8]. split.
  - intros l r [L1 L2]. cbn [enc dec c_bytes_vec]. rewrite <- app_assoc. unfold c_u64. rewrite (u_rt 8 _ _) by exact L2.
    replace (N.of_nat (length l) <=? limit) with true by lia. rewrite Nat2N.id. apply take_app.
  - intros b l r H. cbn [dec c_bytes_vec] in H. destruct (dec c_u64 b) as [[n r0]|] eqn:E; [|discriminate].
    destruct (n <=? limit) eqn:Lm; [|discriminate].
    destruct (S8 _ _ _ E) as [Wn [p0 [-> U0]]]. apply take_spec in H. destruct H as [-> L].
    assert (Ln : N.of_nat (length l) = n) by (rewrite L; apply N2Nat.id).
    split.
    + cbn [wf c_bytes_vec]. rewrite Ln. split; [lia | exact Wn].
    + exists (p0 ++ l). split; [rewrite app_assoc; reflexivity|].
      intros r'. cbn [dec c_bytes_vec]. unfold c_u64 in *. rewrite <- app_assoc, U0, Lm. apply take_app_len. exact L.
Qed.
Lemma bytes_vec_canon limit : canon (c_bytes_vec limit).
Proof.
  intros b l r H. cbn [dec c_bytes_vec] in H. destruct (dec c_u64 b) as [[n r0]|] eqn:E; [|discriminate].
  destruct (n <=? limit); [|discriminate]. pose proof (uint_canon 8 _ _ _ E) as Eb.
  apply take_spec in H. destruct H as [-> L]. cbn [enc c_bytes_vec]. rewrite L, N2Nat.id, <- app_assoc. exact Eb.
Qed.

(* ---------- enums ---------- *)
Definition vok {A} (v : vcodec A) (ts : list N) : Prop :=
  (forall a r, vwf v a -> vdec v (vtag v a) (vbody v a ++ r) = Some (a, r)) /\
  (forall t b a r, vdec v t b = Some (a, r) ->
     vwf v a /\ vtag v a = t /\ exists pre, b = pre ++ r /\ forall r', vdec v t (pre ++ r') = Some (a, r')) /\
  (forall a, In (vtag v a) ts) /\
  (forall t b, ~ In t ts -> vdec v t b = None).
Definition vcanon {A} (v : vcodec A) : Prop :=
  forall t b a r, vdec v t b = Some (a, r) -> b = vbody v a ++ r.

Lemma v_one_ok {A} t (c : codec A) : ok c -> vok (v_one t c) [t].
Proof.
  intros [R S]. repeat split.
  - intros a r W. cbn. rewrite N.eqb_refl. apply R. exact W.
  - cbn in H. destruct (t0 =? t); [|discriminate]. apply (S _ _ _ H).
  - cbn in H. destruct (t0 =? t) eqn:E; [|discriminate]. cbn. apply N.eqb_eq in E. auto.
  - cbn in H. destruct (t0 =? t) eqn:E; [|discriminate]. destruct (S _ _ _ H) as [_ [pre [-> U]]].
    exists pre. split; [reflexivity|]. intros r'. cbn. rewrite E. apply U.
  - intros a. cbn. auto.
  - intros t' b H. cbn. destruct (t' =? t) eqn:E; [|reflexivity]. apply N.eqb_eq in E. subst. exfalso. apply H. cbn. auto.
Qed.
Lemma v_one_canon {A} t (c : codec A) : canon c -> vcanon (v_one t c).
Proof. intros C t' b a r H. cbn in H. destruct (t' =? t); [|discriminate]. apply (C _ _ _ H). Qed.

Lemma v_or_ok {A B} (va : vcodec A) (vb : vcodec B) ta tb :
  vok va ta -> vok vb tb -> (forall t, In t ta -> ~ In t tb) -> vok (v_or va vb) (ta ++ tb).
Proof.
  intros [A1 [A2 [A3 A4]]] [B1 [B2 [B3 B4]]] D. repeat split.
  - intros [a|b] r W; cbn in *.
    + rewrite (A1 _ _ W). reflexivity.
    + rewrite A4; [rewrite (B1 _ _ W); reflexivity|]. intros Hin. apply (D _ Hin). apply B3.
  - cbn in H. destruct (vdec va t b) as [[a' r0]|] eqn:Ea.
    + inversion H; subst. apply (A2 _ _ _ _ Ea).
    + destruct (vdec vb t b) as [[b' r0]|] eqn:Eb; [|discriminate]. inversion H; subst. apply (B2 _ _ _ _ Eb).
  - cbn in H. destruct (vdec va t b) as [[a' r0]|] eqn:Ea.
    + inversion H; subst. apply (A2 _ _ _ _ Ea).
    + destruct (vdec vb t b) as [[b' r0]|] eqn:Eb; [|discriminate]. inversion H; subst. apply (B2 _ _ _ _ Eb).
  - cbn in H. destruct (vdec va t b) as [[a' r0]|] eqn:Ea.
    + inversion H; subst. destruct (A2 _ _ _ _ Ea) as [_ [_ [pre [-> U]]]]. exists pre. split; [reflexivity|].
      intros r'. cbn. rewrite U. reflexivity.
    + destruct (vdec vb t b) as [[b' r0]|] eqn:Eb; [|discriminate]. inversion H; subst.
      destruct (B2 _ _ _ _ Eb) as [_ [T [pre [-> U]]]]. exists pre. split; [reflexivity|].
      intros r'. cbn. rewrite A4; [rewrite U; reflexivity|]. intros Hin. apply (D _ Hin). rewrite <- T. apply B3.
  - intros [a|b]; cbn; apply in_or_app; [left; apply A3 | right; apply B3].
  - intros t b H. cbn. rewrite A4, B4; [reflexivity| |]; intros Hin; apply H; apply in_or_app; auto.
Qed.
Lemma v_or_canon {A B} (va : vcodec A) (vb : vcodec B) : vcanon va -> vcanon vb -> vcanon (v_or va vb).
Proof.
  intros Ca Cb t b s r H. cbn in H. destruct (vdec va t b) as [[a' r0]|] eqn:Ea.
  - inversion H; subst. apply (Ca _ _ _ _ Ea).
  - destruct (vdec vb t b) as [[b' r0]|] eqn:Eb; [|discriminate]. inversion H; subst. apply (Cb _ _ _ _ Eb).
Qed.

Lemma enum_ok {A} (v : vcodec A) ts : vok v ts -> (forall t, In t ts -> t < 2 ^ 32) -> ok (c_enum v).
Proof.
  intros [V1 [V2 [V3 V4]]] Bd. destruct (uint_ok 4) as [R4 S4]. split.
  - intros a r W. cbn [enc dec c_enum]. rewrite <- app_assoc. unfold c_u32. rewrite (u_rt 4 _ _) by (apply Bd, V3).
    apply V1. exact W.
  - intros b a r H. cbn [dec c_enum] in H. destruct (dec c_u32 b) as [[t r0]|] eqn:E; [|discriminate].
    destruct (S4 _ _ _ E) as [_ [p0 [-> U0]]]. destruct (V2 _ _ _ _ H) as [W [_ [pre [-> U]]]].
    split; [exact W|]. exists (p0 ++ pre). split; [rewrite app_assoc; reflexivity|].
    intros r'. cbn [dec c_enum]. unfold c_u32 in *. rewrite <- app_assoc, U0. apply U.
Qed.
Lemma enum_canon {A} (v : vcodec A) ts : vok v ts -> vcanon v -> canon (c_enum v).
Proof.
  intros [_ [V2 _]] C b a r H. cbn [dec c_enum] in H. destruct (dec c_u32 b) as [[t r0]|] eqn:E; [|discriminate].
  pose proof (uint_canon 4 _ _ _ E) as Eb. destruct (V2 _ _ _ _ H) as [_ [T _]].
  cbn [enc c_enum]. rewrite T, <- app_assoc, <- (C _ _ _ _ H). exact Eb.
Qed.

(* ---------- the signer bitmask ---------- *)
Lemma Forall_firstn {A} (P : A -> Prop) k : forall l, Forall P l -> Forall P (firstn k l).
Proof. induction k; intros l F; [constructor|]. destruct l; [constructor|]. inversion F; subst. cbn. constructor; auto. Qed.

Lemma bitmask_raw_ok : ok c_bitmask_raw.
Proof. apply pair_ok; [apply uint_ok | apply vec_ok, uint_ok]. Qed.

Lemma bitmask_ok : ok c_bitmask.
Proof.
  destruct bitmask_raw_ok as [R S]. split.
  - intros [nb ws] r [W1 [W2 [W3 W4]]]. cbn [fst snd] in *. cbn [enc dec c_bitmask].
    assert (Wr : wf c_bitmask_raw (nb, ws)).
    { cbn. split; [exact W1|]. unfold MAX_SIGNER_WORDS, MTU_BYTES in *. repeat split; try lia. exact W4. }
    rewrite (R _ _ Wr).
    replace ((N.of_nat (length ws) <=? MAX_SIGNER_WORDS) && (nb <=? 64 * N.of_nat (length ws))) with true
      by (unfold words_for in W2; lia).
    rewrite <- W2, Nat2N.id, firstn_all. reflexivity.
  - intros b [nb ws] r H. cbn [dec c_bitmask] in H. destruct (dec c_bitmask_raw b) as [[[nb' ws'] r0]|] eqn:E; [|discriminate].
    destruct ((N.of_nat (length ws') <=? MAX_SIGNER_WORDS) && (nb' <=? 64 * N.of_nat (length ws'))) eqn:Ck; [|discriminate].
    inversion H; subst. destruct (S _ _ _ E) as [[W1 [_ [_ W4]]] [pre [-> U]]]. cbn [fst snd] in *.
    split.
    + cbn [wf c_bitmask fst snd]. split; [exact W1|].
      assert (Lw : words_for nb <= N.of_nat (length ws')) by (unfold words_for; lia).
      rewrite firstn_length. split; [lia|]. split; [lia|]. apply Forall_firstn. exact W4.
    + exists pre. split; [reflexivity|]. intros r'. cbn [dec c_bitmask]. rewrite U, Ck. reflexivity.
Qed.

(* ---------- isomorphisms between records / variants and nested pairs / sums ---------- *)
Ltac iso :=
  intros;
  repeat match goal with
         | x : (_ * _)%type |- _ => destruct x
         | x : (_ + _)%type |- _ => destruct x
         end;
  cbn in *; try reflexivity;
  match goal with
  | x : _ |- _ => destruct x; cbn in *; try reflexivity
  end.

Ltac tags := cbn; intros; intuition (subst; try discriminate; try (cbn; lia)).

(* ---------- every message codec obeys the laws ---------- *)
Section Codecs.
  Variable V : blobs.

  Lemma hash_ok : ok c_hash. Proof. apply fixed_ok. Qed.
  Lemma edsig_ok : ok c_edsig. Proof. apply fixed_ok. Qed.
  Lemma isig_ok' : ok (c_isig V). Proof. apply filter_ok, fixed_ok. Qed.
  Lemma slot_hash_ok : ok c_slot_hash. Proof. apply pair_ok; [apply uint_ok | apply hash_ok]. Qed.
  Lemma bounded_ok k : ok (c_bounded k). Proof. apply filter_ok, uint_ok. Qed.
  Lemma bool_ok : ok c_bool.
  Proof.
    apply map_ok; [intros []; reflexivity | | apply filter_ok, uint_ok].
    intros a [W P]. cbn in *. assert (a = 0 \/ a = 1) as [-> | ->] by lia; reflexivity.
  Qed.

  Lemma aggsig_ok : ok (c_aggsig V).
  Proof.
    apply map_ok; [intros []; reflexivity | intros [s [n w]] _; reflexivity |].
    apply pair_ok; [apply filter_ok, fixed_ok | apply bitmask_ok].
  Qed.

  Lemma vote_payload_vok :
    vok (v_or (v_one 0 c_slot_hash) (v_or (v_one 1 c_slot_hash) (v_or (v_one 2 c_u64) (v_or (v_one 3 c_u64) (v_one 4 c_u64)))))
        ([0] ++ [1] ++ [2] ++ [3] ++ [4]).
  Proof. repeat (apply v_or_ok || apply v_one_ok || apply slot_hash_ok || apply uint_ok); tags. Qed.
  Lemma vote_payload_ok : ok c_vote_payload.
  Proof.
    apply map_ok; [iso | iso |]. eapply enum_ok; [apply vote_payload_vok | tags].
  Qed.

  Lemma hvote_ok : ok (c_hvote V).
  Proof.
    apply map_ok; [iso | iso |].
    repeat (apply pair_ok || apply uint_ok || apply hash_ok || apply isig_ok').
  Qed.
  Lemma svote_ok : ok (c_svote V).
  Proof.
    apply map_ok; [iso | iso |].
    repeat (apply pair_ok || apply uint_ok || apply isig_ok').
  Qed.
  Lemma vote_vok :
    vok (v_or (v_one 0 (c_hvote V)) (v_or (v_one 1 (c_hvote V)) (v_or (v_one 2 (c_svote V)) (v_or (v_one 3 (c_svote V)) (v_one 4 (c_svote V))))))
        ([0] ++ [1] ++ [2] ++ [3] ++ [4]).
  Proof. repeat (apply v_or_ok || apply v_one_ok || apply hvote_ok || apply svote_ok); tags. Qed.
  Lemma vote_ok : ok (c_vote V).
  Proof. apply map_ok; [iso | iso |]. eapply enum_ok; [apply vote_vok | tags]. Qed.

  Lemma cert1h_ok : ok (c_cert1h V).
  Proof. apply map_ok; [iso | iso |]. repeat (apply pair_ok || apply uint_ok || apply hash_ok || apply aggsig_ok). Qed.
  Lemma cert2h_ok : ok (c_cert2h V).
  Proof. apply map_ok; [iso | iso |]. repeat (apply pair_ok || apply uint_ok || apply hash_ok || apply option_ok || apply aggsig_ok). Qed.
  Lemma cert2_ok : ok (c_cert2 V).
  Proof. apply map_ok; [iso | iso |]. repeat (apply pair_ok || apply uint_ok || apply option_ok || apply aggsig_ok). Qed.
  Lemma cert1_ok : ok (c_cert1 V).
  Proof. apply map_ok; [iso | iso |]. repeat (apply pair_ok || apply uint_ok || apply aggsig_ok). Qed.
  Lemma cert_vok :
    vok (v_or (v_one 0 (c_cert1h V)) (v_or (v_one 1 (c_cert2h V)) (v_or (v_one 2 (c_cert2 V)) (v_or (v_one 3 (c_cert1h V)) (v_one 4 (c_cert1 V))))))
        ([0] ++ [1] ++ [2] ++ [3] ++ [4]).
  Proof. repeat (apply v_or_ok || apply v_one_ok || apply cert1h_ok || apply cert2h_ok || apply cert2_ok || apply cert1_ok); tags. Qed.
  Lemma cert_ok : ok (c_cert V).
  Proof. apply map_ok; [iso | iso |]. eapply enum_ok; [apply cert_vok | tags]. Qed.

  Lemma consensus_vok : vok (v_or (v_one 0 (c_vote V)) (v_one 1 (c_cert V))) ([0] ++ [1]).
  Proof. repeat (apply v_or_ok || apply v_one_ok || apply vote_ok || apply cert_ok); tags. Qed.
  Lemma consensus_ok : ok (c_consensus V).
  Proof. apply map_ok; [iso | iso |]. eapply enum_ok; [apply consensus_vok | tags]. Qed.
End Codecs.

Lemma proof_ok : ok c_proof. Proof. apply vec_ok, fixed_ok. Qed.
Lemma shred_payload_ok : ok c_shred_payload.
Proof. repeat (apply pair_ok || apply uint_ok || apply bounded_ok || apply bool_ok || apply bytes_vec_ok). Qed.
Lemma shred_vok : vok (v_or (v_one 0 c_shred_payload) (v_one 1 c_shred_payload)) ([0] ++ [1]).
Proof. repeat (apply v_or_ok || apply v_one_ok || apply shred_payload_ok); tags. Qed.
Lemma shred_ok : ok c_shred.
Proof.
  apply map_ok.
  - intros [[] ? ? ? ? ? ? ?]; reflexivity.
  - intros [[x|x] [s p]] _; repeat destruct x as [? x]; reflexivity.
  - apply pair_ok; [eapply enum_ok; [apply shred_vok | tags] | apply pair_ok; [apply edsig_ok | apply proof_ok]].
Qed.

Lemma reqtype_vok :
  vok (v_or (v_one 0 c_slot_hash)
      (v_or (v_one 1 (c_pair c_slot_hash (c_bounded MAX_SLICES_PER_BLOCK)))
            (v_one 2 (c_pair c_slot_hash (c_pair (c_bounded MAX_SLICES_PER_BLOCK) (c_bounded TOTAL_SHREDS))))))
      ([0] ++ [1] ++ [2]).
Proof. repeat (apply v_or_ok || apply v_one_ok || apply slot_hash_ok || apply pair_ok || apply bounded_ok || apply uint_ok || apply hash_ok); tags. Qed.
Lemma reqtype_ok : ok c_reqtype.
Proof. apply map_ok; [iso | iso |]. eapply enum_ok; [apply reqtype_vok | tags]. Qed.
Lemma request_ok : ok c_request.
Proof. apply map_ok; [iso | iso |]. apply pair_ok; [apply uint_ok | apply reqtype_ok]. Qed.
Lemma response_vok :
  vok (v_or (v_one 0 (c_pair c_reqtype (c_pair (c_bounded MAX_SLICES_PER_BLOCK) (c_pair c_hash c_proof))))
      (v_or (v_one 1 (c_pair c_reqtype (c_pair c_hash c_proof)))
      (v_or (v_one 2 (c_pair c_reqtype c_shred))
            (v_one 3 c_reqtype))))
      ([0] ++ [1] ++ [2] ++ [3]).
Proof.
  repeat (apply v_or_ok || apply v_one_ok || apply reqtype_ok || apply shred_ok || apply proof_ok || apply pair_ok
          || apply bounded_ok || apply hash_ok); tags.
Qed.
Lemma response_ok : ok c_response.
Proof. apply map_ok; [iso | iso |]. eapply enum_ok; [apply response_vok | tags]. Qed.
Lemma tx_ok : ok c_tx. Proof. apply bytes_vec_ok. Qed.

Theorem wire_ok V ch : ok (wire V ch).
Proof. destruct ch; cbn; [apply consensus_ok | apply shred_ok | apply request_ok | apply response_ok | apply tx_ok]. Qed.

(* ---------- canonical encodings: everything except the signer bitmask ---------- *)
Lemma hash_canon : canon c_hash. Proof. apply fixed_canon. Qed.
Lemma slot_hash_canon : canon c_slot_hash. Proof. apply pair_canon; [apply uint_canon | apply hash_canon]. Qed.
Lemma bounded_canon k : canon (c_bounded k). Proof. apply filter_canon, uint_canon. Qed.
Lemma bool_canon : canon c_bool.
Proof.
  apply map_canon; [| apply filter_ok, uint_ok | apply filter_canon, uint_canon].
  intros a [W P]. cbn in *. assert (a = 0 \/ a = 1) as [-> | ->] by lia; reflexivity.
Qed.
Lemma vote_payload_canon : canon c_vote_payload.
Proof.
  apply map_canon; [iso | eapply enum_ok; [apply vote_payload_vok | tags] |].
  eapply enum_canon; [apply vote_payload_vok|].
  repeat (apply v_or_canon || apply v_one_canon || apply slot_hash_canon || apply uint_canon).
Qed.

Section Canon.
  Variable V : blobs.
  Lemma isig_canon : canon (c_isig V). Proof. apply filter_canon, fixed_canon. Qed.
  Lemma hvote_canon : canon (c_hvote V).
  Proof.
    apply map_canon; [iso | repeat (apply pair_ok || apply uint_ok || apply hash_ok || apply isig_ok') |].
    repeat (apply pair_canon || apply uint_canon || apply hash_canon || apply isig_canon).
  Qed.
  Lemma svote_canon : canon (c_svote V).
  Proof.
    apply map_canon; [iso | repeat (apply pair_ok || apply uint_ok || apply isig_ok') |].
    repeat (apply pair_canon || apply uint_canon || apply isig_canon).
  Qed.
  Lemma vote_canon : canon (c_vote V).
  Proof.
    apply map_canon; [iso | eapply enum_ok; [apply vote_vok | tags] |].
    eapply enum_canon; [apply vote_vok|].
    repeat (apply v_or_canon || apply v_one_canon || apply hvote_canon || apply svote_canon).
  Qed.
End Canon.

Lemma proof_canon : canon c_proof. Proof. apply vec_canon; [apply fixed_ok | apply fixed_canon]. Qed.
Lemma shred_payload_canon : canon c_shred_payload.
Proof. repeat (apply pair_canon || apply uint_canon || apply bounded_canon || apply bool_canon || apply bytes_vec_canon). Qed.
Lemma shred_canon : canon c_shred.
Proof.
  apply map_canon.
  - intros [[x|x] [s p]] _; repeat destruct x as [? x]; reflexivity.
  - apply pair_ok; [eapply enum_ok; [apply shred_vok | tags] | apply pair_ok; [apply edsig_ok | apply proof_ok]].
  - apply pair_canon; [| apply pair_canon; [apply fixed_canon | apply proof_canon]].
    eapply enum_canon; [apply shred_vok|]. repeat (apply v_or_canon || apply v_one_canon || apply shred_payload_canon).
Qed.
Lemma reqtype_canon : canon c_reqtype.
Proof.
  apply map_canon; [iso | eapply enum_ok; [apply reqtype_vok | tags] |].
  eapply enum_canon; [apply reqtype_vok|].
  repeat (apply v_or_canon || apply v_one_canon || apply slot_hash_canon || apply pair_canon || apply bounded_canon).
Qed.
Lemma request_canon : canon c_request.
Proof.
  apply map_canon; [iso | apply pair_ok; [apply uint_ok | apply reqtype_ok] |].
  apply pair_canon; [apply uint_canon | apply reqtype_canon].
Qed.
Lemma response_canon : canon c_response.
Proof.
  apply map_canon; [iso | eapply enum_ok; [apply response_vok | tags] |].
  eapply enum_canon; [apply response_vok|].
  repeat (apply v_or_canon || apply v_one_canon || apply reqtype_canon || apply shred_canon || apply proof_canon
          || apply pair_canon || apply bounded_canon || apply hash_canon).
Qed.
Lemma tx_canon : canon c_tx. Proof. apply bytes_vec_canon. Qed.

(* ---------- consequences for whole datagrams (network::deserialize = decode) ---------- *)
Section TopLevel.
  Context {A : Type} (c : codec A) (Hok : ok c).

  Lemma decode_encode a : wf c a -> decode c (encode c a) = Some a.
  Proof.
    intros W. unfold decode, encode. destruct Hok as [R _]. specialize (R a [] W).
    rewrite app_nil_r in R. rewrite R. reflexivity.
  Qed.

  Lemma decode_inv b a : decode c b = Some a -> dec c b = Some (a, []).
  Proof.
    unfold decode. destruct (dec c b) as [[a' [|x r]]|]; intros H; inversion H; reflexivity.
  Qed.

  Lemma decode_wf b a : decode c b = Some a -> wf c a.
  Proof. intros H. apply decode_inv in H. destruct Hok as [_ S]. apply (S _ _ _ H). Qed.

  Lemma decode_trailing b a x : decode c b = Some a -> x <> [] -> decode c (b ++ x) = None.
  Proof.
    intros H Hx. apply decode_inv in H. destruct Hok as [_ S]. destruct (S _ _ _ H) as [_ [pre [E U]]].
    rewrite app_nil_r in E. subst b. unfold decode. rewrite U. destruct x; [contradiction | reflexivity].
  Qed.

  Lemma encode_trailing a x : wf c a -> x <> [] -> decode c (encode c a ++ x) = None.
  Proof. intros W Hx. apply (decode_trailing _ a); [apply decode_encode; exact W | exact Hx]. Qed.

  (* no proper prefix of an accepted datagram is accepted *)
  Lemma decode_truncated b a x : decode c (b ++ x) = Some a -> x <> [] -> decode c b = None.
  Proof.
    intros H Hx. destruct (decode c b) as [a'|] eqn:E; [|reflexivity].
    rewrite (decode_trailing _ _ _ E Hx) in H. discriminate.
  Qed.

  Lemma decode_stable b a : decode c b = Some a ->
    decode c (encode c a) = Some a /\ (forall a', decode c (encode c a) = Some a' -> encode c a' = encode c a).
  Proof.
    intros H. pose proof (decode_encode a (decode_wf _ _ H)) as E. split; [exact E|].
    intros a' H'. rewrite E in H'. inversion H'. reflexivity.
  Qed.

  Lemma encode_injective a a' : wf c a -> wf c a' -> encode c a = encode c a' -> a = a'.
  Proof.
    intros W W' E. pose proof (decode_encode a W) as D. rewrite E, (decode_encode a' W') in D. inversion D. reflexivity.
  Qed.

  Lemma decode_canonical : canon c -> forall b a, decode c b = Some a -> b = encode c a.
  Proof. intros C b a H. apply decode_inv in H. rewrite (C _ _ _ H), app_nil_r. reflexivity. Qed.
End TopLevel.

(* votes inside ConsensusMessage are canonical as well (certificates are not: bitmask) *)
Lemma consensus_vote_canonical V b v : decode (c_consensus V) b = Some (WVote v) -> b = encode (c_consensus V) (WVote v).
Proof.
  intros H. apply decode_inv in H. cbn [dec c_consensus c_map] in H.
  destruct (dec (c_enum (v_or (v_one 0 (c_vote V)) (v_one 1 (c_cert V)))) b) as [[s r]|] eqn:E; [|discriminate].
  destruct s as [v'|c']; inversion H; subst.
  cbn [dec c_enum] in E. destruct (dec c_u32 b) as [[t r0]|] eqn:Et; [|discriminate].
  pose proof (uint_canon 4 _ _ _ Et) as Eb. cbn [vdec v_or] in E.
  destruct (vdec (v_one 0 (c_vote V)) t r0) as [[v'' r1]|] eqn:Ev.
  - injection E as E1 E2. subst v'' r1. cbn [vdec v_one] in Ev. destruct (t =? 0) eqn:T; [|discriminate].
    apply N.eqb_eq in T. subst t. rewrite (vote_canon V _ _ _ Ev) in Eb. rewrite Eb. unfold encode. cbn. rewrite app_nil_r. reflexivity.
  - destruct (vdec (v_one 1 (c_cert V)) t r0) as [[? ?]|]; inversion E.
Qed.

(* ---------- sizes: every message a correct node emits fits one datagram ---------- *)
Lemma flat_map_len {A} (f : A -> bytes) k l : Forall (fun x => length (f x) = k) l -> length (flat_map f l) = (k * length l)%nat.
Proof. induction 1; cbn [flat_map length]; [lia|]. rewrite app_length, H, IHForall. lia. Qed.

Lemma Forall_impl' {A} (P Q : A -> Prop) l : (forall x, P x -> Q x) -> Forall P l -> Forall Q l.
Proof. intros H F. induction F; constructor; auto. Qed.

Arguments le_enc : simpl never.
Ltac lens := repeat (rewrite ?app_length, ?le_enc_length in * ).
(* simplify only the encoder side of a length equation / inequality *)
Ltac enc_cbn := match goal with |- context [length ?x] => let y := eval cbn in x in change x with y end.

Lemma aggsig_len V a : wf (c_aggsig V) a -> length (enc (c_aggsig V) a) = (112 + 8 * length (ag_words a))%nat /\ N.of_nat (length (ag_words a)) <= MAX_SIGNER_WORDS.
Proof.
  intros W. cbn in W. destruct W as [[W1 _] [_ [_ [W3 _]]]]. split; [|exact W3].
  enc_cbn. lens. rewrite (flat_map_len _ 8%nat) by (apply Forall_forall; intros; apply le_enc_length).
  unfold BLS_SIG_BYTES in W1. lia.
Qed.

Definition agg_max : N := 112 + 8 * MAX_SIGNER_WORDS.
Definition consensus_max : N := 4 + 4 + 8 + 32 + 2 * (1 + agg_max) + 8.
Definition shred_max : N := 4 + (8 + 8 + 1) + 8 + (8 + MAX_DATA_PER_SHRED) + 64 + (8 + 32 * SLICE_PROOF_MAX).
Definition reqtype_max : N := 4 + (8 + 32) + 8 + 8.
Definition request_max : N := 8 + reqtype_max.
Definition response_max : N := 4 + reqtype_max + N.max (8 + 32 + (8 + 32 * BLOCK_PROOF_MAX)) shred_max.
Definition tx_max : N := 8 + MAX_TRANSACTION_SIZE.
Definition wire_max (ch : chan) : N :=
  match ch with ChConsensus => consensus_max | ChShred => shred_max | ChRepairReq => request_max | ChRepairResp => response_max | ChTx => tx_max end.

Lemma wire_max_fits ch : wire_max ch <= MTU_BYTES.
Proof. destruct ch; vm_compute; discriminate. Qed.

Lemma opt_aggsig_len V o : wf (c_option (c_aggsig V)) o -> N.of_nat (length (enc (c_option (c_aggsig V)) o)) <= 1 + agg_max.
Proof.
  intros W. destruct o as [a|].
  - change (enc (c_option (c_aggsig V)) (Some a)) with (le_enc 1 1 ++ enc (c_aggsig V) a).
    destruct (aggsig_len V a W) as [L B]. lens. rewrite L. unfold agg_max. lia.
  - change (enc (c_option (c_aggsig V)) None) with (le_enc 1 0). lens. unfold agg_max. lia.
Qed.

Lemma hvote_len V v : wf (c_hvote V) v -> length (enc (c_hvote V) v) = 144%nat.
Proof.
  intros W. cbn in W. destruct W as [_ [W1 [[W2 _] _]]]. enc_cbn. lens.
  unfold HASH_BYTES, BLS_SIG_BYTES in *. lia.
Qed.
Lemma svote_len V v : wf (c_svote V) v -> length (enc (c_svote V) v) = 112%nat.
Proof.
  intros W. cbn in W. destruct W as [_ [[W2 _] _]]. enc_cbn. lens. unfold BLS_SIG_BYTES in *. lia.
Qed.

Lemma consensus_fits V m : wf (c_consensus V) m -> N.of_nat (length (enc (c_consensus V) m)) <= consensus_max.
Proof.
  intros W. destruct m as [v|c].
  - change (enc (c_consensus V) (WVote v)) with (le_enc 4 0 ++ enc (c_vote V) v).
    change (wf (c_vote V) v) in W.
    destruct v as [v|v|v|v|v];
      match goal with |- context [enc (c_vote V) (?K v)] =>
        first [ change (enc (c_vote V) (K v)) with (le_enc 4 0 ++ enc (c_hvote V) v)
              | change (enc (c_vote V) (K v)) with (le_enc 4 1 ++ enc (c_hvote V) v)
              | change (enc (c_vote V) (K v)) with (le_enc 4 2 ++ enc (c_svote V) v)
              | change (enc (c_vote V) (K v)) with (le_enc 4 3 ++ enc (c_svote V) v)
              | change (enc (c_vote V) (K v)) with (le_enc 4 4 ++ enc (c_svote V) v) ]
      end; lens;
      first [ rewrite (hvote_len V v W) | rewrite (svote_len V v W) ]; vm_compute; discriminate.
  - change (enc (c_consensus V) (WCert c)) with (le_enc 4 1 ++ enc (c_cert V) c).
    change (wf (c_cert V) c) in W.
    destruct c as [c|c|c|c|c].
    + change (enc (c_cert V) (WCNotar c)) with (le_enc 4 0 ++ (le_enc 8 (c1h_slot c) ++ (c1h_hash c ++ (enc (c_aggsig V) (c1h_agg c) ++ le_enc 8 (c1h_stake c))))).
      cbn in W. destruct W as [_ [W1 [W2 _]]]. change (wf (c_aggsig V) (c1h_agg c)) in W2.
      destruct (aggsig_len V _ W2) as [L B]. lens. rewrite L. unfold consensus_max, agg_max, HASH_BYTES in *. lia.
    + change (enc (c_cert V) (WCNotarFallback c)) with (le_enc 4 1 ++ (le_enc 8 (c2h_slot c) ++ (c2h_hash c ++ (enc (c_option (c_aggsig V)) (c2h_agg1 c) ++ (enc (c_option (c_aggsig V)) (c2h_agg2 c) ++ le_enc 8 (c2h_stake c)))))).
      cbn [wf c_cert c_map c_enum v_or v_one vwf c_cert2h c_pair fst snd] in W. destruct W as [_ [W1 [W2 [W3 _]]]].
      pose proof (opt_aggsig_len V _ W2). pose proof (opt_aggsig_len V _ W3). cbn in W1.
      lens. unfold consensus_max, HASH_BYTES in *. lia.
    + change (enc (c_cert V) (WCSkip c)) with (le_enc 4 2 ++ (le_enc 8 (c2_slot c) ++ (enc (c_option (c_aggsig V)) (c2_agg1 c) ++ (enc (c_option (c_aggsig V)) (c2_agg2 c) ++ le_enc 8 (c2_stake c))))).
      cbn [wf c_cert c_map c_enum v_or v_one vwf c_cert2 c_pair fst snd] in W. destruct W as [_ [W2 [W3 _]]].
      pose proof (opt_aggsig_len V _ W2). pose proof (opt_aggsig_len V _ W3).
      lens. unfold consensus_max in *. lia.
    + change (enc (c_cert V) (WCFastFinal c)) with (le_enc 4 3 ++ (le_enc 8 (c1h_slot c) ++ (c1h_hash c ++ (enc (c_aggsig V) (c1h_agg c) ++ le_enc 8 (c1h_stake c))))).
      cbn in W. destruct W as [_ [W1 [W2 _]]]. change (wf (c_aggsig V) (c1h_agg c)) in W2.
      destruct (aggsig_len V _ W2) as [L B]. lens. rewrite L. unfold consensus_max, agg_max, HASH_BYTES in *. lia.
    + change (enc (c_cert V) (WCFinal c)) with (le_enc 4 4 ++ (le_enc 8 (c1_slot c) ++ (enc (c_aggsig V) (c1_agg c) ++ le_enc 8 (c1_stake c)))).
      cbn in W. destruct W as [_ [W2 _]]. change (wf (c_aggsig V) (c1_agg c)) in W2.
      destruct (aggsig_len V _ W2) as [L B]. lens. rewrite L. unfold consensus_max, agg_max in *. lia.
Qed.

Lemma proof_len l : wf c_proof l -> length (enc c_proof l) = (8 + 32 * length l)%nat.
Proof.
  intros [_ [_ F]]. change (enc c_proof l) with (le_enc 8 (N.of_nat (length l)) ++ flat_map (fun b : bytes => b) l).
  lens. rewrite (flat_map_len _ 32%nat); [reflexivity|]. eapply Forall_impl'; [|exact F]. intros x Hx. exact Hx.
Qed.

Lemma SLICE_PROOF_MAX_eq : SLICE_PROOF_MAX = 6. Proof. reflexivity. Qed.
Lemma BLOCK_PROOF_MAX_eq : BLOCK_PROOF_MAX = 10. Proof. reflexivity. Qed.

Lemma shred_len s : wf c_shred s ->
  length (enc c_shred s) = (4 + 17 + 8 + (8 + length (sh_data s)) + 64 + (8 + 32 * length (sh_proof s)))%nat.
Proof.
  intros W.
  assert (Wp : wf c_proof (sh_proof s)) by (destruct (sh_coding s); apply W).
  assert (Ws : length (sh_sig s) = 64%nat) by (destruct (sh_coding s); apply W).
  pose proof (proof_len _ Wp) as Lp.
  destruct s as [cd sl si la ix da sg pr]. cbn [sh_coding sh_data sh_proof sh_sig] in *.
  destruct cd.
  - change (enc c_shred (mkShred true sl si la ix da sg pr))
      with ((le_enc 4 1 ++ (le_enc 8 sl ++ (le_enc 8 si ++ (le_enc 1 (if la then 1 else 0) ++ (le_enc 8 ix ++ (le_enc 8 (N.of_nat (length da)) ++ da))))))
            ++ (sg ++ enc c_proof pr)).
    rewrite !app_length, Lp, !le_enc_length, Ws. lia.
  - change (enc c_shred (mkShred false sl si la ix da sg pr))
      with ((le_enc 4 0 ++ (le_enc 8 sl ++ (le_enc 8 si ++ (le_enc 1 (if la then 1 else 0) ++ (le_enc 8 ix ++ (le_enc 8 (N.of_nat (length da)) ++ da))))))
            ++ (sg ++ enc c_proof pr)).
    rewrite !app_length, Lp, !le_enc_length, Ws. lia.
Qed.

Lemma shred_fits s : wf c_shred s -> shred_bounds s = true -> N.of_nat (length (enc c_shred s)) <= shred_max.
Proof.
  intros W B. rewrite (shred_len s W). unfold shred_bounds in B. unfold shred_max. rewrite SLICE_PROOF_MAX_eq in *. lia.
Qed.

Lemma reqtype_len t : wf c_reqtype t -> N.of_nat (length (enc c_reqtype t)) <= reqtype_max.
Proof.
  intros W. destruct t; cbn in W; enc_cbn; lens; unfold reqtype_max, HASH_BYTES in *; lia.
Qed.

Lemma request_fits r : wf c_request r -> N.of_nat (length (enc c_request r)) <= request_max.
Proof.
  intros [_ W]. cbn [fst snd] in W. change (enc c_request r) with (le_enc 8 (rq_sender r) ++ enc c_reqtype (rq_type r)).
  pose proof (reqtype_len _ W). lens. unfold request_max. lia.
Qed.

Lemma response_fits r : wf c_response r -> response_bounds r = true -> N.of_nat (length (enc c_response r)) <= response_max.
Proof.
  intros W B. destruct r as [t i root pr | t root pr | t s | t].
  - change (enc c_response (PLastSliceRoot t i root pr)) with (le_enc 4 0 ++ (enc c_reqtype t ++ (le_enc 8 i ++ (root ++ enc c_proof pr)))).
    cbn [wf c_response c_map c_enum v_or v_one vwf c_pair fst snd] in W. destruct W as [W1 [_ [W3 W4]]].
    pose proof (reqtype_len _ W1). rewrite !app_length, (proof_len _ W4). lens. cbn in W3, B.
    unfold response_max, HASH_BYTES in *. rewrite BLOCK_PROOF_MAX_eq in *. lia.
  - change (enc c_response (PSliceRoot t root pr)) with (le_enc 4 1 ++ (enc c_reqtype t ++ (root ++ enc c_proof pr))).
    cbn [wf c_response c_map c_enum v_or v_one vwf c_pair fst snd] in W. destruct W as [W1 [W3 W4]].
    pose proof (reqtype_len _ W1). rewrite !app_length, (proof_len _ W4). lens. cbn in W3, B.
    unfold response_max, HASH_BYTES in *. rewrite BLOCK_PROOF_MAX_eq in *. lia.
  - change (enc c_response (PShred t s)) with (le_enc 4 2 ++ (enc c_reqtype t ++ enc c_shred s)).
    cbn [wf c_response c_map c_enum v_or v_one vwf c_pair fst snd] in W. destruct W as [W1 W2].
    pose proof (reqtype_len _ W1). pose proof (shred_fits s W2 B). lens. unfold response_max. lia.
  - change (enc c_response (PNack t)) with (le_enc 4 3 ++ enc c_reqtype t).
    cbn [wf c_response c_map c_enum v_or v_one vwf c_pair fst snd] in W.
    pose proof (reqtype_len _ W). lens. unfold response_max. lia.
Qed.

Lemma tx_fits t : N.of_nat (length t) <= MAX_TRANSACTION_SIZE -> N.of_nat (length (enc c_tx t)) <= tx_max.
Proof. intros B. change (enc c_tx t) with (le_enc 8 (N.of_nat (length t)) ++ t). lens. unfold tx_max. lia. Qed.

Theorem fits_datagram V ch (m : msg_of ch) : emittable V ch m ->
  N.of_nat (length (encode (wire V ch) m)) <= wire_max ch /\ wire_max ch <= MTU_BYTES.
Proof.
  intros [W B]. split; [|apply wire_max_fits]. unfold encode. destruct ch; cbn [wire wire_max emit_bounds] in *.
  - apply consensus_fits; exact W.
  - apply shred_fits; assumption.
  - apply request_fits; exact W.
  - apply response_fits; assumption.
  - apply tx_fits. lia.
Qed.

(* ---------- the bitmask a certificate constructor builds is well formed for n <= MAX_SIGNERS ---------- *)
Lemma lor_lt a b n : a < 2 ^ n -> b < 2 ^ n -> N.lor a b < 2 ^ n.
Proof.
  intros Ha Hb. destruct (N.eq_dec a 0) as [->|Na]; [rewrite N.lor_0_l; exact Hb|].
  destruct (N.eq_dec b 0) as [->|Nb]; [rewrite N.lor_0_r; exact Ha|].
  assert (N.lor a b <> 0) by (intros E; apply N.lor_eq_0_iff in E; tauto).
  apply N.log2_lt_pow2; [lia|]. rewrite N.log2_lor.
  apply N.log2_lt_pow2 in Ha; [|lia]. apply N.log2_lt_pow2 in Hb; [|lia]. lia.
Qed.

Lemma setbit_lt a k : a < 2 ^ 64 -> k < 64 -> N.setbit a k < 2 ^ 64.
Proof.
  intros Ha Hk. rewrite N.setbit_spec'. apply lor_lt; [exact Ha|].
  apply N.pow_lt_mono_r; lia.
Qed.

Lemma word_of_lt signers w : word_of signers w < 2 ^ 64.
Proof.
  unfold word_of. assert (G : forall l acc, acc < 2 ^ 64 ->
    fold_left (fun acc s => if s / 64 =? w then N.setbit acc (s mod 64) else acc) l acc < 2 ^ 64).
  { induction l as [|s l IH]; intros acc Ha; cbn [fold_left]; [exact Ha|]. apply IH.
    destruct (s / 64 =? w); [|exact Ha]. apply setbit_lt; [exact Ha|]. apply N.mod_lt. lia. }
  apply G. lia.
Qed.

Lemma bitmask_of_wf n signers : n <= MAX_SIGNERS -> wf c_bitmask (bitmask_of n signers).
Proof.
  intros Hn. unfold bitmask_of, MAX_SIGNERS in *. cbn [wf c_bitmask fst snd].
  rewrite map_length, seq_length, N2Nat.id. unfold words_for, MAX_SIGNER_WORDS.
  split; [lia|]. split; [reflexivity|]. split; [lia|].
  apply Forall_forall. intros x Hx. apply in_map_iff in Hx. destruct Hx as [k [<- _]]. apply word_of_lt.
Qed.

(* ---------- signed payloads: distinct (kind, slot, hash) never share bytes ---------- *)
Lemma vote_payload_injective p p' : wf c_vote_payload p -> wf c_vote_payload p' ->
  encode c_vote_payload p = encode c_vote_payload p' -> p = p'.
Proof. apply (encode_injective c_vote_payload vote_payload_ok). Qed.

Lemma vote_payload_wf_iff p : wf c_vote_payload p <->
  match p with
  | PlNotar s h | PlNotarFallback s h => s < 2 ^ 64 /\ length h = 32%nat
  | PlSkip s | PlSkipFallback s | PlFinal s => s < 2 ^ 64
  end.
Proof. destruct p; cbn; unfold HASH_BYTES; tauto. Qed.

(* ---------- shard sizes the shredders produce ---------- *)
Lemma shard_size_bounds p : p <= MAX_DATA_PER_SLICE -> 2 <= shard_size p <= MAX_DATA_PER_SHRED.
Proof. unfold shard_size, MAX_DATA_PER_SLICE, MAX_DATA_PER_SHRED, DATA_SHREDS. intros H. lia. Qed.

(* ---------- certificates: the decoder is not injective on byte strings (extra bitmask words, dead bits) ---------- *)
Definition all_valid : blobs := mkBlobs (fun _ => true) (fun _ => true).
Definition demo_cert (words : list N) : bytes :=
  le_enc 4 1 ++ le_enc 4 4 ++ le_enc 8 7 ++ repeat x01 96 ++ le_enc 8 1 ++ le_enc 8 (N.of_nat (length words)) ++ flat_map (le_enc 8) words ++ le_enc 8 5.
Lemma cert_decoding_not_injective :
  exists b1 b2 m, b1 <> b2 /\ decode (c_consensus all_valid) b1 = Some m /\ decode (c_consensus all_valid) b2 = Some m
                  /\ encode (c_consensus all_valid) m = b1.
Proof.
  exists (demo_cert [1]), (demo_cert [1; 0]), (WCert (WCFinal (mkCert1 7 (mkAgg (repeat x01 96) 1 [1]) 5))).
  split; [vm_compute; discriminate|]. repeat split; vm_compute; reflexivity.
Qed.
(* dead bits survive decoding and re-encoding: two encodings of the same signer set *)
Lemma cert_dead_bits_kept :
  exists m, decode (c_consensus all_valid) (demo_cert [3]) = Some m /\ encode (c_consensus all_valid) m = demo_cert [3] /\
            match m with WCert (WCFinal c) => signers_of (c1_agg c) = [0] | _ => False end.
Proof. eexists. split; [vm_compute; reflexivity|]. split; vm_compute; reflexivity. Qed.

(* ---------- what "well formed" means for the bounded fields (what the decoders enforce) ---------- *)
Lemma shred_wf_fields s : wf c_shred s ->
  sh_slot s < 2 ^ 64 /\ sh_slice s < MAX_SLICES_PER_BLOCK /\ sh_index s < TOTAL_SHREDS /\
  N.of_nat (length (sh_data s)) <= MTU_BYTES /\ length (sh_sig s) = 64%nat /\
  N.of_nat (length (sh_proof s)) * 32 <= MTU_BYTES /\ Forall (fun h => length h = 32%nat) (sh_proof s).
Proof.
  intros W. destruct s as [cd sl si la ix da sg pr].
  destruct cd; cbn in W; cbn [sh_slot sh_slice sh_index sh_data sh_sig sh_proof];
    unfold ED_SIG_BYTES, HASH_BYTES in *; intuition lia.
Qed.

Lemma reqtype_wf_fields t : wf c_reqtype t ->
  match t with
  | RLastSliceRoot s h => s < 2 ^ 64 /\ length h = 32%nat
  | RSliceRoot s h i => s < 2 ^ 64 /\ length h = 32%nat /\ i < MAX_SLICES_PER_BLOCK
  | RShred s h i j => s < 2 ^ 64 /\ length h = 32%nat /\ i < MAX_SLICES_PER_BLOCK /\ j < TOTAL_SHREDS
  end.
Proof. intros W. destruct t; cbn in W; unfold HASH_BYTES in *; intuition lia. Qed.

Lemma aggsig_wf_fields V a : wf (c_aggsig V) a ->
  asig_ok V (ag_sig a) = true /\ length (ag_sig a) = 96%nat /\
  N.of_nat (length (ag_words a)) = words_for (ag_bits a) /\ N.of_nat (length (ag_words a)) <= MAX_SIGNER_WORDS /\
  ag_bits a <= MAX_SIGNERS /\ Forall (fun w => w < 2 ^ 64) (ag_words a).
Proof.
  intros W. cbn in W. destruct W as [[W1 W0] [_ [W2 [W3 W4]]]]. unfold BLS_SIG_BYTES in *.
  repeat split; try assumption. unfold words_for, MAX_SIGNER_WORDS, MAX_SIGNERS in *. lia.
Qed.

(* a concrete largest message: a repair response carrying a full data shred *)
Definition demo_response : w_response :=
  PShred (RShred 1 (repeat x07 32) 1023 63)
         (mkShred false 1 1023 true 63 (repeat xff 1024) (repeat x01 64) (repeat (repeat x02 32) 6)).
Lemma demo_response_ok :
  decode c_response (encode c_response demo_response) = Some demo_response /\
  N.of_nat (length (encode c_response demo_response)) = response_max /\
  response_bounds demo_response = true /\
  decode c_response (encode c_response demo_response ++ [x00]) = None.
Proof. repeat split; vm_compute; reflexivity. Qed.

(* ---------- certificates as the constructors build them, for every validator count up to MAX_SIGNERS ---------- *)
Definition opt_list {A} (o : option A) : list A := match o with Some a => [a] | None => [] end.
Definition cert_aggs (c : w_cert) : list w_aggsig :=
  match c with
  | WCNotar c | WCFastFinal c => [c1h_agg c]
  | WCNotarFallback c => opt_list (c2h_agg1 c) ++ opt_list (c2h_agg2 c)
  | WCSkip c => opt_list (c2_agg1 c) ++ opt_list (c2_agg2 c)
  | WCFinal c => [c1_agg c]
  end.
Definition cert_scalars_ok (c : w_cert) : Prop :=
  match c with
  | WCNotar c | WCFastFinal c => c1h_slot c < 2 ^ 64 /\ length (c1h_hash c) = 32%nat /\ c1h_stake c < 2 ^ 64
  | WCNotarFallback c => c2h_slot c < 2 ^ 64 /\ length (c2h_hash c) = 32%nat /\ c2h_stake c < 2 ^ 64
  | WCSkip c => c2_slot c < 2 ^ 64 /\ c2_stake c < 2 ^ 64
  | WCFinal c => c1_slot c < 2 ^ 64 /\ c1_stake c < 2 ^ 64
  end.
(* an aggregate over n validators with an arbitrary signer set and a BLS point blst accepts *)
Definition agg_built (V : blobs) (n : N) (a : w_aggsig) : Prop :=
  exists sig signers, a = mkAgg sig n (snd (bitmask_of n signers)) /\ length sig = 96%nat /\ asig_ok V sig = true.

Lemma agg_built_wf V n a : n <= MAX_SIGNERS -> agg_built V n a -> wf (c_aggsig V) a.
Proof.
  intros Hn [sig [signers [-> [L O]]]]. pose proof (bitmask_of_wf n signers Hn) as W.
  cbn [wf c_bitmask fst snd bitmask_of] in W. cbn. unfold BLS_SIG_BYTES. cbn [bitmask_of snd] . tauto.
Qed.

Lemma opt_wf {A} (c : codec A) o : Forall (wf c) (opt_list o) -> wf (c_option c) o.
Proof. destruct o; cbn; intros F; [inversion F; assumption | exact I]. Qed.

Lemma cert_wf_from_parts V c : cert_scalars_ok c -> Forall (wf (c_aggsig V)) (cert_aggs c) -> wf (c_cert V) c.
Proof.
  intros S F. destruct c as [c|c|c|c|c]; cbn [cert_aggs cert_scalars_ok] in *.
  - inversion F; subst.
    cbn [wf c_cert c_map c_enum v_or v_one vwf c_cert1h c_pair fst snd]. cbn [wf c_uint c_u64 c_hash c_fixed]. unfold HASH_BYTES. intuition.
  - apply Forall_app in F. destruct F as [F1 F2]. apply opt_wf in F1. apply opt_wf in F2.
    cbn [wf c_cert c_map c_enum v_or v_one vwf c_cert2h c_pair fst snd]. cbn [wf c_uint c_u64 c_hash c_fixed]. unfold HASH_BYTES. intuition.
  - apply Forall_app in F. destruct F as [F1 F2]. apply opt_wf in F1. apply opt_wf in F2.
    cbn [wf c_cert c_map c_enum v_or v_one vwf c_cert2 c_pair fst snd]. cbn [wf c_uint c_u64]. intuition.
  - inversion F; subst.
    cbn [wf c_cert c_map c_enum v_or v_one vwf c_cert1h c_pair fst snd]. cbn [wf c_uint c_u64 c_hash c_fixed]. unfold HASH_BYTES. intuition.
  - inversion F; subst.
    cbn [wf c_cert c_map c_enum v_or v_one vwf c_cert1 c_pair fst snd]. cbn [wf c_uint c_u64]. intuition.
Qed.

Theorem built_cert_roundtrips_and_fits V n c :
  n <= MAX_SIGNERS -> cert_scalars_ok c -> Forall (agg_built V n) (cert_aggs c) ->
  decode (c_consensus V) (encode (c_consensus V) (WCert c)) = Some (WCert c) /\
  N.of_nat (length (encode (c_consensus V) (WCert c))) <= consensus_max /\ consensus_max <= MTU_BYTES.
Proof.
  intros Hn S F.
  assert (W : wf (c_consensus V) (WCert c)).
  { change (wf (c_cert V) c). apply cert_wf_from_parts; [exact S|].
    eapply Forall_impl'; [|exact F]. intros a. apply agg_built_wf. exact Hn. }
  split; [apply (decode_encode _ (consensus_ok V)); exact W|].
  split; [apply consensus_fits; exact W | apply (wire_max_fits ChConsensus)].
Qed.

Theorem shred_for_every_payload p s :
  p <= MAX_DATA_PER_SLICE -> wf c_shred s ->
  N.of_nat (length (sh_data s)) = shard_size p -> N.of_nat (length (sh_proof s)) <= SLICE_PROOF_MAX ->
  decode c_shred (encode c_shred s) = Some s /\
  N.of_nat (length (encode c_shred s)) <= shred_max /\ shred_max <= MTU_BYTES.
Proof.
  intros Hp W D P. split; [apply (decode_encode _ shred_ok); exact W|].
  split; [|apply (wire_max_fits ChShred)]. apply shred_fits; [exact W|].
  unfold shred_bounds. pose proof (shard_size_bounds p Hp). lia.
Qed.
